(* C14 / group relayneg: evaluators of Model/RelayNeg.v *)
open Model
open Util

let rn_fields s = String.split_on_char ',' s

let rn_str_of s : n list option =
  if s = "~" then None else Some (bytes_of_hex (String.sub s 1 (String.length s - 1)))
let rn_bool_of s = if s = "~" then None else Some (s = "1")
let rn_z_of s = if s = "~" then None else Some (z_of_string s)
let rn_esc_of s =
  if s = "~" then None
  else if s = "o" then Some WEscObject
  else Some (WEscTable (pairs (bytes_of_hex (String.sub s 1 (String.length s - 1)))))

let rn_hex l = if l = [] then "" else hex_of_bytes l
let rn_of_str = function None -> "~" | Some l -> "s" ^ rn_hex l
let rn_of_bool = function None -> "~" | Some b -> if b then "1" else "0"
let rn_of_z = function None -> "~" | Some z -> string_of_z z
let rn_of_esc = function
  | None -> "~"
  | Some WEscObject -> "o"
  | Some (WEscTable t) -> "t" ^ rn_hex (List.concat_map (fun (a, b) -> [a; b]) t)

let rn_wa_of s =
  match rn_fields s with
  | [a; b; c; d; e; f; g; h; i] ->
    { nwa_lang = rn_str_of a; nwa_version = rn_str_of b; nwa_confirm = rn_bool_of c; nwa_newline = rn_str_of d;
      nwa_protocol = rn_z_of e; nwa_binary = rn_bool_of f; nwa_support_dir = rn_bool_of g; nwa_tunnel = rn_bool_of h;
      nwa_fork = rn_bool_of i }
  | _ -> failwith "wa"

let rn_of_wa w =
  String.concat "," [rn_of_str w.nwa_lang; rn_of_str w.nwa_version; rn_of_bool w.nwa_confirm; rn_of_str w.nwa_newline;
                     rn_of_z w.nwa_protocol; rn_of_bool w.nwa_binary; rn_of_bool w.nwa_support_dir; rn_of_bool w.nwa_tunnel;
                     rn_of_bool w.nwa_fork]

let rn_wc_of s =
  match rn_fields s with
  | [a; b; c; d; e; f; g; h; i; j; k; l; m] ->
    { nwc_quiet = rn_bool_of a; nwc_binary = rn_bool_of b; nwc_directory = rn_bool_of c; nwc_overwrite = rn_bool_of d;
      nwc_timeout = rn_z_of e; nwc_newline = rn_str_of f; nwc_protocol = rn_z_of g; nwc_bufsize = rn_z_of h;
      nwc_escape = rn_esc_of i; nwc_pane_width = rn_z_of j; nwc_junk = rn_bool_of k; nwc_compress = rn_z_of l;
      nwc_fork = rn_bool_of m }
  | _ -> failwith "wc"

let rn_of_wc w =
  String.concat "," [rn_of_bool w.nwc_quiet; rn_of_bool w.nwc_binary; rn_of_bool w.nwc_directory; rn_of_bool w.nwc_overwrite;
                     rn_of_z w.nwc_timeout; rn_of_str w.nwc_newline; rn_of_z w.nwc_protocol; rn_of_z w.nwc_bufsize;
                     rn_of_esc w.nwc_escape; rn_of_z w.nwc_pane_width; rn_of_bool w.nwc_junk; rn_of_z w.nwc_compress;
                     rn_of_bool w.nwc_fork]

let rn_env mode width win =
  { ne_tmux_mode = n_of_int (int_of_string mode); ne_pane_width = z_of_string width; ne_win_server = (win = "1") }

let rn_status_str s = string_of_int (int_of_n (rn_status_code s))

let rn_event_of s =
  let rest k = bytes_of_hex (let r = String.sub s k (String.length s - k) in if r = "" then "-" else r) in
  match s.[0] with
  | 'I' -> NIn (rest 1)
  | 'O' -> NOut (rest 2, s.[1] = '1')
  | 'E' -> NHsEnd (s.[1] = '1')
  | _ -> failwith "event"

let () =
  register "status_consts" (fun _ ->
      String.concat "," (List.map rn_status_str [NStandby; NHandshaking; NTransferring]));
  register "client_decode_escape" (function [e] ->
      let w = { (rn_wc_of "~,~,~,~,~,~,~,~,~,~,~,~,~") with nwc_escape = rn_esc_of e } in
      (match decode_config_into (rn_client_init false false) w with None -> "err" | Some _ -> "ok")
    | _ -> "?args");
  register "stand_by_read" (function [conn; rport; buf] ->
      let ((out, trig), _) = rn_stand_by_read (conn = "1") false rn_relay_detector (Z.to_N (z_of_string rport)) (bytes_of_hex buf) in
      hex_of_bytes out ^ "|" ^ (match trig with None -> "0" | Some _ -> "1")
    | _ -> "?args");
  register "handshake2" (function [mode; width; win; cw0; actwin; act; cfgwin; cfg] ->
      let a = { ln_win = (actwin = "1"); ln_body = (if act = "bad" then None else Some (rn_wa_of act)) } in
      let c = if cfg = "none" then None
        else Some { ln_win = (cfgwin = "1"); ln_body = (if cfg = "bad" then None else Some (rn_wc_of cfg)) } in
      let r = rn_handshake2 (rn_env mode width win) (cw0 = "1") a c in
      let is o = List.map fst o in
      let acts = List.filter_map (function OAct w -> Some (rn_of_wa w) | _ -> None) (is r.h2_to_server) in
      let cfgs = List.filter_map (function OCfg w -> Some (rn_of_wc w) | _ -> None) (is r.h2_to_client) in
      let shape l = String.concat "+" (List.map (function OAct _ -> "ACT" | OCfg _ -> "CFG" | OFail -> "FAIL") (is l)) in
      let kind = match r.h2_status, shape r.h2_to_server ^ "/" ^ shape r.h2_to_client with
        | NHandshaking, "/" -> "hung0"
        | NHandshaking, "ACT/" -> "hung1"
        | _, "FAIL/FAIL" -> "badact"
        | _, "ACT/" -> "refused"
        | _, "ACT+FAIL/FAIL" -> "badcfg"
        | _, "ACT/CFG" -> "done"
        | _, x -> "?" ^ x in
      let terms l = String.concat "" (List.map (fun (_, nl) ->
          let h = rn_hex nl in if h = "210a" then "W" else if h = "0a" then "U" else "?") l) in
      kind ^ ":" ^ String.concat "" acts ^ "|" ^ String.concat "" cfgs ^ ":" ^ rn_status_str r.h2_status
      ^ ":S=" ^ terms r.h2_to_server ^ ":C=" ^ terms r.h2_to_client ^ ":w" ^ (if r.h2_cli_win then "1" else "0")
    | _ -> "?args");
  register "handshake" (function [mode; width; win; act; cfg] ->
      let a = if act = "bad" then None else Some (rn_wa_of act) in
      let c = if cfg = "bad" || cfg = "none" then None else Some (rn_wc_of cfg) in
      let r = rn_handshake (rn_env mode width win) a c in
      let st = rn_status_str (status_after_handshake r) in
      (match r with
       | HsBadAction -> "badact:|:" ^ st
       | HsRefused a -> "refused:" ^ rn_of_wa a ^ "|:" ^ st
       | HsBadConfig a -> "badcfg:" ^ rn_of_wa a ^ "|:" ^ st
       | HsDone (a, c) -> "done:" ^ rn_of_wa a ^ "|" ^ rn_of_wc c ^ ":" ^ st)
    | _ -> "?args");
  register "run" (function [evs] ->
      let tev s =
        let rest k = bytes_of_hex (let r = String.sub s k (String.length s - k) in if r = "" then "-" else r) in
        match s.[0] with
        | 'A' -> THsAct (s.[1] = '1')
        | 'U' -> TTunIn (rest 1)
        | 'V' -> TTunOut (rest 1)
        | _ -> TMain (rn_event_of s) in
      let evs = List.map tev (String.split_on_char ';' evs) in
      let (_, tr) = rt_run (NStandby, false) evs in
      String.concat "," (List.map2 (fun ev ((s, fl), f) ->
          let sf = rn_status_str s ^ (if fl then "1" else "0") in
          match ev, f with
          | THsAct _, _ -> "__n"
          | _, FParked -> "__p"
          | _, FRaw -> sf ^ "w"
          | _, FRewritten -> sf ^ "r"
          | _, FNone -> sf ^ "n") evs tr)
    | _ -> "?args");
  register "chain" (function [envs; win; act; cfg] ->
      let es = List.map (fun e -> match String.split_on_char ':' e with
          | [m; w] -> rn_env m w win | _ -> failwith "env") (String.split_on_char ',' envs) in
      let wa = relays_action (nat_of_int (List.length es)) (rn_wa_of act) in
      let a = decode_action_into relay_action_init wa in
      rn_of_wa wa ^ "|" ^ (match relays_config es a.na_tunnel (rn_wc_of cfg) with
          | None -> "err" | Some c -> rn_of_wc c)
    | _ -> "?args");
  register "server_config" (function [args; act] ->
      (match rn_fields args with
       | [q; o; b; d; f; bufsize; timeout; compress; table; mode; width] ->
         let g = { ns_quiet = (q = "1"); ns_overwrite = (o = "1"); ns_binary = (b = "1"); ns_directory = (d = "1");
                   ns_fork = (f = "1"); ns_bufsize = z_of_string bufsize; ns_timeout = z_of_string timeout;
                   ns_compress = z_of_string compress; ns_escape = pairs (bytes_of_hex table);
                   ns_tmux_mode = n_of_int (int_of_string mode); ns_pane_width = z_of_string width } in
         let a = decode_action_into server_action_init (rn_wa_of act) in
         (match rn_server_config g a with
          | SrvCancelled -> "cancelled"
          | SrvNoFork -> "nofork"
          | SrvNoDirectory -> "nodir"
          | SrvConfig w ->
            "cfg:" ^ rn_of_wc w ^ "|" ^
            (match decode_config_into (server_own_init a) w with
             | None -> "err" | Some c -> rn_of_wc (encode_config c)))
       | _ -> "?sargs")
    | _ -> "?args")
