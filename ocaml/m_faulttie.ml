(* evaluators for C02's decision model (Model/Protocol.v) and its tie to the whole-transfer
   machines (Model/FaultTie.v, Model/Transfer.v)

   recv_file_verdict proto size lines dec            -> A | N
     lines  D:<hex frame>[:<hex chunk>|:!] / M:<hex digest> / K / O  joined by ","
     dec    protocol >= 2: what the REAL decoder stack made of the frames in front of the first
            finish flag (hex, "-" = empty, "!" = error); the model's [decode] returns it
   send_file_verdict proto size mine sent acks       -> 1 | 0
     acks   F:<len>:<step> / I:<n> / G:<hex> / K / O  joined by ","

   digest := byte list; H := MD5 (OCaml's Digest, an implementation independent of Go's);
   deq := equality. *)
open Model
open Util

let ft_split c s = if s = "" || s = "-" then [] else String.split_on_char c s
let ft_str_of_bytes (l : n list) = let b = Buffer.create 64 in List.iter (fun x -> Buffer.add_char b (Char.chr (int_of_n x))) l; Buffer.contents b
let ft_bytes_of_str (s : string) : n list = List.init (String.length s) (fun i -> n_of_int (Char.code s.[i]))
let ft_md5 (w : n list) : n list = ft_bytes_of_str (Digest.string (ft_str_of_bytes w))
let ft_deq (a : n list) (b : n list) = a = b
let ft_nat i = let rec go acc i = if i <= 0 then acc else go (S acc) (i - 1) in go O i

let () =
  register "recv_file_verdict" (function [proto; size; lines; dec] ->
      let proto = int_of_string proto in
      let v1tab = ref [] in
      let ls = List.map (fun t -> match String.split_on_char ':' t with
          | ["D"; f] -> Protocol.LData (bytes_of_hex f)
          | ["D"; f; c] ->
            let fr = bytes_of_hex f in
            v1tab := (fr, (if c = "!" then None else Some (bytes_of_hex c))) :: !v1tab;
            Protocol.LData fr
          | ["M"; d] -> Protocol.LMd5 (bytes_of_hex d)
          | ["K"] -> Protocol.LKeep
          | _ -> Protocol.LOther) (ft_split ',' lines) in
      let v =
        if proto >= 2 then
          let decode _ = if dec = "!" then None else Some (bytes_of_hex dec) in
          Protocol.recv_v2 ft_md5 ft_deq decode (z_of_string size) [] ls
        else
          let decode1 fr = match List.assoc_opt fr !v1tab with Some r -> r | None -> None in
          Protocol.recv_v1 ft_md5 ft_deq decode1 (ft_nat (List.length ls + 1)) (z_of_string size) [] ls in
      (match v with Protocol.Accept _ -> "A" | _ -> "N")
    | _ -> "?args");
  register "send_file_verdict" (function [proto; size; mine; sent; acks] ->
      let proto = int_of_string proto in
      let sent = List.map z_of_string (ft_split '.' sent) in
      let acks = List.map (fun t -> match String.split_on_char ':' t with
          | ["F"; l; s] -> Protocol.AFrame (z_of_string l, z_of_string s)
          | ["I"; k] -> Protocol.AFinal (z_of_string k)
          | ["G"; d] -> Protocol.ADigest (bytes_of_hex d)
          | ["K"] -> Protocol.AKeep
          | _ -> Protocol.AOther) (ft_split ',' acks) in
      let mine = bytes_of_hex mine in
      str_of_bool (if proto >= 2 then Protocol.send_v2 ft_deq (z_of_string size) mine sent acks
                   else Protocol.send_v1 ft_deq mine sent acks)
    | _ -> "?args")
