(* evaluators for C02's decision model (Model/Protocol.v) and its tie to the whole-transfer
   machines (Model/FaultTie.v, Model/Transfer.v)

   recv_file_verdict proto size lines dec early      -> A<md5 of what reached the file> | N
     lines  D:<hex frame>[:<hex chunk>|:!] / M:<hex digest> / K / O  joined by ","
     dec    protocol >= 2: what the REAL decoder stack made of the frames in front of the first
            finish flag (hex, "-" = empty, "!" = error); the model's [decode] returns it
   send_file_verdict proto size mine sent acks       -> 1 | 0
     acks   F:<len>:<step> / I:<n> / G:<hex> / K / O  joined by ","

   digest := byte list; H := MD5 (OCaml's Digest, an implementation independent of Go's);
   deq := equality. *)
open Model
open Util

let ft_split c s = if s = "" || s = "-" then [] else String.split_on_char c s
let ft_str_of_bytes (l : n list) = let b = Buffer.create 64 in List.iter (fun x -> Buffer.add_char b (Char.chr (int_of_n x))) l; Buffer.contents b
let ft_bytes_of_str (s : string) : n list = List.init (String.length s) (fun i -> n_of_int (Char.code s.[i]))
let ft_md5 (w : n list) : n list = ft_bytes_of_str (Digest.string (ft_str_of_bytes w))
let ft_deq (a : n list) (b : n list) = a = b
let ft_nat i = let rec go acc i = if i <= 0 then acc else go (S acc) (i - 1) in go O i

let () =
  register "recv_file_verdict" (function [proto; size; lines; dec; early] ->
      let proto = int_of_string proto in
      let v1tab = ref [] in
      let ls = List.map (fun t -> match String.split_on_char ':' t with
          | ["D"; f] -> Protocol.LData (bytes_of_hex f)
          | ["D"; f; c] ->
            let fr = bytes_of_hex f in
            v1tab := (fr, (if c = "!" then None else Some (bytes_of_hex c))) :: !v1tab;
            Protocol.LData fr
          | ["M"; d] -> Protocol.LMd5 (bytes_of_hex d)
          | ["K"] -> Protocol.LKeep
          | _ -> Protocol.LOther) (ft_split ',' lines) in
      let v =
        if proto >= 2 then
          let decode _ = if dec = "!" then None else Some (bytes_of_hex dec) in
          let early = if early = "-" then None else Some (ft_nat (int_of_string early)) in
          Protocol.recv_v2 ft_md5 ft_deq decode early (z_of_string size) [] ls
        else
          let decode1 fr = match List.assoc_opt fr !v1tab with Some r -> r | None -> None in
          Protocol.recv_v1 ft_md5 ft_deq decode1 (ft_nat (List.length ls + 1)) (z_of_string size) [] ls in
      (match v with Protocol.Accept w -> "A" ^ Digest.to_hex (Digest.string (ft_str_of_bytes w)) | _ -> "N")
    | _ -> "?args");
  register "send_file_verdict" (function [proto; size; mine; sent; acks] ->
      let proto = int_of_string proto in
      let sent = List.map z_of_string (ft_split '.' sent) in
      let acks = List.map (fun t -> match String.split_on_char ':' t with
          | ["F"; l; s] -> Protocol.AFrame (z_of_string l, z_of_string s)
          | ["I"; k] -> Protocol.AFinal (z_of_string k)
          | ["G"; d] -> Protocol.ADigest (bytes_of_hex d)
          | ["K"] -> Protocol.AKeep
          | _ -> Protocol.AOther) (ft_split ',' acks) in
      let mine = bytes_of_hex mine in
      str_of_bool (if proto >= 2 then Protocol.send_v2 ft_deq (z_of_string size) mine sent acks
                   else Protocol.send_v1 ft_deq mine sent acks)
    | _ -> "?args")

(* ------------------------------------------------------------------------------------------
   The transcript-level tie for end-to-end fault runs (go/cmd/corr/c02f.go).

   fault_receiver cfg table dest fs msgs zdec unzl
     cfg    proto:binary:directory:overwrite:ctype:upload   as in transfer_transcript
     msgs   the messages DELIVERED to the real receiver after the fault(s), typed by the tolerant
            parser, joined by ",":  U:<n> NUM | P:<hex> NAME plain | J:<id>:<isdir>:<archive>:<size>:<hex rel .>
            NAME record | Z:<n> SIZE | C:<0|1> COMP | D:<hex> DATA | M:<hex> MD5 | X:<hex names +> EXIT | K | F fail | O other
     zdec   mid>content pairs joined by ";" (hex): what the REAL zstd decoder made of a stream
     unzl   raw>inflated pairs (protocol 1, base64 mode): what the REAL zlib inflater made of a payload
     result OUT=<canonical tokens the receiver wrote>|SAVED=<path:md5,...>|END=<D:names | F | U>|V=<0|1>
   fault_sender cfg table dflt entries acks
     entries id;isdir;rel;content;md5;z;sizes;profit;steps;prefinal  (the first ten fields of transfer_transcript's entries)
     acks   delivered to the real sender: I:<n> | A:<len>:<step> | S:<hex raw>:<hex json name | !>:<json size> | X:<hex names joined by +> | K | F | O
     result OUT=<canonical tokens the sender wrote>|END=<D:names | F | U>

   Canonical tokens leave out what depends on timing: the saved step of an ack, the final acks
   before completion, and - for the file under way when the machine failed or ran out of input -
   the acks / DATA messages (the real pipeline acknowledges and sends ahead of its checks). *)

(* names as the harness reads them back from a "Saved ..." message: an empty name (a reply record without a
   name field) is an empty bullet there, which the reader drops *)
let ft_hexs l = String.concat "+" (List.map hex_of_bytes (List.filter (fun n -> n <> []) l))
let ft_istr n = string_of_int (int_of_n n)
let ft_pairs s = List.filter_map (fun e -> match String.split_on_char '>' e with
    | [a; b] -> Some (bytes_of_hex a, bytes_of_hex b) | _ -> None) (ft_split ';' s)
let ft_cfg cfg table = match String.split_on_char ':' cfg with
  | [proto; bin; dir; ow; ctype; up] ->
    { Transfer.tc_proto = n_of_int (int_of_string proto); tc_binary = bool_of bin; tc_directory = bool_of dir;
      tc_overwrite = bool_of ow; tc_ctype = n_of_int (int_of_string ctype);
      tc_table = pairs (bytes_of_hex table); tc_upload = bool_of up }
  | _ -> failwith "cfg"
let ft_path_of s : n list list = List.map bytes_of_hex (ft_split '/' s)
let ft_fs_of s : (n list list * Fs.node) list =
  List.map (fun e -> match String.split_on_char ':' e with
      | ["d"; p] -> (ft_path_of p, Fs.Dir)
      | ["f"; p; c] -> (ft_path_of p, Fs.File (bytes_of_hex c))
      | _ -> failwith "fs entry") (ft_split ',' s)

(* tokens of the answering direction *)
let ft_rtoken (m : n list Transfer.tr_msg) = match m with
  | Transfer.TrSuccInt k -> Some ("I" ^ ft_istr k)
  | Transfer.TrSuccName nm -> Some ("N" ^ hex_of_bytes nm)
  | Transfer.TrSuccTarget (nm, size) -> Some ("T" ^ hex_of_bytes nm ^ ":" ^ ft_istr size)
  | Transfer.TrSuccAck (l, _) -> Some ("A" ^ ft_istr l)
  | Transfer.TrSuccDigest d -> Some ("D" ^ hex_of_bytes d)
  | Transfer.TrExit names -> Some ("X" ^ ft_hexs names)
  | _ -> None
let ft_canon_r (toks : string list) : string list =
  (* 1. a run of integers right after an ack: only the last one *)
  let rec collapse prev_ack = function
    | a :: b :: tl when prev_ack && a.[0] = 'I' && b.[0] = 'I' -> collapse true (b :: tl)
    | a :: tl -> a :: collapse (a.[0] = 'A' || (prev_ack && a.[0] = 'I')) tl
    | [] -> [] in
  let toks = collapse false toks in
  (* 2. behind the last digest / exit: no acks, no integers after the first ack *)
  let n = List.length toks in
  let last = ref (-1) in
  List.iteri (fun i t -> if t.[0] = 'D' || t.[0] = 'X' then last := i) toks;
  let saw = ref false in
  List.filteri (fun i t ->
      if i <= !last then true
      else if t.[0] = 'A' then (saw := true; false)
      else if t.[0] = 'I' && !saw then false
      else true) toks |> fun l -> ignore n; l

(* tokens of the direction that carries the files; DATA messages folded into one F<count>:<bytes>
   in front of the MD5 message *)
let ft_canon_s pipeline binary (ms : n list Transfer.tr_msg list) : string list =
  let cnt = ref 0 and sum = ref 0 in
  List.concat_map (fun m -> match m with
      | Transfer.TrNum k -> ["U" ^ ft_istr k]
      | Transfer.TrName (Transfer.TrPlain nm) -> ["P" ^ hex_of_bytes nm]
      | Transfer.TrName (Transfer.TrJson (s, size)) ->
        [Printf.sprintf "J%s:%s:%s:%s:%s" (string_of_z s.Names.s_id) (str_of_bool s.Names.s_isdir) (str_of_bool s.Names.s_archive)
           (ft_istr size) (String.concat "." (List.map hex_of_bytes s.Names.s_rel))]
      | Transfer.TrSize k -> cnt := 0; sum := 0; ["Z" ^ ft_istr k]
      | Transfer.TrComp b -> ["C" ^ str_of_bool b]
      | Transfer.TrData f ->
        incr cnt;
        sum := !sum + (if pipeline || binary then List.length f
                       else match Base64.b64_decode f with Some d -> List.length d | None -> 0);
        []
      | Transfer.TrMd5 d -> let r = [Printf.sprintf "F%d:%d" !cnt !sum; "M" ^ hex_of_bytes d] in cnt := 0; sum := 0; r
      | Transfer.TrExit names -> ["X" ^ ft_hexs names]
      | _ -> []) ms

let () =
  register "fault_receiver" (function [cfg; table; dest; pre; msgs; zdec; unzl] ->
      let cfg = ft_cfg cfg table in
      let dest = ft_path_of dest in
      let f0 = ft_fs_of pre in
      let ztab = ft_pairs zdec and utab = ft_pairs unzl in
      let zdecomp z = List.assoc_opt z ztab in
      let unzl z = List.assoc_opt z utab in
      let ms : n list Transfer.tr_msg list = List.map (fun t -> match String.split_on_char ':' t with
          | ["U"; k] -> Transfer.TrNum (n_of_int (int_of_string k))
          | ["P"; nm] -> Transfer.TrName (Transfer.TrPlain (bytes_of_hex nm))
          | ["J"; id; isdir; archive; size; rel] ->
            Transfer.TrName (Transfer.TrJson ({ Names.s_id = z_of_string id; s_rel = List.map bytes_of_hex (ft_split '.' rel);
                                                s_isdir = bool_of isdir; s_archive = bool_of archive }, n_of_int (int_of_string size)))
          | ["Z"; k] -> Transfer.TrSize (n_of_int (int_of_string k))
          | ["C"; b] -> Transfer.TrComp (bool_of b)
          | ["D"; f] -> Transfer.TrData (bytes_of_hex f)
          | ["M"; d] -> Transfer.TrMd5 (bytes_of_hex d)
          | "X" :: _ -> Transfer.TrExit []
          | ["K"] -> Transfer.TrKeepAlive
          | ["F"] -> Transfer.TrFail
          | _ -> Transfer.TrSuccInt N0 (* nothing the receiver ever expects: it fails on it, as the real one does on an unparsable line *)
        ) (ft_split ',' msgs) in
      (* the resume exchange and the archive stream are not entered by the runs handed to this evaluator (the
         harness judges those by its direct oracles): their abstract external functions are never consulted *)
      let hx (_ : n list) : n list = [] and aparse (_ : n list) = None in
      let ((st, outs), saved) = FaultTie.ft_receive ft_md5 ft_deq zdecomp unzl hx aparse cfg dest f0 [] ms in
      let toks = ft_canon_r (List.filter_map ft_rtoken outs) in
      let nd = List.length dest in
      let rec drop k l = if k <= 0 then l else match l with [] -> [] | _ :: t -> drop (k - 1) t in
      let sv = List.map (fun s ->
          let p = match FaultTie.ft_leaf cfg dest s with Some p -> String.concat "/" (List.map hex_of_bytes (drop nd p)) | None -> "?" in
          p ^ ":" ^ Digest.to_hex (Digest.string (ft_str_of_bytes s.FaultTie.fv_content))) saved in
      let v = List.for_all (fun s -> match FaultTie.ft_verdict ft_md5 ft_deq zdecomp unzl cfg s with
          | Protocol.Accept w -> w = s.FaultTie.fv_content | _ -> false) saved in
      (* trz: an EXIT line that arrives while recvFiles is still at work ends it with a "remote exit" error and
         serverError prints the client's message, as the regular end (recvExit) does: what the server shows is
         the client's word.  tsz's client (download) reports its own names. *)
      let fin =
        if cfg.Transfer.tc_upload then begin
          let toks = ft_split ',' msgs in
          let rec first_exit i = function
            | [] -> None
            | t :: tl -> (match String.split_on_char ':' t with
                | "X" :: names -> Some (i, String.concat ":" names)
                | _ -> first_exit (i + 1) tl) in
          match st.Transfer.rs_phase, first_exit 0 toks with
          | _, Some (i, names) ->
            let rec take k l = if k <= 0 then [] else match l with [] -> [] | x :: t -> x :: take (k - 1) t in
            let (stp, _) = FaultTie.ft_feed ft_md5 ft_deq zdecomp unzl hx aparse cfg dest (Transfer.tr_receiver_init f0 []) (take i ms) in
            (match stp.Transfer.rs_phase with
             | Transfer.RpFail | Transfer.RpDone -> "F"
             | Transfer.RpExit -> "D:" ^ ft_hexs stp.Transfer.rs_names   (* the regular end: trz prints ITS names (formatSavedFiles localNames) *)
             | _ -> if names = "!" then "F" else "D:" ^ names)          (* "remote exit": the text of the client's message *)
          | _, None -> "F"
        end else (match st.Transfer.rs_phase with
            | Transfer.RpDone -> "D:" ^ ft_hexs st.Transfer.rs_names
            | _ -> "F") in
      Printf.sprintf "OUT=%s|SAVED=%s|END=%s|V=%s" (String.concat " " toks) (String.concat "," sv) fin (str_of_bool v)
    | _ -> "?args");
  register "fault_sender" (function [cfg; table; dflt; entries; acks] ->
      let cfg = ft_cfg cfg table in
      let dflt = ft_nat (int_of_string dflt) in
      let htab = ref [] and ztab = ref [] in
      let reads (c : n list) : n list list =
        let rec take k acc l = if k = 0 then (List.rev acc, l) else match l with [] -> (List.rev acc, []) | x :: t -> take (k - 1) (x :: acc) t in
        let rec go acc l = if l = [] then List.rev acc else let (a, r) = take 32768 [] l in go (a :: acc) r in
        go [] c in
      let ess = List.map (fun e -> match String.split_on_char ';' e with
          | [id; isdir; rel; content; md5; z; sizes; profit; _; _] ->
            let isdir = bool_of isdir in
            let content = bytes_of_hex content in
            if not isdir then begin
              htab := (content, bytes_of_hex md5) :: !htab;
              if z <> "-" then ztab := (content, bytes_of_hex z) :: !ztab
            end;
            ({ Transfer.te_id = z_of_string id; te_rel = List.map bytes_of_hex (ft_split '.' rel); te_isdir = isdir;
               te_chunks = reads content; te_subs = [] },
             { Transfer.sc_sizes = List.map (fun x -> ft_nat (int_of_string x)) (ft_split '.' sizes); sc_dflt = dflt;
               sc_profit = bool_of profit; sc_steps = []; sc_prefinal = [];
               sc_hstops = None; sc_rsizes = []; sc_rdflt = O; sc_wsizes = []; sc_wdflt = S O })
          | _ -> failwith "entry") (ft_split ',' entries) in
      let h c = match List.assoc_opt c !htab with Some d -> d | None -> ft_md5 c in
      let poison = List.map n_of_int [33; 110; 111; 122; 33] in
      let zcomp chunks =
        let c = List.concat chunks in
        match List.assoc_opt c !ztab with Some z -> [z] | None -> if c = [] then [] else [poison] in
      let zl x = x in
      let hx (_ : n list) : n list = [] and ahdr _ _ : n list = [] in
      let step st m = Transfer.tr_sender h ft_deq zcomp zl hx ahdr cfg st m in
      let (st0, outs0) = Transfer.tr_sender_init cfg ess in
      let st = ref st0 and outs = ref [outs0] in
      (* tsz: an EXIT line that arrives while sendFiles is still at work ends it with a "remote exit" error,
         and serverError prints the client's message exactly as the regular end does (recvExit): what the
         server shows is the client's word in both cases *)
      let shown = ref None in
      List.iter (fun t ->
          (match String.split_on_char ':' t with
           | "X" :: names when !shown = None && not cfg.Transfer.tc_upload ->
             (match !st.Transfer.ss_phase with
              | Transfer.SpFail | Transfer.SpDone -> ()
              | _ -> shown := Some (String.concat ":" names))
           | _ -> ());
          let m : n list Transfer.tr_msg = match String.split_on_char ':' t with
            | ["I"; k] -> Transfer.TrSuccInt (n_of_int (int_of_string k))
            | ["A"; l; s] -> Transfer.TrSuccAck (n_of_int (int_of_string l), n_of_int (int_of_string s))
            | ["S"; raw; jn; js] ->
              (* a coded string is what the phase makes of it: sendFileName takes any string as the name,
                 sendFileNameV3 needs the JSON record, sendFileMD5 compares the bytes *)
              (match !st.Transfer.ss_phase with
               | Transfer.SpName ->
                 if Transfer.tr_json_names cfg then
                   (if jn = "!" then Transfer.TrNum N0 else Transfer.TrSuccTarget (bytes_of_hex jn, n_of_int (int_of_string js)))
                 else Transfer.TrSuccName (bytes_of_hex raw)
               | Transfer.SpMd5 -> Transfer.TrSuccDigest (bytes_of_hex raw)
               | _ -> Transfer.TrNum N0)
            | "X" :: _ -> Transfer.TrExit []
            | ["K"] -> Transfer.TrKeepAlive
            | ["F"] -> Transfer.TrFail
            | _ -> Transfer.TrNum N0 (* nothing the sender ever expects *) in
          let (st', o) = step !st m in
          st := st'; outs := o :: !outs) (ft_split ',' acks);
      let all = List.concat (List.rev !outs) in
      let toks = ft_canon_s (Transfer.tr_pipeline cfg) cfg.Transfer.tc_binary all in
      let fin =
        if cfg.Transfer.tc_upload then
          (match !st.Transfer.ss_phase with
           | Transfer.SpDone -> "D:" ^ ft_hexs !st.Transfer.ss_names
           | _ -> "F")
        else (match !shown, !st.Transfer.ss_phase with
            | Some "!", _ -> "F"   (* the text delivered as the client's message is not a "Saved ..." message *)
            | Some names, _ -> "D:" ^ names
            | None, _ -> "F") in
      Printf.sprintf "OUT=%s|END=%s" (String.concat " " toks) fin
    | _ -> "?args")

(* ------------------------------------------------------------------------------------------
   resume_fault_verdict proto src dst size hashes answers   -> D:<md5 of the destination> | N
   Model/FaultResume.v fr_exchange_code (the guard and the truncation are the regenerated
   Consts.c02_resume_rest_guard / c02_resume_truncates) on what was delivered during the resume
   exchange of the in-process pair (go/cmd/corr/c02r.go).  B := Consts.prefix_hash_step;
   H := the hex text of MD5, as fmt.Sprintf("%x", ...) gives it. *)
let () =
  register "resume_fault_verdict" (function [proto; src; dst; size; hashes; answers] ->
      let h (w : n list) : n list = ft_bytes_of_str (Digest.to_hex (Digest.string (ft_str_of_bytes w))) in
      let hs = List.map (fun t -> match String.split_on_char ':' t with
          | ["H"; step; d] -> Resume.Hash (z_of_string step, bytes_of_hex d)
          | _ -> Resume.Over) (ft_split ',' hashes) in
      let ans = List.map (fun t -> match String.split_on_char ':' t with
          | ["A"; step; m] -> { Resume.a_step = z_of_string step; a_match = bool_of m }
          | _ -> failwith "answer") (ft_split ',' answers) in
      let d = { FaultResume.fd_size = (if size = "-" then Z0 else z_of_string size); fd_hashes = hs; fd_answers = ans } in
      (match FaultResume.fr_exchange_code Consts.prefix_hash_step h (int_of_string proto >= 4) (bytes_of_hex src) (bytes_of_hex dst) d with
       | Some o -> "D:" ^ Digest.to_hex (Digest.string (ft_str_of_bytes o.FaultResume.fo_final))
       | None -> "N")
    | _ -> "?args")
