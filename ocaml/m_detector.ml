open Model
open Util

let c06_string_of_n (x : n) = string_of_z (Z.of_N x)
let c06_n_of_string s = Z.to_N (z_of_string s)

let c06_trig = function
  | None -> "none"
  | Some t ->
    let ((a, b), c) = t.t_version in
    Printf.sprintf "%d:%s.%s.%s:%s:%s:%s:%s" (int_of_n t.t_mode) (c06_string_of_n a) (c06_string_of_n b) (c06_string_of_n c)
      (hex_of_bytes t.t_id) (str_of_bool t.t_win) (c06_string_of_n t.t_port) (hex_of_bytes t.t_prefix)

let c06_map_dump (m : (n list * n) list) =
  let l = List.map (fun (k, v) -> hex_of_bytes k ^ "=" ^ c06_string_of_n v) m in
  if l = [] then "-" else String.concat "," (List.sort compare l)

let c06_seed s =
  List.map (fun e -> match String.split_on_char '=' e with
      | [k; v] -> (bytes_of_hex k, c06_n_of_string v)
      | _ -> failwith "seed") (split_on ',' s)

let () =
  register "detect_hist" (function [flags; seed; tunnels; bufs] ->
      let relay = flags.[0] = '1' and tmux = flags.[1] = '1' and winenv = flags.[2] = '1' in
      let bs = if bufs = "-" then List.init (String.length tunnels) (fun _ -> []) else chunks_of bufs in
      let calls = List.mapi (fun i b -> (tunnels.[i] = '1', b)) bs in
      let d0 = set_map (new_det relay tmux) (c06_seed seed) in
      let (rs, d) = detect_hist winenv d0 calls in
      String.concat ";" (List.map (fun ((o, t), sz) -> hex_of_bytes o ^ "|" ^ c06_trig t ^ "|" ^ c06_string_of_n sz) rs)
      ^ "#" ^ c06_map_dump d.d_map
    | _ -> "?args");
  register "re_trzsz" (function [b] ->
      (match find_trzsz (bytes_of_hex b) with
       | None -> "none"
       | Some m ->
         let g = function None -> "n" | Some d -> hex_of_bytes d in
         Printf.sprintf "%d,%s,%s,%s" (int_of_n m.m_mode) (hex_of_bytes m.m_ver) (g m.m_id) (g m.m_port))
    | _ -> "?args");
  register "re_uid_all" (function [b] -> hex_of_chunks (uid_find_all O (bytes_of_hex b)) | _ -> "?args");
  register "re_tmux" (function [b] ->
      (match find_tmux (bytes_of_hex b) with None -> "none" | Some p -> hex_of_bytes p)
    | _ -> "?args");
  register "parse_version" (function [b] ->
      (match parse_version (bytes_of_hex b) with
       | None -> "none"
       | Some ((a, b), c) -> c06_string_of_n a ^ "." ^ c06_string_of_n b ^ "." ^ c06_string_of_n c)
    | _ -> "?args");
  register "rewrite" (function [b] -> hex_of_bytes (rewrite_trigger (bytes_of_hex b)) | _ -> "?args");
  register "relay_suffix" (function [b; i] -> hex_of_bytes (add_relay_suffix (bytes_of_hex b) (nat_of_int (int_of_string i))) | _ -> "?args");
  register "trigger_line" (function [m; a; b; c; uid; port] ->
      hex_of_bytes (trigger_line (n_of_int (int_of_string m))
                      ((c06_n_of_string a, c06_n_of_string b), c06_n_of_string c) (c06_n_of_string uid) (c06_n_of_string port))
    | _ -> "?args")
