open Model
open Util

(* big decimal -> N *)
let n_of_dec (s : string) : n =
  match z_of_string s with Z0 -> N0 | Zpos p -> Npos p | Zneg _ -> failwith "negative"

let nats_of s = List.map nat_of_int (ints_of s)
let ctable s = pairs (bytes_of_hex s)

let () =
  register "codec_letter" (function [b] -> str_of_bool (wire_letter (n_of_int (int_of_string b))) | _ -> "?args");
  register "codec_b64_encode" (function [d] -> hex_of_bytes (b64_encode (bytes_of_hex d)) | _ -> "?args");
  (* encodeBytes with zlib as an oracle: z is what zlib produced for the input *)
  register "codec_encode_bytes" (function [z] -> hex_of_bytes (wire_encode_bytes (fun _ -> bytes_of_hex z) []) | _ -> "?args");
  register "codec_b64_writer" (function [cs] ->
      let (os, cl) = b64_writer (chunks_of cs) in
      String.concat "," (List.map hex_of_bytes os) ^ "|" ^ hex_of_bytes cl
    | _ -> "?args");
  register "codec_b64_decode" (function [s] ->
      (match b64_decode (List.concat (chunks_of s)) with Some d -> "ok:" ^ hex_of_bytes d | None -> "err")
    | _ -> "?args");
  (* decodeString with zlib as an oracle: (zin, zout) = what the library's inflate gives for zin *)
  register "codec_decode_string" (function [s; zin; zout] ->
      let unzl z = if hex_of_bytes z = zin then (if zout = "zerr" then None else Some (bytes_of_hex zout)) else Some [n_of_int 255; n_of_int 255] in
      (match b64_decode (bytes_of_hex s) with
       | None -> "b64err"
       | Some z -> if hex_of_bytes z <> zin then "oracle-miss:" ^ hex_of_bytes z else
           (match unzl z with None -> "zerr" | Some d -> "ok:" ^ hex_of_bytes d))
    | _ -> "?args");
  register "codec_int_line" (function [typ; v] ->
      hex_of_bytes (wire_int_line (bytes_of_hex typ) (n_of_dec v) [n_of_int 10]) | _ -> "?args");
  register "codec_line" (function [typ; p; nl] ->
      hex_of_bytes (wire_line (bytes_of_hex typ) (bytes_of_hex p) (bytes_of_hex nl)) | _ -> "?args");
  register "codec_pause_line" (function [typ; nl] ->
      hex_of_bytes (wire_pause_line (bytes_of_hex typ) (bytes_of_hex nl)) | _ -> "?args");
  register "codec_undec" (function [s] ->
      (match wire_undec (bytes_of_hex s) with Some n -> string_of_z (Z.of_N n) | None -> "err") | _ -> "?args");
  (* sendDataWriter: the assembled frames incl. the finish flag *)
  register "codec_sdw" (function [bin; nl; sizes; dflt; cs] ->
      let binary = bool_of bin and nl = bytes_of_hex nl in
      let fs = wire_frames (nats_of sizes) (nat_of_int (int_of_string dflt)) (List.concat (chunks_of cs)) in
      hex_of_chunks (List.map (wire_data_frame binary nl) (fs @ [[]]))
    | _ -> "?args");
  (* pipelineSendData: the bytes written for a list of frames *)
  register "codec_psd" (function [bin; nl; sizes; dflt; fs] ->
      let binary = bool_of bin and nl = bytes_of_hex nl in
      let ps = wire_resplit (chunks_of fs) (nats_of sizes) (nat_of_int (int_of_string dflt)) in
      hex_of_bytes (List.concat (List.map (wire_render_piece binary nl) ps))
      ^ "|" ^ String.concat "," (List.map (fun (_, p) -> string_of_int (List.length p)) ps)
    | _ -> "?args");
  (* pipelineRecvData *)
  register "codec_recv" (function [bin; w] ->
      let w = List.concat (chunks_of w) in
      (match wire_recv (nat_of_int (List.length w + 1)) (bool_of bin) w with
       | Some (fs, rest) -> "ok:" ^ hex_of_chunks fs ^ ":" ^ hex_of_bytes rest
       | None -> "err")
    | _ -> "?args");
  (* protocol-1 sendData; z = zlib oracle for base64 mode ("-" in binary mode) *)
  register "codec_v1_send" (function [bin; t; z; chunk] ->
      hex_of_bytes (wire_v1_chunk (fun _ -> bytes_of_hex z) (bool_of bin) (ctable t) [n_of_int 10] (bytes_of_hex chunk))
    | _ -> "?args");
  register "codec_v1_recv" (function [bin; t; zin; zout; w] ->
      let unzl z = if hex_of_bytes z = zin then (if zout = "zerr" then None else Some (bytes_of_hex zout)) else None in
      (match wire_v1_recv unzl (bool_of bin) (ctable t) (List.concat (chunks_of w)) with
       | Some (c, rest) -> "ok:" ^ hex_of_bytes c ^ ":" ^ hex_of_bytes rest
       | None -> "err")
    | _ -> "?args")
