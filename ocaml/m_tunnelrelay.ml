(* C17 (relay part): evaluators of the extracted model of the relay's tunnel code *)
open Model
open Util

let rt_parse_evs (s : string) : rtr_ev list * (int, unit) Hashtbl.t * (int, unit) Hashtbl.t =
  let cclosed = Hashtbl.create 8 and sclosed = Hashtbl.create 8 in
  let num e i j = int_of_string (String.sub e i j) in
  let evs = List.map (fun e ->
      let n = String.length e in
      match e.[0] with
      | 'c' -> RtrConnect
      | 'w' -> let i = String.index e ':' in RtrWriteC (nat_of_int (num e 1 (i - 1)), bytes_of_hex (String.sub e (i + 1) (n - i - 1)))
      | 'x' -> let c = num e 1 (n - 1) in Hashtbl.replace cclosed c (); RtrCloseC (nat_of_int c)
      | 'd' -> let i = String.index e ':' in RtrDial (nat_of_int (num e 1 (i - 1)), e.[i + 1] = 'c')
      | 'W' -> let i = String.index e ':' in RtrWriteS (nat_of_int (num e 1 (i - 1)), bytes_of_hex (String.sub e (i + 1) (n - i - 1)))
      | 'X' -> let c = num e 1 (n - 1) in Hashtbl.replace sclosed c (); RtrCloseS (nat_of_int c)
      | 'k' -> RtrConnector (e = "k1")
      | 'i' -> RtrInband ((if e.[1] = '0' then RdIn else RdOut), bytes_of_hex (String.sub e 3 (n - 3)))
      | 'h' -> if e.[1] = 'A' then RtrHsRead (e.[2] = '1', e.[3] = '1', e.[4] = '1') else RtrHsRead (e.[2] = '1', false, false)
      | 'r' -> RtrReset
      | _ -> failwith "event") (split_on ',' s) in
  (evs, cclosed, sclosed)

(* the lines the relay writes itself are compared as tokens: "#ACT:...\n" -> "#ACT\n" (also CFG, FAIL, fail), as c17rCanon does *)
let rt_canon (l : n list) : n list =
  let a = Array.of_list (List.map int_of_n l) in
  let len = Array.length a in
  let out = Buffer.create len in
  let starts i w = let k = String.length w in i + k <= len && (let ok = ref true in String.iteri (fun j c -> if a.(i + j) <> Char.code c then ok := false) w; !ok) in
  let rec nl i = if i >= len then -1 else if a.(i) = 10 then i else nl (i + 1) in
  let i = ref 0 in
  while !i < len do
    let w = List.find_opt (fun w -> starts !i w) ["#ACT:"; "#CFG:"; "#FAIL:"; "#fail:"] in
    (match w with
     | Some w when nl !i >= 0 ->
       Buffer.add_string out (String.sub w 0 (String.length w - 1)); Buffer.add_char out '\n'; i := nl !i + 1
     | _ -> Buffer.add_char out (Char.chr a.(!i)); incr i)
  done;
  List.init (Buffer.length out) (fun j -> byte_tab.(Char.code (Buffer.nth out j)))

(* X refused, P closed by the harness itself, R<hex>[C] answered [and closed by the relay], C closed unanswered, O open and silent *)
let rt_obs_end self_closed (e : rt_end) =
  if self_closed then "P"   (* what arrived on an end the harness closed itself is not compared, see c17_relay.go *)
  else if e.e_tx <> [] then "R" ^ hex_of_bytes (rt_canon e.e_tx) ^ (if e.e_closed then "C" else "")
  else if e.e_closed then "C" else "O"

let () =
  register "rtunnel_rewrite" (function [u; sp; rp; buf] ->
      hex_of_bytes (rt_rewrite (bytes_of_hex u) (z_of_string sp) (z_of_string rp) (bytes_of_hex buf))
    | _ -> "?args");
  register "rtunnel_run" (function [u; sp; rp; evs] ->
      let (evs, cc, scl) = rt_parse_evs evs in
      let s = rtr_replay (bytes_of_hex u) (z_of_string sp) (z_of_string rp) evs in
      let cobs = List.mapi (fun i (p : rt_pair) ->
          match p.p_pc with RtRefused -> "X" | _ -> rt_obs_end (Hashtbl.mem cc i) p.p_cli) s.r_pairs in
      let sobs = List.mapi (fun i (p : rt_pair) ->
          match p.p_srv with None -> "-" | Some e -> rt_obs_end (Hashtbl.mem scl i) e) s.r_pairs in
      String.concat "," cobs ^ "|s=" ^ String.concat "," sobs
      ^ "|a=" ^ (match s.r_trelay with Some c -> string_of_int (int_of_nat c) | None -> "-")
    | _ -> "?args");
  register "rtunnel_hs" (function [u; sp; rp; evs] ->
      let (evs, cc, scl) = rt_parse_evs evs in
      let s = rtr_replay (bytes_of_hex u) (z_of_string sp) (z_of_string rp) evs in
      let cobs = List.mapi (fun i (p : rt_pair) ->
          match p.p_pc with RtRefused -> "X" | _ -> rt_obs_end (Hashtbl.mem cc i) p.p_cli) s.r_pairs in
      let sobs = List.mapi (fun i (p : rt_pair) ->
          match p.p_srv with None -> "-" | Some e -> rt_obs_end (Hashtbl.mem scl i) e) s.r_pairs in
      let (cobs, sobs) = if cobs = [] then (["-"], ["-"]) else (cobs, sobs) in
      let stream (l : rt_out list) = hex_of_bytes (rt_canon (List.concat (List.map (fun ((_, bs), _) -> bs) l))) in
      String.concat "," cobs ^ "|s=" ^ String.concat "," sobs
      ^ "|a=" ^ (match s.r_trelay with Some c -> string_of_int (int_of_nat c) | None -> "-")
      ^ "|in=" ^ stream s.r_x.x_outin ^ "|out=" ^ stream s.r_x.x_outout
    | _ -> "?args");
  register "rtunnel_e2e" (function [u; sp; rp; evs] ->
      let (evs, _, _) = rt_parse_evs evs in
      let s = rtr_replay (bytes_of_hex u) (z_of_string sp) (z_of_string rp) evs in
      let obs = List.map (fun (p : rt_pair) -> if p.p_cli.e_tx <> [] && p.p_pc <> RtRefused then "R" else "-") s.r_pairs in
      String.concat "," obs ^ "|path=" ^ (match s.r_trelay with Some _ -> "T" | None -> "I")
    | _ -> "?args")
