(* group "cfgtimeout": the timeout member of the CFG round trip, computed by the extracted model
   from the shape regenerated into Gen/Consts.v *)
open Model
open Util

let c11_cfg_shape = { cts_guard = cfgtimeout_guard; cts_value_is_arg = cfgtimeout_value_is_arg;
                      cts_server_unmarshals = cfgtimeout_server_unmarshals;
                      cts_client_unmarshals = cfgtimeout_client_unmarshals;
                      cts_default = cfgtimeout_default; cts_timer = cfgtimeout_timer;
                      cts_relay_default = cfgtimeout_relay_default; cts_relay_omitempty = cfgtimeout_relay_omitempty }

let () =
  (* the other members of the record do not enter the model: the timeout travels on its own *)
  register "cfg_timeout" (function (t :: _ :: _ :: binary :: _) ->
      (match ct_handshake c11_cfg_shape (z_of_string t) with
       | Some ((((a, b), x), y), k) ->
         (* no server behind a relay announces a binary record: the relay leg is not run for it *)
         let relay = if binary = "1" then "relay=skipped" else
           match ct_via_relay c11_cfg_shape (z_of_string t) with
           | Some (v, z) -> Printf.sprintf "relaycli=%s;relayarmed=%s" (string_of_z v) (str_of_bool z)
           | None -> "relay?shape" in
         Printf.sprintf "srv=%s;cli=%s;srvarmed=%s;cliarmed=%s;key=%s;%s" (string_of_z a) (string_of_z b)
           (str_of_bool x) (str_of_bool y) (str_of_bool k) relay
       | None -> "?shape")
    | _ -> "?args")
