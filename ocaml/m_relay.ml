open Model
open Util

(* relay_run <tmux 0/1> <client chunks> <server chunks> <labels> : replays a label sequence on
   the extracted interleaving model (Relay.run with the status re-read enabled) and prints
   the three logs and the final status, or "none" if some label is not enabled. *)
let c13_rd = function "m" -> RdMore | "o" -> RdOk | "e" -> RdErr | _ -> failwith "rd"
let c13_label (t : string) : label =
  match String.split_on_char ':' t with
  | ["IR"] -> LInRead | ["IL"] -> LInLoad | ["IK"] -> LInLock | ["IV"] -> LInReload | ["IA"] -> LInAdd
  | ["IP"] -> LInUnlockP | ["IU"] -> LInUnlockU | ["IS"] -> LInSend | ["IE"; b] -> LInEnd (bool_of b)
  | ["OR"] -> LOutRead | ["OL"] -> LOutLoad | ["OK"] -> LOutLock | ["OV"] -> LOutReload | ["OA"] -> LOutAdd
  | ["OP"] -> LOutUnlockP | ["OU"] -> LOutUnlockU | ["OB"] -> LOutBypass
  | ["OD"; c; b] -> LOutDetect (bytes_of_hex c, bool_of b)
  | ["OH"] -> LOutStoreH | ["OG"] -> LOutGo | ["OS"] -> LOutSend | ["OE"; b] -> LOutEnd (bool_of b)
  | ["HA"; n; r] -> LHsAct (nat_of_int (int_of_string n), c13_rd r)
  | ["HSA"; l; b] -> LHsSendAct (bytes_of_hex l, bool_of b)
  | ["HC"; n; r] -> LHsCfg (nat_of_int (int_of_string n), c13_rd r)
  | ["HSC"; l] -> LHsSendCfg (bytes_of_hex l)
  | ["HF1"; l] -> LHsFail1 (bytes_of_hex l) | ["HF2"; l] -> LHsFail2 (bytes_of_hex l)
  | ["HK"] -> LHsLock | ["HPI"] -> LHsPopI | ["HSI"] -> LHsSendI | ["HPO"] -> LHsPopO | ["HSO"] -> LHsSendO
  | ["HD"] -> LHsDone | ["TU"] -> LTlUnlock
  | _ -> failwith ("label " ^ t)

let () =
  register "relay_run" (function [tm; cs; ss; ls] ->
      let labels = List.map c13_label (split_on ' ' ls) in
      (match run true (bool_of tm) labels (init (chunks_of cs) (chunks_of ss)) with
       | None -> "none"
       | Some s ->
         hex_of_bytes s.slog ^ ":" ^ hex_of_bytes s.clog ^ ":" ^ hex_of_bytes s.blog ^ ":" ^
         (match s.st with StS -> "S" | StH -> "H" | StT -> "T") ^
         (if s.cin = [] && s.sin = [] then "" else ":pending"))
    | _ -> "?args")
