open Model
open Util

(* relay_run <tmux 0/1> <client chunks> <server chunks> <labels> : replays a label sequence on
   the extracted interleaving model (Relay.run with the status re-read enabled) and prints
   the three logs and the final status, or "none" if some label is not enabled. *)
let c13_rd = function "m" -> RdMore | "o" -> RdOk | "e" -> RdErr | _ -> failwith "rd"
let c13_label (t : string) : label =
  match String.split_on_char ':' t with
  | ["IR"] -> LInRead | ["IL"] -> LInLoad | ["IK"] -> LInLock | ["IV"] -> LInReload | ["IA"] -> LInAdd
  | ["IP"] -> LInUnlockP | ["IU"] -> LInUnlockU | ["IS"] -> LInSend | ["IE"; b] -> LInEnd (bool_of b)
  | ["OR"] -> LOutRead | ["OL"] -> LOutLoad | ["OK"] -> LOutLock | ["OV"] -> LOutReload | ["OA"] -> LOutAdd
  | ["OP"] -> LOutUnlockP | ["OU"] -> LOutUnlockU | ["OB"] -> LOutBypass
  | ["OD"; c; b] -> LOutDetect (bytes_of_hex c, bool_of b)
  | ["OH"] -> LOutStoreH | ["OG"] -> LOutGo | ["OS"] -> LOutSend | ["OE"; b] -> LOutEnd (bool_of b)
  | ["HA"; n; r] -> LHsAct (nat_of_int (int_of_string n), c13_rd r)
  | ["HSA"; l; b] -> LHsSendAct (bytes_of_hex l, bool_of b)
  | ["HC"; n; r] -> LHsCfg (nat_of_int (int_of_string n), c13_rd r)
  | ["HSC"; l] -> LHsSendCfg (bytes_of_hex l)
  | ["HF1"; l] -> LHsFail1 (bytes_of_hex l) | ["HF2"; l] -> LHsFail2 (bytes_of_hex l)
  | ["HK"] -> LHsLock | ["HPI"] -> LHsPopI | ["HSI"] -> LHsSendI | ["HPO"] -> LHsPopO | ["HSO"] -> LHsSendO
  | ["HD"] -> LHsDone | ["TU"] -> LTlUnlock
  | _ -> failwith ("label " ^ t)

let () =
  register "relay_run" (function [tm; cs; ss; ls] ->
      let labels = List.map c13_label (split_on ' ' ls) in
      (match run true (bool_of tm) labels (init (chunks_of cs) (chunks_of ss)) with
       | None -> "none"
       | Some s ->
         hex_of_bytes s.slog ^ ":" ^ hex_of_bytes s.clog ^ ":" ^ hex_of_bytes s.blog ^ ":" ^
         (match s.st with StS -> "S" | StH -> "H" | StT -> "T") ^
         (if s.cin = [] && s.sin = [] then "" else ":pending"))
    | _ -> "?args")

(* relay_trace <tmux 0/1> <client chunks> <server chunks> <events> : trace validation.  Replays
   a trace recorded by the overlay build of the real relay (go/cmd/overlay/vl.go: one token
   <role><code>[:value…]@<point> per synchronisation operation executed) with the extracted
   Relay.rv_run: every event must be an enabled step of step_fn from the current model state
   with the observed value.  Prints "ok:<slog>:<clog>:<blog>" (compared with the bytes the
   real writers received) or "bad:<index>:<event>:<model state>" for the first offending event. *)
let c13_role = function 'I' -> Some RvIn | 'O' -> Some RvOut | 'H' -> Some RvHs | _ -> None
let c13_ev (t : string) : rv_ev option =
  let body = match String.index_opt t '@' with Some i -> String.sub t 0 i | None -> t in
  if String.length body < 2 then None else
  match c13_role body.[0] with
  | None -> None
  | Some r ->
    let n s = n_of_int (int_of_string s) in
    let buf = function "I" -> Some RvBufI | "O" -> Some RvBufO | _ -> None in
    (try
      match r, String.split_on_char ':' (String.sub body 1 (String.length body - 1)) with
      | (RvIn | RvOut), ["R"; c] -> Some (RvRead (r, bytes_of_hex c))
      | (RvIn | RvOut), ["L"; x] -> Some (RvLoad (r, n x))
      | _, ["K"; b] -> Some (RvLock (r, bool_of b))
      | (RvIn | RvOut), ["V"; x] -> Some (RvReload (r, n x))
      | RvIn, ["A"; "I"; c] | RvOut, ["A"; "O"; c] -> Some (RvAdd (r, bytes_of_hex c))
      | _, ["U"] -> Some (RvUnlock r)
      | _, ["S"; ch; b; cf] ->
        (match ch with
         | "srv" -> Some (RvSend (r, RvSrv, bytes_of_hex b, bool_of cf))
         | "cli" -> Some (RvSend (r, RvCli, bytes_of_hex b, bool_of cf))
         | "byp" -> Some (RvSend (r, RvByp, bytes_of_hex b, bool_of cf))
         | _ -> None)
      | _, ["C"; o; ok] -> Some (RvCas (r, n o, bool_of ok))
      | (RvOut | RvHs), ["T"; x] -> Some (RvStore (r, n x))
      | RvOut, ["D"; c; b] -> Some (RvDetect (bytes_of_hex c, bool_of b))
      | RvOut, ["G"] -> Some RvGo
      | RvHs, ["E"; s; k] -> (match buf s with Some b -> Some (RvEat (b, nat_of_int (int_of_string k))) | None -> None)
      | RvHs, ["Q"; s; ok] -> (match buf s with Some b -> Some (RvRes (b, bool_of ok)) | None -> None)
      | RvHs, ["P"; s; "nil"] -> (match buf s with Some b -> Some (RvPop (b, None)) | None -> None)
      | RvHs, ["P"; s; c] -> (match buf s with Some b -> Some (RvPop (b, Some (bytes_of_hex c))) | None -> None)
      | _, ["X"; v] -> Some (RvScope (v <> "0"))
      | _ -> None
    with _ -> None)

let c13_state_descr s : string =
  let st = match s.st with StS -> "S" | StH -> "H" | StT -> "T" in
  let lk = match s.lk with Free -> "free" | ByIn -> "In" | ByOut -> "Out" | ByHs -> "Hs" | ByTl -> "Tl" in
  let ipc = match s.ipc with I0 -> "I0" | I1 _ -> "I1" | I3 _ -> "I3" | I4 _ -> "I4" | I4a _ -> "I4a" | I4p -> "I4p"
                           | I4u _ -> "I4u" | I5 _ -> "I5" | I6 _ -> "I6" in
  let opc = match s.opc with O0 -> "O0" | O1 _ -> "O1" | O3 _ -> "O3" | O4 _ -> "O4" | O4a _ -> "O4a" | O4p -> "O4p"
                           | O4u _ -> "O4u" | O5 (_, t) -> if t then "O5t" else "O5" | O5h _ -> "O5h" | O5g _ -> "O5g"
                           | O5s _ -> "O5s" | O6 -> "O6" in
  let hpc = match s.hpc with HN -> "HN" | H0 -> "H0" | H2 -> "H2" | H3 -> "H3" | H4 -> "H4" | HF1 -> "HF1" | HF2 -> "HF2"
                           | HL _ -> "HL" | HP1 _ -> "HP1" | HS1 _ -> "HS1" | HP2 _ -> "HP2" | HS2 _ -> "HS2" | HD _ -> "HD" in
  Printf.sprintf "status=%s,lock=%s,in=%s,out=%s,hs=%s,parkedI=%d,parkedO=%d" st lk ipc opc hpc
    (List.length (flat s.ibr s.ibq)) (List.length (flat s.obr s.obq))

let () =
  register "relay_trace" (function [tm; cs; ss; tr] ->
      let toks = split_on ' ' tr in
      (* parse up to the first token that is no event of the model *)
      let rec parse acc = function
        | [] -> (List.rev acc, None)
        | t :: r -> (match c13_ev t with Some e -> parse (e :: acc) r | None -> (List.rev acc, Some t)) in
      let (evs, unknown) = parse [] toks in
      let nth i = try List.nth toks i with _ -> "?" in
      (match rv_run (bool_of tm) evs O (init (chunks_of cs) (chunks_of ss)) with
       | RvBad (i, s) -> Printf.sprintf "bad:%d:%s:%s" (int_of_nat i) (nth (int_of_nat i)) (c13_state_descr s)
       | RvOk s ->
         (match unknown with
          | Some t -> Printf.sprintf "bad:%d:%s:no-event-of-the-model:%s" (List.length evs) t (c13_state_descr s)
          | None -> "ok:" ^ hex_of_bytes s.slog ^ ":" ^ hex_of_bytes s.clog ^ ":" ^ hex_of_bytes s.blog))
    | _ -> "?args")

(* ---- the reset guard: schedule search on the model ------------------------------------------
   relay_search <ug> <tmux> <client chunks> <server chunks> <turns> : the chunks are over the
   abstract alphabet of Relay.rg_next, <turns> is a canonical (causal) schedule at the level of
   loop iterations: I / O = the input / output reader takes its next chunk and runs until it
   is back at the head of its loop (or blocked), H = the worker runs until it is blocked or
   done, T = the deferred unlock.  The search examines every schedule obtained by cutting ONE
   turn after k >= 1 steps and resuming that thread after a later turn (before its own next
   turn), i.e. every way of delaying one thread in front of one of its operations, and looks
   for a state with conservation broken or bytes parked outside a handshake (Relay.rg_bad).
   <ug> = 0 guarded reset, 1 reset from any state, gen = what the current source has
   (Relay.rg_current, from the regenerated skeleton).
   relay_search prints "none" or "bad:<number of bad schedules>:<first witness>";
   relay_search_list prints "examined=<n>;bad=<m>" followed by up to <max> witnesses
   "|<i>.<k>.<j>;<kind>;<labels up to the end of the resumed turn>" (one per cut point). *)
let c13_rd_str = function RdMore -> "m" | RdOk -> "o" | RdErr -> "e"
let c13_label_str (l : label) : string =
  let b x = if x then "1" else "0" in
  match l with
  | LInRead -> "IR" | LInLoad -> "IL" | LInLock -> "IK" | LInReload -> "IV" | LInAdd -> "IA"
  | LInUnlockP -> "IP" | LInUnlockU -> "IU" | LInSend -> "IS" | LInEnd c -> "IE:" ^ b c
  | LOutRead -> "OR" | LOutLoad -> "OL" | LOutLock -> "OK" | LOutReload -> "OV" | LOutAdd -> "OA"
  | LOutUnlockP -> "OP" | LOutUnlockU -> "OU" | LOutBypass -> "OB"
  | LOutDetect (c, t) -> "OD:" ^ hex_of_bytes c ^ ":" ^ b t
  | LOutStoreH -> "OH" | LOutGo -> "OG" | LOutSend -> "OS" | LOutEnd c -> "OE:" ^ b c
  | LHsAct (n, r) -> "HA:" ^ string_of_int (int_of_nat n) ^ ":" ^ c13_rd_str r
  | LHsSendAct (l, c) -> "HSA:" ^ hex_of_bytes l ^ ":" ^ b c
  | LHsCfg (n, r) -> "HC:" ^ string_of_int (int_of_nat n) ^ ":" ^ c13_rd_str r
  | LHsSendCfg l -> "HSC:" ^ hex_of_bytes l
  | LHsFail1 l -> "HF1:" ^ hex_of_bytes l | LHsFail2 l -> "HF2:" ^ hex_of_bytes l
  | LHsLock -> "HK" | LHsPopI -> "HPI" | LHsSendI -> "HSI" | LHsPopO -> "HPO" | LHsSendO -> "HSO"
  | LHsDone -> "HD" | LTlUnlock -> "TU"

let c13_thread = function 'I' -> RgIn | 'O' -> RgOut | 'H' -> RgHs | 'T' -> RgTl | _ -> failwith "thread"

type c13_exec = { mutable ms : rg_mem * rp_state; mutable labs : rp_label list; mutable nsteps : int;
                  mutable bad : (int * string) option }

let c13_rp_label_str late = function
  | RpPublish -> "HB"
  | RpL LOutStoreH when late -> "Oh"   (* no operation in the late variant *)
  | RpL l -> c13_label_str l

(* the model variant: <ug><late> ("00" faithful, "10" reset from any state, "01" handshaking
   published by the worker) or "gen" = what the current source has (Relay.rg_current, rp_current) *)
let c13_variant = function
  | "gen" -> (rg_current, rp_current)
  | "0" | "00" -> (false, false) | "1" | "10" -> (true, false) | "01" -> (false, true) | "11" -> (true, true)
  | _ -> failwith "variant"

let c13_count p l = List.length (List.filter p l)
let c13_is n x = int_of_n x = n

(* Causality of the scripted peers (they are not threads of the model): the client sends its
   k-th ACT line (a chunk holding 1) only after k triggers (9) have reached it, and whatever it
   sends after a confirmed ACT (holding 3) only after the CFG of that transfer (2 or the relay's
   102) has reached it; the server sends its k-th CFG line (a chunk holding 2) only after the
   ACT of the k-th confirmed transfer (1 or the relay's 101) has reached it. *)
let c13_search (ug, late) tm cs ss (turns : string) =
  let ci = List.concat cs and si = List.concat ss in
  let n = String.length turns in
  let has k c = List.exists (c13_is k) c in
  let ncs = List.length cs and nss = List.length ss in
  (* requirement of the client chunk number idx: (triggers at the client, CFGs at the client) *)
  let creq = Array.make (ncs + 1) (0, 0) and sreq = Array.make (nss + 1) 0 in
  let acts = ref 0 and confirmed = ref 0 and actpos = ref [] in
  List.iteri (fun i c ->
      if has 1 c then begin incr acts; creq.(i) <- (!acts, !confirmed);
        if has 3 c then begin incr confirmed; actpos := !acts :: !actpos end end
      else creq.(i) <- (0, !confirmed)) cs;
  let actpos = Array.of_list (List.rev !actpos) in
  let cfgs = ref 0 in
  List.iteri (fun i c -> if has 2 c then begin
                 sreq.(i) <- (if !cfgs < Array.length actpos then actpos.(!cfgs) else max_int); incr cfgs end) ss;
  let allowed th (s : state) =
    match th with
    | RgIn -> (match s.ipc with
        | I0 -> let i = ncs - List.length s.cin in
          i >= ncs ||
          (let (t, g) = creq.(i) in
           let toclient = s.clog @ s.blog in
           c13_count (c13_is 9) toclient >= t && c13_count (fun x -> c13_is 2 x || c13_is 102 x) toclient >= g)
        | _ -> true)
    | RgOut -> (match s.opc with
        | O0 -> let i = nss - List.length s.sin in
          i >= nss || c13_count (fun x -> c13_is 1 x || c13_is 101 x) s.slog >= sreq.(i)
        | _ -> true)
    | _ -> true in
  let fresh () = { ms = (rg_mem0, (false, init cs ss)); labs = []; nsteps = 0; bad = None } in
  let st_of (e : c13_exec) = snd (snd e.ms) in
  (* run thread th for at most limit steps or until it is back at its loop head / not enabled *)
  let turn (e : c13_exec) th limit =
    let k = ref 0 and go = ref true in
    while !go && !k < limit do
      if not (allowed th (st_of e)) then go := false else
      (match rp_move late ug tm th e.ms with
       | None -> go := false
       | Some (l, ms') ->
         e.ms <- ms'; e.labs <- l :: e.labs; e.nsteps <- e.nsteps + 1; incr k;
         let s' = snd (snd ms') in
         if e.bad = None && rg_bad ci si s' then
           e.bad <- Some (e.nsteps, if rg_stranded s' then "stranded" else "conservation");
         if rp_at_head th (snd ms') then go := false)
    done; !k in
  (* fair completion: every thread gets turns until none can move; then nothing may be left *)
  let finish (e : c13_exec) =
    let progress = ref true in
    while !progress do
      progress := false;
      List.iter (fun th -> if turn e th 1000 > 0 then progress := true) [RgOut; RgIn; RgHs; RgTl]
    done;
    let s = st_of e in
    if e.bad = None && (rp_holds s || s.cin <> [] || s.sin <> []) then
      e.bad <- Some (e.nsteps, "hung") in
  let canon = fresh () in
  let lens = Array.init n (fun t -> turn canon (c13_thread turns.[t]) 1000) in
  finish canon;
  let examined = ref 0 and found = ref [] and nbad = ref 0 in
  let show labs = String.concat " " (List.map (c13_rp_label_str late) labs) in
  if canon.bad <> None then begin
    incr nbad;
    found := [Printf.sprintf "-1.0.0;canonical-%s;%s" (match canon.bad with Some (_, k) -> k | None -> "") (show (List.rev canon.labs))]
  end;
  (* one schedule of the family: turn i cut after k steps, resumed after turn j; returns the
     execution and the number of steps at the end of the resumed turn *)
  let run_cut i k j =
    let x = turns.[i] in
    let e = fresh () in
    let cut = ref 0 in
    for t = 0 to n - 1 do
      if t = i then (if k > 0 then ignore (turn e (c13_thread x) k)) else ignore (turn e (c13_thread turns.[t]) 1000);
      if t = j then begin ignore (turn e (c13_thread x) 1000); cut := e.nsteps end
    done;
    finish e;
    (e, !cut) in
  for i = 0 to n - 1 do
    let x = turns.[i] in
    (* k = 0 (the whole turn later) only for the relay's own threads: for a reader it would
       only be another arrival order of the input *)
    let k0 = if x = 'H' || x = 'T' then 0 else 1 in
    for k = k0 to lens.(i) - 1 do
      let first = ref true in
      let j = ref (i + 1) in
      while !j < n && turns.[!j] <> x do
        incr examined;
        let (e, cut) = run_cut i k !j in
        (match e.bad with
         | Some (_, kind) ->
           incr nbad;
           if !first then begin
             first := false;
             let pre = List.filteri (fun idx _ -> idx < cut) (List.rev e.labs) in
             found := (Printf.sprintf "%d.%d.%d;%s;%s" i k !j kind (show pre)) :: !found
           end
         | None -> ());
        incr j
      done
    done
  done;
  (!examined, !nbad, List.rev !found, List.rev_map (c13_rp_label_str late) canon.labs, run_cut, show)

let () =
  register "relay_search" (function [v; tm; cs; ss; turns] ->
      let (_, nbad, found, _, _, _) = c13_search (c13_variant v) (bool_of tm) (chunks_of cs) (chunks_of ss) turns in
      (match found with [] -> "none" | w :: _ -> Printf.sprintf "bad:%d:%s" nbad w)
    | _ -> "?args");
  register "relay_search_list" (function [v; tm; cs; ss; turns; mx] ->
      let (ex, nbad, found, _, _, _) = c13_search (c13_variant v) (bool_of tm) (chunks_of cs) (chunks_of ss) turns in
      let rec take k = function [] -> [] | x :: r -> if k = 0 then [] else x :: take (k - 1) r in
      String.concat "|" (Printf.sprintf "examined=%d;bad=%d" ex nbad :: take (int_of_string mx) found)
    | _ -> "?args");
  (* relay_canon: the label sequence of the canonical schedule itself *)
  register "relay_canon" (function [v; tm; cs; ss; turns] ->
      let (_, _, _, canon, _, _) = c13_search (c13_variant v) (bool_of tm) (chunks_of cs) (chunks_of ss) turns in
      String.concat " " canon
    | _ -> "?args");
  (* relay_cut_labels <variant> ... <i.k.j>: the labels of that schedule of the family under the
     given variant, up to the end of the resumed turn, and what the model says of the whole run *)
  register "relay_cut_labels" (function [v; tm; cs; ss; turns; cut] ->
      let (_, _, _, _, run_cut, show) = c13_search (c13_variant v) (bool_of tm) (chunks_of cs) (chunks_of ss) turns in
      (match List.map int_of_string (String.split_on_char '.' cut) with
       | [i; k; j] ->
         let (e, upto) = run_cut i k j in
         let pre = List.filteri (fun idx _ -> idx < upto) (List.rev e.labs) in
         (match e.bad with Some (_, kind) -> kind | None -> "ok") ^ ";" ^ show pre
       | _ -> "?cut")
    | _ -> "?args");
  (* relay_guard_run <variant> <tmux> <client chunks> <server chunks> <labels>: a label sequence
     (labels of step_fn, HB = the worker's publication) on rp_run; prints "none" (not a path),
     "ok" or the kind of violation of the final state *)
  register "relay_guard_run" (function [v; tm; cs; ss; ls] ->
      let cs = chunks_of cs and ss = chunks_of ss in
      let (ug, late) = c13_variant v in
      let labels = List.map (fun t -> if t = "HB" then RpPublish else RpL (c13_label (if t = "Oh" then "OH" else t))) (split_on ' ' ls) in
      (match rp_run late ug (bool_of tm) labels (false, init cs ss) with
       | None -> "none"
       | Some (_, s) -> if rg_stranded s then "stranded" else if rg_bad (List.concat cs) (List.concat ss) s then "conservation" else "ok")
    | _ -> "?args")
