open Model
open Util

(* relay_run <tmux 0/1> <client chunks> <server chunks> <labels> : replays a label sequence on
   the extracted interleaving model (Relay.run with the status re-read enabled) and prints
   the three logs and the final status, or "none" if some label is not enabled. *)
let c13_rd = function "m" -> RdMore | "o" -> RdOk | "e" -> RdErr | _ -> failwith "rd"
let c13_label (t : string) : label =
  match String.split_on_char ':' t with
  | ["IR"] -> LInRead | ["IL"] -> LInLoad | ["IK"] -> LInLock | ["IV"] -> LInReload | ["IA"] -> LInAdd
  | ["IP"] -> LInUnlockP | ["IU"] -> LInUnlockU | ["IS"] -> LInSend | ["IE"; b] -> LInEnd (bool_of b)
  | ["OR"] -> LOutRead | ["OL"] -> LOutLoad | ["OK"] -> LOutLock | ["OV"] -> LOutReload | ["OA"] -> LOutAdd
  | ["OP"] -> LOutUnlockP | ["OU"] -> LOutUnlockU | ["OB"] -> LOutBypass
  | ["OD"; c; b] -> LOutDetect (bytes_of_hex c, bool_of b)
  | ["OH"] -> LOutStoreH | ["OG"] -> LOutGo | ["OS"] -> LOutSend | ["OE"; b] -> LOutEnd (bool_of b)
  | ["HA"; n; r] -> LHsAct (nat_of_int (int_of_string n), c13_rd r)
  | ["HSA"; l; b] -> LHsSendAct (bytes_of_hex l, bool_of b)
  | ["HC"; n; r] -> LHsCfg (nat_of_int (int_of_string n), c13_rd r)
  | ["HSC"; l] -> LHsSendCfg (bytes_of_hex l)
  | ["HF1"; l] -> LHsFail1 (bytes_of_hex l) | ["HF2"; l] -> LHsFail2 (bytes_of_hex l)
  | ["HK"] -> LHsLock | ["HPI"] -> LHsPopI | ["HSI"] -> LHsSendI | ["HPO"] -> LHsPopO | ["HSO"] -> LHsSendO
  | ["HD"] -> LHsDone | ["TU"] -> LTlUnlock
  | _ -> failwith ("label " ^ t)

let () =
  register "relay_run" (function [tm; cs; ss; ls] ->
      let labels = List.map c13_label (split_on ' ' ls) in
      (match run true (bool_of tm) labels (init (chunks_of cs) (chunks_of ss)) with
       | None -> "none"
       | Some s ->
         hex_of_bytes s.slog ^ ":" ^ hex_of_bytes s.clog ^ ":" ^ hex_of_bytes s.blog ^ ":" ^
         (match s.st with StS -> "S" | StH -> "H" | StT -> "T") ^
         (if s.cin = [] && s.sin = [] then "" else ":pending"))
    | _ -> "?args")

(* relay_trace <tmux 0/1> <client chunks> <server chunks> <events> : trace validation.  Replays
   a trace recorded by the overlay build of the real relay (go/cmd/overlay/vl.go: one token
   <role><code>[:value…]@<point> per synchronisation operation executed) with the extracted
   Relay.rv_run: every event must be an enabled step of step_fn from the current model state
   with the observed value.  Prints "ok:<slog>:<clog>:<blog>" (compared with the bytes the
   real writers received) or "bad:<index>:<event>:<model state>" for the first offending event. *)
let c13_role = function 'I' -> Some RvIn | 'O' -> Some RvOut | 'H' -> Some RvHs | _ -> None
let c13_ev (t : string) : rv_ev option =
  let body = match String.index_opt t '@' with Some i -> String.sub t 0 i | None -> t in
  if String.length body < 2 then None else
  match c13_role body.[0] with
  | None -> None
  | Some r ->
    let n s = n_of_int (int_of_string s) in
    let buf = function "I" -> Some RvBufI | "O" -> Some RvBufO | _ -> None in
    (try
      match r, String.split_on_char ':' (String.sub body 1 (String.length body - 1)) with
      | (RvIn | RvOut), ["R"; c] -> Some (RvRead (r, bytes_of_hex c))
      | (RvIn | RvOut), ["L"; x] -> Some (RvLoad (r, n x))
      | _, ["K"; b] -> Some (RvLock (r, bool_of b))
      | (RvIn | RvOut), ["V"; x] -> Some (RvReload (r, n x))
      | RvIn, ["A"; "I"; c] | RvOut, ["A"; "O"; c] -> Some (RvAdd (r, bytes_of_hex c))
      | _, ["U"] -> Some (RvUnlock r)
      | _, ["S"; ch; b; cf] ->
        (match ch with
         | "srv" -> Some (RvSend (r, RvSrv, bytes_of_hex b, bool_of cf))
         | "cli" -> Some (RvSend (r, RvCli, bytes_of_hex b, bool_of cf))
         | "byp" -> Some (RvSend (r, RvByp, bytes_of_hex b, bool_of cf))
         | _ -> None)
      | _, ["C"; o; ok] -> Some (RvCas (r, n o, bool_of ok))
      | (RvOut | RvHs), ["T"; x] -> Some (RvStore (r, n x))
      | RvOut, ["D"; c; b] -> Some (RvDetect (bytes_of_hex c, bool_of b))
      | RvOut, ["G"] -> Some RvGo
      | RvHs, ["E"; s; k] -> (match buf s with Some b -> Some (RvEat (b, nat_of_int (int_of_string k))) | None -> None)
      | RvHs, ["Q"; s; ok] -> (match buf s with Some b -> Some (RvRes (b, bool_of ok)) | None -> None)
      | RvHs, ["P"; s; "nil"] -> (match buf s with Some b -> Some (RvPop (b, None)) | None -> None)
      | RvHs, ["P"; s; c] -> (match buf s with Some b -> Some (RvPop (b, Some (bytes_of_hex c))) | None -> None)
      | _, ["X"; v] -> Some (RvScope (v <> "0"))
      | _ -> None
    with _ -> None)

let c13_state_descr s : string =
  let st = match s.st with StS -> "S" | StH -> "H" | StT -> "T" in
  let lk = match s.lk with Free -> "free" | ByIn -> "In" | ByOut -> "Out" | ByHs -> "Hs" | ByTl -> "Tl" in
  let ipc = match s.ipc with I0 -> "I0" | I1 _ -> "I1" | I3 _ -> "I3" | I4 _ -> "I4" | I4a _ -> "I4a" | I4p -> "I4p"
                           | I4u _ -> "I4u" | I5 _ -> "I5" | I6 _ -> "I6" in
  let opc = match s.opc with O0 -> "O0" | O1 _ -> "O1" | O3 _ -> "O3" | O4 _ -> "O4" | O4a _ -> "O4a" | O4p -> "O4p"
                           | O4u _ -> "O4u" | O5 (_, t) -> if t then "O5t" else "O5" | O5h _ -> "O5h" | O5g _ -> "O5g"
                           | O5s _ -> "O5s" | O6 -> "O6" in
  let hpc = match s.hpc with HN -> "HN" | H0 -> "H0" | H2 -> "H2" | H3 -> "H3" | H4 -> "H4" | HF1 -> "HF1" | HF2 -> "HF2"
                           | HL _ -> "HL" | HP1 _ -> "HP1" | HS1 _ -> "HS1" | HP2 _ -> "HP2" | HS2 _ -> "HS2" | HD _ -> "HD" in
  Printf.sprintf "status=%s,lock=%s,in=%s,out=%s,hs=%s,parkedI=%d,parkedO=%d" st lk ipc opc hpc
    (List.length (flat s.ibr s.ibq)) (List.length (flat s.obr s.obq))

let () =
  register "relay_trace" (function [tm; cs; ss; tr] ->
      let toks = split_on ' ' tr in
      (* parse up to the first token that is no event of the model *)
      let rec parse acc = function
        | [] -> (List.rev acc, None)
        | t :: r -> (match c13_ev t with Some e -> parse (e :: acc) r | None -> (List.rev acc, Some t)) in
      let (evs, unknown) = parse [] toks in
      let nth i = try List.nth toks i with _ -> "?" in
      (match rv_run (bool_of tm) evs O (init (chunks_of cs) (chunks_of ss)) with
       | RvBad (i, s) -> Printf.sprintf "bad:%d:%s:%s" (int_of_nat i) (nth (int_of_nat i)) (c13_state_descr s)
       | RvOk s ->
         (match unknown with
          | Some t -> Printf.sprintf "bad:%d:%s:no-event-of-the-model:%s" (List.length evs) t (c13_state_descr s)
          | None -> "ok:" ^ hex_of_bytes s.slog ^ ":" ^ hex_of_bytes s.clog ^ ":" ^ hex_of_bytes s.blog))
    | _ -> "?args")

(* ---- the reset guard: schedule search on the model ------------------------------------------
   relay_search <ug> <tmux> <client chunks> <server chunks> <turns> : the chunks are over the
   abstract alphabet of Relay.rg_next, <turns> is a canonical (causal) schedule at the level of
   loop iterations: I / O = the input / output reader takes its next chunk and runs until it
   is back at the head of its loop (or blocked), H = the worker runs until it is blocked or
   done, T = the deferred unlock.  The search examines every schedule obtained by cutting ONE
   turn after k >= 1 steps and resuming that thread after a later turn (before its own next
   turn), i.e. every way of delaying one thread in front of one of its operations, and looks
   for a state with conservation broken or bytes parked outside a handshake (Relay.rg_bad).
   <ug> = 0 guarded reset, 1 reset from any state, gen = what the current source has
   (Relay.rg_current, from the regenerated skeleton).
   relay_search prints "none" or "bad:<number of bad schedules>:<first witness>";
   relay_search_list prints "examined=<n>;bad=<m>" followed by up to <max> witnesses
   "|<i>.<k>.<j>;<kind>;<labels up to the end of the resumed turn>" (one per cut point). *)
let c13_rd_str = function RdMore -> "m" | RdOk -> "o" | RdErr -> "e"
let c13_label_str (l : label) : string =
  let b x = if x then "1" else "0" in
  match l with
  | LInRead -> "IR" | LInLoad -> "IL" | LInLock -> "IK" | LInReload -> "IV" | LInAdd -> "IA"
  | LInUnlockP -> "IP" | LInUnlockU -> "IU" | LInSend -> "IS" | LInEnd c -> "IE:" ^ b c
  | LOutRead -> "OR" | LOutLoad -> "OL" | LOutLock -> "OK" | LOutReload -> "OV" | LOutAdd -> "OA"
  | LOutUnlockP -> "OP" | LOutUnlockU -> "OU" | LOutBypass -> "OB"
  | LOutDetect (c, t) -> "OD:" ^ hex_of_bytes c ^ ":" ^ b t
  | LOutStoreH -> "OH" | LOutGo -> "OG" | LOutSend -> "OS" | LOutEnd c -> "OE:" ^ b c
  | LHsAct (n, r) -> "HA:" ^ string_of_int (int_of_nat n) ^ ":" ^ c13_rd_str r
  | LHsSendAct (l, c) -> "HSA:" ^ hex_of_bytes l ^ ":" ^ b c
  | LHsCfg (n, r) -> "HC:" ^ string_of_int (int_of_nat n) ^ ":" ^ c13_rd_str r
  | LHsSendCfg l -> "HSC:" ^ hex_of_bytes l
  | LHsFail1 l -> "HF1:" ^ hex_of_bytes l | LHsFail2 l -> "HF2:" ^ hex_of_bytes l
  | LHsLock -> "HK" | LHsPopI -> "HPI" | LHsSendI -> "HSI" | LHsPopO -> "HPO" | LHsSendO -> "HSO"
  | LHsDone -> "HD" | LTlUnlock -> "TU"

let c13_thread = function 'I' -> RgIn | 'O' -> RgOut | 'H' -> RgHs | 'T' -> RgTl | _ -> failwith "thread"

type c13_exec = { mutable ms : rg_mem * state; mutable labs : label list; mutable nsteps : int;
                  mutable bad : (int * string) option }

let c13_search ug tm cs ss (turns : string) =
  let ci = List.concat cs and si = List.concat ss in
  let n = String.length turns in
  let fresh () = { ms = (rg_mem0, init cs ss); labs = []; nsteps = 0; bad = None } in
  (* run thread th for at most limit steps or until it is back at its loop head / not enabled;
     returns the number of steps taken *)
  let turn (e : c13_exec) th limit =
    let k = ref 0 and go = ref true in
    while !go && !k < limit do
      (match rg_move ug tm th e.ms with
       | None -> go := false
       | Some (l, ms') ->
         e.ms <- ms'; e.labs <- l :: e.labs; e.nsteps <- e.nsteps + 1; incr k;
         if e.bad = None && rg_bad ci si (snd ms') then
           e.bad <- Some (e.nsteps, if rg_stranded (snd ms') then "stranded" else "conservation");
         if rg_at_head th (snd ms') then go := false)
    done; !k in
  (* canonical run: the length of every turn *)
  let canon = fresh () in
  let lens = Array.init n (fun t -> turn canon (c13_thread turns.[t]) 1000) in
  let examined = ref 0 and found = ref [] and nbad = ref 0 in
  if canon.bad <> None then begin incr nbad; found := ["-1.0.0;canonical;" ^ String.concat " " (List.rev_map c13_label_str canon.labs)] end;
  for i = 0 to n - 1 do
    let x = turns.[i] in
    for k = 1 to lens.(i) - 1 do
      let first = ref true in
      let j = ref (i + 1) in
      while !j < n && turns.[!j] <> x do
        incr examined;
        let e = fresh () in
        let cut = ref 0 in
        for t = 0 to n - 1 do
          if t = i then ignore (turn e (c13_thread x) k) else ignore (turn e (c13_thread turns.[t]) 1000);
          if t = !j then begin ignore (turn e (c13_thread x) 1000); cut := e.nsteps end
        done;
        (match e.bad with
         | Some (at, kind) ->
           incr nbad;
           if !first then begin
             first := false;
             let labs = List.rev e.labs in
             let upto = (ignore at; !cut) in
             let pre = List.filteri (fun idx _ -> idx < upto) labs in
             found := (Printf.sprintf "%d.%d.%d;%s;%s" i k !j kind (String.concat " " (List.map c13_label_str pre))) :: !found
           end
         | None -> ());
        incr j
      done
    done
  done;
  (!examined, !nbad, List.rev !found, List.rev_map c13_label_str canon.labs)

let c13_ug = function "0" -> false | "1" -> true | "gen" -> rg_current | _ -> failwith "ug"

let () =
  register "relay_search" (function [ug; tm; cs; ss; turns] ->
      let (_, nbad, found, _) = c13_search (c13_ug ug) (bool_of tm) (chunks_of cs) (chunks_of ss) turns in
      (match found with [] -> "none" | w :: _ -> Printf.sprintf "bad:%d:%s" nbad w)
    | _ -> "?args");
  register "relay_search_list" (function [ug; tm; cs; ss; turns; mx] ->
      let (ex, nbad, found, _) = c13_search (c13_ug ug) (bool_of tm) (chunks_of cs) (chunks_of ss) turns in
      let rec take k = function [] -> [] | x :: r -> if k = 0 then [] else x :: take (k - 1) r in
      String.concat "|" (Printf.sprintf "examined=%d;bad=%d" ex nbad :: take (int_of_string mx) found)
    | _ -> "?args");
  (* relay_canon: the label sequence of the canonical schedule itself *)
  register "relay_canon" (function [ug; tm; cs; ss; turns] ->
      let (_, _, _, canon) = c13_search (c13_ug ug) (bool_of tm) (chunks_of cs) (chunks_of ss) turns in
      String.concat " " canon
    | _ -> "?args");
  (* relay_guard_run <ug> <tmux> <client chunks> <server chunks> <labels>: a label sequence on
     rg_run; prints "none" (not a path), "ok" or the kind of violation of the final state *)
  register "relay_guard_run" (function [ug; tm; cs; ss; ls] ->
      let cs = chunks_of cs and ss = chunks_of ss in
      let labels = List.map c13_label (split_on ' ' ls) in
      (match rg_run (c13_ug ug) (bool_of tm) labels (init cs ss) with
       | None -> "none"
       | Some s -> if rg_stranded s then "stranded" else if rg_bad (List.concat cs) (List.concat ss) s then "conservation" else "ok")
    | _ -> "?args")
