open Model
open Util

(* source script: "." = nothing, else comma-separated d<hex> (data) / e<hex> (data with EOF) *)
let c03p_ev s =
  let d = bytes_of_hex (String.sub s 1 (String.length s - 1)) in
  if s.[0] = 'e' then SrcEnd d else SrcData d
let c03p_evs s = if s = "." then [] else List.map c03p_ev (String.split_on_char ',' s)

let c03p_kind = function
  | "transfer" -> PTransfer | "filter" -> PFilter | "relay-in" -> PRelayIn | "relay-out" -> PRelayOut
  | "tunnel-in" -> PTunnelIn | "tunnel-out" -> PTunnelOut | k -> failwith ("pump kind " ^ k)

let () =
  register "pump_run" (function [kind; flags; evs; ops] ->
      let f i = flags.[i] = '1' in
      let ((rs, pops), fwd) = pump_run (c03p_kind kind) (f 0) (f 1) (f 2) (c03p_evs evs) (M_buffer.c03_ops ops) in
      M_buffer.c03_results rs ^ "|" ^ M_buffer.c03_str_chunks pops ^ "|" ^ M_buffer.c03_str_chunks fwd
    | _ -> "?args")
