(* C05: evaluators for the extracted filter model (Model/Filter.v) *)
open Model
open Util

let c05_kind = function "d" -> KDir | "r" -> KRegular | _ -> KOther

(* "hexpath:d,hexpath:r" -> oracle *)
let c05_exists (s : string) : n list -> kind option =
  let tab = List.map (fun e -> match String.split_on_char ':' e with
      | [p; k] -> (bytes_of_hex p, c05_kind k) | _ -> failwith "exists") (split_on ',' s) in
  fun p -> List.assoc_opt p tab

let c05_flag s i = s.[i] = '1'

let c05_event (tok : string) : unit event =
  let rest = String.sub tok 1 (String.length tok - 1) in
  match tok.[0] with
  | 'o' -> EvOut (bytes_of_hex rest)
  | 'i' -> EvIn (bytes_of_hex rest)
  | 'D' -> EvDetectOn
  | 'T' -> EvHoldTimer
  | 'g' -> EvDrag (nat_of_int (int_of_string rest))
  | 'u' -> EvApiUpload ([], rest = "1")   (* UploadFiles API; the paths themselves are never observable *)
  | _ -> failwith "event"

let c05_obs = function
  | ToTerm b -> "t" ^ hex_of_bytes b
  | ToServer b -> "s" ^ hex_of_bytes b
  | Clip b -> "c" ^ hex_of_bytes b

let () =
  register "c05_run" (function [flags; cmd; ex; zd; mon; moff; evs] ->
      let o = { o_drag = c05_flag flags 0; o_trace = c05_flag flags 1; o_zmodem = c05_flag flags 2;
                o_osc52 = c05_flag flags 3; o_cmd = bytes_of_hex cmd; o_cmd_not_trz = c05_flag flags 4;
                o_fixed = true (* the current source: handleTrzsz closes an open stop prompt on return *) } in
      let zset = chunks_of zd in
      let obs = corr_run (c05_exists ex) (fun c -> List.mem c zset) (bytes_of_hex mon) (bytes_of_hex moff) o
          (c05_flag flags 5) (List.map c05_event (split_on ',' evs)) in
      if obs = [] then "-" else String.concat "," (List.map c05_obs obs)
    | _ -> "?args");
  register "c05_window" (function [w; cs] ->
      let (shown, n) = FilterDet.c05_window (bool_of w) (chunks_of cs) in
      hex_of_chunks shown ^ "|" ^ string_of_int (int_of_nat n)
    | _ -> "?args");
  register "c05_osc52" (function [cs] ->
      let (seq, clips) = List.fold_left (fun (seq, acc) c ->
          let (seq', cl) = detect_osc52 seq c in (seq', acc @ cl)) (None, []) (chunks_of cs) in
      (match seq with None -> "n" | Some b -> "b" ^ hex_of_bytes b) ^ "|" ^ hex_of_chunks clips
    | _ -> "?args");
  register "c05_drag" (function [ex; buf] ->
      let r = detect_drag_linux (c05_exists ex) (bytes_of_hex buf) in
      (match r.d_files with
       | None -> "none"
       | Some (fs, hd) -> "files:" ^ hex_of_chunks fs ^ ":" ^ str_of_bool hd)
      ^ ":" ^ str_of_bool r.d_ignore ^ ":" ^ str_of_bool r.d_win
    | _ -> "?args");
  register "c05_trim" (function [buf] ->
      hex_of_bytes (trim_right Consts.skip_trim_cutset (trim_vt100 (bytes_of_hex buf)))
    | _ -> "?args")
