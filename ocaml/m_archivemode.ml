(* C15: evaluator for Model/ArchiveMode.v - who decides that a root travels as an archive *)
open Model
open Util

(* scan: entries "id:relhex/relhex:isdir:size" joined by ';' *)
let c15m_scan s =
  List.map (fun e ->
      match String.split_on_char ':' e with
      | [id; p; d; sz] ->
        { amo_id = nat_of_int (int_of_string id);
          amo_rel = (if p = "" then [] else List.map bytes_of_hex (String.split_on_char '/' p));
          amo_isdir = bool_of d; amo_size = z_of_string sz; amo_data = [] }
      | _ -> failwith "c15m scan entry") (split_on ';' s)

let c15m_hexpath p =
  String.concat "/" (List.map (fun n -> let h = hex_of_bytes n in if h = "-" then "" else h) p)

let c15m_skind = function AmoSArchive -> "archive" | AmoSNone -> "none" | AmoSFile -> "file"
let c15m_rkind = function AmoRArchive -> "archive" | AmoRNone -> "none" | AmoRFile -> "file" | AmoRErr -> "err"

let () =
  register "amo_plan" (function [ow; proto; scan] ->
      (match amo_plan (bool_of ow) (n_of_int (int_of_string proto)) (c15m_scan scan) with
       | None -> "panic"
       | Some [] -> "-"
       | Some steps ->
         String.concat ";" (List.map (function
             | AmoNil -> "nil"
             | AmoStep (n, k, s, r) ->
               Printf.sprintf "%d:%s:%s:%s:%d:%s:%s:%s" (int_of_nat n.amn_id) (c15m_hexpath n.amn_rel)
                 (str_of_bool n.amn_isdir) (str_of_bool n.amn_archive) (int_of_nat k) (string_of_z n.amn_size)
                 (c15m_skind s) (c15m_rkind r)) steps))
    | _ -> "?args")

let () =
  register "amo_compress" (function [proto; ctype; binary; size] ->
      (match amo_archive_compress (n_of_int (int_of_string proto)) (n_of_int (int_of_string ctype)) (bool_of binary)
               (n_of_int (int_of_string size)) with
       | AmoCompFixed c -> "fixed:" ^ str_of_bool c
       | AmoCompProbed c -> "probed:" ^ str_of_bool c
       | AmoCompErr -> "err")
    | _ -> "?args")

