(* evaluators for Model/Guards.v (property C12) *)
open Model
open Util

let c12_jnum (s : string) : jnum =
  if s = "absent" then JAbsent
  else
    let b = bytes_of_hex s in
    let txt = String.concat "" (List.map (fun n -> String.make 1 (Char.chr (int_of_n n))) b) in
    if txt = "null" then JNull else gd_json_int_literal b

let c12_cfg bs = { bufsize = z_of_string bs; term_cols = Z0 }

let c12_data = function DReject -> "rej" | DFinish -> "fin" | DRead n -> "read:" ^ string_of_z n

let () =
  register "c12_parse_int" (function [s] ->
      (match gd_parse_int64 (bytes_of_hex s) with Some v -> "ok:" ^ string_of_z v | None -> "err") | _ -> "?args");
  register "c12_cur_ack" (function [a; b] ->
      (match recv_current_ack (bytes_of_hex a) (bytes_of_hex b) with
       | Some (l, s) -> "ok:" ^ string_of_z l ^ "/" ^ string_of_z s | None -> "err") | _ -> "?args");
  register "c12_final_acks" (function [size; ls] ->
      let (f, e) = recv_final_acks (z_of_string size) (chunks_of ls) in
      (if f = [] then "-" else String.concat "," (List.map string_of_z f)) ^ ":" ^
      (match e with Some true -> "succ" | Some false -> "cancel" | None -> "none") | _ -> "?args");
  register "c12_cfg" (function [b; p; t; pr] ->
      (match recv_config (c12_jnum b) (c12_jnum p) (c12_jnum t) (c12_jnum pr) with
       | Some (((b, p), t), pr) -> "ok:" ^ String.concat "," (List.map string_of_z [b; p; t; pr])
       | None -> "err") | _ -> "?args");
  register "c12_data_v2" (function [bs; s] -> c12_data (recv_binary_data_v2 (c12_cfg bs) (bytes_of_hex s)) | _ -> "?args");
  register "c12_data_v1" (function [bs; s] -> c12_data (recv_binary_data_v1 (c12_cfg bs) (bytes_of_hex s)) | _ -> "?args");
  register "c12_hash" (function [fsize; steps; goods] ->
      let steps = if steps = "-" then [] else List.map z_of_string (String.split_on_char ',' steps) in
      let recs = List.mapi (fun i st -> { h_step = st; h_good = goods.[i] = '1' }) steps in
      let (acks, res) = recv_hashes true (z_of_string fsize) Z0 Z0 true recs in
      (if acks = [] then "-" else String.concat "," (List.map (fun (st, m) -> string_of_z st ^ "." ^ str_of_bool m) acks)) ^ ":" ^
      (match res with HInvalid -> "invalid" | HPanic -> "panic" | HShort -> "short" | HOk ms -> "ok." ^ string_of_z ms)
    | _ -> "?args");
  register "c12_bar" (function [term; pane] -> string_of_z (bar_columns (z_of_string term) (z_of_string pane)) | _ -> "?args");
  register "c12_version" (function [s] ->
      (* splitting at the dots is glue; the three components go to the model *)
      let b = bytes_of_hex s in
      let rec split cur acc = function
        | [] -> List.rev (List.rev cur :: acc)
        | c :: r -> if int_of_n c = 46 then split [] (List.rev cur :: acc) r else split (c :: cur) acc r in
      (match split [] [] b with
       | [a; b; c] -> (match gd_parse_version a b c with
           | Some ((x, y), z) -> "ok:" ^ String.concat "." (List.map string_of_z [x; y; z]) | None -> "err")
       | _ -> "err") | _ -> "?args");
  register "c12_target_size" (function [s] ->
      (match gd_target_size (c12_jnum s) with Some v -> "ok:" ^ string_of_z v | None -> "err") | _ -> "?args")

(* c12_bufevo <maxbuf> <lens csv> <times csv>: times 0 = fast, 1 = between the thresholds, k >= 2 = slow with k seconds *)
let () =
  register "c12_bufevo" (function [mb; lens; times] ->
      let lens = if lens = "-" then [] else List.map z_of_string (String.split_on_char ',' lens) in
      let times = if times = "-" then [] else List.map int_of_string (String.split_on_char ',' times) in
      let acks = List.map2 (fun l t -> { ga_len = l; ga_time = (if t = 0 then GdFast else if t = 1 then GdMid else GdSlow (z_of_int t)) }) lens times in
      String.concat "," (List.map string_of_z (gd_capacities (z_of_string mb) acks))
    | _ -> "?args")

(* c12_bufevo_ms <maxbuf> <lens csv> <ms csv>: sizes, or "panic" (integer divide by zero) *)
let () =
  register "c12_bufevo_ms" (function [mb; lens; ms] ->
      let zs x = if x = "-" then [] else List.map z_of_string (String.split_on_char ',' x) in
      (match gd_capacities_ms (z_of_string mb) (List.combine (zs lens) (zs ms)) with
       | Some cs -> String.concat "," (List.map string_of_z cs)
       | None -> "panic")
    | _ -> "?args");
  register "c12_line_split" (function [line] ->
      (match gd_line_split (z_of_int 1) (bytes_of_hex line) with
       | GdSplitReject -> "rej" | GdSplitPanic -> "panic"
       | GdSplitOk (t, _) -> "typ:" ^ hex_of_bytes t)
    | _ -> "?args")
