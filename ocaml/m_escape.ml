open Model
open Util

let table_of s = pairs (bytes_of_hex s)

let codes_str (t : (n * n) list) =
  let b = Buffer.create 256 in
  Buffer.add_string b "E";
  Array.iteri (fun i n -> match esc_code t n with Some c -> Buffer.add_string b (Printf.sprintf "%02x%02x" i (int_of_n c)) | None -> ()) byte_tab;
  Buffer.add_string b "U";
  Array.iteri (fun i n -> match unesc_code t n with Some c -> Buffer.add_string b (Printf.sprintf "%02x%02x" i (int_of_n c)) | None -> ()) byte_tab;
  Buffer.contents b

let () =
  register "escape" (function [t; d] -> hex_of_bytes (escape (table_of t) (bytes_of_hex d)) | _ -> "?args");
  register "unescape" (function [t; d; dl] ->
      (match unescape_data (table_of t) (bytes_of_hex d) (nat_of_int (int_of_string dl)) with
       | UOk (o, r) -> "ok:" ^ hex_of_bytes o ^ ":" ^ hex_of_bytes r
       | UErr c -> "err:" ^ string_of_int (int_of_n c))
    | _ -> "?args");
  register "er_run" (function [t; cs; sizes; dflt] ->
      let cs = chunks_of cs in
      let (outs, e) = er_run (er_fuel [] cs) (table_of t) [] cs
          (List.map nat_of_int (ints_of sizes)) (nat_of_int (int_of_string dflt)) in
      hex_of_chunks outs ^ (match e with
          | EndEof _ -> ":eof" | EndErr c -> ":err:" ^ string_of_int (int_of_n c) | EndFuel -> ":fuel")
    | _ -> "?args");
  register "er_run_empty" (function [cs; sizes; dflt] ->
      let cs = chunks_of cs in
      hex_of_chunks (er_run_passthru (er_passthru_fuel cs) cs (List.map nat_of_int (ints_of sizes)) (nat_of_int (int_of_string dflt))) ^ ":eof"
    | _ -> "?args");
  register "ew_write" (function [t; cs] -> hex_of_chunks (ew_write (table_of t) (chunks_of cs)) | _ -> "?args");
  register "builtin_table" (function [a] -> codes_str (builtin_table (bool_of a)) | _ -> "?args");
  register "table_of_json" (function [a] ->
      let entries = List.map (fun e -> List.map (fun s -> List.map (fun x -> n_of_int (int_of_string x)) (if s = "" then [] else String.split_on_char '.' s))
                                 (if e = "" then [] else String.split_on_char ',' e))
          (split_on ';' a) in
      (match table_of_json entries with Some t -> codes_str t | None -> "none")
    | _ -> "?args")
