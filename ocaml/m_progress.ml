(* C20: evaluators for the progress-line model (Model/Progress.v) *)
open Model
open Util

(* strings travel as comma-separated hex code points, "-" = empty *)
let c20_runes_of s = List.map (fun x -> n_of_int (int_of_string ("0x" ^ x))) (split_on ',' s)
let c20_of_runes (l : n list) =
  if l = [] then "-" else String.concat "," (List.map (fun r -> Printf.sprintf "%x" (int_of_n r)) l)

(* rune width table "cp:w,cp:w" (hex cp); a rune outside the table is an error *)
let c20_w tab =
  let h = Hashtbl.create 64 in
  List.iter (fun e -> match String.split_on_char ':' e with
      | [cp; w] -> Hashtbl.replace h (int_of_string ("0x" ^ cp)) (nat_of_int (int_of_string w))
      | _ -> failwith "wtab") (split_on ',' tab);
  fun (r : n) -> match Hashtbl.find_opt h (int_of_n r) with Some v -> v | None -> failwith "w: rune not in table"

(* string width table "runes=w;runes=w" *)
let c20_sw tab =
  let h = Hashtbl.create 16 in
  List.iter (fun e -> match String.split_on_char '=' e with
      | [s; w] -> Hashtbl.replace h s (nat_of_int (int_of_string w))
      | _ -> failwith "swtab") (split_on ';' tab);
  fun (s : n list) -> match Hashtbl.find_opt h (c20_of_runes s) with Some v -> v | None -> failwith "sw: string not in table"

(* remove SGR sequences ESC [ [0-9;]* m *)
let c20_strip (l : n list) : n list =
  let a = Array.of_list (List.map int_of_n l) in
  let n = Array.length a in
  let out = ref [] in
  let i = ref 0 in
  while !i < n do
    if a.(!i) = 27 && !i + 1 < n && a.(!i + 1) = 91 then begin
      let j = ref (!i + 2) in
      while !j < n && ((a.(!j) >= 48 && a.(!j) <= 57) || a.(!j) = 59) do incr j done;
      if !j < n && a.(!j) = 109 then i := !j + 1
      else begin out := a.(!i) :: !out; incr i end
    end else begin out := a.(!i) :: !out; incr i end
  done;
  List.rev_map n_of_int !out

let c20_zs = z_of_string

let c20_op s : op =
  match String.split_on_char ':' s with
  | ["N"; n] -> OpNum (c20_zs n)
  | ["M"; nm] -> OpName (c20_runes_of nm)
  | ["Z"; z] -> OpSize (c20_zs z)
  | ["S"; z; now; t; sp; e] -> OpStep (c20_zs z, c20_zs now, c20_runes_of t, c20_runes_of sp, c20_runes_of e)
  | ["D"; now; t; sp; e] -> OpDone (c20_zs now, c20_runes_of t, c20_runes_of sp, c20_runes_of e)
  | ["P"; z] -> OpPre (c20_zs z)
  | ["U"; b] -> OpPause (bool_of b)
  | ["C"; c] -> OpCols (c20_zs c)
  | _ -> failwith ("op " ^ s)

let () =
  register "ellipsis" (function [wtab; s; mx] ->
      let (t, l) = ellipsis (c20_w wtab) (c20_runes_of s) (c20_zs mx) in
      c20_of_runes t ^ ":" ^ string_of_z l
    | _ -> "?args");
  register "ptext" (function [cols; count; idx; name; fstep; fsize; pct; total; speed; eta; wtab; swtab; strip] ->
      (match progress_text (c20_w wtab) (c20_sw swtab) mdr_exact (c20_zs cols) (c20_zs count) (c20_zs idx) (c20_runes_of name)
               (c20_zs fstep) (c20_zs fsize) (c20_runes_of pct) (c20_runes_of total) (c20_runes_of speed) (c20_runes_of eta) with
       | TPanic -> "panic"
       | TOk s -> c20_of_runes (if bool_of strip then c20_strip s else s))
    | _ -> "?args");
  register "pbar" (function [fstep; fsize; len; strip] ->
      (match progress_bar mdr_exact (c20_zs fstep) (c20_zs fsize) (c20_zs len) with
       | BPanic -> "panic"
       | BOk s -> c20_of_runes (if bool_of strip then c20_strip s else s))
    | _ -> "?args");
  register "pbar_unfixed" (function [fstep; fsize; len] ->
      (match progress_bar_unfixed (c20_zs fstep) (c20_zs fsize) (c20_zs len) with
       | BPanic -> "panic"
       | BOk s -> c20_of_runes s)
    | _ -> "?args");
  register "ppct" (function [fstep; fsize] -> c20_of_runes (pct_text_cur mdr_exact (c20_zs fstep) (c20_zs fsize)) | _ -> "?args");
  register "prun" (function [cols; tmux; ops; wtab; swtab; strip] ->
      let ops = List.map c20_op (split_on '/' ops) in
      let w = c20_w wtab and sw = c20_sw swtab in
      (* op by op, so that a panic ends the run as it does in the implementation *)
      let st = ref (new_bar (c20_zs cols) (c20_zs tmux)) in
      let outs = ref [] in
      let stop = ref false in
      List.iter (fun o ->
          if not !stop then begin
            let (st', ws) = run_cur w sw mdr_exact [o] !st in
            st := st';
            let ws = List.concat ws in
            let parts = List.map (fun x -> match wr_bytes x with
                | None -> stop := true; "panic"
                | Some b -> c20_of_runes (if bool_of strip then c20_strip b else b)) ws in
            outs := (if parts = [] then "." else String.concat "+" parts) :: !outs
          end) ops;
      let s = !st in
      String.concat "/" (List.rev !outs) ^ "|" ^
      String.concat "," (List.map string_of_z [s.p_step; s.p_size; s.p_pre; s.p_idx; s.p_count; s.p_cols; s.p_tmux])
    | _ -> "?args")

(* ---- the session (filter.options.TerminalColumns + the live bar) ---- *)
let c20_tick s : tick =
  match String.split_on_char ':' s with
  | ["N"; n] -> TkNum (c20_zs n)
  | ["M"; nm] -> TkName (c20_runes_of nm)
  | ["Z"; z] -> TkSize (c20_zs z)
  | ["S"; z; now; t; sp; e] -> TkStep (c20_zs z, c20_zs now, c20_runes_of t, c20_runes_of sp, c20_runes_of e)
  | ["D"; now; t; sp; e] -> TkDone (c20_zs now, c20_runes_of t, c20_runes_of sp, c20_runes_of e)
  | ["P"; z] -> TkPre (c20_zs z)
  | ["U"; b] -> TkPause (bool_of b)
  | _ -> failwith ("tick " ^ s)

let c20_sevent s : sevent =
  match String.split_on_char '~' s with
  | ["R"; c] -> SeResize (c20_zs c)
  | ["B"; q; pane] -> SeStart (bool_of q, c20_zs pane)
  | ["T"; t] -> SeTick (c20_tick t)
  | ["O"] -> SePromptOpen
  | ["K"] -> SePromptClose
  | ["E"] -> SeEnd
  | _ -> failwith ("sevent " ^ s)

let c20_sess_state (s : session) =
  string_of_z s.s_cols ^ ";" ^
  (match s.s_bar with
   | None -> "nobar"
   | Some b -> String.concat "," (List.map string_of_z [b.p_step; b.p_size; b.p_pre; b.p_idx; b.p_count; b.p_cols; b.p_tmux]))

let () =
  (* a session history, event by event; a panic ends it as it does in the implementation *)
  register "psess" (function [cols; evs; wtab; swtab] ->
      let evs = List.map c20_sevent (split_on '/' evs) in
      let w = c20_w wtab and sw = c20_sw swtab in
      let st = ref (sess_init (c20_zs cols)) in
      let outs = ref [] in
      let stop = ref false in
      List.iter (fun e ->
          if not !stop then begin
            let (st', ws) = sess_step_cur w sw mdr_exact e !st in
            st := st';
            let parts = List.map (fun x -> match swr_bytes x with
                | None -> stop := true; "panic"
                | Some b -> c20_of_runes b) ws in
            outs := (if parts = [] then "." else String.concat "+" parts) :: !outs
          end) evs;
      String.concat "/" (List.rev !outs) ^ "|" ^ c20_sess_state !st
    | _ -> "?args");
  (* the layout width of the live bar after each marked point of an end-to-end session:
     events R~c, B~quiet~pane, E, O, K and the marker L (a line was drawn: report the bar's width) *)
  register "psess_widths" (function [cols; evs] ->
      let w = (fun _ -> nat_of_int 1) and sw = (fun l -> nat_of_int (List.length l)) in
      let st = ref (sess_init (c20_zs cols)) in
      let outs = ref [] in
      List.iter (fun e ->
          if e = "L" then
            outs := (match (!st).s_bar with None -> "nobar" | Some b -> string_of_z b.p_cols) :: !outs
          else st := fst (sess_step_cur w sw mdr_exact (c20_sevent e) !st)) (split_on '/' evs);
      if !outs = [] then "-" else String.concat "," (List.rev !outs)
    | _ -> "?args")

(* ---- the order of the callbacks of a transfer (cb_lang_ok) ---- *)
let () =
  register "pcborder" (function [ops] ->
      str_of_bool (cb_lang_ok (List.map c20_op (split_on '/' ops)))
    | _ -> "?args")
