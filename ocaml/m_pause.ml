(* C18: evaluators for the pause/resume model (Model/Pause.v).

   pm_reader  unit_ms proto timeout_s expect-hex horizon schedule measured tol_ms
       schedule = slot:kind[:hexline],...   kinds C (call) A (arrive) P (pause) R (resume) S (stop)
       measured = class:pause:payloadhex:ms   as observed on the real recvCheckV2
       result   = "match" when the model predicts the same outcome class, pause flag, payload and a
                  return time within tol_ms of the measured one; otherwise "pred=<prediction>"
   pm_gate    unit_ms proto horizon schedule measured tol_ms
       schedule kinds C P R S ; measured = class:keepalives:ms ; same convention
   pm_classify expect-hex line-hex  ->  keep | good | nocolon | wrongtype
   pm_keepalive typ-hex -> the keep-alive line the gate writes, hex (without newline) *)
open Model
open Util

let parse_sched (s : string) : (int * char * string) list =
  List.map (fun it ->
      match String.split_on_char ':' it with
      | [slot; k] -> (int_of_string slot, k.[0], "")
      | [slot; k; h] -> (int_of_string slot, k.[0], h)
      | _ -> failwith "sched") (split_on ',' s)

let events_at sched j = List.filter (fun (s, _, _) -> s = j) sched

let () =
  register "pm_classify" (function [e; l] ->
      (match classify (bytes_of_hex e) (bytes_of_hex l) with
       | CKeep -> "keep" | CGood -> "good" | CNoColon -> "nocolon" | CWrongType -> "wrongtype")
    | _ -> "?args");
  register "pm_keepalive" (function [t] -> hex_of_bytes (keepalive_line (bytes_of_hex t)) | _ -> "?args");
  register "pm_reader" (function [u; proto; tmo; expect; horizon; sched; measured; tol] ->
      let u = int_of_string u in
      let cf = cfg_of (n_of_int u) (z_of_int (int_of_string tmo)) (n_of_int (int_of_string proto)) in
      let cls = classify (bytes_of_hex expect) in
      let sched = parse_sched sched in
      let st = ref (rinit : n list rstate) in
      let res = ref None in
      let feed j e =
        if !res = None then begin
          let (s', o) = rstep cls cf !st e in
          st := s';
          match o with
          | Some (ODelivered (l, p)) -> res := Some ("ok", p, hex_of_bytes (payload_of l), j)
          | Some (OTimeout p) -> res := Some ("timeout", p, "-", j)
          | Some (OStopped p) -> res := Some ("stopped", p, "-", j)
          | Some (OBadLine p) -> res := Some ("bad", p, "-", j)
          | None -> ()
        end in
      for j = 0 to int_of_string horizon do
        if j > 0 then feed j ETick;
        List.iter (fun (_, k, h) ->
            feed j (match k with
                | 'C' -> ECall | 'A' -> EArrive (bytes_of_hex h) | 'P' -> EPause | 'R' -> EResume
                | 'S' -> EStop | _ -> failwith "kind")) (events_at sched j)
      done;
      let pred = match !res with
        | None -> ("none", false, "-", -1)
        | Some r -> r in
      let (pc, pp, pl, pj) = pred in
      let pred_s = Printf.sprintf "%s:%s:%s:%d" pc (str_of_bool pp) pl (pj * u) in
      (match String.split_on_char ':' measured with
       | [mc; mp; ml; mms] ->
         let dt = abs (int_of_string mms - pj * u) in
         if mc = pc && (mc = "none" || (mp = str_of_bool pp && ml = pl && dt <= int_of_string tol))
         then "match" else "pred=" ^ pred_s
       | _ -> "pred=" ^ pred_s)
    | _ -> "?args");
  register "pm_gate" (function [u; proto; horizon; sched; measured; tol] ->
      let u = int_of_string u in
      let cf = cfg_of (n_of_int u) (z_of_int 1) (n_of_int (int_of_string proto)) in
      let sched = parse_sched sched in
      let st = ref { s_pausing = false; s_stopped = false; s_ph = SIdle } in
      let keeps = ref 0 in
      let res = ref None in
      let called = ref false in
      let feed j e =
        if !res = None then begin
          let (s', ws) = sstep cf !st e in
          st := s';
          List.iter (function
              | WKeep -> incr keeps
              | WStopErr -> res := Some ("stopped", j)
              | WFrame -> ()) ws;
          if !res = None && !called && s'.s_ph = SPassed then res := Some ("ok", j)
        end in
      for j = 0 to int_of_string horizon do
        if j > 0 then feed j STick;
        List.iter (fun (_, k, _) ->
            (match k with 'C' -> called := true | _ -> ());
            feed j (match k with
                | 'C' -> SCall | 'P' -> SPauseEv | 'R' -> SResumeEv | 'S' -> SStopEv | _ -> failwith "kind"))
          (events_at sched j)
      done;
      let (pc, pj) = match !res with None -> ("none", -1) | Some r -> r in
      let pred_s = Printf.sprintf "%s:%d:%d" pc !keeps (pj * u) in
      (match String.split_on_char ':' measured with
       | [mc; mk; mms] ->
         let dt = abs (int_of_string mms - pj * u) in
         if mc = pc && int_of_string mk = !keeps && (mc = "none" || dt <= int_of_string tol)
         then "match" else "pred=" ^ pred_s
       | _ -> "pred=" ^ pred_s)
    | _ -> "?args")

(* pc_sim T SL GL n W P events : runs the composition with the real reader machines (cstep) and the
   abstract composition (astep) side by side on the same schedule; events that are not enabled are
   skipped (they must be disabled in both); after every step abs_of (concrete) must equal the abstract
   state.  Result "agree:<bad>" (bad = 1 when an error was reached, comparison stops there). *)
let () =
  register "pc_sim" (function [t; sl; gl; n; w; p; evs] ->
      let ni s = nat_of_int (int_of_string s) in
      let cf = { cT = ni t; cSL = ni sl; cGL = ni gl; cP3 = true } in
      let n = ni n and w = ni w and p = ni p in
      let s = ref (cinit n) and a = ref (ainit n) in
      let res = ref "" in
      let steps = ref 0 in
      String.iteri (fun i ch ->
          if !res = "" then begin
            let x = match ch with
              | 'T' -> XTick | 'P' -> XPause | 'R' -> XResume | 'C' -> XSCall | 'W' -> XSWrite
              | 'U' -> XSPush | 'r' -> XRCall | 'a' -> XATake | _ -> failwith "ev" in
            match cstep cf n w p !s x, astep cf n w p !a x with
            | None, None -> ()
            | Some s', Some a' ->
              incr steps;
              if a'.xBad then begin
                if (abs_of s').xBad then res := "agree:1" else res := Printf.sprintf "bad-only-abstract@%d" i
              end else if abs_of s' = a' then (s := s'; a := a')
              else res := Printf.sprintf "mismatch@%d" i
            | Some _, None -> res := Printf.sprintf "abstract-disabled@%d" i
            | None, Some _ -> res := Printf.sprintf "concrete-disabled@%d" i
          end) evs;
      if !res = "" then "agree:0" else !res
    | _ -> "?args")
let () =
  register "pc_sim_any" (fun args ->
      match Hashtbl.find_opt Util.table "pc_sim" with
      | Some f -> let r = f args in if r = "agree:0" || r = "agree:1" then "agree" else r
      | None -> "?")
