(* C18: evaluators for the pause/resume model (Model/Pause.v).

   pm_reader  unit_ms proto timeout_s expect-hex horizon schedule measured tol_ms
       schedule = slot:kind[:hexline],...   kinds C (call) A (arrive) P (pause) R (resume) S (stop)
       measured = class:pause:payloadhex:ms   as observed on the real recvCheckV2
       result   = "match" when the model predicts the same outcome class, pause flag, payload and a
                  return time within tol_ms of the measured one; otherwise "pred=<prediction>"
   pm_gate    unit_ms proto horizon schedule measured tol_ms
       schedule kinds C P R S ; measured = class:keepalives:ms ; same convention
   pm_classify expect-hex line-hex  ->  keep | good | nocolon | wrongtype
   pm_keepalive typ-hex -> the keep-alive line the gate writes, hex (without newline) *)
open Model
open Util

let parse_sched (s : string) : (int * char * string) list =
  List.map (fun it ->
      match String.split_on_char ':' it with
      | [slot; k] -> (int_of_string slot, k.[0], "")
      | [slot; k; h] -> (int_of_string slot, k.[0], h)
      | _ -> failwith "sched") (split_on ',' s)

let events_at sched j = List.filter (fun (s, _, _) -> s = j) sched

(* Real sleeps last AT LEAST their nominal 100 ms; on a busy machine every sleep of a chain ends some ms late and the
   lateness adds up, so a wake-up can fall behind the next scripted event.  The model is therefore also run with
   longer sleeps (the same for every sleep of the run) and has to explain the observation for one of them. *)
let pause_stretches = List.init 31 (fun i -> i)       (* extra ms per sleep *)
(* ... and the goroutine that makes the call under test may itself start late: the call is also tried up to 60 ms
   after its slot (only when no stretch alone explains the observation) *)
let pause_variants =
  List.map (fun d -> (d, 0)) pause_stretches
  @ List.concat_map (fun cl -> List.map (fun d -> (d, cl)) [0; 5; 10; 20]) [10; 20; 30; 40; 50; 60]
let pause_stretch cf0 d = { cf0 with cSL = nat_of_int (int_of_nat cf0.cSL + d); cGL = nat_of_int (int_of_nat cf0.cGL + d) }

let () =
  register "pm_classify" (function [e; l] ->
      (match classify (bytes_of_hex e) (bytes_of_hex l) with
       | CKeep -> "keep" | CGood -> "good" | CNoColon -> "nocolon" | CWrongType -> "wrongtype")
    | _ -> "?args");
  register "pm_keepalive" (function [t] -> hex_of_bytes (keepalive_line (bytes_of_hex t)) | _ -> "?args");
  register "pm_reader" (function [u; proto; tmo; expect; horizon; sched; measured; tol] ->
      let u = int_of_string u in
      let cls = classify (bytes_of_hex expect) in
      let sched = parse_sched sched in
      let hticks = int_of_string horizon * u in
      (* the run at 1 ms resolution with sleeps [sl] ms longer than written (0, or more when the machine is busy and every
         sleep of the chain ends late) *)
      let sim (sl, cl) =
        let cf0 = cfg_of (n_of_int 1) (z_of_int (int_of_string tmo)) (n_of_int (int_of_string proto)) in
        let cf = pause_stretch cf0 sl in
        let timed = List.map (fun (sl0, k, h) -> ((if k = 'C' then sl0 * u + cl else sl0 * u), k, h)) sched in
        let st = ref (rinit : n list rstate) in
        let res = ref None in
        let feed j e =
          if !res = None then begin
            let (s', o) = rstep cls cf !st e in
            st := s';
            match o with
            | Some (ODelivered (l, p)) -> res := Some ("ok", p, hex_of_bytes (payload_of l), j)
            | Some (OTimeout p) -> res := Some ("timeout", p, "-", j)
            | Some (OStopped p) -> res := Some ("stopped", p, "-", j)
            | Some (OBadLine p) -> res := Some ("bad", p, "-", j)
            | None -> ()
          end in
        for j = 0 to hticks do
          if j > 0 then feed j ETick;
          List.iter (fun (_, k, h) ->
              feed j (match k with
                  | 'C' -> ECall | 'A' -> EArrive (bytes_of_hex h) | 'P' -> EPause | 'R' -> EResume
                  | 'S' -> EStop | _ -> failwith "kind")) (events_at timed j)
        done;
        match !res with None -> ("none", false, "-", -1) | Some r -> r in
      let show (pc, pp, pl, pj) = Printf.sprintf "%s:%s:%s:%d" pc (str_of_bool pp) pl pj in
      (* the schedule was run several times ("|"-separated observations): one of them has to be explained *)
      let ok (pc, pp, pl, pj) m = match String.split_on_char ':' m with
       | [mc; mp; ml; mms] ->
         let dt = abs (int_of_string mms - pj) in
         mc = pc && (mc = "none" || (mp = str_of_bool pp && ml = pl && dt <= int_of_string tol))
       | _ -> false in
      let obs = String.split_on_char '|' measured in
      if List.exists (fun v -> let p = sim v in List.exists (ok p) obs) pause_variants then "match"
      else "pred=" ^ show (sim (0, 0))
    | _ -> "?args");
  register "pm_gate" (function [u; proto; horizon; sched; measured; tol] ->
      let u = int_of_string u in
      let sched = parse_sched sched in
      let hticks = int_of_string horizon * u in
      let sim (sl, cl) =
        let cf0 = cfg_of (n_of_int 1) (z_of_int 1) (n_of_int (int_of_string proto)) in
        let cf = pause_stretch cf0 sl in
        let timed = List.map (fun (sl0, k, h) -> ((if k = 'C' then sl0 * u + cl else sl0 * u), k, h)) sched in
        let st = ref { s_pausing = false; s_stopped = false; s_ph = SIdle } in
        let keeps = ref 0 in
        let keeps_at = Array.make (hticks + 1) 0 in
        let res = ref None in
        let called = ref false in
        let feed j e =
          if !res = None then begin
            let (s', ws) = sstep cf !st e in
            st := s';
            List.iter (function
                | WKeep -> incr keeps
                | WStopErr -> res := Some ("stopped", j)
                | WFrame -> ()) ws;
            if !res = None && !called && s'.s_ph = SPassed then res := Some ("ok", j)
          end in
        for j = 0 to hticks do
          if j > 0 then feed j STick;
          List.iter (fun (_, k, _) ->
              (match k with 'C' -> called := true | _ -> ());
              feed j (match k with
                  | 'C' -> SCall | 'P' -> SPauseEv | 'R' -> SResumeEv | 'S' -> SStopEv | _ -> failwith "kind"))
            (events_at timed j);
          keeps_at.(j) <- !keeps
        done;
        let (pc, pj) = match !res with None -> ("none", -1) | Some r -> r in
        (pc, !keeps, pj, keeps_at) in
      let show (pc, k, pj, _) = Printf.sprintf "%s:%d:%d" pc k pj in
      let ok (pc, k, pj, keeps_at) m = match String.split_on_char ':' m with
       | [mc; mk; mms] ->
         let dt = abs (int_of_string mms - pj) in
         (* still in the gate at the end of the window: the last keep-alive may fall on either side of its end *)
         let late = ref false in
         for j = max 0 (hticks - int_of_string tol) to hticks do if keeps_at.(j) = int_of_string mk then late := true done;
         mc = pc && (if mc = "none" then !late else int_of_string mk = k && dt <= int_of_string tol)
       | _ -> false in
      let obs = String.split_on_char '|' measured in
      if List.exists (fun v -> let p = sim v in List.exists (ok p) obs) pause_variants then "match"
      else "pred=" ^ show (sim (0, 0))
    | _ -> "?args")

(* pc_sim T SL GL n W P events : runs the composition with the real reader machines (cstep) and the
   abstract composition (astep) side by side on the same schedule; events that are not enabled are
   skipped (they must be disabled in both); after every step abs_of (concrete) must equal the abstract
   state.  Result "agree:<bad>" (bad = 1 when an error was reached, comparison stops there). *)
let () =
  register "pc_sim" (function [t; sl; gl; n; w; p; evs] ->
      let ni s = nat_of_int (int_of_string s) in
      let cf = { cT = ni t; cSL = ni sl; cGL = ni gl; cP3 = true } in
      let n = ni n and w = ni w and p = ni p in
      let s = ref (cinit n) and a = ref (ainit n) in
      let res = ref "" in
      let steps = ref 0 in
      String.iteri (fun i ch ->
          if !res = "" then begin
            let x = match ch with
              | 'T' -> XTick | 'P' -> XPause | 'R' -> XResume | 'C' -> XSCall | 'W' -> XSWrite
              | 'U' -> XSPush | 'r' -> XRCall | 'a' -> XATake | _ -> failwith "ev" in
            match cstep cf n w p !s x, astep cf n w p !a x with
            | None, None -> ()
            | Some s', Some a' ->
              incr steps;
              if a'.xBad then begin
                if (abs_of s').xBad then res := "agree:1" else res := Printf.sprintf "bad-only-abstract@%d" i
              end else if abs_of s' = a' then (s := s'; a := a')
              else res := Printf.sprintf "mismatch@%d" i
            | Some _, None -> res := Printf.sprintf "abstract-disabled@%d" i
            | None, Some _ -> res := Printf.sprintf "concrete-disabled@%d" i
          end) evs;
      if !res = "" then "agree:0" else !res
    | _ -> "?args")
let () =
  register "pc_sim_any" (fun args ->
      match Hashtbl.find_opt Util.table "pc_sim" with
      | Some f -> let r = f args in if r = "agree:0" || r = "agree:1" then "agree" else r
      | None -> "?")

(* ---------- download direction and the final-ack loop (Model/PauseDown.v) ---------- *)

(* pd_sim T SL GL n W P events : the download composition built from the reader machine (ydstep) and its
   abstraction (ystep) side by side, as pc_sim does for the upload. *)
let () =
  register "pd_sim" (function [t; sl; gl; n; w; p; evs] ->
      let ni s = nat_of_int (int_of_string s) in
      let cf = { cT = ni t; cSL = ni sl; cGL = ni gl; cP3 = true } in
      let n = ni n and w = ni w and p = ni p in
      let s = ref (ydinit n) and a = ref (yinit n) in
      let res = ref "" in
      String.iteri (fun i ch ->
          if !res = "" then begin
            let x = match ch with
              | 'T' -> YTick | 'P' -> YPause | 'R' -> YResume | 'c' -> YPSCall | 'w' -> YPSWrite
              | 'u' -> YPSPush | 'a' -> YPATake | 'd' -> YDCall | 'k' -> YKTake | 'g' -> YKCall | 's' -> YKWrite
              | _ -> failwith "ev" in
            match ydstep cf n w p !s x, ystep cf n w p !a x with
            | None, None -> ()
            | Some s', Some a' ->
              (* the abstraction reports an error as soon as a timer of our reader expires; the reader machine
                 may still retry that read (a pause began in it): the comparison ends at the first abstract error *)
              if a'.yBad then res := "agree"
              else if yabs s' = a' then (s := s'; a := a')
              else res := Printf.sprintf "mismatch@%d" i
            | Some _, None -> res := Printf.sprintf "abstract-disabled@%d" i
            | None, Some _ -> res := Printf.sprintf "concrete-disabled@%d" i
          end) evs;
      if !res = "" then "agree" else !res
    | _ -> "?args")

(* pd_down unit_ms timeout_s horizon schedule measured tol_ms
     our side of a download under real time: the REAL pipelineRecvData + pipelineSendAck against the model
     (data reader = the reader machine inside ydstep, acker = its gate; after the finish frame the acker's
     final loop = vstep).
     schedule = slot:kind,...  kinds A (a DATA frame arrives) F (the empty finish frame arrives) P R V (disk has everything)
     measured = ms:class,...   classes K ("#SUCC:=") A ("#SUCC:len/step") G ("#SUCC:step", step < size) Z (step = size)
     result "match" when the model writes the same lines in the same order, each within tol_ms. *)
type pd_phase = PdData of dstate | PdFinal of vst

let () =
  register "pd_down" (function [u; tmo; horizon; sched; measured; outcome; tol] ->
      let u = int_of_string u in
      let sched = parse_sched sched in
      let hticks = int_of_string horizon * u in
      let nframes = List.length (List.filter (fun (_, k, _) -> k = 'A' || k = 'F') sched) in
      let has_f = List.exists (fun (_, k, _) -> k = 'F') sched in
      let n = nat_of_int (if has_f then nframes else nframes + 1) in
      let big = nat_of_int 1000000 in
      let w = nat_of_int 1000 in
      (* one run at 1 ms resolution, every sleep lasting [sl] ms longer than written (the poll wait twice that) *)
      let sim sl =
        let cf0 = cfg_of (n_of_int 1) (z_of_int (int_of_string tmo)) (n_of_int 3) in
        let cf = pause_stretch cf0 sl in
        let fp = nat_of_int (int_of_n Consts.pause_final_ack_poll_ms + 2 * sl) in
        let init = { (ydinit n) with dPS = CSDone } in
        let ph = ref (PdData init) in
        let saved = ref false in
        let arrived = ref 0 in
        let fdone = ref false in
        let out = ref [] in            (* (ms, class) newest first *)
        let err = ref "" in
        let seen = ref 0 in
        let collect j =
          match !ph with
          | PdData s ->
            let q = s.dPA.queue in
            let l = List.length q in
            if l > !seen then
              List.iteri (fun i x -> if i >= !seen then
                             out := (j, (match x with WLKeep -> "K" | WLData _ -> "A")) :: !out) q;
            seen := l
          | PdFinal v ->
            let q = v.vPFq in
            let l = List.length q in
            if l > !seen then
              List.iteri (fun i x -> if i >= !seen then
                             out := (j, (match x with WLKeep -> "K" | WLData O -> "G" | WLData _ -> "Z")) :: !out) q;
            seen := l in
        let rec settle j =
          match !ph with
          | PdData s ->
            let try_ev x = match ydstep cf n w big s x with Some s' -> ph := PdData s'; true | None -> false in
            if try_ev YDCall || try_ev YKTake || try_ev YKCall || try_ev YKWrite then settle j
            else if !fdone && s.dK = KIdle && s.dKq = [] && List.length s.dDeliv = int_of_nat n then begin
              collect j;
              seen := 0;
              ph := PdFinal { vinit with vPausing = s.dD.core.pausing; vSaved = !saved;
                                         vPfin = true (* the peer's reader is not part of this run *) };
              settle j
            end
          | PdFinal v ->
            let try_ev x = match vstep cf fp v x with Some v' -> ph := PdFinal v'; true | None -> false in
            if try_ev VKCall || try_ev VKWrite then settle j in
        let apply k =
          match !ph, k with
          | PdData s, ('A' | 'F') ->
            if k = 'F' then fdone := true;
            ph := PdData (feedD cf s (EArrive (nat_of_int !arrived))); incr arrived
          | PdData s, 'P' -> (match ydstep cf n w big s YPause with Some s' -> ph := PdData s' | None -> err := "sched")
          | PdData s, 'R' -> (match ydstep cf n w big s YResume with Some s' -> ph := PdData s' | None -> err := "sched")
          | PdData _, 'V' -> saved := true
          | PdFinal v, 'P' -> (match vstep cf fp v VPause with Some v' -> ph := PdFinal v' | None -> err := "sched")
          | PdFinal v, 'R' -> (match vstep cf fp v VResume with Some v' -> ph := PdFinal v' | None -> err := "sched")
          | PdFinal v, 'V' -> (match vstep cf fp v VSaved with Some v' -> ph := PdFinal v' | None -> ())
          | _, _ -> err := "sched" in
        let failed_at = ref (-1) in
        let failed () = match !ph with PdData s -> s.dErrD || s.dErrPA | PdFinal v -> v.vBad in
        for j = 0 to hticks do
          if !err = "" && !failed_at < 0 then begin
            if j > 0 then begin
              match !ph with
              | PdData s -> (match ydstep cf n w big s YTick with Some s' -> ph := PdData s' | None -> err := "tick-disabled")
              | PdFinal v -> (match vstep cf fp v VTick with Some v' -> ph := PdFinal v' | None -> err := "tick-disabled")
            end;
            if failed () then failed_at := j
            else begin
              settle j; collect j;
              if j mod u = 0 then
                List.iter (fun (_, k, _) -> if !err = "" then begin apply k; settle j; collect j end) (events_at sched (j / u))
            end
          end
        done;
        let model_outcome =
          if !failed_at >= 0 then "timeout"
          else match !ph with PdFinal v when v.vK = K2Done -> "succ" | _ -> "running" in
        (!err, List.rev !out, model_outcome, !failed_at) in
      let show (err, pred, oc, fa) =
        if err <> "" then "err:" ^ err
        else (if pred = [] then "-" else String.concat "," (List.map (fun (j, c) -> Printf.sprintf "%d:%s" j c) pred))
             ^ Printf.sprintf ";%s:%d" oc fa in
      let tol = int_of_string tol in
      (* lines close to the end of the window may fall on either side of it *)
      let rec cmp meas pred = match meas, pred with
        | [], [] -> true
        | (ms, c) :: m', (j, c') :: p' -> c = c' && abs (ms - j) <= tol && cmp m' p'
        | [], rest -> List.for_all (fun (j, _) -> j + tol >= hticks) rest
        | rest, [] -> List.for_all (fun (ms, _) -> ms + tol >= hticks) rest in
      (* the schedule was run several times ("|"-separated observations): one of them has to be explained *)
      let ok_attempt (err, pred, model_outcome, failed_at) m oc =
        let meas = List.map (fun it -> match String.split_on_char ':' it with
            | [ms; c] -> (int_of_string ms, c) | _ -> failwith "measured") (split_on ',' m) in
        let outcome_ok = match String.split_on_char ':' oc with
          | [o; ms] -> o = model_outcome && (o <> "timeout" || abs (int_of_string ms - failed_at) <= tol)
          | _ -> false in
        err = "" && outcome_ok && cmp meas pred in
      let ms_l = String.split_on_char '|' measured and oc_l = String.split_on_char '|' outcome in
      if List.length ms_l = List.length oc_l
         && List.exists (fun sl -> let p = sim sl in List.exists2 (ok_attempt p) ms_l oc_l) pause_stretches
      then "match" else "pred=" ^ show (sim 0)
    | _ -> "?args")

(* pp_probe acks : the acknowledgement bookkeeping of pipelineRecvAck, starting in the probing phase.
     acks = one letter per acknowledgement: g (grows) G (grows, marked pause) n (does not grow) N (does not, marked pause)
     result = released flags and probing-phase flags, e.g. "11,10" *)
let () =
  register "pp_probe" (function [acks] ->
      let acks = if acks = "-" then "" else acks in
      let l = List.init (String.length acks) (fun i -> match acks.[i] with
          | 'g' -> (false, true) | 'G' -> (true, true) | 'n' -> (false, false) | 'N' -> (true, false) | _ -> failwith "ack") in
      let rel = ref [] and ini = ref [] in
      let st = ref pra_init0 in
      List.iter (fun pg ->
          let (st', rs) = pra_run !st [pg] in
          st := st';
          rel := (match rs with [r] -> r | _ -> false) :: !rel;
          ini := st'.pra_init :: !ini) l;
      let s l = String.concat "" (List.rev_map str_of_bool l) in
      (if acks = "" then "-" else s !rel) ^ "," ^ (if acks = "" then "-" else s !ini)
    | _ -> "?args")

(* ---------- the wire sender at chunk granularity (Model/PauseSend.v) ---------- *)

(* ps_send unit_ms proto bufsize blocks horizon schedule measured acks tol_ms
     the REAL pipelineSendData under real time: blocks (payload lengths, comma separated) queued at the start, the chunk
     size changed, acknowledgements taken from the window, pause / resume / stop at scripted slots.
     schedule = slot:kind[:n],...   kinds B (t.bufferSize := n) T (take one ack) P R S
     measured = ms:class,...        classes K ("#DATA:=") W<n> (an encoded block written as it is) S<n> (a piece of n bytes cut out of a block)
     acks     = what the takes returned, in order: the length, -1 (window empty), -2 (closed)
     both "|"-separated for the runs of the same schedule; "match" when the model explains one run *)
let () =
  register "ps_send" (function [u; proto; buf0; blocks; horizon; sched; measured; acks; tol] ->
      let u = int_of_string u in
      let sched = parse_sched sched in
      let hticks = int_of_string horizon * u in
      let w = nat_of_int (int_of_n Consts.pause_ack_window) in
      let blocks = List.map (fun x -> n_of_int (int_of_string x)) (split_on ',' blocks) in
      let sim sl =
        let cf0 = cfg_of (n_of_int 1) (z_of_int 1) (n_of_int (int_of_string proto)) in
        let cf = pause_stretch cf0 sl in
        let st = ref { (bs_init (n_of_int (int_of_string buf0))) with bd_queue = blocks; bd_closed = true } in
        let out = ref [] in          (* (ms, class) newest first *)
        let written = ref [] in      (* chunk lengths in order, newest first *)
        let taken = ref 0 in
        let acks = ref [] in
        let step j e =
          let (s', os) = bstep cf w !st e in
          let changed = s' <> !st || os <> [] in
          st := s';
          List.iter (function
              | BOKeep -> out := (j, "K") :: !out
              | BOChunk (true, n) -> out := (j, "W" ^ string_of_int (int_of_n n)) :: !out; written := int_of_n n :: !written
              | BOChunk (false, n) -> out := (j, "S" ^ string_of_int (int_of_n n)) :: !out; written := int_of_n n :: !written
              | BOStopErr -> ()) os;
          changed in
        let rec settle j = if step j BNext || step j BCall || step j BWrite || step j BPush then settle j in
        for j = 0 to hticks do
          if j > 0 then ignore (step j BTick);
          settle j;
          if j mod u = 0 then
            List.iter (fun (_, k, arg) ->
                (match k with
                 | 'B' -> ignore (step j (BSetBuf (n_of_int (int_of_string arg))))
                 | 'P' -> ignore (step j BPauseEv)
                 | 'R' -> ignore (step j BResumeEv)
                 | 'S' -> ignore (step j BStopEv)
                 | 'T' ->
                   if int_of_nat !st.bd_cnt > 0 then begin
                     ignore (step j BAckTake);
                     acks := List.nth (List.rev !written) !taken :: !acks; incr taken
                   end else if !st.bd_ph = BSDone then acks := (-2) :: !acks
                   else acks := (-1) :: !acks
                 | _ -> failwith "kind");
                settle j) (events_at sched (j / u))
        done;
        (List.rev !out, List.rev !acks) in
      let show (pred, acks) =
        (if pred = [] then "-" else String.concat "," (List.map (fun (j, c) -> Printf.sprintf "%d:%s" j c) pred))
        ^ ";" ^ (if acks = [] then "-" else String.concat "," (List.map string_of_int acks)) in
      let tol = int_of_string tol in
      let rec cmp meas pred = match meas, pred with
        | [], [] -> true
        | (ms, c) :: m', (j, c') :: p' -> c = c' && abs (ms - j) <= tol && cmp m' p'
        | [], rest -> List.for_all (fun (j, _) -> j + tol >= hticks) rest
        | rest, [] -> List.for_all (fun (ms, _) -> ms + tol >= hticks) rest in
      let ok_attempt (pred, packs) m a =
        let meas = List.map (fun it -> match String.split_on_char ':' it with
            | [ms; c] -> (int_of_string ms, c) | _ -> failwith "measured") (split_on ',' m) in
        let macks = List.map int_of_string (split_on ',' a) in
        macks = packs && cmp meas pred in
      let ms_l = String.split_on_char '|' measured and a_l = String.split_on_char '|' acks in
      if List.length ms_l = List.length a_l
         && List.exists (fun sl -> let p = sim sl in List.exists2 (ok_attempt p) ms_l a_l) pause_stretches
      then "match" else "pred=" ^ show (sim 0)
    | _ -> "?args")
