(* evaluators for the name-handling model (C07, C09) *)
open Model
open Util

let split c s = if s = "" || s = "-" then [] else String.split_on_char c s
let path_of s : n list list = List.map bytes_of_hex (split '/' s)
let hex0 l = let b = Buffer.create 32 in List.iter (fun n -> Buffer.add_string b (Printf.sprintf "%02x" (int_of_n n))) l; Buffer.contents b
let str_of_path (p : n list list) = String.concat "/" (List.map hex0 p)

let fs_of s : (n list list * node) list =
  List.map (fun e -> match String.split_on_char ':' e with
      | ["d"; p] -> (path_of p, Dir)
      | ["f"; p; c] -> (path_of p, File (bytes_of_hex c))
      | _ -> failwith "fs entry") (split ',' s)

let listing (f : (n list list * node) list) =
  let seen = Hashtbl.create 64 in
  let ents = List.filter_map (fun (p, nd) ->
      let k = str_of_path p in
      if Hashtbl.mem seen k then None else begin
        Hashtbl.add seen k ();
        Some (match nd with Dir -> "d:" ^ k | File c -> "f:" ^ k ^ ":" ^ hex_of_bytes c) end) f in
  String.concat "," (List.sort compare ents)

let src_of s =
  if s = "x" then None else
    match String.split_on_char ';' s with
    | [id; isdir; arch; rel] ->
      let rel = if rel = "!" then [] else List.map bytes_of_hex (String.split_on_char '.' rel) in
      Some { s_id = z_of_string id; s_rel = rel; s_isdir = bool_of isdir; s_archive = bool_of arch }
    | _ -> failwith "src"

let uniq_sorted l = List.sort_uniq compare l

let () =
  register "names_run" (function [flags; dest; pre; msgs] ->
      let fl i = flags.[i] = '1' in
      let cfg = { overwrite = fl 0; directory = fl 1; v3 = fl 2 } in
      let ck = { chk_unmarshal = fl 3; chk_create_file = fl 4 } in
      let del = fl 5 in
      let dest = path_of dest in
      let f0 = fs_of pre in
      let table = Hashtbl.create 16 in
      let ms = List.map (fun m -> match String.split_on_char ':' m with
          | [k; raw; dec; pl] ->
            let rawb = bytes_of_hex raw in
            Hashtbl.replace table rawb (src_of dec);
            if k = "n" then MName (rawb, bytes_of_hex pl) else MEntry (rawb, bytes_of_hex pl)
          | _ -> failwith "msg") (split ',' msgs) in
      let decode raw = match Hashtbl.find_opt table raw with Some d -> d | None -> None in
      let o = recv_names_gen decode ck cfg dest ms del f0 in
      let res = String.concat "," (List.map2 (fun (r, _) m -> match r, m with
          | NOk _, MEntry _ -> "ok" | NOk n, MName _ -> "ok:" ^ hex0 n | NErr, _ -> "err") o.o_results ms) in
      let created = String.concat ";" (List.map str_of_path o.o_mid.st_created) in
      let log1 = o.o_mid.st_log in
      let cr = List.filter_map (function EMkdir p | ECreate p -> Some (str_of_path p) | _ -> None) log1 in
      let tw = List.filter_map (function EOpen p | ETrunc p -> let k = str_of_path p in if List.mem k cr then None else Some k | _ -> None) log1 in
      let eff = String.concat "," (uniq_sorted (List.map (fun k -> "c:" ^ k) cr @ List.map (fun k -> "w:" ^ k) tw)) in
      let n1 = List.length log1 in
      let log2 = List.filteri (fun i _ -> i >= n1) o.o_final.st_log in
      let rm = String.concat "," (uniq_sorted (List.filter_map (function ERemove p -> Some (str_of_path p) | _ -> None) log2)) in
      let deleted = String.concat ";" (List.map str_of_path o.o_deleted) in
      Printf.sprintf "R=%s|C=%s|E=%s|F=%s|D=%s|X=%s|G=%s" res created eff (listing o.o_mid.st_fs) deleted rm (listing o.o_final.st_fs)
    | _ -> "?args");
  register "names_new" (function [dest; pre; nm] ->
      (match get_new_name (fs_of pre) (path_of dest) (bytes_of_hex nm) with
       | Some n -> "ok:" ^ hex0 n | None -> "err")
    | _ -> "?args");
  register "names_join" (function [base; elems] ->
      str_of_path (join (path_of base) (List.map bytes_of_hex (if elems = "!" then [] else String.split_on_char '.' elems)))
    | _ -> "?args")

(* ---- recvFiles: the loop and the names it reports (C07) ---- *)
let () =
  register "nr_run" (function [flags; dest; pre; recs] ->
      let fl i = flags.[i] = '1' in
      let cfg = { overwrite = fl 0; directory = fl 1; v3 = false } in
      let ck = { chk_unmarshal = fl 2; chk_create_file = fl 3 } in
      let table = Hashtbl.create 16 in
      let rs = List.map (fun r -> match String.split_on_char ':' r with
          | [raw; dec; pl; ents] ->
            let rawb = bytes_of_hex raw in
            Hashtbl.replace table rawb (src_of dec);
            let es = List.map (fun e -> match String.split_on_char '~' e with
                | [eraw; edec; epl] ->
                  let erb = bytes_of_hex eraw in
                  Hashtbl.replace table erb (src_of edec);
                  (erb, bytes_of_hex epl)
                | _ -> failwith "entry") (split '+' ents) in
            { nr_raw = rawb; nr_payload = bytes_of_hex pl; nr_entries = es }
          | _ -> failwith "record") (split ',' recs) in
      let decode raw = match Hashtbl.find_opt table raw with Some d -> d | None -> None in
      let (res, st) = nr_run_gen decode ck cfg (path_of dest) rs (fs_of pre) in
      let names = match res with
        | None -> "!err"
        | Some l -> String.concat "," (List.map hex0 l) in
      Printf.sprintf "N=%s|C=%s|F=%s" names (String.concat ";" (List.map str_of_path st.st_created)) (listing st.st_fs)
    | _ -> "?args")

(* ---- checkDuplicateNames (C09) ---- *)
let () =
  register "nd_check" (function [ents] ->
      let es = List.map (fun e -> match String.split_on_char ':' e with
          | [a; r] ->
            let rel = if r = "!" then [] else List.map bytes_of_hex (String.split_on_char '.' r) in
            { nd_abs = bytes_of_hex a; nd_rel = rel }
          | _ -> failwith "nd entry") (split ',' ents) in
      (match nd_check es with
       | None -> "ok"
       | Some p -> "dup:" ^ hex_of_bytes p)
    | _ -> "?args")
