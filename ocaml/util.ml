(* conversions between OCaml values and the extracted Coq datatypes *)

(* short names for the binary number types (separate extraction calls them coq_N / coq_Z) *)
type n = coq_N
type z = coq_Z
open Model

let rec pos_of_int i = if i = 1 then Coq_xH else if i land 1 = 0 then Coq_xO (pos_of_int (i lsr 1)) else Coq_xI (pos_of_int (i lsr 1))
let n_of_int i = if i = 0 then N0 else Npos (pos_of_int i)
let rec int_of_pos = function Coq_xH -> 1 | Coq_xO p -> 2 * int_of_pos p | Coq_xI p -> 2 * int_of_pos p + 1
let int_of_n = function N0 -> 0 | Npos p -> int_of_pos p
let rec nat_of_int i = if i <= 0 then O else S (nat_of_int (i - 1))
let rec int_of_nat = function O -> 0 | S n -> 1 + int_of_nat n
let z_of_int i = if i = 0 then Z0 else if i > 0 then Zpos (pos_of_int i) else Zneg (pos_of_int (- i))
let int_of_z = function Z0 -> 0 | Zpos p -> int_of_pos p | Zneg p -> - (int_of_pos p)

(* arbitrary-precision decimal <-> Z, for values beyond OCaml's 63-bit int *)
let z_of_string (s : string) : coq_Z =
  let neg = String.length s > 0 && s.[0] = '-' in
  let digits = if neg then String.sub s 1 (String.length s - 1) else s in
  let ten = Zpos (pos_of_int 10) in
  let acc = ref Z0 in
  String.iter (fun c -> acc := Z.add (Z.mul !acc ten) (z_of_int (Char.code c - 48))) digits;
  if neg then Z.opp !acc else !acc

let string_of_z (z : coq_Z) : string =
  let ten = Zpos (pos_of_int 10) in
  let rec go z acc =
    if z = Z0 then acc
    else let q = Z.div z ten and r = Z.modulo z ten in go q (string_of_int (int_of_z r) ^ acc) in
  match z with
  | Z0 -> "0"
  | Zpos _ -> go z ""
  | Zneg _ -> "-" ^ go (Z.opp z) ""

let byte_tab = Array.init 256 n_of_int
let hexval c = match c with '0'..'9' -> Char.code c - 48 | 'a'..'f' -> Char.code c - 87 | 'A'..'F' -> Char.code c - 55 | _ -> failwith "hex"
let bytes_of_hex s =
  if s = "-" then [] else
  List.init (String.length s / 2) (fun i -> byte_tab.(hexval s.[2*i] * 16 + hexval s.[2*i+1]))
let hex_of_bytes l =
  if l = [] then "-" else
  let b = Buffer.create 64 in
  List.iter (fun n -> Buffer.add_string b (Printf.sprintf "%02x" (int_of_n n))) l; Buffer.contents b
let split_on c s = if s = "-" then [] else String.split_on_char c s
let chunks_of s = List.map bytes_of_hex (split_on ',' s)
let hex_of_chunks cs = if cs = [] then "-" else String.concat "," (List.map hex_of_bytes cs)
let ints_of s = List.map int_of_string (split_on ',' s)
let rec pairs = function a :: b :: r -> (a, b) :: pairs r | _ -> []
let bool_of s = s = "1" || s = "true"
let str_of_bool b = if b then "1" else "0"

(* registry of model evaluators: fn name -> (args -> canonical result) *)
let table : (string, string list -> string) Hashtbl.t = Hashtbl.create 64
let register name f =
  if Hashtbl.mem table name then failwith ("duplicate model evaluator name: " ^ name);
  Hashtbl.replace table name f
