(* group "errtell": what clientError / serverError write, computed by the extracted interpreter
   from the GENERATED skeletons (Gen/Skel_errtell.v) *)
open Model
open Util

let c11_bool_of = function "1" -> true | _ -> false

let c11_word = function WFail -> "fail" | WFAIL -> "FAIL" | WOther -> "other"

(* the classes of errType the skeleton translator knows (go/cmd/gen/errtell.go etTypeOf) *)
let c11_type_of = function
  | "-" -> EtNone | "fail" -> EtFail | "FAIL" -> EtFAIL | "EXIT" -> EtEXIT | _ -> EtOther

let () =
  register "errtell" (function [side; trz; ty; tr; sad; flag; made; tunnel] ->
      let e = { et_trz = c11_bool_of trz; et_typ = c11_type_of ty; et_trace = c11_bool_of tr; et_sad = c11_bool_of sad } in
      (* the window: a tunnel connection accepted (1), not yet connected (2 = connected) *)
      let env = { et_flag = c11_bool_of flag; et_deleted = c11_bool_of made; et_window = (tunnel = "1") } in
      let body = if side = "server" then errtell_serverError else errtell_clientError in
      let (acts, ok) = et_run errtell_preds body e env in
      (* a send before cleanInput is "early", after serverExit "late" *)
      let rec walk cleaned exited = function
        | [] -> []
        | AClean :: r -> walk true exited r
        | AExit _ :: r -> walk cleaned true r
        | ADelete :: r -> walk cleaned exited r
        | ASend (w, names, tun) :: r ->
          let t = c11_word w ^ (if names then ":names" else "") in
          let t = if cleaned then t else "early:" ^ t in
          let t = if exited then "late:" ^ t else t in
          let t = if tun then "tunnel:" ^ t else t in
          t :: walk cleaned exited r in
      let lines = walk false false acts in
      let has p = List.exists p acts in
      Printf.sprintf "ok=%s;lines=%s;exit=%s;deleted=%s" (str_of_bool ok)
        (if lines = [] then "-" else String.concat "," lines)
        (str_of_bool (has (function AExit _ -> true | _ -> false)))
        (str_of_bool (has (function ADelete -> true | _ -> false) && env.et_deleted))
    | _ -> "?args")
