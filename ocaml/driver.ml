(* driver <cases-file>: evaluates the extracted model on every case line and prints
   one line per disagreement:  MISMATCH <lineno> <TAB> line <TAB> model=<result>.
   Last line: "DONE <cases> <mismatches>". *)
let () =
  let ic = open_in Sys.argv.(1) in
  let n = ref 0 and bad = ref 0 in
  (try while true do
      let line = input_line ic in
      incr n;
      let fields = String.split_on_char '\t' line in
      (match fields with
       | fn :: rest ->
         let rec cut acc = function
           | "=>" :: [r] -> (List.rev acc, r)
           | x :: tl -> cut (x :: acc) tl
           | [] -> (List.rev acc, "?noresult") in
         let (args, expected) = cut [] rest in
         let got =
           match Hashtbl.find_opt Util.table fn with
           | None -> "?unknown-fn"
           | Some f -> (try f args with e -> "?exn:" ^ Printexc.to_string e) in
         if got <> expected then begin
           incr bad;
           if !bad <= 200 then Printf.printf "MISMATCH %d\t%s\tmodel=%s\n" !n line got
         end
       | [] -> ())
    done with End_of_file -> ());
  Printf.printf "DONE %d %d\n" !n !bad
