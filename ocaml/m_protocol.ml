open Util

let () =
  register "md5_accept" (function [a; b] -> str_of_bool (md5_accept (bytes_of_hex a) (bytes_of_hex b)) | _ -> "?args");
  register "int_ack_accept" (function [a; b] -> str_of_bool (int_ack_accept (z_of_string a) (z_of_string b)) | _ -> "?args")
