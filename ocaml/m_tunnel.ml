(* C17: evaluators of the extracted tunnel model *)
open Model
open Util

let hexb l = hex_of_bytes l

let parse_evs (s : string) : rev list * (int, unit) Hashtbl.t =
  let closed = Hashtbl.create 8 in
  let evs = List.map (fun e ->
      let n = String.length e in
      match e.[0] with
      | 'c' -> RConnect
      | 'w' ->
        let i = String.index e ':' in
        RWrite (nat_of_int (int_of_string (String.sub e 1 (i - 1))), bytes_of_hex (String.sub e (i + 1) (n - i - 1)))
      | 'x' -> let c = int_of_string (String.sub e 1 (n - 1)) in Hashtbl.replace closed c (); RClose (nat_of_int c)
      | 'i' -> RInband (bytes_of_hex (String.sub e 2 (n - 2)))
      | 'a' -> RAct (e = "a1")
      | _ -> failwith "event") (split_on ',' s) in
  (evs, closed)

let obs_of closed i (k : conn) =
  match k.k_pc with
  | HRefused -> "X"
  | _ ->
    if Hashtbl.mem closed i then (if k.k_tx = [] then "P" else "R" ^ hexb k.k_tx ^ "P")
    else if k.k_tx <> [] then "R" ^ hexb k.k_tx   (* closed-after-answer is not compared, see c17.go *)
    else if k.k_closed then "C" else "O"

let idx_str = function Some c -> string_of_int (int_of_nat c) | None -> "-"

let () =
  register "tunnel_hello" (function [u; p] ->
      let u = bytes_of_hex u and p = z_of_string p in
      hexb (client_hello u p) ^ ":" ^ hexb (server_hello u p)
    | _ -> "?args");
  register "tunnel_run" (function [u; p; evs] ->
      let (evs, closed) = parse_evs evs in
      let s = rreplay (bytes_of_hex u) (z_of_string p) evs in
      let obs = List.mapi (obs_of closed) s.s_conns in
      String.concat "," obs
      ^ "|a=" ^ idx_str s.s_tconn
      ^ "|buf=" ^ hexb (List.concat (List.map snd s.s_inbuf))
      ^ "|tc=" ^ str_of_bool s.s_tconnected
      ^ "|w=" ^ idx_str s.s_writer
      ^ "|act=" ^ (match s.s_act with ActWaiting -> "W" | ActOk -> "O" | ActErr -> "E")
    | _ -> "?args");
  register "tunnel_client" (function [u; p; cls; late; wfail; rep] ->
      let o = if cls = "nil" then CoNil
        else CoConn (bool_of late, bool_of wfail, (if rep = "none" then None else Some (bytes_of_hex rep))) in
      (match client_decides (bytes_of_hex u) (z_of_string p) o with
       | Some b -> str_of_bool b | None -> "?")
    | _ -> "?args")

let () =
  register "tunnel_e2e" (function [u; p; evs; g; cls; late] ->
      let u = bytes_of_hex u and p = z_of_string p in
      let (evs, _) = parse_evs evs in
      let s = rreplay u p evs in
      let late = bool_of late in
      let gi = if g = "-" then -1 else int_of_string g in
      let obs = List.mapi (fun i (k : conn) ->
          if k.k_tx <> [] && k.k_pc <> HRefused && not (i = gi && late && cls = "genuine") then "R" else "-") s.s_conns in
      let o = match cls with
        | "nil" -> CoNil
        | "stranger" -> CoConn (true, false, None)
        | "dead" -> CoConn (false, true, None)
        | _ ->
          (match List.nth_opt s.s_conns gi with
           | None -> CoNil
           | Some k -> if k.k_pc = HRefused then CoNil
             else CoConn (late, false, (if k.k_tx = [] then None else Some k.k_tx))) in
      String.concat "," obs ^ "|path=" ^ (match client_decides u p o with Some true -> "T" | _ -> "I")
    | _ -> "?args")
