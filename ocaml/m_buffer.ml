open Model
open Util

(* chunk list: "." = no chunk, else comma-separated hex with "-" for an empty chunk *)
let c03_chunks s = if s = "." then [] else List.map bytes_of_hex (String.split_on_char ',' s)
let c03_str_chunks cs = if cs = [] then "." else String.concat "," (List.map hex_of_bytes cs)

let c03_op s =
  if s = "L" then OpLine false else if s = "J" then OpLine true
  else OpBinary (z_of_string (String.sub s 1 (String.length s - 1)))
let c03_ops s = if s = "." then [] else List.map c03_op (String.split_on_char ',' s)

let c03_result = function
  | RData d -> "d" ^ hex_of_bytes d
  | RBlocked -> "B"
  | RInterrupted -> "I"
let c03_results rs = if rs = [] then "." else String.concat "," (List.map c03_result rs)

(* a fresh buffer has no current chunk: the head of the pending list is empty *)
let c03_fresh cs = [] :: cs

let () =
  register "buf_run" (function [ops; cs] -> c03_results (run (c03_ops ops) (c03_fresh (c03_chunks cs))) | _ -> "?args");
  register "ref_run" (function [ops; s] -> c03_results (ref_run (c03_ops ops) (bytes_of_hex s)) | _ -> "?args");
  register "run_cont" (function [ops; cs] ->
      let (rs, e) = run_cont (c03_ops ops) (c03_fresh (c03_chunks cs)) in
      c03_results rs ^ "|" ^ c03_str_chunks (pop_all (pop_all_fuel e) e)
    | _ -> "?args")
