(* C15: evaluators for the archive reader/writer model (Model/Archive.v) *)
open Model
open Util

(* table: entries "hdrhex:pathspec:isdir:size:datahex" joined by ';'
   pathspec: '-' (the archive root itself) or hex names joined by '/' *)
let c15_path_of s = if s = "-" then [] else List.map bytes_of_hex (String.split_on_char '/' s)

let c15_table s =
  List.map (fun e ->
      match String.split_on_char ':' e with
      | [h; p; d; sz; data] ->
        (bytes_of_hex h, { am_path = c15_path_of p; am_dir = bool_of d; am_size = z_of_string sz }, bytes_of_hex data)
      | _ -> failwith "c15 table entry") (split_on ';' s)

let c15_hdr tbl m = let rec go = function (h, m', _) :: r -> if m' = m then h else go r | [] -> failwith "c15 hdr" in go tbl
let c15_parse tbl b = let rec go = function (h, m, _) :: r -> if h = b then Some m else go r | [] -> None in go tbl
let c15_entries tbl = List.map (fun (_, m, d) -> { ae_meta = m; ae_data = d }) tbl

let c15_str_of_bytes l = let b = Buffer.create 64 in List.iter (fun n -> Buffer.add_char b (Char.chr (int_of_n n))) l; Buffer.contents b
let c15_hex_of_string s = let b = Buffer.create 64 in String.iter (fun c -> Buffer.add_string b (Printf.sprintf "%02x" (Char.code c))) s; Buffer.contents b

(* canonical tree: every bound path except the root, first binding wins, sorted by hex path *)
let c15_tree (t : (n list list * anode) list) =
  let seen = Hashtbl.create 64 in
  let items = ref [] in
  List.iter (fun (p, nd) ->
      if p <> [] && not (Hashtbl.mem seen p) then begin
        Hashtbl.add seen p ();
        let ps = c15_hex_of_string (String.concat "/" (List.map c15_str_of_bytes p)) in
        let s = match nd with
          | ADir -> "d:" ^ ps
          | AFile c ->
            let cs = c15_str_of_bytes c in
            if String.length cs <= 48 then "f:" ^ ps ^ ":" ^ (if cs = "" then "-" else c15_hex_of_string cs)
            else "f:" ^ ps ^ ":md5:" ^ Digest.to_hex (Digest.string cs) ^ ":" ^ string_of_int (String.length cs) in
        items := (ps, s) :: !items
      end) t;
  let l = List.sort compare !items in
  if l = [] then "-" else String.concat ";" (List.map snd l)

let () =
  register "ar_read" (function [tbl; sizes; dflt] ->
      let tbl = c15_table tbl in
      let ((outs, e), _) = ar_reader_run (c15_hdr tbl) (c15_entries tbl)
          (List.map nat_of_int (ints_of sizes)) (nat_of_int (int_of_string dflt)) in
      hex_of_chunks outs ^ (match e with
          | ArEndEof -> ":eof"
          | ArEndErr ArErrShrink -> ":err:shrink"
          | ArEndErr ArPanic -> ":err:panic"
          | ArEndErr ArSpin -> ":err:spin"
          | ArEndErr _ -> ":err:?"
          | ArEndFuel -> ":fuel")
    | _ -> "?args");
  register "ar_size" (function [tbl] ->
      let tbl = c15_table tbl in
      string_of_z (ar_total_size (c15_hdr tbl) (c15_entries tbl))
    | _ -> "?args");
  register "aw_write" (function [tbl; segs] ->
      let tbl = c15_table tbl in
      (match aw_writer_run (c15_parse tbl) true (chunks_of segs) with
       | AwDone st -> "ok|" ^ c15_tree (aw_close st).aw_fs
       | AwFail (AwEHeader, st) -> "hdr|" ^ c15_tree (aw_close st).aw_fs
       | AwFail (AwECreate, st) -> "create|" ^ c15_tree (aw_close st).aw_fs
       | AwFuel -> "fuel")
    | _ -> "?args")

(* ahdr_ok: table rows (header, the sender's meta) and, per row, what the REAL decoder made of
   the header ("none" or pathspec:isdir:size); result: one 0/1 per row *)
let () =
  register "ahdr_ok" (function [tbl; parsed] ->
      let tbl = c15_table tbl in
      let ps = List.map (fun s ->
          if s = "none" then None else
            match String.split_on_char ':' s with
            | [p; d; sz] -> Some { am_path = c15_path_of p; am_dir = bool_of d; am_size = z_of_string sz }
            | _ -> failwith "c15 parsed row") (String.split_on_char ';' parsed) in
      let pairs = List.combine (List.map (fun (h, _, _) -> h) tbl) ps in
      let parse b = (try List.assoc b pairs with Not_found -> None) in
      String.concat "" (List.map (fun e -> if ahdr_okb (c15_hdr tbl) parse e then "1" else "0") (c15_entries tbl))
    | _ -> "?args")

(* aw_fail: the writer on a destination where the files at the given paths fail on every write;
   result: class | tree without those paths *)
let () =
  register "aw_fail" (function [tbl; fullps; segs] ->
      let tbl = c15_table tbl in
      let fps = if fullps = "-" then [] else List.map c15_path_of (String.split_on_char ';' fullps) in
      let full p = List.mem p fps in
      let tree st = c15_tree (List.filter (fun (p, _) -> not (full p)) (aw_close st).aw_fs) in
      (match aw_writer_run_f (c15_parse tbl) full true (chunks_of segs) with
       | AwDone st -> "ok|" ^ tree st
       | AwFail (AwEHeader, st) -> "hdr|" ^ tree st
       | AwFail (AwECreate, st) -> "create|" ^ tree st
       | AwFail (AwEWrite, st) -> "write|" ^ tree st
       | AwFuel -> "fuel")
    | _ -> "?args")

