open Model
open Util

(* C08: prefix-hash resume (Model/Resume.v).  H is instantiated with the identity, so a
   "digest" is the hashed prefix itself; the harness canonicalises a real MD5 digest to
   the length of the source prefix it is the MD5 of. *)

let z_of s = z_of_string s
let id_h (l : n list) = l

let acks_str (l : ack list) =
  if l = [] then "-" else
    String.concat "," (List.map (fun a -> string_of_z a.a_step ^ ":" ^ str_of_bool a.a_match) l)

(* HASH lines: step/<length of the hashed prefix>, Over as "over" *)
let hashes_str (l : hmsg list) =
  if l = [] then "-" else
    String.concat "," (List.map (function
        | Hash (s, h) -> string_of_z s ^ "/" ^ string_of_int (List.length h)
        | Over -> "over") l)

(* observable part: the panic value / allocation size is not visible from outside *)
let rout_str = function
  | ROver st -> Printf.sprintf "over acks=%s m=%s" (acks_str st.r_acks) (string_of_z st.r_mstep)
  | RBlocked st -> Printf.sprintf "blocked acks=%s" (acks_str st.r_acks)
  | RInvalid (st, n) -> Printf.sprintf "invalid acks=%s" (acks_str st.r_acks)
  | RPanic (st, n) -> Printf.sprintf "panic acks=%s" (acks_str st.r_acks)
  | RReadErr (st, n) -> Printf.sprintf "readerr acks=%s" (acks_str st.r_acks)

let msgs_of s =
  List.map (fun m ->
      if m = "over" then Over else
        match String.split_on_char ':' m with
        | [st; h] -> Hash (z_of st, bytes_of_hex h)
        | _ -> failwith "msg") (split_on ',' s)

let () =
  register "resume_exchange" (function [b; proto; stops; src; dst] ->
      let stops = if stops = "-" then None else Some (nat_of_int (int_of_string stops)) in
      (match run_id (n_of_int (int_of_string b)) (n_of_int (int_of_string proto)) stops (bytes_of_hex src) (bytes_of_hex dst) with
       | Done o -> Printf.sprintf "done hs=%s acks=%s mr=%s ms=%s sent=%d final=%s" (hashes_str o.o_hashes) (acks_str o.o_acks)
                     (string_of_z o.o_mrecv) (string_of_z o.o_msend) (List.length o.o_sent) (hex_of_bytes o.o_final)
       | SenderBlocked (hs, acks) -> Printf.sprintf "sender-blocked hs=%s acks=%s" (hashes_str hs) (acks_str acks)
       | SenderErr m -> "sender-err:" ^ string_of_z m
       | RecvFail r -> "recv-fail " ^ rout_str r
       | OutOfFuel -> "fuel")
    | _ -> "?args");
  register "resume_agreed" (function [b; src; dst] ->
      string_of_int (int_of_nat (agreed_id (n_of_int (int_of_string b)) (bytes_of_hex src) (bytes_of_hex dst)))
    | _ -> "?args");
  register "resume_abs" (function [b; size; cp; k] ->
      let b = Z.to_N (z_of b) and size = Z.to_N (z_of size) and cp = Z.to_N (z_of cp) and k = Z.to_N (z_of k) in
      let s x = string_of_z (Z.of_N x) in
      Printf.sprintf "m=%s good=%s nacks=%s kok=%s" (s (abs_agreed b size cp)) (s (abs_good b size cp))
        (s (abs_nacks b size cp)) (str_of_bool (abs_stops_ok b size cp k))
    | _ -> "?args");
  register "resume_recv" (function [b; dst; msgs] ->
      rout_str (recv_hashes (Z.to_N (z_of b)) id_h (bytes_of_hex dst) (msgs_of msgs) r_init)
    | _ -> "?args");
  register "resume_acks" (function [size; acks] ->
      let acks = List.map (fun a -> match String.split_on_char ':' a with
          | [s; m] -> { a_step = z_of s; a_match = bool_of m } | _ -> failwith "ack") (split_on ',' acks) in
      (match recv_acks (z_of size) acks Z0 with
       | SDone m -> "done:" ^ string_of_z m | SErr m -> "err:" ^ string_of_z m | SBlocked -> "blocked")
    | _ -> "?args")
