(* group "proc": facts about the GENERATED skeleton nets, computed by the extracted model *)
open Model
open Util

let net_of = function
  | "send" -> send_net | "recv" -> recv_net | "hash" -> hash_net
  | s -> failwith ("unknown net " ^ s)

let () =
  (* goroutines, channels, defer-closed channels, range loops; then the sorted capacities *)
  register "proc_counts" (function [n] ->
      (match List.map int_of_nat (net_counts (net_of n)) with
       | a :: b :: c :: d :: caps ->
         String.concat "," (List.map string_of_int ([a; b; c; d] @ List.sort compare caps))
       | _ -> "?short")
    | _ -> "?args");
  (* does the model predict a goroutine that can stay blocked: after cancellation (wf), or
     because a fault does not reach ctx.cancel (faults_cancel)? *)
  register "proc_can_leak" (function [n] ->
      str_of_bool (not (wf (net_of n)) || wf_violations (net_of n) <> [] || not (faults_cancel (net_of n)))
    | _ -> "?args");
  (* every fault reaches ctx.cancel (boolean), the number of goroutines with a deferred
     ctx.cancel(nil), the number of error paths that may wait before they cancel *)
  register "proc_faults" (function [n] ->
      let nt = net_of n in
      (match List.map int_of_nat (fault_counts nt) with
       | [_; _; dc] ->
         Printf.sprintf "%s,%d,%d" (if faults_cancel nt then "1" else "0") dc (List.length (fault_waits nt))
       | _ -> "?short")
    | _ -> "?args")
