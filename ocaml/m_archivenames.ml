(* C15: evaluator for Model/ArchiveNames.v - checkFileName over the whole of Unicode *)
open Model
open Util

(* names joined by ','; a name = decimal code points joined by '.', "e" = the empty name *)
let () =
  register "anm_valid" (function [names] ->
      let ns = String.split_on_char ',' names in
      String.concat "" (List.map (fun s ->
          let cps = if s = "e" then [] else List.map (fun d -> n_of_int (int_of_string d)) (String.split_on_char '.' s) in
          if anm_valid cps then "1" else "0") ns)
    | _ -> "?args")
