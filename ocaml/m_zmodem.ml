open Model
open Util

(* C19: the zmodem bridge.  Events "t:k:hex" / "t:x:code" separated by ';'. *)
let zm_event s =
  match String.split_on_char ':' s with
  | [t; "x"; code] -> (n_of_int (int_of_string t), (n_of_int 3, ([], z_of_int (int_of_string code))))
  | [t; k; d] ->
    let kind = match k with "s" -> 0 | "i" -> 1 | "o" -> 2 | _ -> failwith "kind" in
    (n_of_int (int_of_string t), (n_of_int kind, (bytes_of_hex d, Z0)))
  | _ -> failwith "event"

let zm_msg = function
  | [c] -> (match int_of_n c with 0 -> "mS" | 1 -> "mOK" | 3 -> "mL" | 4 -> "mC" | 5 -> "mTc" | 6 -> "mTs" | 7 -> "mIO" | _ -> "m?")
  | [_; neg; v] -> "mX" ^ (if int_of_n neg = 1 then "-" else "") ^ string_of_int (int_of_n v)
  | _ -> "m?"

let zm_join = function [] -> "-" | l -> String.concat "," l

let () =
  register "zmodem_detect" (function [b] ->
      (match zmodem_detect (bytes_of_hex b) with None -> "-1" | Some true -> "1" | Some false -> "0")
    | _ -> "?args");
  register "zmodem_finish_re" (function [b] -> str_of_bool (zmodem_finish_re (bytes_of_hex b)) | _ -> "?args");
  register "zmodem_run" (function [fixed; launch; ae; dl; greet; remote; re; horizon; evs] ->
      let launch = match launch with "ok" -> 0 | "fail" -> 1 | _ -> 2 in
      let ae = if ae = "-" then None else Some (z_of_int (int_of_string ae)) in
      let evs = List.map zm_event (split_on ';' evs) in
      let remote = if remote = "-" then None else
          (match String.split_on_char ':' remote with
           | [t0; p; m; h; pr] -> Some (n_of_int (int_of_string t0), (n_of_int (int_of_string p), (nat_of_int (int_of_string m), (bytes_of_hex h, bytes_of_hex pr))))
           | _ -> failwith "remote") in
      let ((items, hb), (flags, (ptr, (started, (nl, rw))))) =
        zmodem_run_canon (bool_of fixed) (n_of_int launch) ae (bool_of dl) (bytes_of_hex greet) remote (List.map (fun x -> x = "1") (split_on ',' re)) (n_of_int (int_of_string horizon)) evs in
      let term = List.filter_map (fun (k, d) -> match int_of_n k with
          | 0 -> Some ("f" ^ hex_of_bytes d) | 1 -> Some "h" | 2 -> Some "s" | 3 -> Some (zm_msg d) | _ -> None) items in
      let srv = List.filter_map (fun (k, d) -> match int_of_n k with
          | 4 -> Some ("d" ^ hex_of_bytes d) | 5 -> Some "c" | 6 -> Some "o" | _ -> None) items in
      let fl = if started then String.concat "" (List.map str_of_bool flags) else "none" in
      "T=" ^ zm_join term ^ "|S=" ^ zm_join srv ^ "|H=" ^ hex_of_bytes hb ^ "|F=" ^ fl ^ "|P=" ^ str_of_bool ptr ^ "|L=" ^ string_of_int (int_of_n nl) ^ "|R=" ^ (if remote = None then "-" else if rw then "waiting" else "done")
    | _ -> "?args")
