open Model
open Util

(* expected types: comma-separated hex strings, "." = none *)
let c16_tys s = if s = "." then [] else List.map bytes_of_hex (String.split_on_char ',' s)

let () =
  register "strip_tmux" (function [b] -> hex_of_bytes (strip_tmux_status (bytes_of_hex b)) | _ -> "?args");
  register "marker_cut" (function [ty; l] -> hex_of_bytes (marker_cut (bytes_of_hex ty) (bytes_of_hex l)) | _ -> "?args");
  register "junk_run" (function [tys; junk; cs] ->
      M_buffer.c03_results (junk_run (c16_tys tys) (bool_of junk) (M_buffer.c03_fresh (M_buffer.c03_chunks cs)))
    | _ -> "?args");
  register "win_run" (function [tys; cs] ->
      M_buffer.c03_results (win_run (c16_tys tys) O (M_buffer.c03_fresh (M_buffer.c03_chunks cs)))
    | _ -> "?args");
  register "letters" (function [] | [_] ->
      String.concat "" (List.map (fun b ->
          (if is_trzsz_letter b then "1" else "0") ^ (if is_vt100_end b then "1" else "0"))
          (Array.to_list byte_tab))
    | _ -> "?args")
