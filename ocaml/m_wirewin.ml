open Model
open Util

(* pipelineRecvData on the Windows-console path: frames until the finish flag, then the
   unread rest of the buffer (chunks joined) *)
let () =
  register "codec_recv_win" (function [w] ->
      let cs = chunks_of w in
      (match WireWin.ww_recv (nat_of_int (List.length cs + List.length (List.concat cs) + 2)) O ([] :: cs) with
       | Some (fs, (_, p')) -> "ok:" ^ hex_of_chunks fs ^ ":" ^ hex_of_bytes (List.concat p')
       | None -> "err")
    | _ -> "?args")
