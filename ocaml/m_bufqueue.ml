open Model
open Util

(* queue_late <n>: n one-byte reads (byte i mod 251), reader starting late; result:
   taken-chunks,queued,todo,dropped counts and the taken bytes *)
let () =
  register "queue_late" (function [n] ->
      let n = int_of_string n in
      let chunks = List.init n (fun i -> [n_of_int (i mod 251)]) in
      let s = queue_late chunks in
      Printf.sprintf "%d,%d,%d,%d:%s" (List.length s.q_taken) (List.length s.q_queue) (List.length s.q_todo)
        (List.length s.q_dropped) (hex_of_bytes (List.concat s.q_taken))
    | _ -> "?args")
