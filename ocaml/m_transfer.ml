(* evaluator for the message-level model of a whole transfer (C01, Model/Transfer.v)

   transfer_transcript cfg table dest fs dflt entries tabs tags
     cfg      proto:binary:directory:overwrite:ctype:upload        (numbers / 0|1)
     table    escape table, hex of the (byte, code) pairs in announcement order, - = none
     dest     destination path, hex components joined by /
     fs       prior file system: d:<path> | f:<path>:<hex content>, joined by ,
     dflt     sc_dflt (frame size once the observed sizes are used up)
     entries  the source list as checkPathsReadable produces it (archiveSourceFiles = tr_group is the
              model's business), joined by , ; an item the sender named, followed - if it was named with
              archive:true - by its SubFiles in the order of the archive stream; each
              id;isdir;rel;content;md5;z;sizes;profit;steps;prefinal;hstops;hdr;wsizes
                rel      hex components joined by .
                content  hex (- = empty)        md5  hex of the digest of content
                z        hex of the zstd output for content (- = the file went uncompressed)
                sizes    observed frame sizes (protocol >= 2) / chunk sizes (protocol 1), joined by .
                profit   0|1 (the COMP flag if one was sent)
                steps    saved steps of the per-frame acks, joined by .
                prefinal saved steps of the final acks before completion, joined by .
                hstops   resume: the number of HASH records the sender wrote before Over (- = none: never stops)
                hdr      a SubFile: hex of its header line in the archive stream (- = an item)
                wsizes   an archive item: how the decoded stream is cut into writes, joined by .
              For a resumed file and for an archive item, md5 / z / sizes / steps / prefinal are those of
              the FILE that went over the wire (the rest of the file, the archive stream); their
              content -> md5 / z pairs are in tabs.
     tabs     oracles for contents that are no entry's content, joined by , :
                h:<content>:<md5>   z:<content>:<zstd output>
                x:<prefix>:<digest> the hex MD5 string (as bytes) of a prefix compared in a resume
     tags     one letter per message of the REAL exchange, both directions merged in the order of
              recording, window acks moved behind the finish flag (N M Z C D F A 5 X S, O = other):
              evaluated with the model's grammar automaton (ORDER=)

   The Section variables of Transfer.v: hx := lookup prefix -> digest string (x: pairs); ahdr / aparse :=
   lookup tables between the records of the SubFiles (id, rel, isdir, size) and their header lines as
   the harness decoded them; digest := byte list; H := lookup content -> md5 in the
   case; deq := (=); zcomp := lookup content -> [z] (no z in the case: [] for the empty content,
   a poison stream otherwise, so that a compression decision the implementation did not take shows);
   zdecomp := the inverse lookup ([] -> [], anything else fails); zl := identity; unzl := Some. *)
open Model
open Util

let split c s = if s = "" || s = "-" then [] else String.split_on_char c s
let path_of s : n list list = List.map bytes_of_hex (split '/' s)
let hexs l = String.concat "," (List.map hex_of_bytes l)
let hexrel l = String.concat "." (List.map hex_of_bytes l)
let nat_big i = let rec go acc i = if i <= 0 then acc else go (S acc) (i - 1) in go O i
let ns s = List.map (fun x -> n_of_int (int_of_string x)) (split '.' s)
let nats s = List.map (fun x -> nat_big (int_of_string x)) (split '.' s)
let b01 b = if b then "1" else "0"
let istr n = string_of_int (int_of_n n)
let str_of_bytes (l : n list) = let b = Buffer.create 64 in List.iter (fun x -> Buffer.add_char b (Char.chr (int_of_n x))) l; Buffer.contents b

let fs_of s : (n list list * Fs.node) list =
  List.map (fun e -> match String.split_on_char ':' e with
      | ["d"; p] -> (path_of p, Fs.Dir)
      | ["f"; p; c] -> (path_of p, Fs.File (bytes_of_hex c))
      | _ -> failwith "fs entry") (split ',' s)

(* pipelineReadData: reads of 32 KiB *)
let reads (c : n list) : n list list =
  let rec take k acc l = if k = 0 then (List.rev acc, l) else match l with [] -> (List.rev acc, []) | x :: t -> take (k - 1) (x :: acc) t in
  let rec go acc l = if l = [] then List.rev acc else let (a, r) = take 32768 [] l in go (a :: acc) r in
  go [] c
let rec drop k l = if k <= 0 then l else match l with [] -> [] | _ :: t -> drop (k - 1) t
let rec is_prefix a b = match a, b with [], _ -> true | x :: a', y :: b' -> x = y && is_prefix a' b' | _ -> false

let str_of_msg (m : n list Transfer.tr_msg) =
  match m with
  | Transfer.TrNum k -> "NUM:" ^ istr k
  | Transfer.TrName (Transfer.TrPlain nm) -> "NAME:p:" ^ hex_of_bytes nm
  | Transfer.TrName (Transfer.TrJson (s, size)) ->
    Printf.sprintf "NAME:j:%s:%s:%s:%s:%s" (string_of_z s.Names.s_id) (b01 s.Names.s_isdir) (b01 s.Names.s_archive) (istr size) (hexrel s.Names.s_rel)
  | Transfer.TrSize k -> "SIZE:" ^ istr k
  | Transfer.TrComp b -> "COMP:" ^ b01 b
  | Transfer.TrData f -> "DATA:" ^ string_of_int (List.length f)
  | Transfer.TrMd5 d -> "MD5:" ^ hex_of_bytes d
  | Transfer.TrExit names -> "EXIT:" ^ hexs names
  | Transfer.TrSuccInt k -> "SUCC:i:" ^ istr k
  | Transfer.TrSuccName nm -> "SUCC:n:" ^ hex_of_bytes nm
  | Transfer.TrSuccTarget (nm, size) -> "SUCC:t:" ^ hex_of_bytes nm ^ ":" ^ istr size
  | Transfer.TrSuccAck (l, s) -> "ACK:" ^ istr l ^ ":" ^ istr s
  | Transfer.TrSuccDigest d -> "SUCC:d:" ^ hex_of_bytes d
  | Transfer.TrHash (step, h) -> "HASH:" ^ string_of_z step ^ ":" ^ hex_of_bytes h
  | Transfer.TrHashOver -> "HASH:over"
  | Transfer.TrSuccHack (step, m) -> "SUCC:h:" ^ string_of_z step ^ ":" ^ b01 m
  | Transfer.TrKeepAlive -> "KEEP"
  | Transfer.TrFail -> "FAIL"

let () =
  register "transfer_transcript" (function [cfg; table; dest; pre; dflt; entries; tabs; tags] ->
      let cfg = match String.split_on_char ':' cfg with
        | [proto; bin; dir; ow; ctype; up] ->
          { Transfer.tc_proto = n_of_int (int_of_string proto); tc_binary = bool_of bin; tc_directory = bool_of dir;
            tc_overwrite = bool_of ow; tc_ctype = n_of_int (int_of_string ctype);
            tc_table = pairs (bytes_of_hex table); tc_upload = bool_of up }
        | _ -> failwith "cfg" in
      let dest = path_of dest in
      let f0 = fs_of pre in
      let dflt = nat_big (int_of_string dflt) in
      let htab = ref [] and ztab = ref [] and xtab = ref [] and atab = ref [] in
      List.iter (fun t -> match String.split_on_char ':' t with
          | ["h"; c; m] -> htab := (bytes_of_hex c, bytes_of_hex m) :: !htab
          | ["z"; c; zz] -> ztab := (bytes_of_hex c, bytes_of_hex zz) :: !ztab
          | ["x"; c; dg] -> xtab := (bytes_of_hex c, bytes_of_hex dg) :: !xtab
          | _ -> failwith "tab") (split ',' tabs);
      let ess = List.map (fun e -> match String.split_on_char ';' e with
          | [id; isdir; rel; content; md5; z; sizes; profit; steps; prefinal; hstops; hdr; wsizes] ->
            let isdir = bool_of isdir in
            let content = bytes_of_hex content in
            if not isdir && md5 <> "-" then begin
              htab := (content, bytes_of_hex md5) :: !htab;
              if z <> "-" then ztab := (content, bytes_of_hex z) :: !ztab
            end;
            let id = z_of_string id and rel = List.map bytes_of_hex (split '.' rel) in
            if hdr <> "-" then begin
              let s = { Names.s_id = id; s_rel = rel; s_isdir = isdir; s_archive = false } in
              let sz = if isdir then Z0 else z_of_int (List.length content) in
              atab := ((s, sz), bytes_of_hex hdr) :: !atab
            end;
            ({ Transfer.te_id = id; te_rel = rel; te_isdir = isdir;
               te_chunks = reads content; te_subs = [] },
             { Transfer.sc_sizes = nats sizes; sc_dflt = dflt; sc_profit = bool_of profit;
               sc_steps = ns steps; sc_prefinal = ns prefinal;
               sc_hstops = (if hstops = "-" then None else Some (nat_big (int_of_string hstops)));
               sc_rsizes = []; sc_rdflt = nat_big 32767; sc_wsizes = nats wsizes; sc_wdflt = nat_big 4096 })
          | _ -> failwith "entry") (split ',' entries) in
      (* the abstract external functions of the two sub-protocols, as lookup tables *)
      let hx p = match List.assoc_opt p !xtab with Some dg -> dg | None -> List.map n_of_int [63] in
      let ahdr s sz = match List.assoc_opt (s, sz) !atab with Some hl -> hl | None -> List.map n_of_int [63; 63] in
      let ainv = List.map (fun (k, hl) -> (hl, k)) !atab in
      let aparse raw = List.assoc_opt raw ainv in
      let h c = match List.assoc_opt c !htab with Some d -> d | None -> [] in
      let deq (a : n list) b = a = b in
      (* a content the implementation did not compress has no z in the case: if the model decides to
         compress it all the same, it gets a stream that cannot be mistaken for anything observed
         (the empty content is the exception: zstd writes nothing for no input) *)
      let poison = List.map n_of_int [33; 110; 111; 122; 33] in
      let zcomp chunks =
        let c = List.concat chunks in
        match List.assoc_opt c !ztab with Some z -> [z] | None -> if c = [] then [] else [poison] in
      let zinv = List.map (fun (c, z) -> (z, c)) !ztab in
      let zdecomp z = match List.assoc_opt z zinv with Some c -> Some c | None -> if z = [] then Some [] else None in
      let zl x = x and unzl x = Some x in
      let fuel = tr_fuel zcomp hx ahdr aparse cfg dest ess f0 in
      let cf = tr_run h deq zcomp zdecomp zl unzl hx ahdr aparse fuel cfg dest ess f0 in
      let pipeline = tr_pipeline cfg in
      (* protocol 1, base64 mode: the canonical length of a DATA message is that of the decoded chunk *)
      let str m = match m with
        | Transfer.TrData f when (not pipeline) && not cfg.Transfer.tc_binary ->
          "DATA:" ^ (match b64_decode f with Some d -> string_of_int (List.length d) | None -> "undecodable")
        | _ -> str_of_msg m in
      let dir d = String.concat " " (List.filter_map (fun (b, m) -> if b = d then Some (str m) else None) cf.Transfer.cf_log) in
      (* true = sender -> receiver; in an upload the sender is the client *)
      let c2s = dir cfg.Transfer.tc_upload and s2c = dir (not cfg.Transfer.tc_upload) in
      let ffs = cf.Transfer.cf_r.Transfer.rs_st.Names.st_fs in
      let nd = List.length dest in
      let inside = List.filter (fun (p, _) -> is_prefix dest p && List.length p > nd) ffs in
      let tops = List.sort_uniq compare (List.filter_map (fun (p, _) ->
          let top = List.nth p nd in
          match Fs.lookup f0 (dest @ [top]) with None -> Some (hex_of_bytes top) | Some _ -> None) inside) in
      let listing ffs =
        let inside = List.filter (fun (p, _) -> is_prefix dest p && List.length p > nd) ffs in
        let seen = Hashtbl.create 16 in
        List.sort compare (List.filter_map (fun (p, nd_) ->
          let k = String.concat "/" (List.map hex_of_bytes (drop nd p)) in
          if Hashtbl.mem seen k then None else begin
            Hashtbl.add seen k ();
            Some (match nd_ with
                | Fs.Dir -> "d:" ^ k
                | Fs.File c -> Printf.sprintf "f:%s:%d:%s" k (List.length c) (Digest.to_hex (Digest.string (str_of_bytes c)))) end) inside) in
      let tree = listing ffs in
      (* the specification (a function of the entries alone): the name per entry, and its final
         file system must be the one the two machines produced *)
      let items = tr_group cfg ess in
      let spec = match tr_spec hx ahdr aparse cfg dest items (Names.init_state f0) [] with
        | Some ((per, all), st) ->
          Printf.sprintf "%s;%s;%s" (hexs per) (hexs all) (b01 (listing st.Names.st_fs = tree))
        | None -> "none" in
      (* the tags of the REAL merged transcript (acks of the window moved behind the finish flag)
         run through the model's automaton *)
      let dummy c : n list Transfer.tr_msg = match c with
        | 'N' -> Transfer.TrNum N0 | 'M' -> Transfer.TrName (Transfer.TrPlain []) | 'Z' -> Transfer.TrSize N0
        | 'C' -> Transfer.TrComp false | 'D' -> Transfer.TrData [N0] | 'F' -> Transfer.TrData []
        | 'A' -> Transfer.TrSuccAck (N0, N0) | '5' -> Transfer.TrMd5 [] | 'X' -> Transfer.TrExit []
        | 'S' -> Transfer.TrSuccInt N0 | 'h' -> Transfer.TrHash (Z0, []) | 'o' -> Transfer.TrHashOver
        | 'k' -> Transfer.TrSuccHack (Z0, true) | _ -> Transfer.TrFail in
      let order = tr_shape_ok pipeline (List.init (String.length tags) (fun i -> (true, dummy tags.[i]))) in
      (* the premises of the theorems that can be decided: the items are well-formed, the headers decode *)
      let wf = tr_wfb cfg (List.map fst items) in
      Printf.sprintf "S=%s|R=%s|SN=%s|RN=%s|NEW=%s|SHAPE=%s|TREE=%s|C2S=%s|S2C=%s|ORDER=%s|SPEC=%s|WF=%s"
        (b01 (tr_sender_ok cf)) (b01 (tr_receiver_ok cf))
        (hexs cf.Transfer.cf_s.Transfer.ss_names) (hexs cf.Transfer.cf_r.Transfer.rs_names)
        (String.concat "," tops) (b01 (tr_shape_ok pipeline cf.Transfer.cf_log))
        (String.concat "," tree) c2s s2c (b01 order) spec (b01 wf)
    | _ -> "?args")
