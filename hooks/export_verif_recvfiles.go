//go:build verif

// Add-only export for the verification harness under /verif (property C07): the real
// recvFiles loop on a scripted sender stream.  Compiled only with `-tags verif`.

package trzsz

import (
	"bytes"
	"sync"
	"time"
)

type verifRecvFilesOut struct {
	mu  sync.Mutex
	buf bytes.Buffer
}

func (w *verifRecvFilesOut) Write(p []byte) (int, error) {
	w.mu.Lock()
	defer w.mu.Unlock()
	return w.buf.Write(p)
}

// VerifRecvFilesScript hands the complete stream of a scripted sender (NUM, then per entry
// NAME [SIZE DATA... MD5]) to a fresh receiving transfer and runs the real recvFiles on it.
// It returns the local names recvFiles reports (what trz / the client print as "Saved"),
// the error text ("" = success), createdFiles, and whether nothing was decided before the
// deadline (the transfer is then stopped).
func VerifRecvFilesScript(overwrite, directory bool, protocol int, dest string, input []byte,
	timeoutSec int, deadline time.Duration) (names []string, errText string, created []string, hung bool) {
	out := &verifRecvFilesOut{}
	t := newTransfer(out, nil, false, nil)
	t.transferConfig.Overwrite = overwrite
	t.transferConfig.Directory = directory
	t.transferConfig.Protocol = protocol
	t.transferConfig.Timeout = timeoutSec
	t.addReceivedData(input, false)
	type res struct {
		names []string
		err   error
	}
	done := make(chan res, 1)
	go func() {
		n, err := t.recvFiles(dest, nil)
		done <- res{n, err}
	}()
	finish := func(r res) ([]string, string, []string, bool) {
		e := ""
		if r.err != nil {
			e = r.err.Error()
			if e == "" {
				e = "error"
			}
		}
		return r.names, e, append([]string(nil), t.createdFiles...), false
	}
	select {
	case r := <-done:
		return finish(r)
	case <-time.After(deadline):
		t.stopTransferringFiles(false)
		select {
		case r := <-done:
			n, e, c, _ := finish(r)
			return n, e, c, true
		case <-time.After(2 * time.Second):
		}
		return nil, "hung", nil, true
	}
}
