//go:build verif

// Add-only export for the verification harness under /verif (property C03, backlog stratum
// of group "pump").  Compiled only with `-tags verif`.

package trzsz

// QueueCap is the capacity of the queue between the pumps and the reader.
func (v *VerifBuffer) QueueCap() int { return cap(v.b.bufCh) }
