//go:build verif

// Add-only exports for the verification harness under /verif (properties C03, C16).
// Compiled only with `-tags verif`.

package trzsz

import (
	"time"
)

// ---- buffer.go ----

type VerifBuffer struct{ b *trzszBuffer }

func VerifNewBuffer() *VerifBuffer { return &VerifBuffer{newTrzszBuffer()} }

func (v *VerifBuffer) AddBuffer(buf []byte) { v.b.addBuffer(buf) }

func (v *VerifBuffer) ReadLine(mayHasJunk bool, timeout <-chan time.Time) ([]byte, error) {
	return v.b.readLine(mayHasJunk, timeout)
}

func (v *VerifBuffer) ReadBinary(size int, timeout <-chan time.Time) ([]byte, error) {
	return v.b.readBinary(size, timeout)
}

func (v *VerifBuffer) ReadLineOnWindows(timeout <-chan time.Time) ([]byte, error) {
	return v.b.readLineOnWindows(timeout)
}

func (v *VerifBuffer) PopBuffer() []byte { return v.b.popBuffer() }

// VerifReadErrClass maps the error of a buffer/transfer read to a small enum.
func VerifReadErrClass(err error) string {
	if err == nil {
		return "ok"
	}
	if e, ok := err.(*trzszError); ok {
		switch {
		case e == errReceiveDataTimeout:
			return "timeout"
		case e == errStopped:
			return "stopped"
		case e == errStoppedAndDeleted:
			return "stopped-and-deleted"
		case e.message == "Interrupted":
			return "interrupted"
		}
	}
	return "other"
}

func VerifIsVT100End(b byte) bool    { return isVT100End(b) }

// ---- transfer.go recvLine / stripTmuxStatusLine ----

type VerifLineTransfer struct{ t *trzszTransfer }

// VerifNewLineTransfer builds a transfer whose recvLine takes the tmux junk-tolerant
// path (tmuxOutputJunk), the Windows-console path (windowsProtocol), or the plain one.
func VerifNewLineTransfer(tmuxOutputJunk, windowsProtocol bool) *VerifLineTransfer {
	t := newTransfer(nil, nil, false, nil)
	t.transferConfig.TmuxOutputJunk = tmuxOutputJunk
	t.windowsProtocol = windowsProtocol
	return &VerifLineTransfer{t}
}

func (v *VerifLineTransfer) AddReceivedData(buf []byte) { v.t.addReceivedData(buf, false) }

func (v *VerifLineTransfer) RecvLine(expectType string, mayHasJunk bool, timeout <-chan time.Time) ([]byte, error) {
	return v.t.recvLine(expectType, mayHasJunk, timeout)
}

func (v *VerifLineTransfer) StripTmuxStatusLine(buf []byte) []byte {
	return v.t.stripTmuxStatusLine(buf)
}

// QueueLen is the number of chunks queued and not yet taken by a reader.
func (v *VerifBuffer) QueueLen() int { return len(v.b.bufCh) }

// QueueLen is the number of chunks queued and not yet taken by recvLine.
func (v *VerifLineTransfer) QueueLen() int { return len(v.t.buffer.bufCh) }

// Reset pops everything that is unread; afterwards the buffer is as new.
func (v *VerifLineTransfer) Reset() {
	for v.t.buffer.popBuffer() != nil {
	}
}
