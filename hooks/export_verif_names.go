//go:build verif

// Add-only exports for the verification harness under /verif (properties C07, C09):
// the receiver's name handling.  Compiled only with `-tags verif`.

package trzsz

import (
	"bytes"
	"encoding/json"
	"strings"
)

// VerifNames is a receiving transfer with a chosen configuration.  Output the transfer
// writes to its peer is captured; NAME messages are fed through the real input buffer.
type VerifNames struct {
	t    *trzszTransfer
	out  *bytes.Buffer
	arch fileWriter // archive writer returned by the latest accepted archive record
}

func VerifNamesNew(overwrite, directory bool, protocol int) *VerifNames {
	out := &bytes.Buffer{}
	t := newTransfer(out, nil, false, nil)
	t.transferConfig.Overwrite = overwrite
	t.transferConfig.Directory = directory
	t.transferConfig.Protocol = protocol
	return &VerifNames{t: t, out: out}
}

func verifNamesFinish(file fileWriter, payload []byte) error {
	if file == nil {
		return nil
	}
	var err error
	if len(payload) > 0 {
		_, err = file.Write(payload)
	}
	if e := file.Close(); err == nil {
		err = e
	}
	return err
}

// RecvName delivers one NAME message on the wire and runs the real recvFileName
// (protocol < 3: plain name, or JSON record in directory mode).  The payload is
// written through the returned writer.  reported is the name sent back in SUCC.
func (v *VerifNames) RecvName(dest string, raw string, payload []byte) (localName string, reported string, archive bool, err error) {
	v.t.buffer = newTrzszBuffer()
	v.out.Reset()
	v.t.addReceivedData([]byte("#NAME:"+encodeString(raw)+"\n"), false)
	file, localName, err := v.t.recvFileName(dest, nil)
	if err != nil {
		return "", "", false, err
	}
	line := strings.TrimSuffix(v.out.String(), "\n")
	if strings.HasPrefix(line, "#SUCC:") {
		if b, e := decodeString(line[len("#SUCC:"):]); e == nil {
			reported = string(b)
		}
	}
	if aw, ok := file.(*archiveFileWriter); ok {
		v.arch = aw
		return localName, reported, true, nil
	}
	return localName, reported, false, verifNamesFinish(file, payload)
}

// RecvNameV3 is the name handling of recvFileNameV3 (protocol >= 3) without the
// prefix-hash exchange that follows it: unmarshalSourceFile + createDirOrFile(truncate=false).
func (v *VerifNames) RecvNameV3(dest string, raw string, payload []byte) (localName string, archive bool, err error) {
	srcFile, err := unmarshalSourceFile(raw)
	if err != nil {
		return "", false, err
	}
	file, localName, err := v.t.createDirOrFile(dest, srcFile, false)
	if err != nil {
		return "", false, err
	}
	if aw, ok := file.(*archiveFileWriter); ok {
		v.arch = aw
		return localName, true, nil
	}
	return localName, false, verifNamesFinish(file, payload)
}

// CreateFile is createFile (the plain-name path) called directly.
func (v *VerifNames) CreateFile(dest, name string, truncate bool, payload []byte) (string, error) {
	file, localName, err := v.t.createFile(dest, name, truncate, nil)
	if err != nil {
		return "", err
	}
	return localName, verifNamesFinish(file, payload)
}

// HasArchive reports whether an archive writer is open.
func (v *VerifNames) HasArchive() bool { return v.arch != nil }

// ArchiveEntry writes one entry (encoded header line + payload) to the open archive
// writer the way the data pipeline does: repeated Write calls until all is consumed.
func (v *VerifNames) ArchiveEntry(raw string, payload []byte) error {
	p := append([]byte(encodeString(raw)+"\n"), payload...)
	for len(p) > 0 {
		n, err := v.arch.Write(p)
		if err != nil {
			return err
		}
		if n <= 0 {
			break
		}
		p = p[n:]
	}
	if aw, ok := v.arch.(*archiveFileWriter); ok {
		if nested, ok := aw.file.(*archiveFileWriter); ok {
			// a nested archive record: later entries go to the nested writer (same dest path)
			v.arch = nested
		} else if aw.file != nil {
			_ = aw.file.Close()
			aw.file = nil
			aw.left = 0
		}
	}
	return nil
}

// ArchiveDest is the destination path entries of the open archive writer are created under.
func (v *VerifNames) ArchiveDest() string {
	if aw, ok := v.arch.(*archiveFileWriter); ok {
		return aw.path
	}
	return ""
}

func (v *VerifNames) CreatedFiles() []string { return append([]string(nil), v.t.createdFiles...) }

func (v *VerifNames) DeleteCreatedFiles() []string { return v.t.deleteCreatedFiles() }

func VerifGetNewName(path, name string) (string, error) { return getNewName(path, name) }

// VerifDecodeSourceFile is the JSON decoding step of unmarshalSourceFile alone
// (json.Unmarshal into sourceFile), without its checks.
func VerifDecodeSourceFile(source string) (pathID int, relPath []string, isDir, archive bool, size int64, ok bool) {
	var file sourceFile
	if err := json.Unmarshal([]byte(source), &file); err != nil {
		return 0, nil, false, false, 0, false
	}
	return file.PathID, file.RelPath, file.IsDir, file.Archive, file.Size, true
}
