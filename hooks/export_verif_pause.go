//go:build verif

// Add-only exports for the verification harness under /verif (property C18, pause / resume).
// Compiled only with `-tags verif`.

package trzsz

import (
	"bytes"
	"sync"
)

type verifPauseBuffer struct {
	mu  sync.Mutex
	buf bytes.Buffer
}

func (b *verifPauseBuffer) Write(p []byte) (int, error) {
	b.mu.Lock()
	defer b.mu.Unlock()
	return b.buf.Write(p)
}

func (b *verifPauseBuffer) snapshot() []byte {
	b.mu.Lock()
	defer b.mu.Unlock()
	return append([]byte(nil), b.buf.Bytes()...)
}

// VerifPauseTransfer is a real trzszTransfer (newTransfer) writing into a memory buffer.
type VerifPauseTransfer struct {
	t *trzszTransfer
	w *verifPauseBuffer
}

// VerifNewPauseTransfer builds a transfer with the given negotiated protocol and timeout (seconds).
func VerifNewPauseTransfer(protocol int, timeout int) *VerifPauseTransfer {
	w := &verifPauseBuffer{}
	t := newTransfer(w, nil, false, nil)
	t.transferConfig.Protocol = protocol
	t.transferConfig.Timeout = timeout
	return &VerifPauseTransfer{t, w}
}

// AddLine hands one line (the newline is appended) to the transfer, as wrapTransferInput does.
func (v *VerifPauseTransfer) AddLine(line []byte) {
	v.t.addReceivedData(append(append([]byte(nil), line...), '\n'), false)
}

func (v *VerifPauseTransfer) Pause()  { v.t.pauseTransferringFiles() }
func (v *VerifPauseTransfer) Resume() { v.t.resumeTransferringFiles() }
func (v *VerifPauseTransfer) Stop(stopAndDelete bool) {
	v.t.stopTransferringFiles(stopAndDelete)
}

func verifPauseErrClass(err error) string {
	switch err {
	case nil:
		return "ok"
	case errReceiveDataTimeout:
		return "timeout"
	case errStopped, errStoppedAndDeleted:
		return "stopped"
	}
	return "bad"
}

// RecvCheckV2 calls the real recvCheckV2 and returns the payload, the `pause` flag and the error class.
func (v *VerifPauseTransfer) RecvCheckV2(expectType string) ([]byte, bool, string) {
	buf, _, pause, err := v.t.recvCheckV2(expectType)
	return append([]byte(nil), buf...), pause, verifPauseErrClass(err)
}

// CheckStopAndPause calls the real gate.
func (v *VerifPauseTransfer) CheckStopAndPause(typ string) string {
	return verifPauseErrClass(v.t.checkStopAndPause(typ))
}

// SendDataV2 calls the real sendDataV2 with an already encoded frame.
func (v *VerifPauseTransfer) SendDataV2(frame []byte) string {
	_, err := v.t.sendDataV2(frame, len(frame), true)
	return verifPauseErrClass(err)
}

// Written returns everything written so far.
func (v *VerifPauseTransfer) Written() []byte { return v.w.snapshot() }
