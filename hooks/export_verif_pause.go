//go:build verif

// Add-only exports for the verification harness under /verif (property C18, pause / resume).
// Compiled only with `-tags verif`.

package trzsz

import (
	"bytes"
	"context"
	"fmt"
	"sync"
	"time"
)

// VerifPauseWrite is one Write call of the transfer: when, and what.
type VerifPauseWrite struct {
	At   time.Time
	Data []byte
}

type verifPauseBuffer struct {
	mu  sync.Mutex
	buf bytes.Buffer
	log []VerifPauseWrite
}

func (b *verifPauseBuffer) Write(p []byte) (int, error) {
	b.mu.Lock()
	defer b.mu.Unlock()
	b.log = append(b.log, VerifPauseWrite{time.Now(), append([]byte(nil), p...)})
	return b.buf.Write(p)
}

func (b *verifPauseBuffer) snapshot() []byte {
	b.mu.Lock()
	defer b.mu.Unlock()
	return append([]byte(nil), b.buf.Bytes()...)
}

// VerifPauseTransfer is a real trzszTransfer (newTransfer) writing into a memory buffer.
type VerifPauseTransfer struct {
	t *trzszTransfer
	w *verifPauseBuffer
}

// VerifNewPauseTransfer builds a transfer with the given negotiated protocol and timeout (seconds).
func VerifNewPauseTransfer(protocol int, timeout int) *VerifPauseTransfer {
	w := &verifPauseBuffer{}
	t := newTransfer(w, nil, false, nil)
	t.transferConfig.Protocol = protocol
	t.transferConfig.Timeout = timeout
	return &VerifPauseTransfer{t, w}
}

// AddLine hands one line (the newline is appended) to the transfer, as wrapTransferInput does.
func (v *VerifPauseTransfer) AddLine(line []byte) {
	v.t.addReceivedData(append(append([]byte(nil), line...), '\n'), false)
}

func (v *VerifPauseTransfer) Pause()  { v.t.pauseTransferringFiles() }
func (v *VerifPauseTransfer) Resume() { v.t.resumeTransferringFiles() }
func (v *VerifPauseTransfer) Stop(stopAndDelete bool) {
	v.t.stopTransferringFiles(stopAndDelete)
}

func verifPauseErrClass(err error) string {
	switch err {
	case nil:
		return "ok"
	case errReceiveDataTimeout:
		return "timeout"
	case errStopped, errStoppedAndDeleted:
		return "stopped"
	}
	return "bad"
}

// RecvCheckV2 calls the real recvCheckV2 and returns the payload, the `pause` flag and the error class.
func (v *VerifPauseTransfer) RecvCheckV2(expectType string) ([]byte, bool, string) {
	buf, _, pause, err := v.t.recvCheckV2(expectType)
	return append([]byte(nil), buf...), pause, verifPauseErrClass(err)
}

// CheckStopAndPause calls the real gate.
func (v *VerifPauseTransfer) CheckStopAndPause(typ string) string {
	return verifPauseErrClass(v.t.checkStopAndPause(typ))
}

// SendDataV2 calls the real sendDataV2 with an already encoded frame.
func (v *VerifPauseTransfer) SendDataV2(frame []byte) string {
	_, err := v.t.sendDataV2(frame, len(frame), true)
	return verifPauseErrClass(err)
}

// Written returns everything written so far.
func (v *VerifPauseTransfer) Written() []byte { return v.w.snapshot() }

// WriteLog returns every Write call so far with its time.
func (v *VerifPauseTransfer) WriteLog() []VerifPauseWrite {
	v.w.mu.Lock()
	defer v.w.mu.Unlock()
	return append([]VerifPauseWrite(nil), v.w.log...)
}

// VerifPauseDown is our side of a download's data phase: the REAL pipelineRecvData (data reader) and
// pipelineSendAck (acker) goroutines of a transfer, fed through AddLine.
type VerifPauseDown struct {
	v    *VerifPauseTransfer
	ctx  *pipelineContext
	size int64
	now  chan<- struct{}
	mu   sync.Mutex
	end  time.Time // when the pipeline context was cancelled
}

// StartDownload starts pipelineRecvData and pipelineSendAck for a file of the given size (base64 mode);
// the received data is discarded.
func (v *VerifPauseTransfer) StartDownload(size int64) *VerifPauseDown {
	c, cancel := context.WithCancelCause(context.Background())
	ctx := &pipelineContext{c, cancel, make(chan struct{}, 1)}
	v.t.transferConfig.Binary = false
	ackChan, recvDataChan := v.t.pipelineRecvData(ctx)
	now := v.t.pipelineSendAck(ctx, size, ackChan)
	go func() {
		for range recvDataChan {
		}
	}()
	d := &VerifPauseDown{v: v, ctx: ctx, size: size, now: now}
	go func() {
		<-ctx.Done()
		d.mu.Lock()
		d.end = time.Now()
		d.mu.Unlock()
	}()
	return d
}

// EndedAt returns when the pipeline context was cancelled (zero time if it was not).
func (d *VerifPauseDown) EndedAt() time.Time {
	d.mu.Lock()
	defer d.mu.Unlock()
	return d.end
}

// SetSaved does what pipelineSaveData does when the disk has everything: savedSteps = size, then the
// ackImmediately signal.
func (d *VerifPauseDown) SetSaved() {
	d.v.t.savedSteps.Store(d.size)
	select {
	case d.now <- struct{}{}:
	default:
	}
}

// Outcome: "running", "succ" (the acker sent the final ack) or the error class of the cancel cause.
func (d *VerifPauseDown) Outcome() string {
	select {
	case <-d.ctx.succ:
		return "succ"
	default:
	}
	if d.ctx.Err() == nil {
		return "running"
	}
	return verifPauseErrClass(context.Cause(d.ctx))
}

// Cancel ends the goroutines.
func (d *VerifPauseDown) Cancel() {
	d.ctx.cancel(nil)
	d.v.t.stopTransferringFiles(false)
}

// VerifProbeAck describes one acknowledgement fed to pipelineRecvAck.
type VerifProbeAck struct {
	Pause bool // recvCheckV2 returns it with pause = true (a keep-alive line precedes it)
	Grow  bool // its length equals the current buffer size (and it is fast, and the limit is not reached)
}

// VerifPauseProbe runs the REAL pipelineRecvAck goroutine over the given acknowledgements, starting in
// the buffer-size probing phase, and reports for each of them whether bufInitDone() was called (a token
// in bufInitCh) and whether the probing phase was still on afterwards.  The last element of the results
// is the error class of the pipeline ("ok" when it saw the final ack).
func VerifPauseProbe(acks []VerifProbeAck) ([]bool, []bool, string) {
	w := &verifPauseBuffer{}
	t := newTransfer(w, nil, false, nil)
	t.transferConfig.Protocol = kProtocolVersion3
	t.transferConfig.Timeout = 5
	t.transferConfig.MaxBufSize = 1 << 40
	c, cancel := context.WithCancelCause(context.Background())
	ctx := &pipelineContext{c, cancel, make(chan struct{}, 1)}
	defer ctx.cancel(nil)
	ackChan := make(chan trzszAck) // unbuffered: a send returns only when the previous iteration is over
	size := int64(1) << 50
	progress := t.pipelineRecvAck(ctx, size, ackChan, true)
	released := make([]bool, len(acks))
	initAfter := make([]bool, len(acks))
	sample := func(i int) {
		select {
		case <-t.bufInitCh:
			released[i] = true
		default:
		}
		initAfter[i] = t.bufInitPhase.Load()
	}
	fail := func() ([]bool, []bool, string) {
		return released, initAfter, verifPauseErrClass(context.Cause(ctx))
	}
	step := int64(0)
	cur := t.bufferSize.Load() // the buffer size the loop will see for the next acknowledgement (it doubles on growth)
	for i, a := range acks {
		length := cur
		if a.Grow {
			cur *= 2
		} else {
			length--
		}
		select {
		case ackChan <- trzszAck{time.Now(), length}:
		case <-ctx.Done():
			return fail()
		case <-time.After(3 * time.Second):
			return released, initAfter, "stuck"
		}
		if i > 0 {
			sample(i - 1)
		}
		step += length
		if a.Pause {
			t.addReceivedData([]byte("#SUCC:=\n"), false)
		}
		t.addReceivedData([]byte(fmt.Sprintf("#SUCC:%d/%d\n", length, step)), false)
		select {
		case <-progress:
		case <-ctx.Done():
			return fail()
		case <-time.After(3 * time.Second):
			return released, initAfter, "stuck"
		}
	}
	close(ackChan)
	t.addReceivedData([]byte(fmt.Sprintf("#SUCC:%d\n", size)), false)
	select {
	case <-ctx.succ:
	case <-ctx.Done():
		return fail()
	case <-time.After(3 * time.Second):
		return released, initAfter, "stuck"
	}
	if len(acks) > 0 {
		sample(len(acks) - 1)
	}
	return released, initAfter, "ok"
}

// VerifPauseSend is the wire-sender side of an upload's data phase: the REAL pipelineSendData goroutine of
// a transfer over a queue of encoded blocks (base64 mode: a block is "#DATA:" + payload + newline).
type VerifPauseSend struct {
	v    *VerifPauseTransfer
	ctx  *pipelineContext
	acks <-chan trzszAck
}

// StartSendData queues one block per element of lens (payload length in bytes; 0 = the finish chunk),
// closes the queue and starts pipelineSendData with the given chunk size (t.bufferSize).
func (v *VerifPauseTransfer) StartSendData(bufSize int64, lens []int) *VerifPauseSend {
	c, cancel := context.WithCancelCause(context.Background())
	ctx := &pipelineContext{c, cancel, make(chan struct{}, 1)}
	v.t.transferConfig.Binary = false
	v.t.transferConfig.Newline = "\n"
	v.t.bufferSize.Store(bufSize)
	ch := make(chan trzszData, len(lens)+1)
	for _, n := range lens {
		data := bytes.Repeat([]byte{'A'}, n)
		frame := append(append([]byte("#DATA:"), data...), '\n')
		ch <- trzszData{data, frame, 0}
	}
	close(ch)
	return &VerifPauseSend{v, ctx, v.t.pipelineSendData(ctx, ch)}
}

// SetBufSize stores a new chunk size, as pipelineRecvAck does after a slow or a fast acknowledgement.
func (s *VerifPauseSend) SetBufSize(n int64) { s.v.t.bufferSize.Store(n) }

// TakeAck takes one entry from the ack window if there is one (what the ack reader does): its length,
// or -1 when the window is empty, -2 when the sender has finished and closed it.
func (s *VerifPauseSend) TakeAck() int64 {
	select {
	case a, ok := <-s.acks:
		if !ok {
			return -2
		}
		return a.length
	default:
		return -1
	}
}

// Outcome: "running" or the error class of the cancel cause ("ok" = cancelled without an error).
func (s *VerifPauseSend) Outcome() string {
	if s.ctx.Err() == nil {
		return "running"
	}
	return verifPauseErrClass(context.Cause(s.ctx))
}

// Cancel ends the goroutine.
func (s *VerifPauseSend) Cancel() {
	s.ctx.cancel(nil)
	s.v.t.stopTransferringFiles(false)
	for range s.acks {
	}
}
