//go:build verif

package trzsz

// Verification hook (add-only, build tag verif): the REAL handshake in-process - the client's
// sendAction, the server's recvAction + sendConfig, the client's recvConfig over two pipes -
// for given server arguments; reports the timeout both ends work with afterwards, whether
// getNewTimeout() arms a timer on either end, and whether the CFG record carried a timeout key.

import (
	"encoding/json"
	"io"
	"strings"
	"sync"
	"time"
)

type VerifCfgArgs struct {
	Timeout   int
	Quiet     bool
	Overwrite bool
	Binary    bool
	Escape    bool
	Directory bool
	Bufsize   int64
	Compress  int // compressType
	TmuxMode  int
	PaneWidth int32
	OldServer bool // the client believes the server is 1.1.0..1.1.3 and announces protocol 2
}

type VerifCfgResult struct {
	ServerTimeout, ClientTimeout int
	ServerArmed, ClientArmed     bool // getNewTimeout() != nil
	HasKey                       bool // the CFG record has a "timeout" member
	KeyValue                     int
	Err                          string
	// the same ACT and CFG lines through the REAL relay handshake (a jump host in between): what a
	// client behind the relay works with
	RelayClientTimeout int
	RelayClientArmed   bool
	RelayErr           string
}

type verifCfgTee struct {
	mu  sync.Mutex
	w   io.Writer
	buf []byte
}

func (t *verifCfgTee) Write(p []byte) (int, error) {
	t.mu.Lock()
	t.buf = append(t.buf, p...)
	t.mu.Unlock()
	return t.w.Write(p)
}

func VerifCfgHandshake(a VerifCfgArgs) (r VerifCfgResult) {
	s2cR, s2cW := io.Pipe()
	c2sR, c2sW := io.Pipe()
	defer s2cW.Close()
	defer c2sW.Close()
	tee := &verifCfgTee{w: s2cW}
	teeC := &verifCfgTee{w: c2sW}
	ts := newTransfer(tee, nil, false, nil)
	tc := newTransfer(teeC, nil, false, nil)
	wrapTransferInput(ts, c2sR, false)
	wrapTransferInput(tc, s2cR, false)
	args := &baseArgs{Quiet: a.Quiet, Overwrite: a.Overwrite, Binary: a.Binary, Escape: a.Escape, Directory: a.Directory,
		Bufsize: bufferSize{a.Bufsize}, Timeout: a.Timeout, Compress: compressType(a.Compress)}
	srvErr := make(chan error, 1)
	go func() {
		action, err := ts.recvAction()
		if err != nil {
			srvErr <- err
			return
		}
		srvErr <- ts.sendConfig(args, action, getEscapeChars(args.Escape), tmuxModeType(a.TmuxMode), a.PaneWidth)
	}()
	var ver *trzszVersion
	if a.OldServer {
		ver = &trzszVersion{1, 1, 2}
	}
	if err := tc.sendAction(true, ver, false); err != nil {
		r.Err = "sendAction: " + err.Error()
		return
	}
	cfg, err := tc.recvConfig()
	if err != nil {
		r.Err = "recvConfig: " + err.Error()
		return
	}
	if err := <-srvErr; err != nil {
		r.Err = "server: " + err.Error()
		return
	}
	r.ServerTimeout, r.ClientTimeout = ts.transferConfig.Timeout, cfg.Timeout
	r.ServerArmed, r.ClientArmed = ts.getNewTimeout() != nil, tc.getNewTimeout() != nil
	// the CFG record as written
	tee.mu.Lock()
	line := string(tee.buf)
	tee.mu.Unlock()
	teeC.mu.Lock()
	act := append([]byte(nil), teeC.buf...)
	teeC.mu.Unlock()
	if i := strings.Index(line, "#CFG:"); i >= 0 {
		body := strings.TrimRight(line[i+5:], "\r\n")
		if js, err := decodeString(body); err == nil {
			var m map[string]interface{}
			if json.Unmarshal(js, &m) == nil {
				if v, ok := m["timeout"]; ok {
					r.HasKey = true
					if f, ok := v.(float64); ok {
						r.KeyValue = int(f)
					}
				}
			}
		}
	}
	// the relay leg: both lines parked in the relay's handshake buffers, its answer to the client
	// read by a fresh client transfer
	// (not for a binary record: a relay without a tunnel clears support_binary in the ACT before
	// the server sees it, so no server behind a relay announces one)
	if a.Binary {
		r.RelayErr = "skipped"
		return
	}
	_, toClient, _ := VerifRelayHandshake(noTmuxMode, 0, false, [][]byte{act}, [][]byte{[]byte(line)})
	tr := newTransfer(io.Discard, nil, false, nil)
	for _, b := range toClient {
		tr.buffer.addBuffer(b)
	}
	rcDone := make(chan struct{})
	go func() {
		defer close(rcDone)
		if rcfg, err := tr.recvConfig(); err != nil {
			r.RelayErr = err.Error()
		} else {
			r.RelayClientTimeout, r.RelayClientArmed = rcfg.Timeout, tr.getNewTimeout() != nil
		}
	}()
	select {
	case <-rcDone:
	case <-time.After(5 * time.Second):
		tr.stopTransferringFiles(false)
		<-rcDone
		r.RelayErr = "the relay sent no CFG line"
	}
	return
}
