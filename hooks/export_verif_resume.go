//go:build verif

// Add-only exports for the verification harness (property C08, prefix-hash resume).

package trzsz

import (
	"bytes"
	"context"
	"encoding/json"
	"fmt"
	"io"
	"os"
	"strings"
	"sync"
	"time"
)

func VerifPrefixHashStep() int64 { return kPrefixHashStep }

type VerifHashMsg struct {
	Step int64
	Hash string
	Over bool
}

type VerifHashAck struct {
	Step  int64
	Match bool
}

type verifLockedBuffer struct {
	mu sync.Mutex
	b  bytes.Buffer
}

func (w *verifLockedBuffer) Write(p []byte) (int, error) {
	w.mu.Lock()
	defer w.mu.Unlock()
	return w.b.Write(p)
}

func (w *verifLockedBuffer) String() string {
	w.mu.Lock()
	defer w.mu.Unlock()
	return w.b.String()
}

// feed everything, then, once the input queue is empty and the consumer had time to
// act on the last line, stop the buffer so that a consumer still waiting for another
// line returns (errStopped) instead of sitting out the timeout.
func verifFeedThenStop(t *trzszTransfer, lines []string, done <-chan struct{}) {
	for _, l := range lines {
		t.addReceivedData([]byte(l), false)
	}
	for i := 0; i < 2000; i++ {
		if len(t.buffer.bufCh) == 0 {
			break
		}
		time.Sleep(time.Millisecond)
	}
	select {
	case <-done:
		return
	case <-time.After(30 * time.Millisecond):
	}
	t.buffer.stopBuffer()
}

// VerifRecvPrefixHash runs the real recvPrefixHash (protocol 4) on the file at path
// against the given HASH lines.  It returns the acks written, the file offset
// afterwards and "" / the error text / "panic: ..." .
func VerifRecvPrefixHash(path string, srcSize int64, msgs []VerifHashMsg) (acks []VerifHashAck, off int64, errStr string) {
	var out verifLockedBuffer
	t := newTransfer(&out, nil, false, nil)
	t.transferConfig.Protocol = kProtocolVersion4
	t.transferConfig.Timeout = 10
	file, err := os.OpenFile(path, os.O_RDWR, 0644)
	if err != nil {
		return nil, 0, "open: " + err.Error()
	}
	defer file.Close()
	stat, _ := file.Stat()
	var lines []string
	for _, m := range msgs {
		js, _ := json.Marshal(&prefixHash{Step: m.Step, Hash: m.Hash, Over: m.Over})
		lines = append(lines, "#HASH:"+encodeString(string(js))+"\n")
	}
	done := make(chan struct{})
	go verifFeedThenStop(t, lines, done)
	func() {
		defer close(done)
		defer func() {
			if r := recover(); r != nil {
				errStr = fmt.Sprintf("panic: %v", r)
			}
		}()
		if err := t.recvPrefixHash(&simpleFileWriter{file}, &sourceFile{Size: srcSize}, &targetFile{Name: "x", Size: stat.Size()}, nil); err != nil {
			errStr = err.Error()
		}
	}()
	off, _ = file.Seek(0, io.SeekCurrent)
	for _, l := range strings.Split(out.String(), "\n") {
		if !strings.HasPrefix(l, "#SUCC:") {
			continue
		}
		b, err := decodeString(l[6:])
		if err != nil {
			continue
		}
		var a prefixHashAck
		if json.Unmarshal(b, &a) == nil {
			acks = append(acks, VerifHashAck{a.Step, a.Match})
		}
	}
	return
}

// VerifRecvHashAcks runs the real pipelineRecvHashAck against the given SUCC lines.
func VerifRecvHashAcks(size int64, acks []VerifHashAck) (matchStep int64, got bool, errStr string) {
	var out verifLockedBuffer
	t := newTransfer(&out, nil, false, nil)
	t.transferConfig.Protocol = kProtocolVersion4
	t.transferConfig.Timeout = 10
	var lines []string
	for _, a := range acks {
		js, _ := json.Marshal(&prefixHashAck{Step: a.Step, Match: a.Match})
		lines = append(lines, "#SUCC:"+encodeString(string(js))+"\n")
	}
	done := make(chan struct{})
	go verifFeedThenStop(t, lines, done)
	ctx, cancel := context.WithCancelCause(context.Background())
	defer cancel(nil)
	ch := t.pipelineRecvHashAck(ctx, cancel, size, nil)
	m, ok := <-ch
	close(done)
	if ok {
		return m, true, ""
	}
	if c := context.Cause(ctx); c != nil {
		return 0, false, c.Error()
	}
	return 0, false, "closed"
}
