//go:build verif

// Add-only exports of the trigger detector (comm.go) for the verification harness
// under /verif.  Compiled only with `-tags verif`.

package trzsz

type VerifDetector struct{ d *trzszDetector }

type VerifTrigger struct {
	Mode       byte
	Version    [3]uint32
	UniqueID   string
	WinServer  bool
	TunnelPort int
	TmuxPrefix string
}

func VerifNewDetector(relay, tmux bool) *VerifDetector {
	return &VerifDetector{newTrzszDetector(relay, tmux)}
}

// Detect calls the real detectTrzsz on a private copy of output.
func (v *VerifDetector) Detect(output []byte, tunnel bool) ([]byte, *VerifTrigger) {
	in := append([]byte(nil), output...)
	out, t := v.d.detectTrzsz(in, tunnel)
	out = append([]byte(nil), out...)
	if t == nil {
		return out, nil
	}
	vt := &VerifTrigger{Mode: t.mode, UniqueID: t.uniqueID, WinServer: t.winServer,
		TunnelPort: t.tunnelPort, TmuxPrefix: t.tmuxPrefix}
	if t.version != nil {
		vt.Version = *t.version
	}
	return out, vt
}

// IDMap returns a copy of the unique-id table.
func (v *VerifDetector) IDMap() map[string]int {
	m := make(map[string]int, len(v.d.uniqueIDMap))
	for k, x := range v.d.uniqueIDMap {
		m[k] = x
	}
	return m
}

// SeedIDMap replaces the unique-id table by a copy of m.
func (v *VerifDetector) SeedIDMap(m map[string]int) {
	n := make(map[string]int, len(m))
	for k, x := range m {
		n[k] = x
	}
	v.d.uniqueIDMap = n
}

func (v *VerifDetector) RewriteTrigger(buf []byte) []byte {
	return append([]byte(nil), v.d.rewriteTrzszTrigger(append([]byte(nil), buf...))...)
}

func (v *VerifDetector) AddRelaySuffix(output []byte, idx int) []byte {
	return append([]byte(nil), v.d.addRelaySuffix(append([]byte(nil), output...), idx)...)
}

func VerifParseTrzszVersion(ver string) ([3]uint32, bool) {
	p, err := parseTrzszVersion(ver)
	if err != nil || p == nil {
		return [3]uint32{}, false
	}
	return *p, true
}

// the three regexps, as the detector uses them
func VerifTrzszRegexpFind(b []byte) [][]byte       { return trzszRegexp.FindSubmatch(b) }
func VerifUniqueIDRegexpFindAll(b []byte) [][][]byte { return uniqueIDRegexp.FindAllSubmatch(b, -1) }
func VerifTmuxRegexpFind(b []byte) [][]byte        { return tmuxControlModeRegexp.FindSubmatch(b) }
