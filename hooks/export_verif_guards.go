//go:build verif

// Add-only exports for the verification harness under /verif (property C12: guards in
// front of allocations and of the progress position).  Compiled only with `-tags verif`.

package trzsz

import (
	"bytes"
	"context"
	"fmt"
	"io"
	"os"
	"time"
)

// VerifGuardTransfer is a transfer whose input is fed by the harness and whose output is kept.
type VerifGuardTransfer struct {
	t   *trzszTransfer
	out *bytes.Buffer
}

func VerifNewGuardTransfer(binary bool, maxBufSize int64, protocol int, timeoutSeconds int) *VerifGuardTransfer {
	out := &bytes.Buffer{}
	t := newTransfer(out, nil, false, nil)
	t.transferConfig.Binary = binary
	t.transferConfig.MaxBufSize = maxBufSize
	t.transferConfig.Protocol = protocol
	t.transferConfig.Timeout = timeoutSeconds
	return &VerifGuardTransfer{t, out}
}

func (g *VerifGuardTransfer) Feed(b []byte)  { g.t.addReceivedData(b, false) }
func (g *VerifGuardTransfer) Output() []byte { return g.out.Bytes() }

func verifErr(err error) string {
	if err == nil {
		return ""
	}
	return err.Error()
}

func verifRecover(dst *string) {
	if r := recover(); r != nil {
		*dst = fmt.Sprintf("panic: %v", r)
	}
}

// RecvBinaryV2 runs pipelineRecvBinaryData on what has been fed.
func (g *VerifGuardTransfer) RecvBinaryV2() (n int, errText string) {
	defer verifRecover(&errText)
	data, _, err := g.t.pipelineRecvBinaryData()
	return len(data), verifErr(err)
}

// RecvDataV1 runs recvData (protocol 1) on what has been fed.
func (g *VerifGuardTransfer) RecvDataV1() (n int, errText string) {
	defer verifRecover(&errText)
	data, err := g.t.recvData()
	return len(data), verifErr(err)
}

func (g *VerifGuardTransfer) RecvInteger(typ string) (v int64, errText string) {
	defer verifRecover(&errText)
	v, err := g.t.recvInteger(typ, false, g.t.getNewTimeout())
	return v, verifErr(err)
}

func (g *VerifGuardTransfer) RecvCurrentAck() (length, step int64, errText string) {
	defer verifRecover(&errText)
	length, step, _, err := g.t.pipelineRecvCurrentAck()
	return length, step, verifErr(err)
}

// RecvFinalAck runs pipelineRecvFinalAck: the steps forwarded to the progress goroutine,
// whether success was signalled, and the cancellation cause.
func (g *VerifGuardTransfer) RecvFinalAck(size int64) (forwarded []int64, succ bool, errText string) {
	defer verifRecover(&errText)
	c, cancel := context.WithCancelCause(context.Background())
	ctx := &pipelineContext{c, cancel, make(chan struct{}, 1)}
	progressChan := make(chan int64, 10000)
	g.t.pipelineRecvFinalAck(ctx, size, progressChan)
	close(progressChan)
	for s := range progressChan {
		forwarded = append(forwarded, s)
	}
	select {
	case <-ctx.succ:
		succ = true
	default:
	}
	if ctx.Err() != nil {
		errText = verifErr(context.Cause(ctx))
	}
	return
}

// RecvConfig runs recvConfig and returns the numeric fields as they stand afterwards.
func (g *VerifGuardTransfer) RecvConfig() (bufsize int64, pane int32, timeout int, protocol int, errText string) {
	defer verifRecover(&errText)
	cfg, err := g.t.recvConfig()
	if err != nil {
		return 0, 0, 0, 0, verifErr(err)
	}
	return cfg.MaxBufSize, cfg.TmuxPaneColumns, cfg.Timeout, cfg.Protocol, ""
}

// RecvPrefixHash runs recvPrefixHash on the file at path (opened read-write, as
// createDirOrFile does) for a source of srcSize bytes.
func (g *VerifGuardTransfer) RecvPrefixHash(path string, srcSize int64) (errText string) {
	defer verifRecover(&errText)
	file, err := os.OpenFile(path, os.O_RDWR, 0644)
	if err != nil {
		return "open: " + err.Error()
	}
	defer file.Close()
	stat, err := file.Stat()
	if err != nil {
		return "stat: " + err.Error()
	}
	err = g.t.recvPrefixHash(&simpleFileWriter{file}, &sourceFile{Size: srcSize}, &targetFile{Name: "x", Size: stat.Size()}, nil)
	return verifErr(err)
}

// VerifBarColumns: the width the client's progress bar gets for a terminal of term columns
// when the server announces a tmux pane of pane columns.
func VerifBarColumns(term, pane int32) (columns int32, errText string) {
	defer verifRecover(&errText)
	filter := &TrzszFilter{options: TrzszOptions{TerminalColumns: term}, trigger: &trzszTrigger{}}
	filter.createProgressBar(false, pane)
	return filter.progress.Load().columns.Load(), ""
}

func VerifParseVersion(s string) (v [3]uint32, ok bool) {
	ver, err := parseTrzszVersion(s)
	if err != nil {
		return v, false
	}
	return *ver, true
}

func VerifUnmarshalTargetSize(js string) (size int64, errText string) {
	f, err := unmarshalTargetFile(js)
	if err != nil {
		return 0, verifErr(err)
	}
	return f.Size, ""
}

// ---- scanners of terminal output, user input and peer data (C12 group "scanners") ----

// VerifScanner runs one scanner on the given chunks under recover. n is an extra integer
// argument (an index, a destination length, a flag). It returns the size of what the scanner
// produced / kept and the text of a panic ("" = none).
func VerifScanner(fn string, chunks [][]byte, n int) (outLen int, panicText string) {
	defer func() {
		if r := recover(); r != nil {
			panicText = fmt.Sprintf("panic: %v", r)
		}
	}()
	first := func() []byte {
		if len(chunks) == 0 {
			return nil
		}
		return append([]byte(nil), chunks[0]...)
	}
	switch fn {
	case "osc52":
		old := writeToClipboard
		written := 0
		writeToClipboard = func(buf []byte) { written += len(buf) }
		defer func() { writeToClipboard = old }()
		filter := &TrzszFilter{}
		for _, c := range chunks {
			filter.detectOSC52(append([]byte(nil), c...))
		}
		if filter.osc52Sequence != nil {
			written += filter.osc52Sequence.Len()
		}
		return written, ""
	case "detect-client", "detect-relay", "detect-relay-tmux", "detect-client-tunnel":
		d := newTrzszDetector(fn == "detect-relay" || fn == "detect-relay-tmux", fn == "detect-relay-tmux")
		for _, c := range chunks {
			out, _ := d.detectTrzsz(append([]byte(nil), c...), fn == "detect-client-tunnel")
			outLen += len(out)
		}
		return outLen, ""
	case "relay-suffix":
		return len(newTrzszDetector(true, false).addRelaySuffix(first(), n)), ""
	case "rewrite-trigger":
		return len(newTrzszDetector(true, true).rewriteTrzszTrigger(first())), ""
	case "zmodem":
		if detectZmodem(first()) != nil {
			return 1, ""
		}
		return 0, ""
	case "drag":
		files, _, _, _ := detectDragFiles(first())
		return len(files), ""
	case "drag-linux":
		files, _, _ := detectDragFilesOnLinux(first())
		return len(files), ""
	case "drag-macos":
		files, _, _ := detectDragFilesOnMacOS(first())
		return len(files), ""
	case "drag-windows":
		files, _, _, _ := detectDragFilesOnWindows(first())
		return len(files), ""
	case "next-linux":
		p, i := nextLinuxPath(first())
		return len(p) + i, ""
	case "next-win":
		p, i := nextWinPath(first())
		return len(p) + i, ""
	case "next-msys":
		p, i := nextMsysPath(first())
		return len(p) + i, ""
	case "next-cyg":
		p, i := nextCygPath(first())
		return len(p) + i, ""
	case "unix2win": // callers guarantee at least "/x/"
		return len(unixPathToWinPath(first())), ""
	case "trimvt100":
		return len(trimVT100(first())), ""
	case "strip-tmux":
		t := newTransfer(io.Discard, nil, false, nil)
		return len(t.stripTmuxStatusLine(first())), ""
	case "readline-windows":
		b := newTrzszBuffer()
		for _, c := range chunks {
			b.addBuffer(append([]byte(nil), c...))
		}
		// two sentinels guarantee that the reader returns instead of waiting for more input
		for i := 0; i < 4; i++ { // a call may need two of them (the first can end a VT100 sequence)
			b.addBuffer([]byte("A!\n"))
		}
		for i := 0; i < 2; i++ {
			line, err := b.readLineOnWindows(nil)
			if err != nil {
				break
			}
			outLen += len(line)
		}
		return outLen, ""
	case "unescape":
		var table *escapeTable
		if n >= 0 {
			t, err := escapeCharsToTable(verifEscapeCharsAny(n&1 == 1))
			if err != nil {
				return 0, "table: " + err.Error()
			}
			table = t
		}
		var dst []byte
		if len(chunks) > 1 {
			dst = make([]byte, len(chunks[1]))
		}
		out, rem, err := unescapeData(first(), table, dst)
		if err != nil {
			return 0, ""
		}
		return len(out) + len(rem), ""
	case "escape-table":
		var t escapeTable
		if err := t.UnmarshalJSON(first()); err != nil {
			return 0, ""
		}
		return t.totalCount, ""
	case "archive-header":
		jsonName, err := decodeString(string(first()))
		if err != nil {
			return 0, ""
		}
		f, err := unmarshalSourceFile(string(jsonName))
		if err != nil {
			return 0, ""
		}
		return len(f.getFileName()) + len(f.RelPath), ""
	case "source-file":
		f, err := unmarshalSourceFile(string(first()))
		if err != nil {
			return 0, ""
		}
		return len(f.getFileName()) + len(f.RelPath), ""
	case "relay-decode":
		// the relay's line decoder on a handshake line (whatever the user typed, whatever the server printed)
		str, err := decodeRelayBufferString("ACT", first())
		if err != nil {
			return 0, ""
		}
		return len(str), ""
	case "relay-recv-act", "relay-recv-cfg":
		// the relay's handshake readers: recvStringFromClient / FromServer (plain, junk-tolerant, Windows
		// console) and the JSON decoders of ACT and CFG behind them; n&1 = Windows server, n&2 = Windows client
		r := &TrzszRelay{stdinBuffer: newTrzszBuffer(), stdoutBuffer: newTrzszBuffer(), trigger: &trzszTrigger{winServer: n&1 == 1}, clientIsWindows: n&2 == 2}
		buf := r.stdinBuffer
		if fn == "relay-recv-cfg" {
			buf = r.stdoutBuffer
		}
		for _, c := range chunks {
			buf.addBuffer(append([]byte(nil), c...))
		}
		for i := 0; i < 4; i++ {
			buf.addBuffer([]byte("A!\n"))
		}
		for i := 0; i < 2; i++ {
			if fn == "relay-recv-act" {
				if a, err := r.recvAction(); err == nil {
					outLen += len(a.Lang) + len(a.Version) + len(a.Newline)
				}
			} else {
				if c, err := r.recvConfig(); err == nil {
					outLen += len(c.Newline)
				}
			}
		}
		return outLen, ""
	case "archive-writer":
		// chunks[0] = destination directory (deep inside the harness's own root), the rest: the archive
		// stream as the decoder hands it to the writer, piece by piece
		if len(chunks) == 0 {
			return 0, ""
		}
		dest := string(chunks[0])
		t := verifArchiveTransfer()
		w, _, err := t.createDirOrFile(dest, &sourceFile{PathID: 0, RelPath: []string{"root"}, IsDir: true, Archive: true}, true)
		if err != nil || w == nil {
			return 0, "setup: archive writer not created"
		}
		defer w.Close()
		for _, c := range chunks[1:] {
			if err := writeAll(w, c); err != nil {
				break
			}
			outLen += len(c)
		}
		return outLen, ""
	case "recv-line":
		// recvLine's junk handling (tmux / windows) + recvCheck's splitting on what a peer sent
		t := newTransfer(io.Discard, nil, false, nil)
		t.transferConfig.TmuxOutputJunk = n&1 == 1
		t.windowsProtocol = n&2 == 2
		for _, c := range chunks {
			t.addReceivedData(append([]byte(nil), c...), false)
		}
		for i := 0; i < 4; i++ {
			t.addReceivedData([]byte("#SUCC:A!\n"), false)
		}
		for i := 0; i < 2; i++ {
			s, err := t.recvCheck("SUCC", n&4 == 4, nil)
			if err == nil {
				outLen += len(s)
			}
		}
		return outLen, ""
	}
	return 0, "unknown scanner " + fn
}

func verifEscapeCharsAny(escapeAll bool) []interface{} {
	var out []interface{}
	for _, p := range getEscapeChars(escapeAll) {
		out = append(out, []interface{}{string(p[0]), string(p[1])})
	}
	return out
}

// ---- the size of the sender's chunk buffer over a sequence of acknowledgements ----

// VerifBufsizeEvolution runs the real pipelineRecvAck for a negotiated limit maxBuf over the
// given acknowledgements. lens[i] is the acknowledged length (-1: whatever the buffer size is
// at that moment, -2: half of it), agesMs[i] how long ago the chunk was sent. It returns the
// lengths actually used, the buffer size before the first and after every acknowledgement,
// and the text of the panic of newSendDataWriter's make for the final size ("" = none).
func VerifBufsizeEvolution(maxBuf int64, lens, agesMs []int64) (used, sizes []int64, makePanic string, errText string) {
	defer verifRecover(&errText)
	t := newTransfer(io.Discard, nil, false, nil)
	t.transferConfig.MaxBufSize = maxBuf
	t.transferConfig.Protocol = 2
	t.transferConfig.Timeout = 5
	c, cancel := context.WithCancelCause(context.Background())
	ctx := &pipelineContext{c, cancel, make(chan struct{}, 1)}
	defer cancel(nil)
	ackChan := make(chan trzszAck) // unbuffered: a send succeeds only when the previous acknowledgement is done
	total := int64(0)
	t.pipelineRecvAck(ctx, 0, ackChan, false)
	sizes = append(sizes, t.bufferSize.Load())
	for i := range lens {
		l := lens[i]
		switch l {
		case -1:
			l = t.bufferSize.Load()
		case -2:
			l = t.bufferSize.Load() / 2
		}
		total += l
		t.addReceivedData([]byte(fmt.Sprintf("#SUCC:%d/%d\n", l, total)), false)
		select {
		case ackChan <- trzszAck{time.Now().Add(-time.Duration(agesMs[i]) * time.Millisecond), l}:
		case <-ctx.Done():
			return used, sizes, "", verifErr(context.Cause(ctx))
		}
		used = append(used, l)
		// a second, neutral acknowledgement (length -7 never equals a buffer size and is not slow) is
		// accepted by the loop only after the first one has been dealt with completely
		select {
		case ackChan <- trzszAck{time.Now(), -7}:
			t.addReceivedData([]byte("#SUCC:-7/0\n"), false)
		case <-ctx.Done():
			return used, sizes, "", verifErr(context.Cause(ctx))
		}
		sizes = append(sizes, t.bufferSize.Load())
	}
	close(ackChan)
	t.addReceivedData([]byte("#SUCC:0\n"), false) // the final acknowledgement for size 0 ends the goroutine
	func() {
		defer func() {
			if r := recover(); r != nil {
				makePanic = fmt.Sprintf("panic: %v", r)
			}
		}()
		if s := t.bufferSize.Load(); s <= 64<<20 {
			_ = newSendDataWriter(t, ctx, make(chan trzszData, 1))
		}
	}()
	return used, sizes, makePanic, ""
}

// VerifRelayDecode classifies what the relay's line decoder does with a handshake line: "colon" (no
// type before a colon), "type" with the type it found (expected is never a real type here), or "ok".
func VerifRelayDecode(line []byte) (class string, typ string, panicText string) {
	defer func() {
		if r := recover(); r != nil {
			panicText = fmt.Sprintf("panic: %v", r)
		}
	}()
	_, err := decodeRelayBufferString("\x01never\x02", line)
	if err == nil {
		return "ok", "", ""
	}
	if e, ok := err.(*trzszError); ok {
		if e.errType == "colon" {
			return "colon", "", ""
		}
		return "type", e.errType, ""
	}
	return "other", "", ""
}

// VerifRecvCheckSplit is the same for the transfer's own recvCheck (client and servers).
func VerifRecvCheckSplit(line []byte) (class string, typ string, panicText string) {
	defer func() {
		if r := recover(); r != nil {
			panicText = fmt.Sprintf("panic: %v", r)
		}
	}()
	t := newTransfer(io.Discard, nil, false, nil)
	t.addReceivedData(append(append([]byte(nil), line...), '\n'), false)
	_, err := t.recvCheck("\x01never\x02", false, nil)
	if err == nil {
		return "ok", "", ""
	}
	if e, ok := err.(*trzszError); ok {
		if e.errType == "colon" {
			return "colon", "", ""
		}
		return "type", e.errType, ""
	}
	return "other", "", ""
}
