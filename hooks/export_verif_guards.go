//go:build verif

// Add-only exports for the verification harness under /verif (property C12: guards in
// front of allocations and of the progress position).  Compiled only with `-tags verif`.

package trzsz

import (
	"bytes"
	"context"
	"fmt"
	"os"
)

// VerifGuardTransfer is a transfer whose input is fed by the harness and whose output is kept.
type VerifGuardTransfer struct {
	t   *trzszTransfer
	out *bytes.Buffer
}

func VerifNewGuardTransfer(binary bool, maxBufSize int64, protocol int, timeoutSeconds int) *VerifGuardTransfer {
	out := &bytes.Buffer{}
	t := newTransfer(out, nil, false, nil)
	t.transferConfig.Binary = binary
	t.transferConfig.MaxBufSize = maxBufSize
	t.transferConfig.Protocol = protocol
	t.transferConfig.Timeout = timeoutSeconds
	return &VerifGuardTransfer{t, out}
}

func (g *VerifGuardTransfer) Feed(b []byte) { g.t.addReceivedData(b, false) }
func (g *VerifGuardTransfer) Output() []byte { return g.out.Bytes() }

func verifErr(err error) string {
	if err == nil {
		return ""
	}
	return err.Error()
}

func verifRecover(dst *string) {
	if r := recover(); r != nil {
		*dst = fmt.Sprintf("panic: %v", r)
	}
}

// RecvBinaryV2 runs pipelineRecvBinaryData on what has been fed.
func (g *VerifGuardTransfer) RecvBinaryV2() (n int, errText string) {
	defer verifRecover(&errText)
	data, _, err := g.t.pipelineRecvBinaryData()
	return len(data), verifErr(err)
}

// RecvDataV1 runs recvData (protocol 1) on what has been fed.
func (g *VerifGuardTransfer) RecvDataV1() (n int, errText string) {
	defer verifRecover(&errText)
	data, err := g.t.recvData()
	return len(data), verifErr(err)
}

func (g *VerifGuardTransfer) RecvInteger(typ string) (v int64, errText string) {
	defer verifRecover(&errText)
	v, err := g.t.recvInteger(typ, false, g.t.getNewTimeout())
	return v, verifErr(err)
}

func (g *VerifGuardTransfer) RecvCurrentAck() (length, step int64, errText string) {
	defer verifRecover(&errText)
	length, step, _, err := g.t.pipelineRecvCurrentAck()
	return length, step, verifErr(err)
}

// RecvFinalAck runs pipelineRecvFinalAck: the steps forwarded to the progress goroutine,
// whether success was signalled, and the cancellation cause.
func (g *VerifGuardTransfer) RecvFinalAck(size int64) (forwarded []int64, succ bool, errText string) {
	defer verifRecover(&errText)
	c, cancel := context.WithCancelCause(context.Background())
	ctx := &pipelineContext{c, cancel, make(chan struct{}, 1)}
	progressChan := make(chan int64, 10000)
	g.t.pipelineRecvFinalAck(ctx, size, progressChan)
	close(progressChan)
	for s := range progressChan {
		forwarded = append(forwarded, s)
	}
	select {
	case <-ctx.succ:
		succ = true
	default:
	}
	if ctx.Err() != nil {
		errText = verifErr(context.Cause(ctx))
	}
	return
}

// RecvConfig runs recvConfig and returns the numeric fields as they stand afterwards.
func (g *VerifGuardTransfer) RecvConfig() (bufsize int64, pane int32, timeout int, protocol int, errText string) {
	defer verifRecover(&errText)
	cfg, err := g.t.recvConfig()
	if err != nil {
		return 0, 0, 0, 0, verifErr(err)
	}
	return cfg.MaxBufSize, cfg.TmuxPaneColumns, cfg.Timeout, cfg.Protocol, ""
}

// RecvPrefixHash runs recvPrefixHash on the file at path (opened read-write, as
// createDirOrFile does) for a source of srcSize bytes.
func (g *VerifGuardTransfer) RecvPrefixHash(path string, srcSize int64) (errText string) {
	defer verifRecover(&errText)
	file, err := os.OpenFile(path, os.O_RDWR, 0644)
	if err != nil {
		return "open: " + err.Error()
	}
	defer file.Close()
	stat, err := file.Stat()
	if err != nil {
		return "stat: " + err.Error()
	}
	err = g.t.recvPrefixHash(&simpleFileWriter{file}, &sourceFile{Size: srcSize}, &targetFile{Name: "x", Size: stat.Size()}, nil)
	return verifErr(err)
}

// VerifBarColumns: the width the client's progress bar gets for a terminal of term columns
// when the server announces a tmux pane of pane columns.
func VerifBarColumns(term, pane int32) (columns int32, errText string) {
	defer verifRecover(&errText)
	filter := &TrzszFilter{options: TrzszOptions{TerminalColumns: term}, trigger: &trzszTrigger{}}
	filter.createProgressBar(false, pane)
	return filter.progress.Load().columns.Load(), ""
}

func VerifParseVersion(s string) (v [3]uint32, ok bool) {
	ver, err := parseTrzszVersion(s)
	if err != nil {
		return v, false
	}
	return *ver, true
}

func VerifUnmarshalTargetSize(js string) (size int64, errText string) {
	f, err := unmarshalTargetFile(js)
	if err != nil {
		return 0, verifErr(err)
	}
	return f.Size, ""
}
