//go:build verif

// Add-only exports for the verification harness under /verif (property C03, group "pump"):
// the REAL goroutines that pump a byte source into a trzszBuffer, started on a reader the
// harness scripts.  Compiled only with `-tags verif`.

package trzsz

import (
	"io"
	"net"
)

type verifReaderConn struct {
	net.Conn
	r io.Reader
}

func (c *verifReaderConn) Read(p []byte) (int, error) { return c.r.Read(p) }

// VerifPump owns the buffers the pumps feed; they are reused from case to case (the
// harness empties them with popBuffer).
type VerifPump struct {
	t      *trzszTransfer // fed by wrapTransferInput
	ft     *trzszTransfer // fed by TrzszFilter.wrapOutput
	filter *TrzszFilter
	in     *trzszBuffer // relay stdinBuffer
	out    *trzszBuffer // relay stdoutBuffer
	tr     *tunnelRelay
	fwd    chan []byte
	cur    *trzszBuffer
}

func VerifNewPump() *VerifPump {
	return &VerifPump{t: newTransfer(nil, nil, false, nil), in: newTrzszBuffer(), out: newTrzszBuffer()}
}

// StartTransfer runs wrapTransferInput(transfer, reader, tunnel) on the pump's transfer.
func (p *VerifPump) StartTransfer(reader io.Reader, tunnelConnected, stopped, tunnel bool) {
	p.t.tunnelConnected = tunnelConnected
	p.t.stopped.Store(stopped)
	p.cur, p.fwd = p.t.buffer, nil
	wrapTransferInput(p.t, reader, tunnel)
}

// StartFilter starts TrzszFilter.wrapOutput (it never returns) on a filter that is in the
// middle of a transfer: everything the server sends goes to transfer.addReceivedData.
func (p *VerifPump) StartFilter(reader io.Reader) {
	p.ft = newTransfer(nil, nil, false, nil)
	p.filter = &TrzszFilter{serverOut: reader}
	p.filter.transfer.Store(p.ft)
	go p.filter.wrapOutput()
}

// UseFilter selects the filter's transfer for the next case.  Only call it while the
// filter pump is blocked in Read.
func (p *VerifPump) UseFilter(tunnelConnected, stopped bool) {
	p.ft.tunnelConnected = tunnelConnected
	p.ft.stopped.Store(stopped)
	p.cur, p.fwd = p.ft.buffer, nil
}

// StartRelay runs one of the four relay pumps on a fresh TrzszRelay that shares the
// pump's handshake buffers: kind 0 TrzszRelay.wrapInput, 1 TrzszRelay.wrapOutput,
// 2 tunnelRelay.wrapInput, 3 tunnelRelay.wrapOutput.  Not handshaking = stand-by: chunks
// are forwarded on the channel returned by Forwarded.
func (p *VerifPump) StartRelay(kind int, reader io.Reader, handshaking, tunnelConnected bool, fwdCap int) {
	r := &TrzszRelay{stdinBuffer: p.in, stdoutBuffer: p.out}
	if handshaking {
		r.relayStatus.Store(kRelayHandshaking)
	} else {
		r.relayStatus.Store(kRelayStandBy)
	}
	r.tunnelConnected.Store(tunnelConnected)
	p.fwd = make(chan []byte, fwdCap)
	p.tr = nil
	switch kind {
	case 0:
		r.clientIn, r.osStdinChan, p.cur = reader, p.fwd, p.in
		go r.wrapInput()
	case 1:
		r.serverOut, r.osStdoutChan, r.bypassTmuxChan, p.cur = reader, p.fwd, p.fwd, p.out
		go r.wrapOutput()
	case 2:
		t := &tunnelRelay{clientConn: &verifReaderConn{r: reader}, clientBufChan: p.fwd}
		t.relay.Store(r)
		p.tr, p.cur = t, p.in
		go t.wrapInput()
	default:
		t := &tunnelRelay{serverConn: &verifReaderConn{r: reader}, serverBufChan: p.fwd}
		t.relay.Store(r)
		p.tr, p.cur = t, p.out
		go t.wrapOutput()
	}
}

// DetachRelay does what resetToStandby does to a tunnel relay (its pumps wait for it
// before they return at EOF).
func (p *VerifPump) DetachRelay() {
	if p.tr != nil {
		p.tr.relay.Store(nil)
	}
}

// Forwarded returns the chunks a relay pump sent on instead of parking them; it returns
// when the pump has closed the channel, i.e. has finished.
func (p *VerifPump) Forwarded() [][]byte {
	var out [][]byte
	if p.fwd == nil {
		return nil
	}
	for b := range p.fwd {
		out = append(out, b)
	}
	return out
}

// Buffer is the trzszBuffer the pump started last feeds.
func (p *VerifPump) Buffer() *VerifBuffer { return &VerifBuffer{p.cur} }
