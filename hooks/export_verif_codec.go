//go:build verif

// Add-only exports for the verification harness under /verif (codec layer: base64
// reader/writer, encodeBytes/decodeString, sendDataWriter framing, pipelineSendData,
// the line senders and receivers, isTrzszLetter).  Compiled only with `-tags verif`.

package trzsz

import (
	"context"
	"io"
	"sync/atomic"
)

func VerifNewBase64Writer(w io.WriteCloser) io.WriteCloser { return newBase64Writer(w) }

func VerifNewBase64Reader(r io.Reader) VerifReadCloser { return newBase64Reader(r) }

func VerifEncodeBytes(buf []byte) string { return encodeBytes(buf) }

func VerifDecodeString(s string) ([]byte, error) { return decodeString(s) }

func VerifIsTrzszLetter(b byte) bool { return isTrzszLetter(b) }

func verifNewCtx() *pipelineContext {
	c, cancel := context.WithCancelCause(context.Background())
	return &pipelineContext{c, cancel, make(chan struct{}, 1)}
}

// VerifNewRecvDataReader returns the real recvDataReader over a closed channel that
// delivers the given frames.
func VerifNewRecvDataReader(frames [][]byte) io.Reader {
	ch := make(chan []byte, len(frames)+1)
	for _, f := range frames {
		ch <- f
	}
	close(ch)
	return newRecvDataReader(verifNewCtx(), ch)
}

// VerifFrame is what sendDataWriter.deliver hands to pipelineSendData.
type VerifFrame struct {
	Data   []byte // the piece of the encoded stream
	Buffer []byte // the assembled wire bytes
}

// VerifSendDataWriter runs the real sendDataWriter: sizes[0] is the buffer size when the
// writer is created, sizes[i] the size in force after the i-th frame has been delivered
// (dflt once the list is exhausted).  The buffer-initialisation handshake (bufInitPhase /
// bufInitWG) is used to change the size exactly between two frames, as pipelineRecvAck does.
func VerifSendDataWriter(binary bool, newline string, sizes []int64, dflt int64, chunks [][]byte) []VerifFrame {
	t := newTransfer(nil, nil, false, nil)
	t.transferConfig.Binary = binary
	t.transferConfig.Newline = newline
	next := func() int64 {
		if len(sizes) == 0 {
			return dflt
		}
		s := sizes[0]
		sizes = sizes[1:]
		return s
	}
	t.bufInitPhase.Store(true)
	t.bufferSize.Store(next())
	ch := make(chan trzszData)
	var closing atomic.Bool
	var frames []VerifFrame
	done := make(chan struct{})
	go func() {
		defer close(done)
		for d := range ch {
			frames = append(frames, VerifFrame{append([]byte(nil), d.data...), append([]byte(nil), d.buffer...)})
			if !closing.Load() {
				t.bufferSize.Store(next())
				t.bufInitDone()
			}
		}
	}()
	w := newSendDataWriter(t, verifNewCtx(), ch)
	for _, c := range chunks {
		if n, err := w.Write(c); err != nil || n != len(c) {
			panic("sendDataWriter.Write failed")
		}
	}
	closing.Store(true)
	if err := w.Close(); err != nil {
		panic(err)
	}
	close(ch)
	<-done
	return frames
}

// VerifPipelineSendData runs the real pipelineSendData over the given frames.  mkWriter
// receives a setter for the current buffer size and returns the connection writer; the
// harness changes the size from inside Write, i.e. at a known point of the sending loop.
func VerifPipelineSendData(binary bool, newline string, initSize int64, frames []VerifFrame,
	mkWriter func(setSize func(int64)) io.Writer) (acks []int64, err error) {
	t := newTransfer(nil, nil, false, nil)
	t.writer = mkWriter(func(n int64) { t.bufferSize.Store(n) })
	t.transferConfig.Binary = binary
	t.transferConfig.Newline = newline
	t.bufferSize.Store(initSize)
	ctx := verifNewCtx()
	ch := make(chan trzszData, len(frames)+1)
	for _, f := range frames {
		ch <- trzszData{f.Data, f.Buffer, 0}
	}
	close(ch)
	for a := range t.pipelineSendData(ctx, ch) {
		acks = append(acks, a.length)
	}
	return acks, context.Cause(ctx)
}

// VerifPipelineRecvFrames feeds the wire to a fresh transfer chunk by chunk and runs the
// real pipelineRecvData until the finish flag or an error.
func VerifPipelineRecvFrames(binary bool, timeoutSec int, wire [][]byte) (frames [][]byte, acks []int, rest []byte, err error) {
	return verifPipelineRecvFrames(binary, false, timeoutSec, wire)
}

// VerifPipelineRecvFramesWindows is the same on the Windows-console path of recvLine
// (windowsProtocol: lines end at '!', read by readLineOnWindows).
func VerifPipelineRecvFramesWindows(binary bool, timeoutSec int, wire [][]byte) (frames [][]byte, acks []int, rest []byte, err error) {
	return verifPipelineRecvFrames(binary, true, timeoutSec, wire)
}

func verifPipelineRecvFrames(binary, windows bool, timeoutSec int, wire [][]byte) (frames [][]byte, acks []int, rest []byte, err error) {
	t := newTransfer(nil, nil, false, nil)
	t.transferConfig.Binary = binary
	t.transferConfig.Timeout = timeoutSec
	t.windowsProtocol = windows
	if windows {
		t.transferConfig.Newline = "!\n"
	}
	for _, c := range wire {
		t.buffer.addBuffer(c)
	}
	ctx := verifNewCtx()
	ackChan, dataChan := t.pipelineRecvData(ctx)
	done := make(chan struct{})
	go func() {
		defer close(done)
		for a := range ackChan {
			acks = append(acks, a)
		}
	}()
	for d := range dataChan {
		frames = append(frames, d)
	}
	<-done
	for {
		b := t.buffer.popBuffer()
		if b == nil {
			break
		}
		rest = append(rest, b...)
	}
	return frames, acks, rest, context.Cause(ctx)
}

// VerifWire gives access to the line senders / receivers of a transfer.
type VerifWire struct{ t *trzszTransfer }

func VerifNewWire(w io.Writer, binary bool, table *VerifEscapeTable, timeoutSec int) *VerifWire {
	t := newTransfer(w, nil, false, nil)
	t.transferConfig.Binary = binary
	t.transferConfig.EscapeTable = table
	t.transferConfig.Timeout = timeoutSec
	return &VerifWire{t}
}

func (v *VerifWire) SendLine(typ, buf string) error          { return v.t.sendLine(typ, buf) }
func (v *VerifWire) SendInteger(typ string, val int64) error { return v.t.sendInteger(typ, val) }
func (v *VerifWire) SendString(typ, s string) error          { return v.t.sendString(typ, s) }
func (v *VerifWire) SendBinary(typ string, buf []byte) error { return v.t.sendBinary(typ, buf) }
func (v *VerifWire) SendData(data []byte) error              { return v.t.sendData(data) }
func (v *VerifWire) Feed(b []byte)                           { v.t.buffer.addBuffer(b) }
func (v *VerifWire) RecvData() ([]byte, error)               { return v.t.recvData() }
func (v *VerifWire) RecvInteger(typ string) (int64, error) {
	return v.t.recvInteger(typ, false, v.t.getNewTimeout())
}

// PauseLines makes the transfer pause (protocol >= 3) and calls checkStopAndPause; the
// caller's writer resumes it (Resume) after it has seen the keep-alive lines it wants.
func (v *VerifWire) PauseLines(typ string, protocol int) error {
	v.t.transferConfig.Protocol = protocol
	v.t.pausing.Store(true)
	return v.t.checkStopAndPause(typ)
}
func (v *VerifWire) Resume() { v.t.pausing.Store(false) }

func (v *VerifWire) Rest() []byte {
	var rest []byte
	for {
		b := v.t.buffer.popBuffer()
		if b == nil {
			return rest
		}
		rest = append(rest, b...)
	}
}
