//go:build verif

// Add-only exports for the verification harness under /verif (property C17: the tunnel).
// Compiled only with `-tags verif`.

package trzsz

import (
	"bytes"
	"net"
	"sync"
)

func VerifGetHelloConstant(uniqueID string, port int) (string, string) {
	return getHelloConstant(uniqueID, port)
}

type verifSyncBuf struct {
	mu sync.Mutex
	b  bytes.Buffer
}

func (w *verifSyncBuf) Write(p []byte) (int, error) {
	w.mu.Lock()
	defer w.mu.Unlock()
	return w.b.Write(p)
}

func (w *verifSyncBuf) bytes() []byte {
	w.mu.Lock()
	defer w.mu.Unlock()
	return append([]byte(nil), w.b.Bytes()...)
}

// VerifTunnelEnd is one end of a transfer with the real tunnel code attached: a server end
// (newTransfer + listenForTunnel + acceptOnTunnel, as trz.go / tsz.go do) or a client end
// (newTransfer + connectToTunnel, as filter.go handleTrzsz does).
type VerifTunnelEnd struct {
	t        *trzszTransfer
	listener net.Listener
	out      *verifSyncBuf
	Port     int
}

// VerifNewTunnelServer: listener on 127.0.0.1:0, transfer writing in-band output to a buffer,
// acceptOnTunnel(listener, uniqueID, port).  nil when listening fails.
func VerifNewTunnelServer(uniqueID string) *VerifTunnelEnd {
	listener, port := listenForTunnel()
	if listener == nil {
		return nil
	}
	out := &verifSyncBuf{}
	t := newTransfer(out, nil, false, nil)
	t.acceptOnTunnel(listener, uniqueID, port)
	return &VerifTunnelEnd{t: t, listener: listener, out: out, Port: port}
}

// VerifNewTunnelClient: transfer writing in-band output to a buffer, connectToTunnel.
func VerifNewTunnelClient(connector func(int) net.Conn, uniqueID string, port int) *VerifTunnelEnd {
	out := &verifSyncBuf{}
	t := newTransfer(out, nil, false, nil)
	t.connectToTunnel(connector, uniqueID, port)
	return &VerifTunnelEnd{t: t, out: out, Port: port}
}

// AdoptedAddrs: local and remote address of the connection in tunnelConn ("", "" when nil).
func (e *VerifTunnelEnd) AdoptedAddrs() (string, string) {
	c := e.t.tunnelConn.Load()
	if c == nil {
		return "", ""
	}
	return (*c).LocalAddr().String(), (*c).RemoteAddr().String()
}

// AddInband does what the stdin pump (wrapTransferInput(t, os.Stdin, false)) does with a chunk.
func (e *VerifTunnelEnd) AddInband(b []byte) { e.t.addReceivedData(append([]byte(nil), b...), false) }

// Drain removes and returns everything that is in the transfer's input buffer.
func (e *VerifTunnelEnd) Drain() [][]byte {
	var out [][]byte
	for {
		b := e.t.buffer.popBuffer()
		if b == nil {
			return out
		}
		out = append(out, append([]byte(nil), b...))
	}
}

// RecvAction runs the real recvAction (reads the ACT line from the input buffer).
func (e *VerifTunnelEnd) RecvAction() (tunnel bool, err error) {
	a, err := e.t.recvAction()
	if err != nil {
		return false, err
	}
	return a.TunnelConnected, nil
}

// SendAction runs the real sendAction (waits for connectToTunnel, adopts, sends the ACT).
func (e *VerifTunnelEnd) SendAction() error { return e.t.sendAction(true, nil, false) }

func (e *VerifTunnelEnd) TunnelConnected() bool { return e.t.tunnelConnected }

// WriterAddrs: addresses of the writer when it is a network connection, else "", "".
func (e *VerifTunnelEnd) WriterAddrs() (string, string) {
	if c, ok := e.t.writer.(net.Conn); ok {
		return c.LocalAddr().String(), c.RemoteAddr().String()
	}
	return "", ""
}

// SendLine writes one protocol line through the transfer's current writer.
func (e *VerifTunnelEnd) SendLine(typ, buf string) error { return e.t.sendLine(typ, buf) }

// InbandOutput: everything written to the in-band writer so far.
func (e *VerifTunnelEnd) InbandOutput() []byte { return e.out.bytes() }

// Stop unblocks a pending recvAction / read.
func (e *VerifTunnelEnd) Stop() { e.t.stopTransferringFiles(false) }

// Cleanup does what trz.go / tsz.go / filter.go do at the end of a transfer.
func (e *VerifTunnelEnd) Cleanup() {
	e.t.cleanup()
	if e.listener != nil {
		e.listener.Close()
	}
}
