//go:build verif

package trzsz

import (
	"bytes"
	"time"
)

// VerifRecvFileMD5 runs the receiver's digest check (recvFileMD5) with the given local
// digest against a delivered "#MD5:" line; it reports whether the file was accepted and
// what the receiver wrote back.
func VerifRecvFileMD5(local []byte, delivered []byte) (bool, []byte) {
	var out bytes.Buffer
	t := newTransfer(&out, nil, false, nil)
	t.transferConfig.Timeout = 1
	t.addReceivedData([]byte("#MD5:"+encodeBytes(delivered)+"\n"), false)
	err := t.recvFileMD5(local, nil)
	return err == nil, out.Bytes()
}

// VerifSendFileMD5 runs the sender's final check (sendFileMD5) with its own digest
// against an echoed "#SUCC:" line; it reports whether the sender counts the file as done.
func VerifSendFileMD5(mine []byte, echoed []byte) bool {
	var out bytes.Buffer
	t := newTransfer(&out, nil, false, nil)
	t.transferConfig.Timeout = 1
	t.addReceivedData([]byte("#SUCC:"+encodeBytes(echoed)+"\n"), false)
	return t.sendFileMD5(mine, nil) == nil
}

// VerifCheckInteger runs checkInteger(expect) against a delivered "#SUCC:<text>" line.
func VerifCheckInteger(expect int64, text string) bool {
	var out bytes.Buffer
	t := newTransfer(&out, nil, false, nil)
	t.addReceivedData([]byte("#SUCC:"+text+"\n"), false)
	return t.checkInteger(expect, time.After(time.Second)) == nil
}
