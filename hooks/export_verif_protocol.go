//go:build verif

package trzsz

import (
	"bytes"
	"encoding/json"
	"io"
	"os"
	"sync"
	"time"
)

// VerifRecvFileMD5 runs the receiver's digest check (recvFileMD5) with the given local
// digest against a delivered "#MD5:" line; it reports whether the file was accepted and
// what the receiver wrote back.
func VerifRecvFileMD5(local []byte, delivered []byte) (bool, []byte) {
	var out bytes.Buffer
	t := newTransfer(&out, nil, false, nil)
	t.transferConfig.Timeout = 1
	t.addReceivedData([]byte("#MD5:"+encodeBytes(delivered)+"\n"), false)
	err := t.recvFileMD5(local, nil)
	return err == nil, out.Bytes()
}

// VerifSendFileMD5 runs the sender's final check (sendFileMD5) with its own digest
// against an echoed "#SUCC:" line; it reports whether the sender counts the file as done.
func VerifSendFileMD5(mine []byte, echoed []byte) bool {
	var out bytes.Buffer
	t := newTransfer(&out, nil, false, nil)
	t.transferConfig.Timeout = 1
	t.addReceivedData([]byte("#SUCC:"+encodeBytes(echoed)+"\n"), false)
	return t.sendFileMD5(mine, nil) == nil
}

// VerifCheckInteger runs checkInteger(expect) against a delivered "#SUCC:<text>" line.
func VerifCheckInteger(expect int64, text string) bool {
	var out bytes.Buffer
	t := newTransfer(&out, nil, false, nil)
	t.addReceivedData([]byte("#SUCC:"+text+"\n"), false)
	return t.checkInteger(expect, time.After(time.Second)) == nil
}

// VerifRecvAfterStop arms the stop flag (keep or delete) on a fresh transfer and then calls
// the given reader; it returns the error text the reader reports.
// reader: "line" (recvLine), "linejunk" (recvLine with junk tolerance), "v2" (recvCheckV2),
// "senddata" (sendData), "gate" (checkStopAndPause)
func VerifRecvAfterStop(reader string, windows bool, del bool, protocol int) string {
	var out bytes.Buffer
	t := newTransfer(&out, nil, false, nil)
	t.transferConfig.Timeout = 1
	t.transferConfig.Protocol = protocol
	t.windowsProtocol = windows
	if windows {
		t.transferConfig.Newline = "!\n"
	}
	if reader == "senddata" || reader == "gate" {
		// these do not block: the stop has to be in force before they are called
		t.stopTransferringFiles(del)
	} else {
		go func() {
			time.Sleep(30 * time.Millisecond)
			t.stopTransferringFiles(del)
		}()
	}
	var err error
	switch reader {
	case "line":
		_, err = t.recvLine("SUCC", false, time.After(2*time.Second))
	case "linejunk":
		_, err = t.recvLine("SUCC", true, time.After(2*time.Second))
	case "v2":
		_, _, _, err = t.recvCheckV2("SUCC")
	case "senddata":
		err = t.sendData([]byte("x"))
	case "gate":
		err = t.checkStopAndPause("DATA")
	}
	if err == nil {
		return ""
	}
	return err.Error()
}

// ---- C02: the per-file receiver and sender sequences of recvFiles / sendFiles on scripted input ----

// VerifFileCfg is the part of transferConfig the per-file exchange depends on.
type VerifFileCfg struct {
	Protocol   int
	Binary     bool
	Compress   int // 0 auto, 1 yes, 2 no
	Table      *VerifEscapeTable
	TimeoutSec int
}

func (c VerifFileCfg) newTransfer(w io.Writer) *trzszTransfer {
	t := newTransfer(w, nil, false, nil)
	t.transferConfig.Protocol = c.Protocol
	t.transferConfig.Binary = c.Binary
	t.transferConfig.CompressType = compressType(c.Compress)
	t.transferConfig.EscapeTable = c.Table
	t.transferConfig.Timeout = c.TimeoutSec
	return t
}

type verifMemWriter struct {
	mu  sync.Mutex
	buf bytes.Buffer
}

func (f *verifMemWriter) Write(p []byte) (int, error) {
	f.mu.Lock()
	defer f.mu.Unlock()
	return f.buf.Write(p)
}
func (f *verifMemWriter) Close() error      { return nil }
func (f *verifMemWriter) getFile() *os.File { return nil }
func (f *verifMemWriter) bytes() []byte {
	f.mu.Lock()
	defer f.mu.Unlock()
	return append([]byte(nil), f.buf.Bytes()...)
}

type verifMemReader struct {
	r    *bytes.Reader
	size int64
}

func (f *verifMemReader) Read(p []byte) (int, error) { return f.r.Read(p) }
func (f *verifMemReader) Close() error               { return nil }
func (f *verifMemReader) getFile() *os.File          { return nil }
func (f *verifMemReader) getSize() int64             { return f.size }

// VerifRecvOneFile runs what recvFiles does for one file after the SIZE exchange
// (recvFileDataV2 or recvFileData, then recvFileMD5) on the delivered chunks.  It reports
// whether the file was accepted (the MD5 line answered with SUCC), the bytes written to the
// file, the bytes written to the connection, whether the error was the receive timeout, and
// whether nothing was decided before the deadline.
func VerifRecvOneFile(cfg VerifFileCfg, size int64, delivered [][]byte, deadline time.Duration) (accepted bool, written []byte, replies []byte, timedOut bool, hung bool) {
	out := &verifMemWriter{}
	t := cfg.newTransfer(out)
	for _, c := range delivered {
		t.addReceivedData(c, false)
	}
	file := &verifMemWriter{}
	done := make(chan error, 1)
	go func() {
		var digest []byte
		var err error
		if cfg.Protocol >= kProtocolVersion2 {
			digest, err = t.recvFileDataV2(file, size, nil)
		} else {
			digest, err = t.recvFileData(file, size, nil)
		}
		if err == nil {
			err = t.recvFileMD5(digest, nil)
		}
		done <- err
	}()
	select {
	case err := <-done:
		return err == nil, file.bytes(), out.bytes(), err == errReceiveDataTimeout, false
	case <-time.After(deadline):
		t.stopTransferringFiles(false)
		select {
		case <-done:
		case <-time.After(2 * time.Second):
		}
		return false, file.bytes(), out.bytes(), false, true
	}
}

// VerifSendOneFile runs what sendFiles does for one file after the SIZE exchange
// (sendFileDataV2 or sendFileData, then sendFileMD5).  Every write of the sender is handed to
// respond, whose result is delivered to the sender.  It reports whether the sender counts the
// file as done.
func VerifSendOneFile(cfg VerifFileCfg, content []byte, respond func(written []byte) [][]byte, deadline time.Duration) (done bool, timedOut bool, hung bool) {
	var t *trzszTransfer
	t = cfg.newTransfer(verifWriterFunc(func(p []byte) {
		for _, c := range respond(append([]byte(nil), p...)) {
			t.addReceivedData(c, false)
		}
	}))
	file := &verifMemReader{bytes.NewReader(content), int64(len(content))}
	res := make(chan error, 1)
	go func() {
		var digest []byte
		var err error
		if cfg.Protocol >= kProtocolVersion2 {
			digest, err = t.sendFileDataV2(file, nil)
		} else {
			digest, err = t.sendFileData(file, nil)
		}
		if err == nil {
			err = t.sendFileMD5(digest, nil)
		}
		res <- err
	}()
	select {
	case err := <-res:
		return err == nil, err == errReceiveDataTimeout, false
	case <-time.After(deadline):
		t.stopTransferringFiles(false)
		select {
		case <-res:
		case <-time.After(2 * time.Second):
		}
		return false, false, true
	}
}

type verifWriterFunc func(p []byte)

func (f verifWriterFunc) Write(p []byte) (int, error) { f(p); return len(p), nil }

// VerifDecodeFrames runs the decoder stack of pipelineDecodeData (base64 or escape reader,
// optionally under a zstd reader) over the given frames; it returns what the stack produced
// before the end of the frames or the first error.
func VerifDecodeFrames(binary, compress bool, table *VerifEscapeTable, frames [][]byte) ([]byte, error) {
	src := VerifNewRecvDataReader(frames)
	var reader readCloser
	var err error
	if binary {
		reader = newEscapeReader(table, src)
	} else {
		reader = newBase64Reader(src)
	}
	if compress {
		reader, err = newZstdReader(reader)
		if err != nil {
			return nil, err
		}
	}
	defer reader.Close()
	var out []byte
	for {
		buffer := make([]byte, 32*1024)
		n, err := reader.Read(buffer)
		out = append(out, buffer[:n]...)
		if err == io.EOF {
			return out, nil
		}
		if err != nil {
			return out, err
		}
	}
}

// ---- C02: a real sendFiles and a real recvFiles joined in process by a link the harness owns ----

// VerifLinkResult is what one in-process transfer left behind.
type VerifLinkResult struct {
	SendOK, RecvOK   bool      // sendFiles / recvFiles returned nil: that side reports the files as saved
	SendErr, RecvErr string    // the error text otherwise (diagnostics only)
	Sent             [2][]byte // what each side wrote: [0] sender -> receiver, [1] receiver -> sender
	Deliv            [2][]byte // what reached the other side after the filter
	Hung             bool
}

type verifFaultLink struct {
	mu     sync.Mutex
	dir    int
	peer   *trzszTransfer
	res    *VerifLinkResult
	filter func(dir int, p []byte) [][]byte
}

func (l *verifFaultLink) Write(p []byte) (int, error) {
	l.mu.Lock()
	defer l.mu.Unlock()
	l.res.Sent[l.dir] = append(l.res.Sent[l.dir], p...)
	chunks := [][]byte{append([]byte(nil), p...)}
	if l.filter != nil {
		chunks = l.filter(l.dir, append([]byte(nil), p...))
	}
	for _, c := range chunks {
		if len(c) > 0 {
			l.res.Deliv[l.dir] = append(l.res.Deliv[l.dir], c...)
			l.peer.addReceivedData(c, false)
		}
	}
	return len(p), nil
}

// VerifFaultPair transfers the source paths into destDir with two trzszTransfer objects that
// share the given transfer configuration (JSON as in the CFG line).  Every write of either side
// goes through filter (nil = deliver as written).  A side that fails tells its peer (clientError),
// as the programs do.
func VerifFaultPair(cfgJSON []byte, srcPaths []string, destDir string, filter func(dir int, p []byte) [][]byte,
	deadline time.Duration) (*VerifLinkResult, error) {
	res := &VerifLinkResult{}
	s2r := &verifFaultLink{dir: 0, res: res, filter: filter}
	r2s := &verifFaultLink{dir: 1, res: res, filter: filter}
	s2r.mu, r2s.mu = sync.Mutex{}, sync.Mutex{}
	sender := newTransfer(s2r, nil, false, nil)
	receiver := newTransfer(r2s, nil, false, nil)
	s2r.peer, r2s.peer = receiver, sender
	for _, t := range []*trzszTransfer{sender, receiver} {
		t.cleanTimeout = 20 * time.Millisecond
		if err := json.Unmarshal(cfgJSON, &t.transferConfig); err != nil {
			return nil, err
		}
	}
	files, err := checkPathsReadable(srcPaths, false)
	if err != nil {
		return nil, err
	}
	var wg sync.WaitGroup
	wg.Add(2)
	var sendErr, recvErr error
	go func() {
		defer wg.Done()
		_, sendErr = sender.sendFiles(files, nil)
		if sendErr != nil {
			sender.clientError(sendErr)
		}
	}()
	go func() {
		defer wg.Done()
		_, recvErr = receiver.recvFiles(destDir, nil)
		if recvErr != nil {
			receiver.clientError(recvErr)
		}
	}()
	done := make(chan struct{})
	go func() { wg.Wait(); close(done) }()
	select {
	case <-done:
	case <-time.After(deadline):
		res.Hung = true
		sender.stopTransferringFiles(false)
		receiver.stopTransferringFiles(false)
		select {
		case <-done:
		case <-time.After(3 * time.Second):
			return res, nil
		}
	}
	// both links share res: take the locks before reading what they recorded
	s2r.mu.Lock()
	r2s.mu.Lock()
	defer s2r.mu.Unlock()
	defer r2s.mu.Unlock()
	res.SendOK, res.RecvOK = sendErr == nil, recvErr == nil
	if sendErr != nil {
		res.SendErr = sendErr.Error()
	}
	if recvErr != nil {
		res.RecvErr = recvErr.Error()
	}
	return res, nil
}
