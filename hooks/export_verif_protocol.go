//go:build verif

package trzsz

import (
	"bytes"
	"time"
)

// VerifRecvFileMD5 runs the receiver's digest check (recvFileMD5) with the given local
// digest against a delivered "#MD5:" line; it reports whether the file was accepted and
// what the receiver wrote back.
func VerifRecvFileMD5(local []byte, delivered []byte) (bool, []byte) {
	var out bytes.Buffer
	t := newTransfer(&out, nil, false, nil)
	t.transferConfig.Timeout = 1
	t.addReceivedData([]byte("#MD5:"+encodeBytes(delivered)+"\n"), false)
	err := t.recvFileMD5(local, nil)
	return err == nil, out.Bytes()
}

// VerifSendFileMD5 runs the sender's final check (sendFileMD5) with its own digest
// against an echoed "#SUCC:" line; it reports whether the sender counts the file as done.
func VerifSendFileMD5(mine []byte, echoed []byte) bool {
	var out bytes.Buffer
	t := newTransfer(&out, nil, false, nil)
	t.transferConfig.Timeout = 1
	t.addReceivedData([]byte("#SUCC:"+encodeBytes(echoed)+"\n"), false)
	return t.sendFileMD5(mine, nil) == nil
}

// VerifCheckInteger runs checkInteger(expect) against a delivered "#SUCC:<text>" line.
func VerifCheckInteger(expect int64, text string) bool {
	var out bytes.Buffer
	t := newTransfer(&out, nil, false, nil)
	t.addReceivedData([]byte("#SUCC:"+text+"\n"), false)
	return t.checkInteger(expect, time.After(time.Second)) == nil
}

// VerifRecvAfterStop arms the stop flag (keep or delete) on a fresh transfer and then calls
// the given reader; it returns the error text the reader reports.
// reader: "line" (recvLine), "linejunk" (recvLine with junk tolerance), "v2" (recvCheckV2),
// "senddata" (sendData), "gate" (checkStopAndPause)
func VerifRecvAfterStop(reader string, windows bool, del bool, protocol int) string {
	var out bytes.Buffer
	t := newTransfer(&out, nil, false, nil)
	t.transferConfig.Timeout = 1
	t.transferConfig.Protocol = protocol
	t.windowsProtocol = windows
	if windows {
		t.transferConfig.Newline = "!\n"
	}
	go func() {
		time.Sleep(30 * time.Millisecond)
		t.stopTransferringFiles(del)
	}()
	var err error
	switch reader {
	case "line":
		_, err = t.recvLine("SUCC", false, time.After(2*time.Second))
	case "linejunk":
		_, err = t.recvLine("SUCC", true, time.After(2*time.Second))
	case "v2":
		_, _, _, err = t.recvCheckV2("SUCC")
	case "senddata":
		time.Sleep(60 * time.Millisecond)
		err = t.sendData([]byte("x"))
	case "gate":
		time.Sleep(60 * time.Millisecond)
		err = t.checkStopAndPause("DATA")
	}
	if err == nil {
		return ""
	}
	return err.Error()
}
