//go:build verif

// Add-only exports for the verification harness under /verif (property C20: the
// progress line).  Compiled only with `-tags verif`.

package trzsz

import (
	"bytes"
	"time"
)

// VerifProgress wraps a real textProgressBar that writes into a buffer.
type VerifProgress struct {
	p   *textProgressBar
	buf *bytes.Buffer
}

func VerifNewProgress(columns, tmuxPaneColumns int32, colorPair string) *VerifProgress {
	buf := &bytes.Buffer{}
	return &VerifProgress{p: newTextProgressBar(buf, columns, tmuxPaneColumns, "", colorPair), buf: buf}
}

func (v *VerifProgress) OnNum(num int64)               { v.p.onNum(num) }
func (v *VerifProgress) OnName(name string)            { v.p.onName(name) }
func (v *VerifProgress) OnSize(size int64)             { v.p.onSize(size) }
func (v *VerifProgress) OnStep(step int64)             { v.p.onStep(step) }
func (v *VerifProgress) OnDone()                       { v.p.onDone() }
func (v *VerifProgress) SetPreSize(size int64)         { v.p.setPreSize(size) }
func (v *VerifProgress) SetPause(pausing bool)         { v.p.setPause(pausing) }
func (v *VerifProgress) SetTerminalColumns(cols int32) { v.p.setTerminalColumns(cols) }

// TakeOutput returns what the bar has written since the last call.
func (v *VerifProgress) TakeOutput() string {
	s := v.buf.String()
	v.buf.Reset()
	return s
}

// State exposes the fields the displayed line is computed from.
func (v *VerifProgress) State() (fileCount, fileIdx int, fileStep, fileSize, preSize int64, columns, tmuxPaneColumns int32) {
	return v.p.fileCount, v.p.fileIdx, v.p.fileStep, v.p.fileSize, v.p.preSize, v.p.columns.Load(), v.p.tmuxPaneColumns.Load()
}

// SetState puts the bar into an arbitrary state for direct calls of GetProgressText / GetProgressBar.
func (v *VerifProgress) SetState(fileCount, fileIdx int, fileName string, fileStep, fileSize int64) {
	v.p.fileCount, v.p.fileIdx, v.p.fileName, v.p.fileStep, v.p.fileSize = fileCount, fileIdx, fileName, fileStep, fileSize
}

func (v *VerifProgress) GetProgressText(percentage, total, speed, eta string) string {
	return v.p.getProgressText(percentage, total, speed, eta)
}

func (v *VerifProgress) GetProgressBar(length int) string { return v.p.getProgressBar(length) }

func VerifGetEllipsisString(str string, max int) (string, int) { return getEllipsisString(str, max) }

// VerifSetTimeNow pins the clock used by the progress bar; it returns the restore function.
func VerifSetTimeNow(f func() time.Time) func() {
	old := timeNowFunc
	timeNowFunc = f
	return func() { timeNowFunc = old }
}
