//go:build verif

// Add-only exports for the verification harness under /verif (property C20: the
// progress line).  Compiled only with `-tags verif`.

package trzsz

import (
	"bytes"
	"fmt"
	"io"
	"sync"
	"time"
)

// VerifProgress wraps a real textProgressBar that writes into a buffer.
type VerifProgress struct {
	p   *textProgressBar
	buf *bytes.Buffer
}

func VerifNewProgress(columns, tmuxPaneColumns int32, colorPair string) *VerifProgress {
	buf := &bytes.Buffer{}
	return &VerifProgress{p: newTextProgressBar(buf, columns, tmuxPaneColumns, "", colorPair), buf: buf}
}

func (v *VerifProgress) OnNum(num int64)               { v.p.onNum(num) }
func (v *VerifProgress) OnName(name string)            { v.p.onName(name) }
func (v *VerifProgress) OnSize(size int64)             { v.p.onSize(size) }
func (v *VerifProgress) OnStep(step int64)             { v.p.onStep(step) }
func (v *VerifProgress) OnDone()                       { v.p.onDone() }
func (v *VerifProgress) SetPreSize(size int64)         { v.p.setPreSize(size) }
func (v *VerifProgress) SetPause(pausing bool)         { v.p.setPause(pausing) }
func (v *VerifProgress) SetTerminalColumns(cols int32) { v.p.setTerminalColumns(cols) }

// TakeOutput returns what the bar has written since the last call.
func (v *VerifProgress) TakeOutput() string {
	s := v.buf.String()
	v.buf.Reset()
	return s
}

// State exposes the fields the displayed line is computed from.
func (v *VerifProgress) State() (fileCount, fileIdx int, fileStep, fileSize, preSize int64, columns, tmuxPaneColumns int32) {
	return v.p.fileCount, v.p.fileIdx, v.p.fileStep, v.p.fileSize, v.p.preSize, v.p.columns.Load(), v.p.tmuxPaneColumns.Load()
}

// SetState puts the bar into an arbitrary state for direct calls of GetProgressText / GetProgressBar.
func (v *VerifProgress) SetState(fileCount, fileIdx int, fileName string, fileStep, fileSize int64) {
	v.p.fileCount, v.p.fileIdx, v.p.fileName, v.p.fileStep, v.p.fileSize = fileCount, fileIdx, fileName, fileStep, fileSize
}

func (v *VerifProgress) GetProgressText(percentage, total, speed, eta string) string {
	return v.p.getProgressText(percentage, total, speed, eta)
}

func (v *VerifProgress) GetProgressBar(length int) string { return v.p.getProgressBar(length) }

func VerifGetEllipsisString(str string, max int) (string, int) { return getEllipsisString(str, max) }

// VerifSetTimeNow pins the clock used by the progress bar; it returns the restore function.
func VerifSetTimeNow(f func() time.Time) func() {
	old := timeNowFunc
	timeNowFunc = f
	return func() { timeNowFunc = old }
}

// ---- the session around the bar (filter.go): options.TerminalColumns, createProgressBar,
// SetTerminalColumns with and without a live bar, resetProgressBar, the stop prompt ----

type verifSessionOut struct {
	mu  sync.Mutex
	buf bytes.Buffer
}

func (o *verifSessionOut) Write(p []byte) (int, error) {
	o.mu.Lock()
	defer o.mu.Unlock()
	return o.buf.Write(p)
}

func (o *verifSessionOut) Close() error { return nil }

// VerifSession is a bare TrzszFilter (no goroutines, no server) whose terminal is a buffer.
type VerifSession struct {
	f   *TrzszFilter
	out *verifSessionOut
}

func VerifNewSession(columns int32) *VerifSession {
	out := &verifSessionOut{}
	return &VerifSession{out: out, f: &TrzszFilter{clientOut: out,
		options: TrzszOptions{TerminalColumns: columns}, trigger: &trzszTrigger{}}}
}

// SetTerminalColumns is the public resize callback.
func (s *VerifSession) SetTerminalColumns(columns int32) { s.f.SetTerminalColumns(columns) }

// Start / End are what downloadFiles and uploadFiles do around a transfer.
func (s *VerifSession) Start(quiet bool, tmuxPaneColumns int32) {
	s.f.createProgressBar(quiet, tmuxPaneColumns)
}
func (s *VerifSession) End() { s.f.resetProgressBar() }

// Bar is what the transfer is handed as its progress callback: filter.progress.Load(), nil
// included (the callbacks are nil-safe; State must not be called then).
func (s *VerifSession) Bar() *VerifProgress { return &VerifProgress{p: s.f.progress.Load()} }
func (s *VerifSession) HasBar() bool        { return s.f.progress.Load() != nil }

// SessionColumns is the width the session remembers (options.TerminalColumns).
func (s *VerifSession) SessionColumns() int32 { return s.f.options.TerminalColumns }

func (s *VerifSession) TakeOutput() string {
	s.out.mu.Lock()
	defer s.out.mu.Unlock()
	str := s.out.buf.String()
	s.out.buf.Reset()
	return str
}

// PromptOpen runs the real confirmStopTransfer (on a throw-away transfer) and returns once the
// prompt goroutine has paused the bar; false = it did not open.
func (s *VerifSession) PromptOpen() bool {
	s.f.confirmStopTransfer(newTransfer(&verifSessionOut{}, nil, false, nil))
	if s.f.promptPipe.Load() == nil {
		return false
	}
	if p := s.f.progress.Load(); p != nil {
		for i := 0; i < 5000 && !p.pausing.Load(); i++ {
			time.Sleep(200 * time.Microsecond)
		}
		return p.pausing.Load()
	}
	return true
}

// PromptContinue answers the open prompt with "Continue to transfer remaining files" (typed as
// the user would: j j Enter) and waits until the prompt goroutine has finished.
func (s *VerifSession) PromptContinue() bool {
	for _, key := range []byte{'j', 'j', '\r'} {
		pipe := s.f.promptPipe.Load()
		if pipe == nil {
			return false
		}
		s.f.transformPromptInput(pipe, []byte{key})
	}
	for i := 0; i < 25000 && s.f.promptPipe.Load() != nil; i++ {
		time.Sleep(200 * time.Microsecond)
	}
	return s.f.promptPipe.Load() == nil
}

// ---- the callbacks a real multi-file transfer produces, in the order it produces them ----

// verifCallbackProgress is a progressCallback that hands every call, one at a time, to a function.
type verifCallbackProgress struct {
	mu     sync.Mutex
	f      func(kind string, num int64, name string)
	before func(kind string, num int64, name string)
}

func (c *verifCallbackProgress) call(kind string, num int64, name string) {
	if c.before != nil {
		c.before(kind, num, name) // not serialised: the caller's own goroutine, at the moment it makes the call
	}
	c.mu.Lock()
	defer c.mu.Unlock()
	c.f(kind, num, name)
}
func (c *verifCallbackProgress) onNum(num int64)     { c.call("N", num, "") }
func (c *verifCallbackProgress) onName(name string)  { c.call("M", 0, name) }
func (c *verifCallbackProgress) onSize(size int64)   { c.call("Z", size, "") }
func (c *verifCallbackProgress) onStep(step int64)   { c.call("S", step, "") }
func (c *verifCallbackProgress) onDone()             { c.call("D", 0, "") }
func (c *verifCallbackProgress) setPreSize(sz int64) { c.call("P", sz, "") }
func (c *verifCallbackProgress) setPause(pausing bool) {
	if pausing {
		c.call("U", 1, "")
	} else {
		c.call("U", 0, "")
	}
}

// VerifRunFilesPair transfers the files at paths into dest with the REAL sendFiles / recvFiles of
// two transfers wired back to back (overwrite mode: a file already at the destination is
// continued after its matching prefix).  Every progress callback of the sending side (or of the
// receiving side) is handed to onCall, synchronously and one at a time, in the order the
// transfer makes them: kind N onNum, M onName, Z onSize, S onStep, D onDone, P setPreSize.
func VerifRunFilesPair(paths []string, dest string, protocol int, callbackOnSender bool,
	onCall func(kind string, num int64, name string)) (errText string) {
	return VerifRunFilesPairLag(paths, dest, protocol, callbackOnSender, onCall, nil)
}

// VerifRunFilesPairLag is VerifRunFilesPair with a second function, before, that is called at
// the ENTRY of every callback in the goroutine that makes it, outside the serialisation: it sees
// the attempts as they happen (two callbacks in flight at once = the transfer does not order
// them) and may block, which makes that goroutine lag the way a slow terminal does.
func VerifRunFilesPairLag(paths []string, dest string, protocol int, callbackOnSender bool,
	onCall func(kind string, num int64, name string), before func(kind string, num int64, name string)) (errText string) {
	defer verifRecover(&errText)
	files, err := checkPathsReadable(paths, false)
	if err != nil {
		return "paths: " + err.Error()
	}
	s2rR, s2rW := io.Pipe()
	r2sR, r2sW := io.Pipe()
	defer s2rW.Close()
	defer r2sW.Close()
	sender := newTransfer(s2rW, nil, false, nil)
	receiver := newTransfer(r2sW, nil, false, nil)
	wrapTransferInput(sender, r2sR, false)
	wrapTransferInput(receiver, s2rR, false)
	for _, x := range []*trzszTransfer{sender, receiver} {
		x.transferConfig.Protocol = protocol
		x.transferConfig.Overwrite = true
		x.transferConfig.Timeout = 10
	}
	var sendProgress, recvProgress progressCallback
	cb := &verifCallbackProgress{f: onCall, before: before}
	if callbackOnSender {
		sendProgress = cb
	} else {
		recvProgress = cb
	}
	errs := make(chan error, 2)
	go func() { _, err := receiver.recvFiles(dest, recvProgress); errs <- err }()
	go func() { _, err := sender.sendFiles(files, sendProgress); errs <- err }()
	for i := 0; i < 2; i++ {
		select {
		case err := <-errs:
			if err != nil {
				return fmt.Sprintf("transfer: %v", err)
			}
		case <-time.After(30 * time.Second):
			return "transfer: did not finish"
		}
	}
	return ""
}
