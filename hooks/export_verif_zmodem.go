//go:build verif

// Add-only exports for the verification harness under /verif (property C19).

package trzsz

// VerifDetectZmodem runs detectZmodem: -1 no session, 0 download, 1 upload.
func VerifDetectZmodem(buf []byte) int {
	z := detectZmodem(buf)
	if z == nil {
		return -1
	}
	if z.upload {
		return 1
	}
	return 0
}

// VerifZmodemFinishMatch reports whether the finish-header expression matches buf.
func VerifZmodemFinishMatch(buf []byte) bool { return zmodemFinishRegexp.Match(buf) }

// VerifZmodemSession is a handle on a session that stays readable after the filter
// has dropped it.
type VerifZmodemSession struct{ z *zmodemTransfer }

// VerifZmodemCurrent returns the session the filter currently points to, or nil.
func VerifZmodemCurrent(filter *TrzszFilter) *VerifZmodemSession {
	if z := filter.zmodem.Load(); z != nil {
		return &VerifZmodemSession{z}
	}
	return nil
}

func (s *VerifZmodemSession) Same(o *VerifZmodemSession) bool { return o != nil && s.z == o.z }

// Flags: upload, clientFinished, serverFinished, errorOccurred, stopped, cleaned, cmd != nil.
func (s *VerifZmodemSession) Flags() [7]bool {
	z := s.z
	return [7]bool{z.upload, z.clientFinished.Load(), z.serverFinished.Load(), z.errorOccurred.Load(),
		z.stopped.Load(), z.cleaned.Load(), z.cmd.Load() != nil}
}

// Begun reports whether handleZmodemEvent has stored the session's writers, i.e. whether
// its goroutine has begun (racy read of a plain field: for the harness only).
func (s *VerifZmodemSession) Begun() bool { return s.z.serverIn != nil }
