//go:build verif

// Add-only exports for the verification harness under /verif (property C15: archive
// stream).  Compiled only with `-tags verif`.

package trzsz

import (
	"io"
)

// VerifArchiveEntry is one sub-entry of an archive as the sender sees it.
type VerifArchiveEntry struct {
	Header  string   // the header line (without the newline), set by newArchiveReader
	RelPath []string // RelPath[0] is the archive root's name
	IsDir   bool
	Size    int64 // announced size
	AbsPath string
}

// VerifArchive wraps the archive source file (the root directory with its SubFiles).
type VerifArchive struct {
	t    *trzszTransfer
	root *sourceFile
}

func verifArchiveTransfer() *trzszTransfer {
	t := newTransfer(nil, nil, false, nil)
	t.transferConfig.Overwrite = false
	t.transferConfig.Protocol = kProtocolVersion4
	return t
}

// VerifArchiveScan runs the real scan (checkPathsReadable) and grouping
// (archiveSourceFiles) on one directory.
func VerifArchiveScan(root string) (*VerifArchive, error) {
	src, err := checkPathsReadable([]string{root}, true)
	if err != nil {
		return nil, err
	}
	t := verifArchiveTransfer()
	ar := t.archiveSourceFiles(src)
	if len(ar) != 1 {
		return nil, simpleTrzszError("verif: expected one archive, got %d", len(ar))
	}
	return &VerifArchive{t, ar[0]}, nil
}

// VerifArchiveFromEntries builds an archive source from explicit entries (Header ignored).
func VerifArchiveFromEntries(rootName string, pathID int, entries []VerifArchiveEntry) *VerifArchive {
	root := &sourceFile{PathID: pathID, RelPath: []string{rootName}, IsDir: true}
	for _, e := range entries {
		root.SubFiles = append(root.SubFiles, &sourceFile{PathID: pathID, AbsPath: e.AbsPath,
			RelPath: append([]string(nil), e.RelPath...), IsDir: e.IsDir, Size: e.Size})
	}
	return &VerifArchive{verifArchiveTransfer(), root}
}

type VerifSizedReadCloser interface {
	io.ReadCloser
	VerifSize() int64
}

type verifArchiveReader struct{ fileReader }

func (r verifArchiveReader) VerifSize() int64 { return r.getSize() }

// NewReader is newArchiveReader; afterwards Entries() carries the header lines.
func (a *VerifArchive) NewReader() (VerifSizedReadCloser, error) {
	r, err := a.t.newArchiveReader(a.root)
	if err != nil {
		return nil, err
	}
	return verifArchiveReader{r}, nil
}

func (a *VerifArchive) Entries() []VerifArchiveEntry {
	var out []VerifArchiveEntry
	for _, f := range a.root.SubFiles {
		out = append(out, VerifArchiveEntry{Header: f.Header, RelPath: append([]string(nil), f.RelPath...),
			IsDir: f.IsDir, Size: f.Size, AbsPath: f.AbsPath})
	}
	return out
}

// RootSource is the NAME line the sender transmits for the archive (marshalSourceFile).
func (a *VerifArchive) RootSource() (string, error) { return a.root.marshalSourceFile() }

// VerifNewArchiveWriter is what recvFileName does with that NAME line: unmarshalSourceFile
// and createDirOrFile(dest, srcFile, true) on a fresh transfer (overwrite off, protocol 4).
func VerifNewArchiveWriter(dest, rootSource string) (io.WriteCloser, string, error) {
	srcFile, err := unmarshalSourceFile(rootSource)
	if err != nil {
		return nil, "", err
	}
	w, name, err := verifArchiveTransfer().createDirOrFile(dest, srcFile, true)
	if err != nil {
		return nil, "", err
	}
	return w, name, nil
}

func VerifWriteAll(w io.Writer, data []byte) error { return writeAll(w, data) }

// VerifParseArchiveHeader is the writer's header decoding: decodeString + unmarshalSourceFile.
func VerifParseArchiveHeader(line string) (pathID int, relPath []string, isDir bool, size int64, ok bool) {
	js, err := decodeString(line)
	if err != nil {
		return 0, nil, false, 0, false
	}
	f, err := unmarshalSourceFile(string(js))
	if err != nil {
		return 0, nil, false, 0, false
	}
	return f.PathID, f.RelPath, f.IsDir, f.Size, true
}

// VerifEncodeString is encodeString (zlib + base64), to build header lines from arbitrary JSON.
func VerifEncodeString(s string) string { return encodeString(s) }
