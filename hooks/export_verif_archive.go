//go:build verif

// Add-only exports for the verification harness under /verif (property C15: archive
// stream).  Compiled only with `-tags verif`.

package trzsz

import (
	"bytes"
	"encoding/base64"
	"fmt"
	"io"
	"os"
	"sync"
	"time"
)

// VerifArchiveEntry is one sub-entry of an archive as the sender sees it.
type VerifArchiveEntry struct {
	Header  string   // the header line (without the newline), set by newArchiveReader
	RelPath []string // RelPath[0] is the archive root's name
	IsDir   bool
	Size    int64 // announced size
	AbsPath string
}

// VerifArchive wraps the archive source file (the root directory with its SubFiles).
type VerifArchive struct {
	t    *trzszTransfer
	root *sourceFile
}

func verifArchiveTransfer() *trzszTransfer {
	t := newTransfer(nil, nil, false, nil)
	t.transferConfig.Overwrite = false
	t.transferConfig.Protocol = kProtocolVersion4
	return t
}

// VerifArchiveScan runs the real scan (checkPathsReadable) and grouping
// (archiveSourceFiles) on one directory.
func VerifArchiveScan(root string) (*VerifArchive, error) {
	src, err := checkPathsReadable([]string{root}, true)
	if err != nil {
		return nil, err
	}
	t := verifArchiveTransfer()
	ar := t.archiveSourceFiles(src)
	if len(ar) != 1 {
		return nil, simpleTrzszError("verif: expected one archive, got %d", len(ar))
	}
	return &VerifArchive{t, ar[0]}, nil
}

// VerifArchiveFromEntries builds an archive source from explicit entries (Header ignored).
func VerifArchiveFromEntries(rootName string, pathID int, entries []VerifArchiveEntry) *VerifArchive {
	root := &sourceFile{PathID: pathID, RelPath: []string{rootName}, IsDir: true}
	for _, e := range entries {
		root.SubFiles = append(root.SubFiles, &sourceFile{PathID: pathID, AbsPath: e.AbsPath,
			RelPath: append([]string(nil), e.RelPath...), IsDir: e.IsDir, Size: e.Size})
	}
	return &VerifArchive{verifArchiveTransfer(), root}
}

type VerifSizedReadCloser interface {
	io.ReadCloser
	VerifSize() int64
}

type verifArchiveReader struct{ fileReader }

func (r verifArchiveReader) VerifSize() int64 { return r.getSize() }

// NewReader is newArchiveReader; afterwards Entries() carries the header lines.
func (a *VerifArchive) NewReader() (VerifSizedReadCloser, error) {
	r, err := a.t.newArchiveReader(a.root)
	if err != nil {
		return nil, err
	}
	return verifArchiveReader{r}, nil
}

func (a *VerifArchive) Entries() []VerifArchiveEntry {
	var out []VerifArchiveEntry
	for _, f := range a.root.SubFiles {
		out = append(out, VerifArchiveEntry{Header: f.Header, RelPath: append([]string(nil), f.RelPath...),
			IsDir: f.IsDir, Size: f.Size, AbsPath: f.AbsPath})
	}
	return out
}

// RootSource is the NAME line the sender transmits for the archive (marshalSourceFile).
func (a *VerifArchive) RootSource() (string, error) { return a.root.marshalSourceFile() }

// VerifNewArchiveWriter is what recvFileName does with that NAME line: unmarshalSourceFile
// and createDirOrFile(dest, srcFile, true) on a fresh transfer (overwrite off, protocol 4).
func VerifNewArchiveWriter(dest, rootSource string) (io.WriteCloser, string, error) {
	srcFile, err := unmarshalSourceFile(rootSource)
	if err != nil {
		return nil, "", err
	}
	w, name, err := verifArchiveTransfer().createDirOrFile(dest, srcFile, true)
	if err != nil {
		return nil, "", err
	}
	return w, name, nil
}

func VerifWriteAll(w io.Writer, data []byte) error { return writeAll(w, data) }

// VerifParseArchiveHeader is the writer's header decoding: decodeString + unmarshalSourceFile.
func VerifParseArchiveHeader(line string) (pathID int, relPath []string, isDir bool, size int64, ok bool) {
	js, err := decodeString(line)
	if err != nil {
		return 0, nil, false, 0, false
	}
	f, err := unmarshalSourceFile(string(js))
	if err != nil {
		return 0, nil, false, 0, false
	}
	return f.PathID, f.RelPath, f.IsDir, f.Size, true
}

// VerifEncodeString is encodeString (zlib + base64), to build header lines from arbitrary JSON.
func VerifEncodeString(s string) string { return encodeString(s) }

// ---- who decides "archive": scan, grouping, NAME record, sender's and receiver's next step ----

// VerifModeSrc is one element of the scan list (checkPathsReadable).
type VerifModeSrc struct {
	PathID  int
	RelPath []string
	IsDir   bool
	Size    int64
	AbsPath string
}

// VerifModeStep is one root after archiveSourceFiles with what either end does with it.
type VerifModeStep struct {
	Nil      bool // a nil slot of archiveSourceFiles' result
	PathID   int
	RelPath  []string
	IsDir    bool
	Size     int64
	Archive  bool   // the flag in the NAME record, as the receiver's unmarshalSourceFile reads it
	NSubs    int    // len(SubFiles)
	Name     string // the NAME record (JSON)
	Sender   string // "archive" | "none" | "file" | "err:<text>" | "panic:<text>" | "hang"
	Receiver string // "archive" | "none" | "file" | "err" | "panic:<text>"
}

func verifModeTransfer(w io.Writer, overwrite bool, protocol int, timeoutSec int) *trzszTransfer {
	t := newTransfer(w, nil, false, nil)
	t.transferConfig.Overwrite = overwrite
	t.transferConfig.Protocol = protocol
	t.transferConfig.Directory = true
	t.transferConfig.Timeout = timeoutSec
	t.cleanTimeout = 10 * time.Millisecond
	return t
}

// VerifModeScan is checkPathsReadable(paths, true).
func VerifModeScan(paths []string) ([]VerifModeSrc, error) {
	src, err := checkPathsReadable(paths, true)
	if err != nil {
		return nil, err
	}
	var out []VerifModeSrc
	for _, f := range src {
		out = append(out, VerifModeSrc{f.PathID, append([]string(nil), f.RelPath...), f.IsDir, f.Size, f.AbsPath})
	}
	return out, nil
}

// VerifModePlan runs, for the scan list of the given paths: the real archiveSourceFiles; per
// root the real marshalSourceFile and unmarshalSourceFile (the flag as the receiver sees it);
// the real sendFileNameV3 / sendFileName against a peer that answers SUCC (which reader does
// the sender open?); the real createDirOrFile in recvDest (which writer does the receiver open?).
func VerifModePlan(paths []string, recvDest string, overwrite bool, protocol int) (steps []VerifModeStep, panicked string) {
	defer func() {
		if r := recover(); r != nil {
			panicked = fmt.Sprint(r)
		}
	}()
	src, err := checkPathsReadable(paths, true)
	if err != nil {
		return nil, "scan: " + err.Error()
	}
	st := verifModeTransfer(io.Discard, overwrite, protocol, 2)
	rt := verifModeTransfer(io.Discard, overwrite, protocol, 2)
	for _, root := range st.archiveSourceFiles(src) {
		if root == nil {
			steps = append(steps, VerifModeStep{Nil: true})
			continue
		}
		step := VerifModeStep{PathID: root.PathID, RelPath: append([]string(nil), root.RelPath...), IsDir: root.IsDir,
			Size: root.Size, NSubs: len(root.SubFiles)}
		name, err := root.marshalSourceFile()
		if err != nil {
			step.Sender, step.Receiver = "err:marshal", "err"
			steps = append(steps, step)
			continue
		}
		step.Name = name
		// ---- the receiver
		func() {
			defer func() {
				if r := recover(); r != nil {
					step.Receiver = "panic:" + fmt.Sprint(r)
				}
			}()
			parsed, err := unmarshalSourceFile(name)
			if err != nil {
				step.Receiver = "err"
				return
			}
			step.Archive = parsed.Archive
			w, _, err := rt.createDirOrFile(recvDest, parsed, false)
			switch {
			case err != nil:
				step.Receiver = "err"
			case w == nil:
				step.Receiver = "none"
			default:
				if _, ok := w.(*archiveFileWriter); ok {
					step.Receiver = "archive"
				} else {
					step.Receiver = "file"
				}
				w.Close()
			}
		}()
		// ---- the sender, against a peer that accepts the name
		func() {
			defer func() {
				if r := recover(); r != nil {
					step.Sender = "panic:" + fmt.Sprint(r)
				}
			}()
			reply := `{"name":"x","size":0}`
			if protocol < kProtocolVersion3 {
				reply = "x"
			}
			st.addReceivedData([]byte("#SUCC:"+encodeString(reply)+"\n"), false)
			done := make(chan struct{})
			var file fileReader
			var err error
			go func() {
				defer close(done)
				defer func() {
					if r := recover(); r != nil {
						err = fmt.Errorf("panic: %v", r)
					}
				}()
				if protocol >= kProtocolVersion3 {
					file, _, err = st.sendFileNameV3(root, nil)
				} else {
					file, _, err = st.sendFileName(root, nil)
				}
			}()
			select {
			case <-done:
			case <-time.After(10 * time.Second):
				st.stopTransferringFiles(false)
				step.Sender = "hang"
				return
			}
			switch {
			case err != nil:
				step.Sender = "err:" + err.Error()
			case file == nil:
				step.Sender = "none"
			default:
				if _, ok := file.(*archiveFileReader); ok {
					step.Sender = "archive"
				} else {
					step.Sender = "file"
				}
				file.Close()
			}
		}()
		steps = append(steps, step)
	}
	return steps, ""
}

// VerifPairResult is the outcome of one in-process transfer (real sendFiles against real recvFiles).
type VerifPairResult struct {
	SendErr, RecvErr string // "" = nil
	Hung             bool
	LocalNames       []string // what recvFiles returns
	RemoteNames      []string // what sendFiles returns
	S2R              []byte   // everything the sender wrote
	R2S              []byte   // everything the receiver wrote
}

type verifPairWriter struct {
	mu   *sync.Mutex
	rec  *bytes.Buffer
	peer **trzszTransfer
}

func (w verifPairWriter) Write(p []byte) (int, error) {
	w.mu.Lock()
	w.rec.Write(p)
	w.mu.Unlock()
	(*w.peer).addReceivedData(append([]byte(nil), p...), false)
	return len(p), nil
}

// VerifModePair wires a sending and a receiving trzszTransfer back to back (directory mode)
// and runs the real sendFiles(checkPathsReadable(paths)) against the real recvFiles(dest).
func VerifModePair(paths []string, dest string, overwrite bool, protocol int, timeoutSec int, deadline time.Duration) VerifPairResult {
	return VerifModePairCfg(paths, dest, VerifPairCfg{Overwrite: overwrite, Protocol: protocol, TimeoutSec: timeoutSec}, deadline)
}

// VerifPairCfg is the part of the negotiated configuration both ends of VerifModePairCfg share.
type VerifPairCfg struct {
	Overwrite  bool
	Protocol   int
	Compress   int // 0 auto, 1 yes, 2 no
	Binary     bool
	TimeoutSec int
}

// VerifModePairCfg is VerifModePair with the compression type and the binary flag chosen.
func VerifModePairCfg(paths []string, dest string, cfg VerifPairCfg, deadline time.Duration) VerifPairResult {
	overwrite, protocol, timeoutSec := cfg.Overwrite, cfg.Protocol, cfg.TimeoutSec
	var res VerifPairResult
	var mu sync.Mutex
	var s2r, r2s bytes.Buffer
	var sender, receiver *trzszTransfer
	sender = verifModeTransfer(verifPairWriter{&mu, &s2r, &receiver}, overwrite, protocol, timeoutSec)
	receiver = verifModeTransfer(verifPairWriter{&mu, &r2s, &sender}, overwrite, protocol, timeoutSec)
	for _, t := range []*trzszTransfer{sender, receiver} {
		t.transferConfig.CompressType = compressType(cfg.Compress)
		t.transferConfig.Binary = cfg.Binary
	}
	src, err := checkPathsReadable(paths, true)
	if err != nil {
		res.SendErr = "scan: " + err.Error()
		return res
	}
	var wg sync.WaitGroup
	var sendErr, recvErr error
	wg.Add(2)
	go func() {
		defer wg.Done()
		defer func() {
			if r := recover(); r != nil {
				sendErr = fmt.Errorf("panic: %v", r)
				receiver.stopTransferringFiles(false)
			}
		}()
		res.RemoteNames, sendErr = sender.sendFiles(src, nil)
		if sendErr != nil {
			receiver.stopTransferringFiles(false)
		}
	}()
	go func() {
		defer wg.Done()
		defer func() {
			if r := recover(); r != nil {
				recvErr = fmt.Errorf("panic: %v", r)
				sender.stopTransferringFiles(false)
			}
		}()
		res.LocalNames, recvErr = receiver.recvFiles(dest, nil)
		if recvErr != nil {
			sender.stopTransferringFiles(false)
		}
	}()
	done := make(chan struct{})
	go func() { wg.Wait(); close(done) }()
	select {
	case <-done:
	case <-time.After(deadline):
		res.Hung = true
		sender.stopTransferringFiles(false)
		receiver.stopTransferringFiles(false)
		select {
		case <-done:
		case <-time.After(3 * time.Second):
		}
	}
	mu.Lock()
	res.S2R = append([]byte(nil), s2r.Bytes()...)
	res.R2S = append([]byte(nil), r2s.Bytes()...)
	mu.Unlock()
	if sendErr != nil {
		res.SendErr = sendErr.Error()
	}
	if recvErr != nil {
		res.RecvErr = recvErr.Error()
	}
	return res
}

// ---- names: the validity check applied to every path element of a NAME record / entry header ----

// VerifArchiveCheckName is checkFileName: true = accepted.
func VerifArchiveCheckName(name string) bool { return checkFileName(name) == nil }

// ---- the archive stream as a source file: the compression decision ----

// VerifArchiveCompress runs the real sendCompressFlag on the archive reader of a: the decision,
// whether a COMP line was written, the error text ("" = none), and the announced size.
func (a *VerifArchive) VerifArchiveCompress(protocol int, compress int, binary bool) (comp bool, sentComp bool, errText string, size int64, rd VerifSizedReadCloser) {
	r, err := a.t.newArchiveReader(a.root)
	if err != nil {
		return false, false, "reader: " + err.Error(), 0, nil
	}
	var out bytes.Buffer
	t := newTransfer(&out, nil, false, nil)
	t.transferConfig.Protocol = protocol
	t.transferConfig.CompressType = compressType(compress)
	t.transferConfig.Binary = binary
	func() {
		defer func() {
			if p := recover(); p != nil {
				errText = fmt.Sprintf("panic: %v", p)
			}
		}()
		c, err := t.sendCompressFlag(r)
		comp = c
		if err != nil {
			errText = err.Error()
		}
	}()
	return comp, bytes.Contains(out.Bytes(), []byte("#COMP:")), errText, r.getSize(), verifArchiveReader{r}
}

// ---- errors of the destination surface through the archive writer ----

// VerifArchiveRecvV2 runs the real recvFileDataV2 (the receiving pipeline of one file) with the
// archive writer that createDirOrFile opens for rootSource under dest; prepare (if not nil) runs
// after the writer exists (the root directory has been created) and before the first byte arrives.
// stream is what the sender's archive reader produced; it is queued as base64 DATA lines plus the
// finish line.  Reports the error text ("" = accepted), whether nothing was decided before the
// deadline, and the local name of the root.
func VerifArchiveRecvV2(dest, rootSource string, prepare func(rootDir string), stream []byte, timeoutSec int, deadline time.Duration) (errText string, hung bool, localName string) {
	srcFile, err := unmarshalSourceFile(rootSource)
	if err != nil {
		return "unmarshal: " + err.Error(), false, ""
	}
	t := verifArchiveTransfer()
	t.writer = io.Discard
	t.transferConfig.Timeout = timeoutSec
	t.transferConfig.CompressType = kCompressNo
	w, name, err := t.createDirOrFile(dest, srcFile, true)
	if err != nil {
		return "create: " + err.Error(), false, ""
	}
	if w == nil {
		return "create: no writer", false, name
	}
	if prepare != nil {
		prepare(dest + string(os.PathSeparator) + name)
	}
	enc := base64.StdEncoding.EncodeToString(stream)
	for len(enc) > 0 {
		m := 8192
		if m > len(enc) {
			m = len(enc)
		}
		t.addReceivedData([]byte("#DATA:"+enc[:m]+"\n"), false)
		enc = enc[m:]
	}
	t.addReceivedData([]byte("#DATA:\n"), false)
	done := make(chan error, 1)
	go func() {
		defer func() {
			if r := recover(); r != nil {
				done <- fmt.Errorf("panic: %v", r)
			}
		}()
		_, err := t.recvFileDataV2(w, int64(len(stream)), nil)
		done <- err
	}()
	select {
	case err := <-done:
		w.Close()
		if err != nil {
			return err.Error(), false, name
		}
		return "", false, name
	case <-time.After(deadline):
		t.stopTransferringFiles(false)
		select {
		case <-done:
		case <-time.After(2 * time.Second):
		}
		return "", true, name
	}
}
