//go:build verif

// Add-only exports for the verification harness (properties C10/C11/C18, group "proc"):
// an in-process sender whose peer falls silent at a chosen point, and a census of the
// goroutines that are still inside pipeline code afterwards.

package trzsz

import (
	"bytes"
	"io"
	"os"
	"path/filepath"
	"runtime"
	"sort"
	"strings"
	"sync"
	"sync/atomic"
	"time"
)

type verifCutWriter struct {
	w       io.Writer
	cut     *atomic.Bool
	trigger []byte // first write containing this marker cuts BOTH directions (nil: never triggers)
	skip    *atomic.Int32
}

func (c *verifCutWriter) Write(p []byte) (int, error) {
	if c.trigger != nil && !c.cut.Load() && bytes.Contains(p, c.trigger) {
		if c.skip.Add(-1) < 0 {
			c.cut.Store(true)
		}
	}
	if c.cut.Load() {
		return len(p), nil // silently discarded: the peer is gone but the connection is not broken
	}
	return c.w.Write(p)
}

// VerifPipelineGoroutines lists, sorted, the innermost trzsz pipeline frame of every goroutine
// that is currently inside a pipeline stage (pipeline*, sendDataWriter, recvDataReader).
func VerifPipelineGoroutines() []string {
	buf := make([]byte, 1<<20)
	buf = buf[:runtime.Stack(buf, true)]
	var out []string
	for _, g := range strings.Split(string(buf), "\n\n") {
		if !strings.Contains(g, "trzsz.(*trzszTransfer).pipeline") && !strings.Contains(g, "trzsz.(*sendDataWriter)") &&
			!strings.Contains(g, "trzsz.(*recvDataReader)") {
			continue
		}
		for _, line := range strings.Split(g, "\n") {
			if i := strings.Index(line, "/trzsz."); i >= 0 && !strings.HasPrefix(line, "\t") {
				fn := line[i+1:]
				if j := strings.LastIndex(fn, "("); j > 0 {
					fn = fn[:j]
				}
				out = append(out, fn)
				break
			}
		}
	}
	sort.Strings(out)
	return out
}

// VerifSendToSilentPeer uploads one file of the given size from an in-process client to an
// in-process `trz` server; after the client has written `skipData` DATA frames, the next one and
// everything after it, in both directions, is discarded (the peer is silent).  It returns the
// client's error text, the time the client took, and the pipeline goroutines still alive
// graceMs after the client returned.
func VerifSendToSilentPeer(dir string, size int, timeoutSec int, skipData int, graceMs int) (string, time.Duration, []string) {
	src := filepath.Join(dir, "src.bin")
	data := make([]byte, size)
	for i := range data {
		data[i] = byte(i*7 + i>>8)
	}
	if err := os.WriteFile(src, data, 0644); err != nil {
		return "setup: " + err.Error(), 0, nil
	}
	dest := filepath.Join(dir, "dest")
	_ = os.MkdirAll(dest, 0755)

	c2sR, c2sW := io.Pipe()
	s2cR, s2cW := io.Pipe()
	var cut atomic.Bool
	var skip atomic.Int32
	skip.Store(int32(skipData))
	ts := newTransfer(&verifCutWriter{w: s2cW, cut: &cut}, nil, false, nil)
	tc := newTransfer(&verifCutWriter{w: c2sW, cut: &cut, trigger: []byte("#DATA:"), skip: &skip}, nil, false, nil)
	wrapTransferInput(ts, c2sR, false)
	wrapTransferInput(tc, s2cR, false)

	var wg sync.WaitGroup
	wg.Add(1)
	go func() {
		defer wg.Done()
		args := &trzArgs{baseArgs: baseArgs{Bufsize: bufferSize{10 << 20}, Timeout: timeoutSec, Overwrite: true}, Path: dest}
		if err := recvFiles(ts, args, noTmuxMode, -1); err != nil {
			ts.serverError(err)
		}
	}()

	begin := time.Now()
	errText := ""
	run := func() error {
		if err := tc.sendAction(true, nil, false); err != nil {
			return err
		}
		if _, err := tc.recvConfig(); err != nil {
			return err
		}
		files, err := checkPathsReadable([]string{src}, false)
		if err != nil {
			return err
		}
		_, err = tc.sendFiles(files, nil)
		return err
	}
	if err := run(); err != nil {
		errText = err.Error()
		tc.clientError(err)
	}
	elapsed := time.Since(begin)
	wg.Wait()
	time.Sleep(time.Duration(graceMs) * time.Millisecond)
	left := VerifPipelineGoroutines()
	c2sW.Close()
	s2cW.Close()
	c2sR.Close()
	s2cR.Close()
	return errText, elapsed, left
}
