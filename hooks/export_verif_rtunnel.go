//go:build verif

// Add-only exports for the verification harness under /verif (property C17, the relay's
// tunnel code in relay.go).  Compiled only with `-tags verif`.

package trzsz

import "net"

// VerifRelayListenForTunnel runs the REAL (*TrzszRelay).listenForTunnel on buf for a relay whose
// trigger carries uniqueID and tunnelPort (a tunnel connector is installed, it is never called:
// the listener is closed again before anybody connects).  Returns the rewritten buffer and the
// port the relay listened on (0 when it did not listen).
func VerifRelayListenForTunnel(uniqueID string, tunnelPort int, buf []byte) ([]byte, int) {
	r := &TrzszRelay{trigger: &trzszTrigger{uniqueID: uniqueID, tunnelPort: tunnelPort}}
	connector := func(int) net.Conn { return nil }
	r.tunnelConnector.Store(&connector)
	out := r.listenForTunnel(append([]byte(nil), buf...))
	port := 0
	if l := r.tunnelListener.Load(); l != nil {
		port = r.tunnelRelayPort
		(*l).Close()
	}
	return out, port
}

// VerifRelayAdopted: the remote address of the client connection and the local address of the
// server connection of the pair in tunnelRelay ("", "" when nil).
func VerifRelayAdopted(r *TrzszRelay) (clientRemote, serverLocal string) {
	t := r.tunnelRelay.Load()
	if t == nil {
		return "", ""
	}
	return t.clientConn.RemoteAddr().String(), t.serverConn.LocalAddr().String()
}

// VerifRelayReset runs the REAL resetToStandby from whatever status the relay is in.
func VerifRelayReset(r *TrzszRelay) { r.resetToStandby(r.relayStatus.Load()) }

// VerifRelayTunnelListening: tunnelListener != nil.
func VerifRelayTunnelListening(r *TrzszRelay) bool { return r.tunnelListener.Load() != nil }
