//go:build verif

// Add-only exports for the verification harness under /verif (C09/C08: duplicate destination
// names under overwrite).  Compiled only with `-tags verif`.

package trzsz

// VerifCheckDuplicateNames runs checkDuplicateNames on a hand-built scan list (absolute source
// path and destination-relative path per entry).  "" = accepted, else the error text.
func VerifCheckDuplicateNames(abs []string, rels [][]string) string {
	var files []*sourceFile
	for i := range rels {
		a := ""
		if i < len(abs) {
			a = abs[i]
		}
		files = append(files, &sourceFile{PathID: i, AbsPath: a, RelPath: rels[i]})
	}
	if err := checkDuplicateNames(files); err != nil {
		return err.Error()
	}
	return ""
}

// VerifScanDuplicate is what tsz and the client's upload do before an overwriting transfer:
// checkPathsReadable(paths, directory), then checkDuplicateNames on its result.  It returns the
// scan list and both error texts ("" = none).
func VerifScanDuplicate(paths []string, directory bool) (abs []string, rels [][]string, scanErr string, dupErr string) {
	files, err := checkPathsReadable(paths, directory)
	if err != nil {
		return nil, nil, err.Error(), ""
	}
	for _, f := range files {
		abs = append(abs, f.AbsPath)
		rels = append(rels, append([]string(nil), f.RelPath...))
	}
	if err := checkDuplicateNames(files); err != nil {
		dupErr = err.Error()
	}
	return
}
