//go:build verif

package trzsz

// Verification hook (add-only, build tag verif): calls the real clientError / serverError
// with an error of a given class and reports what was written to the peer and in which
// order relative to cleanInput / serverExit.

import (
	"errors"
	"strings"
	"sync"
	"time"
)

type verifErrTellWriter struct {
	mu    sync.Mutex
	t     *trzszTransfer
	lines []string // "<type>" or "<type>:names", prefixed with "early:" when written before cleanInput, "late:" after serverExit
	names string
}

func (w *verifErrTellWriter) Write(p []byte) (int, error) {
	w.mu.Lock()
	defer w.mu.Unlock()
	line := strings.TrimRight(string(p), "\r\n")
	typ, body := line, ""
	if i := strings.IndexByte(line, ':'); i >= 1 {
		typ, body = line[1:i], line[i+1:]
	}
	item := typ
	if msg, err := decodeString(body); err == nil && w.names != "" && strings.Contains(string(msg), w.names) {
		item += ":names"
	}
	if !w.t.stopped.Load() {
		item = "early:" + item
	}
	if w.t.termReseted.Load() {
		item = "late:" + item
	}
	w.lines = append(w.lines, item)
	return len(p), nil
}

// VerifErrTell: side "client" / "server".  The error: isTrz=false: a plain error; otherwise a
// *trzszError with the given errType and trace flag whose message is the text of
// errStoppedAndDeleted (sad) or something else.  flag: the transfer's stopAndDelete flag.
// created: a path recorded as created by this transfer ("" = none).
// Returns the lines written (in order) and whether the terminal was reset (serverExit ran).
func VerifErrTell(side string, isTrz bool, errType string, trace bool, sad bool, flag bool, created string) (lines []string, exited bool) {
	w := &verifErrTellWriter{}
	t := newTransfer(w, nil, false, nil)
	w.t = t
	t.cleanTimeout = 5 * time.Millisecond
	t.stopAndDelete.Store(flag)
	if created != "" {
		t.createdFiles = []string{created}
		w.names = created
	}
	var err error
	if isTrz {
		msg := "verif: something failed"
		if sad {
			msg = errStoppedAndDeleted.message
		}
		err = &trzszError{msg, errType, trace}
	} else {
		err = errors.New("verif: plain error")
	}
	if side == "server" {
		t.serverError(err)
	} else {
		t.clientError(err)
	}
	w.mu.Lock()
	defer w.mu.Unlock()
	return append([]string{}, w.lines...), t.termReseted.Load()
}
