//go:build verif

package trzsz

// Verification hook (add-only, build tag verif): calls the real clientError / serverError
// with an error of a given class and reports what was written to the peer and in which
// order relative to cleanInput / serverExit.

import (
	"errors"
	"net"
	"strings"
	"sync"
	"time"
)

type verifErrTellWriter struct {
	mu    sync.Mutex
	t     *trzszTransfer
	lines []string // "<type>" or "<type>:names", prefixed with "early:" when written before cleanInput, "late:" after serverExit, "tunnel:" when written to the accepted tunnel connection
	names string
}

func (w *verifErrTellWriter) Write(p []byte) (int, error) { return w.record(p, false) }

// verifErrTellConn: a tunnel connection that records what is written to it in the same list
type verifErrTellConn struct{ w *verifErrTellWriter }

func (c verifErrTellConn) Write(p []byte) (int, error)        { return c.w.record(p, true) }
func (c verifErrTellConn) Read(p []byte) (int, error)         { select {} }
func (c verifErrTellConn) Close() error                       { return nil }
func (c verifErrTellConn) LocalAddr() net.Addr                { return &net.TCPAddr{} }
func (c verifErrTellConn) RemoteAddr() net.Addr               { return &net.TCPAddr{} }
func (c verifErrTellConn) SetDeadline(t time.Time) error      { return nil }
func (c verifErrTellConn) SetReadDeadline(t time.Time) error  { return nil }
func (c verifErrTellConn) SetWriteDeadline(t time.Time) error { return nil }

func (w *verifErrTellWriter) record(p []byte, tunnel bool) (int, error) {
	w.mu.Lock()
	defer w.mu.Unlock()
	line := strings.TrimRight(string(p), "\r\n")
	typ, body := line, ""
	if i := strings.IndexByte(line, ':'); i >= 1 {
		typ, body = line[1:i], line[i+1:]
	}
	item := typ
	if msg, err := decodeString(body); err == nil && w.names != "" && strings.Contains(string(msg), w.names) {
		item += ":names"
	}
	if !w.t.stopped.Load() {
		item = "early:" + item
	}
	if w.t.termReseted.Load() {
		item = "late:" + item
	}
	if tunnel {
		item = "tunnel:" + item
	}
	w.lines = append(w.lines, item)
	return len(p), nil
}

// VerifErrTell: side "client" / "server".  The error: isTrz=false: a plain error; otherwise a
// *trzszError with the given errType and trace flag whose message is the text of
// errStoppedAndDeleted (sad) or something else.  flag: the transfer's stopAndDelete flag.
// created: a path recorded as created by this transfer ("" = none).
// Returns the lines written (in order) and whether the terminal was reset (serverExit ran).
func VerifErrTell(side string, isTrz bool, errType string, trace bool, sad bool, flag bool, created string) (lines []string, exited bool) {
	return VerifErrTellTunnel(side, isTrz, errType, trace, sad, flag, created, 0)
}

// VerifErrTellTunnel: the same with the state of the tunnel.  tunnel 0: no tunnel connection;
// 1: a tunnel connection has been accepted (tunnelConn set) but the ACT has not been read
// (tunnelConnected false, the writer is still the in-band one); 2: accepted and connected.
// Lines written to the tunnel connection are prefixed with "tunnel:".
func VerifErrTellTunnel(side string, isTrz bool, errType string, trace bool, sad bool, flag bool, created string, tunnel int) (lines []string, exited bool) {
	w := &verifErrTellWriter{}
	t := newTransfer(w, nil, false, nil)
	w.t = t
	if tunnel > 0 {
		var conn net.Conn = verifErrTellConn{w}
		t.tunnelConn.Store(&conn)
		t.tunnelConnected = tunnel == 2
	}
	t.cleanTimeout = 5 * time.Millisecond
	t.stopAndDelete.Store(flag)
	if created != "" {
		t.createdFiles = []string{created}
		w.names = created
	}
	var err error
	if isTrz {
		msg := "verif: something failed"
		if sad {
			msg = errStoppedAndDeleted.message
		}
		err = &trzszError{msg, errType, trace}
	} else {
		err = errors.New("verif: plain error")
	}
	if side == "server" {
		t.serverError(err)
	} else {
		t.clientError(err)
	}
	w.mu.Lock()
	defer w.mu.Unlock()
	return append([]string{}, w.lines...), t.termReseted.Load()
}
