//go:build verif

// Add-only exports for the verification harness under /verif (property C14, group
// "relayneg").  Compiled only with `-tags verif`.

package trzsz

import (
	"bytes"
	"encoding/json"
	"net"
	"time"
)

// VerifRelayStatus reads the relay's status word (kRelayStandBy / kRelayHandshaking /
// kRelayTransferring).
func VerifRelayStatus(r *TrzszRelay) int32 { return r.relayStatus.Load() }

// VerifRelayStatusConsts returns the three status constants in declaration order.
func VerifRelayStatusConsts() [3]int32 {
	return [3]int32{kRelayStandBy, kRelayHandshaking, kRelayTransferring}
}

// VerifTmuxModes returns noTmuxMode, tmuxNormalMode, tmuxControlMode.
func VerifTmuxModes() [3]int { return [3]int{noTmuxMode, tmuxNormalMode, tmuxControlMode} }

// VerifRelayHandshake runs the REAL (*TrzszRelay).handshake() once, synchronously, on a
// relay whose tmux mode, pane width and trigger facts are chosen by the caller (a real
// tmux cannot be faked for NewTrzszRelay).  The client's and the server's lines are
// parked in the handshake buffers beforehand, exactly where wrapInput / wrapOutput
// would have put them.  Returned: everything the relay queued towards the server and
// towards the client (in order), and the status word afterwards.
func VerifRelayHandshake(tmuxMode int, paneWidth int32, winServer bool, fromClient, fromServer [][]byte) (toServer, toClient [][]byte, status int32) {
	osStdinChan := make(chan []byte, 100)
	osStdoutChan := make(chan []byte, 100)
	bypassTmuxChan := osStdoutChan
	if tmuxModeType(tmuxMode) == tmuxNormalMode {
		bypassTmuxChan = make(chan []byte, 100)
	}
	r := &TrzszRelay{
		tmuxMode:       tmuxModeType(tmuxMode),
		osStdinChan:    osStdinChan,
		osStdoutChan:   osStdoutChan,
		bypassTmuxChan: bypassTmuxChan,
		stdinBuffer:    newTrzszBuffer(),
		stdoutBuffer:   newTrzszBuffer(),
		tmuxPaneWidth:  paneWidth,
		trigger:        &trzszTrigger{mode: 'R', uniqueID: "", winServer: winServer},
	}
	r.relayStatus.Store(kRelayHandshaking)
	for _, b := range fromClient {
		r.stdinBuffer.addBuffer(b)
	}
	for _, b := range fromServer {
		r.stdoutBuffer.addBuffer(b)
	}
	// a relay that waits for a line that never comes must not hang the harness:
	// stopping the buffers makes the pending readLine return an error
	done := make(chan struct{})
	go func() {
		defer close(done)
		r.handshake()
	}()
	<-done
	drain := func(ch chan []byte) [][]byte {
		var out [][]byte
		for {
			select {
			case b := <-ch:
				out = append(out, b)
			default:
				return out
			}
		}
	}
	toServer = drain(osStdinChan)
	toClient = drain(osStdoutChan)
	if bypassTmuxChan != osStdoutChan {
		toClient = append(toClient, drain(bypassTmuxChan)...)
	}
	return toServer, toClient, r.relayStatus.Load()
}

// VerifServerArgs are the options of trz that reach the configuration.
type VerifServerArgs struct {
	Quiet, Overwrite, Binary, Escape, Directory, Fork bool
	Bufsize                                           int64
	Timeout                                           int
	Compress                                          int
}

type verifStopWriter struct {
	t   *trzszTransfer
	buf bytes.Buffer
}

func (w *verifStopWriter) Write(p []byte) (int, error) {
	w.buf.Write(p)
	if bytes.Contains(w.buf.Bytes(), []byte("#CFG:")) {
		// cut the transfer off right after the configuration has been written
		w.t.stopTransferringFiles(false)
	}
	return len(p), nil
}

// VerifServerConfig runs the REAL server-side prefix of trz (recvFiles: recvAction,
// capability checks, sendConfig) on one ACT line.  Returned: what the server wrote
// (the CFG line, or nothing), the transferConfig it keeps for itself re-marshalled
// (escape_chars is "{}" when a table is present, null otherwise), the binary flag of
// its arguments afterwards, and the error text.  The transfer itself is cut off as
// soon as the configuration has been written.  When tunnel is set a connected tunnel
// is simulated by an in-memory connection (recvAction refuses tunnel=true otherwise).
func VerifServerConfig(a VerifServerArgs, tmuxMode int, paneWidth int32, actLine []byte, tunnel bool) (written []byte, own string, errText string) {
	w := &verifStopWriter{}
	t := newTransfer(w, nil, false, nil)
	w.t = t
	if tunnel {
		c1, c2 := net.Pipe()
		defer c1.Close()
		defer c2.Close()
		go func() {
			buf := make([]byte, 32*1024)
			for {
				n, err := c2.Read(buf)
				if n > 0 {
					_, _ = w.Write(buf[:n])
				}
				if err != nil {
					return
				}
			}
		}()
		t.tunnelConn.Store(&c1)
	}
	t.buffer.addBuffer(actLine)
	args := &trzArgs{baseArgs: baseArgs{Quiet: a.Quiet, Overwrite: a.Overwrite, Binary: a.Binary, Escape: a.Escape,
		Directory: a.Directory, Fork: a.Fork, Bufsize: bufferSize{a.Bufsize}, Timeout: a.Timeout,
		Compress: compressType(a.Compress)}, Path: "/nonexistent-verif"}
	err := recvFiles(t, args, tmuxModeType(tmuxMode), paneWidth)
	if err != nil {
		errText = err.Error()
	}
	js, _ := json.Marshal(&t.transferConfig)
	return append([]byte(nil), w.buf.Bytes()...), string(js), errText
}

// VerifRelayTunnelConnected reads the relay's tunnelConnected flag.
func VerifRelayTunnelConnected(r *TrzszRelay) bool { return r.tunnelConnected.Load() }

// VerifRelayHandshake2 is VerifRelayHandshake for the framing of the handshake: the caller
// also chooses what the relay remembers from earlier transfers (clientIsWindows), and a
// relay that keeps waiting for a line (a reader that never finds its terminator) is reported
// as hung after `wait` instead of blocking: what it had sent until then and its status are
// returned, then its buffers are stopped so that the goroutine ends.
func VerifRelayHandshake2(tmuxMode int, paneWidth int32, winServer, clientIsWindows bool, fromClient, fromServer [][]byte,
	wait time.Duration) (toServer, toClient [][]byte, status int32, clientIsWindowsAfter bool, hung bool) {
	osStdinChan := make(chan []byte, 100)
	osStdoutChan := make(chan []byte, 100)
	bypassTmuxChan := osStdoutChan
	if tmuxModeType(tmuxMode) == tmuxNormalMode {
		bypassTmuxChan = make(chan []byte, 100)
	}
	r := &TrzszRelay{
		tmuxMode:        tmuxModeType(tmuxMode),
		osStdinChan:     osStdinChan,
		osStdoutChan:    osStdoutChan,
		bypassTmuxChan:  bypassTmuxChan,
		stdinBuffer:     newTrzszBuffer(),
		stdoutBuffer:    newTrzszBuffer(),
		tmuxPaneWidth:   paneWidth,
		clientIsWindows: clientIsWindows,
		trigger:         &trzszTrigger{mode: 'R', uniqueID: "", winServer: winServer},
	}
	r.relayStatus.Store(kRelayHandshaking)
	for _, b := range fromClient {
		r.stdinBuffer.addBuffer(b)
	}
	for _, b := range fromServer {
		r.stdoutBuffer.addBuffer(b)
	}
	done := make(chan struct{})
	go func() {
		defer close(done)
		r.handshake()
	}()
	drain := func(ch chan []byte) [][]byte {
		var out [][]byte
		for {
			select {
			case b := <-ch:
				out = append(out, b)
			default:
				return out
			}
		}
	}
	collect := func() {
		toServer = drain(osStdinChan)
		toClient = drain(osStdoutChan)
		if bypassTmuxChan != osStdoutChan {
			toClient = append(toClient, drain(bypassTmuxChan)...)
		}
		status = r.relayStatus.Load()
	}
	select {
	case <-done:
		collect()
		clientIsWindowsAfter = r.clientIsWindows
	case <-time.After(wait):
		hung = true
		collect()
		r.stdinBuffer.stopBuffer()
		r.stdoutBuffer.stopBuffer()
		<-done
		clientIsWindowsAfter = r.clientIsWindows
	}
	return
}
