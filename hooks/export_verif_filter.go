//go:build verif

// Add-only exports for the C05 (wrapper transparency) harness under /verif.
// Compiled only with `-tags verif`.

package trzsz

// VerifSetClipboardWriter replaces the package-level clipboard writer used by the OSC52
// scanner, so that a test never touches a real clipboard; it returns the restore function.
func VerifSetClipboardWriter(f func(buf []byte)) (restore func()) {
	old := writeToClipboard
	writeToClipboard = f
	return func() { writeToClipboard = old }
}

// VerifFreshDetectorFires reports whether a fresh client-mode trigger detector (no id
// history, no tunnel) fires on buf.  The filter's own detector fires on a subset of these.
func VerifFreshDetectorFires(buf []byte) bool {
	d := newTrzszDetector(false, false)
	_, t := d.detectTrzsz(append([]byte(nil), buf...), false)
	return t != nil
}

// VerifZmodemFires reports whether detectZmodem recognises a zmodem session header in buf.
func VerifZmodemFires(buf []byte) bool { return detectZmodem(buf) != nil }

// VerifDetectDragFiles exposes detectDragFiles for the platform the harness runs on.
func VerifDetectDragFiles(buf []byte) (files []string, hasDir, ignore, isWinPath bool) {
	return detectDragFiles(append([]byte(nil), buf...))
}

// VerifTrimVT100 exposes trimVT100 (used on the echo of a drag-upload command).
func VerifTrimVT100(buf []byte) []byte { return trimVT100(buf) }
