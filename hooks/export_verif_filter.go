//go:build verif

// Add-only exports for the C05 (wrapper transparency) harness under /verif.
// Compiled only with `-tags verif`.

package trzsz

import (
	"fmt"
	"sync"
)

// VerifSetClipboardWriter replaces the package-level clipboard writer used by the OSC52
// scanner, so that a test never touches a real clipboard; it returns the restore function.
func VerifSetClipboardWriter(f func(buf []byte)) (restore func()) {
	old := writeToClipboard
	writeToClipboard = f
	return func() { writeToClipboard = old }
}

// VerifFreshDetectorFires reports whether a fresh client-mode trigger detector (no id
// history, no tunnel) fires on buf.  The filter's own detector fires on a subset of these.
func VerifFreshDetectorFires(buf []byte) bool {
	d := newTrzszDetector(false, false)
	_, t := d.detectTrzsz(append([]byte(nil), buf...), false)
	return t != nil
}

// VerifZmodemFires reports whether detectZmodem recognises a zmodem session header in buf.
func VerifZmodemFires(buf []byte) bool { return detectZmodem(buf) != nil }

// VerifDetectDragFiles exposes detectDragFiles for the platform the harness runs on.
func VerifDetectDragFiles(buf []byte) (files []string, hasDir, ignore, isWinPath bool) {
	return detectDragFiles(append([]byte(nil), buf...))
}

// VerifTrimVT100 exposes trimVT100 (used on the echo of a drag-upload command).
func VerifTrimVT100(buf []byte) []byte { return trimVT100(buf) }

var verifOSC52Mu sync.Mutex

// VerifOSC52Scan feeds the chunks, one call each, to the OSC52 scanner of a fresh filter
// (filter.detectOSC52, called directly in the caller's goroutine) with the clipboard writer
// replaced by a recorder.  It returns what would have been written to the clipboard, the
// partial-sequence buffer left behind (hasPending = the buffer is non-nil) and, if the
// scanner panicked, the index of the chunk it panicked on (else -1) and the panic text.
func VerifOSC52Scan(chunks [][]byte) (clips [][]byte, pending []byte, hasPending bool, panicAt int, panicText string) {
	verifOSC52Mu.Lock()
	defer verifOSC52Mu.Unlock()
	old := writeToClipboard
	writeToClipboard = func(b []byte) { clips = append(clips, append([]byte(nil), b...)) }
	defer func() { writeToClipboard = old }()
	f := &TrzszFilter{}
	panicAt = -1
	for i, c := range chunks {
		func() {
			defer func() {
				if r := recover(); r != nil {
					panicAt, panicText = i, fmt.Sprint(r)
				}
			}()
			f.detectOSC52(append([]byte(nil), c...))
		}()
		if panicAt >= 0 {
			return
		}
	}
	if f.osc52Sequence != nil {
		pending, hasPending = append([]byte(nil), f.osc52Sequence.Bytes()...), true
	}
	return
}
