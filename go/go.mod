module verif

go 1.20

require (
	github.com/creack/pty v1.1.23
	github.com/klauspost/compress v1.17.9
	github.com/mattn/go-runewidth v0.0.16
	github.com/trzsz/trzsz-go v0.0.0
)

require (
	github.com/alexflint/go-scalar v1.2.0 // indirect
	github.com/atotto/clipboard v0.1.4 // indirect
	github.com/aymanbagabas/go-osc52/v2 v2.0.1 // indirect
	github.com/charmbracelet/lipgloss v0.12.1 // indirect
	github.com/charmbracelet/x/ansi v0.1.4 // indirect
	github.com/chzyer/readline v1.5.1 // indirect
	github.com/google/shlex v0.0.0-20191202100458-e7afc7fbc510 // indirect
	github.com/lucasb-eyer/go-colorful v1.2.0 // indirect
	github.com/mattn/go-isatty v0.0.20 // indirect
	github.com/muesli/termenv v0.15.2 // indirect
	github.com/ncruces/zenity v0.10.13 // indirect
	github.com/rivo/uniseg v0.4.7 // indirect
	github.com/trzsz/go-arg v1.5.4 // indirect
	github.com/trzsz/promptui v0.10.8 // indirect
	golang.org/x/image v0.19.0 // indirect
	golang.org/x/sys v0.24.0 // indirect
	golang.org/x/term v0.23.0 // indirect
	golang.org/x/text v0.17.0 // indirect
)

replace github.com/trzsz/trzsz-go => /repo
