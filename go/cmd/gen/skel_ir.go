package main

// Intermediate representation of the process-network language of Model/Proc.v,
// its normaliser, rank computation and Coq printer.  Used by skel_pipeline.go.

import (
	"fmt"
	"sort"
	"strings"
)

type skS struct {
	kind string // Sel Io IoE(io, a = error path) Cancel IfCtxExit Return RecvClose SendOnce Join WgWait WgAdd WgDone Branch LoopCtx LoopRange LoopData
	ch   *skChan
	proc *skProc
	wg   string
	io   string
	alts []skAlt
	a, b []skS
}

type skAlt struct {
	kind string // SendAlt RecvAlt DoneAlt TimerAlt DefaultAlt
	ch   *skChan
	body []skS
}

type skChan struct {
	name string // role name: <creating function>_<ordinal>
	cap  int64
	id   int
}

type skProc struct {
	name       string
	body       []skS
	finally    []skS
	deferClose []*skChan
	exitCancel bool
	rank       int
	id         int
}

type skNet struct {
	name    string
	prelude []skS // main before the context is created
	procs   []*skProc
	chans   []*skChan
	wgs     []string
}

func skEmpty(l []skS) bool { return len(l) == 0 }

// skNorm drops constructs that carry no synchronisation: branches with two empty arms,
// data/context loops with an empty body.
func skNorm(l []skS) []skS {
	var out []skS
	for _, s := range l {
		switch s.kind {
		case "Branch":
			s.a, s.b = skNorm(s.a), skNorm(s.b)
			if skEmpty(s.a) && skEmpty(s.b) {
				continue
			}
		case "LoopCtx", "LoopData":
			s.a = skNorm(s.a)
			if skEmpty(s.a) {
				continue
			}
		case "LoopRange", "IoE":
			s.a = skNorm(s.a)
		case "Sel":
			alts := make([]skAlt, len(s.alts))
			for i, a := range s.alts {
				a.body = skNorm(a.body)
				alts[i] = a
			}
			s.alts = alts
		}
		out = append(out, s)
	}
	return out
}

// skSendOnce enforces the meaning of SendOnce (a bare send directly followed by the
// goroutine's exit): any other bare send becomes Io Unknown.
func skSendOnce(l []skS, tailExits bool) []skS {
	out := make([]skS, len(l))
	for i, s := range l {
		rest := l[i+1:]
		next := (len(rest) == 0 && tailExits) || (len(rest) > 0 && rest[0].kind == "Return")
		switch s.kind {
		case "SendOnce":
			if !next {
				s = skS{kind: "Io", io: "Unknown"}
			}
		case "Branch":
			s.a, s.b = skSendOnce(s.a, next), skSendOnce(s.b, next)
		case "IoE":
			s.a = skSendOnce(s.a, next)
		case "Sel":
			alts := make([]skAlt, len(s.alts))
			for j, a := range s.alts {
				a.body = skSendOnce(a.body, next)
				alts[j] = a
			}
			s.alts = alts
		case "LoopCtx", "LoopData", "LoopRange":
			s.a = skSendOnce(s.a, false)
		}
		out[i] = s
	}
	return out
}

func skWalk(l []skS, f func(skS)) {
	for _, s := range l {
		f(s)
		skWalk(s.a, f)
		skWalk(s.b, f)
		for _, a := range s.alts {
			skWalk(a.body, f)
		}
	}
}

// skRanks computes a topological order of the waits-for graph: a goroutine waits for the
// closers of the channels it ranges over / receives from, and for the goroutines it joins.
func (n *skNet) ranks() {
	closer := map[*skChan][]*skProc{}
	for _, p := range n.procs {
		for _, c := range p.deferClose {
			closer[c] = append(closer[c], p)
		}
	}
	deps := map[*skProc]map[*skProc]bool{}
	for _, p := range n.procs {
		d := map[*skProc]bool{}
		f := func(s skS) {
			switch s.kind {
			case "LoopRange", "RecvClose":
				for _, q := range closer[s.ch] {
					if q != p {
						d[q] = true
					}
				}
			case "Join":
				if s.proc != nil && s.proc != p {
					d[s.proc] = true
				}
			}
		}
		skWalk(p.body, f)
		skWalk(p.finally, f)
		deps[p] = d
	}
	done := map[*skProc]bool{}
	for round := 0; round <= len(n.procs); round++ {
		var layer []*skProc
		for _, p := range n.procs {
			if done[p] {
				continue
			}
			ok := true
			for q := range deps[p] {
				if !done[q] {
					ok = false
				}
			}
			if ok {
				layer = append(layer, p)
			}
		}
		for _, p := range layer {
			p.rank = round
			done[p] = true
		}
	}
	for _, p := range n.procs {
		if !done[p] { // cycle: give an unsatisfiable rank, wf reports W3
			p.rank = 0
		}
	}
}

// ---- Coq printer ----

func skIdent(s string) string {
	var b strings.Builder
	for _, r := range s {
		if r == '.' {
			b.WriteByte('_')
		} else {
			b.WriteRune(r)
		}
	}
	return b.String()
}

func (n *skNet) chName(c *skChan) string { return "ch_" + n.name + "_" + skIdent(c.name) }
func (n *skNet) prName(p *skProc) string { return "p_" + n.name + "_" + skIdent(p.name) }
func (n *skNet) wgName(w string) string  { return "wg_" + skIdent(w) }

func (n *skNet) list(l []skS, ind string) string {
	if len(l) == 0 {
		return "[]"
	}
	parts := make([]string, len(l))
	for i, s := range l {
		parts[i] = n.stmt(s, ind+"  ")
	}
	return "[ " + strings.Join(parts, ";\n"+ind+"  ") + " ]"
}

func (n *skNet) stmt(s skS, ind string) string {
	switch s.kind {
	case "Sel":
		parts := make([]string, len(s.alts))
		for i, a := range s.alts {
			h := a.kind
			if a.ch != nil {
				h = "(" + a.kind + " " + n.chName(a.ch) + ")"
			}
			parts[i] = "(" + h + ", " + n.list(a.body, ind+"    ") + ")"
		}
		return "Sel [ " + strings.Join(parts, ";\n"+ind+"      ") + " ]"
	case "Io":
		return "Io " + s.io
	case "IoE":
		return "IoE " + s.io + " " + n.list(s.a, ind+"    ")
	case "Cancel", "IfCtxExit", "Return":
		return s.kind
	case "RecvClose", "SendOnce":
		return s.kind + " " + n.chName(s.ch)
	case "Join":
		return "Join " + n.prName(s.proc)
	case "WgWait", "WgAdd", "WgDone":
		return s.kind + " " + n.wgName(s.wg)
	case "Branch":
		return "Branch " + n.list(s.a, ind+"       ") + "\n" + ind + "       " + n.list(s.b, ind+"       ")
	case "LoopCtx", "LoopData":
		return s.kind + " " + n.list(s.a, ind+"  ")
	case "LoopRange":
		return "LoopRange " + n.chName(s.ch) + " " + n.list(s.a, ind+"  ")
	}
	die("skel: unknown statement kind %q", s.kind)
	return ""
}

// skTerminates: every path through the block ends by leaving the goroutine
func skTerminates(l []skS) bool {
	if len(l) == 0 {
		return false
	}
	last := l[len(l)-1]
	switch last.kind {
	case "Return":
		return true
	case "Branch":
		return skTerminates(last.a) && skTerminates(last.b)
	case "Sel":
		for _, a := range last.alts {
			if !skTerminates(a.body) {
				return false
			}
		}
		return len(last.alts) > 0
	}
	return false
}

func (n *skNet) print(b *strings.Builder) {
	fmt.Fprintf(b, "(* ---- net %s ---- *)\n", n.name)
	for i, c := range n.chans {
		c.id = i
		fmt.Fprintf(b, "Definition %s : chan := %d.\n", n.chName(c), i)
	}
	for i, p := range n.procs {
		p.id = i
		fmt.Fprintf(b, "Definition %s : pid := %d.\n", n.prName(p), i)
	}
	caps := make([]string, len(n.chans))
	senders := make([]string, len(n.chans))
	for i, c := range n.chans {
		caps[i] = fmt.Sprint(c.cap)
		senders[i] = "None"
		var owners []*skProc
		for _, p := range n.procs {
			has := false
			f := func(s skS) {
				if s.kind == "SendOnce" && s.ch == c {
					has = true
				}
			}
			skWalk(p.body, f)
			skWalk(p.finally, f)
			if has {
				owners = append(owners, p)
			}
		}
		if len(owners) > 0 { // several owners: the first is declared, wf rejects the others
			senders[i] = "Some " + n.prName(owners[0])
		}
	}
	if n.prelude != nil {
		fmt.Fprintf(b, "(* what the main function does before its context exists (not part of the net) *)\nDefinition %s_main_prelude : list stmt :=\n  %s.\n",
			n.name, n.list(n.prelude, "  "))
	}
	var pnames []string
	for _, p := range n.procs {
		nm := n.name + "_" + skIdent(p.name)
		fmt.Fprintf(b, "Definition %s_body : list stmt :=\n  %s.\n", nm, n.list(p.body, "  "))
		fmt.Fprintf(b, "Definition %s_finally : list stmt :=\n  %s.\n", nm, n.list(p.finally, "  "))
		cl := make([]string, len(p.deferClose))
		for i, c := range p.deferClose {
			cl[i] = n.chName(c)
		}
		sort.Strings(cl)
		fmt.Fprintf(b, "Definition %s_proc : proc :=\n  {| body := %s_body; finally := %s_finally; defer_close := [%s];\n     exit_cancel := %v; rank := %d |}.\n",
			nm, nm, nm, strings.Join(cl, "; "), p.exitCancel, p.rank)
		pnames = append(pnames, nm+"_proc")
	}
	fmt.Fprintf(b, "Definition %s_net : net :=\n  {| procs_of := [%s];\n     caps := [%s];\n     senders := [%s] |}.\n\n",
		n.name, strings.Join(pnames, "; "), strings.Join(caps, "; "), strings.Join(senders, "; "))
}
