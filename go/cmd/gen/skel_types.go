package main

// Symbolic values, a small syntactic type resolver and the call classification table
// of the skeleton translator.

import (
	"go/ast"
	"go/token"
	"sort"
	"strings"
)

const (
	skvNone = iota
	skvChan
	skvCtx
	skvJoin
	skvStruct
	skvClosure
)

type skVal struct {
	kind   int
	ch     *skChan
	join   **skProc // the goroutine that calls Done() on this local WaitGroup
	fields map[string]*skVal
	lit    *ast.FuncLit
	env    *skEnv
	fn     *skFn
}

type skEnv struct {
	vars   map[string]*skVal
	parent *skEnv
}

func skNewEnv(parent *skEnv) *skEnv { return &skEnv{vars: map[string]*skVal{}, parent: parent} }
func (e *skEnv) get(n string) *skVal {
	for x := e; x != nil; x = x.parent {
		if v, ok := x.vars[n]; ok {
			return v
		}
	}
	return nil
}

// skFn: the function whose locals give the types of identifiers
type skFn struct {
	name  string
	types map[string]string
}

func skTypeStr(s *src, e ast.Expr) string {
	switch e := e.(type) {
	case *ast.StarExpr:
		return skTypeStr(s, e.X)
	case *ast.ParenExpr:
		return skTypeStr(s, e.X)
	case *ast.UnaryExpr:
		if e.Op == token.AND {
			return skTypeStr(s, e.X)
		}
	case *ast.CompositeLit:
		return skTypeStr(s, e.Type)
	}
	t := s.text(e)
	t = strings.TrimPrefix(t, "<-")
	return strings.ReplaceAll(t, " ", "")
}

func (g *skGen) fnTypes(name string, recv *ast.FieldList, typ *ast.FuncType, body *ast.BlockStmt) *skFn {
	f := &skFn{name: name, types: map[string]string{}}
	addFields := func(fl *ast.FieldList) {
		if fl == nil {
			return
		}
		for _, fd := range fl.List {
			for _, n := range fd.Names {
				f.types[n.Name] = skTypeStr(g.s, fd.Type)
			}
		}
	}
	addFields(recv)
	addFields(typ.Params)
	ast.Inspect(body, func(n ast.Node) bool {
		switch n := n.(type) {
		case *ast.FuncLit:
			addFields(n.Type.Params)
		case *ast.ValueSpec:
			if n.Type != nil {
				for _, id := range n.Names {
					f.types[id.Name] = skTypeStr(g.s, n.Type)
				}
			}
		case *ast.AssignStmt:
			if n.Tok == token.DEFINE && len(n.Rhs) == 1 {
				ts := g.resultTypes(f, n.Rhs[0])
				for i, l := range n.Lhs {
					if id, ok := l.(*ast.Ident); ok && i < len(ts) && ts[i] != "" {
						if _, have := f.types[id.Name]; !have {
							f.types[id.Name] = ts[i]
						}
					}
				}
			}
		}
		return true
	})
	return f
}

// resultTypes: the types of the values an expression yields (several for a call)
func (g *skGen) resultTypes(f *skFn, e ast.Expr) []string {
	if call, ok := e.(*ast.CallExpr); ok {
		var fd *ast.FuncDecl
		switch fun := call.Fun.(type) {
		case *ast.Ident:
			fd = g.s.funcs[fun.Name]
		case *ast.SelectorExpr:
			if t := g.exprType(f, fun.X); t != "" {
				fd = g.s.funcs[t+"."+fun.Sel.Name]
			}
		}
		if fd != nil && fd.Type.Results != nil {
			var out []string
			for _, r := range fd.Type.Results.List {
				n := len(r.Names)
				if n == 0 {
					n = 1
				}
				for i := 0; i < n; i++ {
					out = append(out, skTypeStr(g.s, r.Type))
				}
			}
			return out
		}
	}
	return []string{g.exprType(f, e)}
}

// exprType: type name (pointer stripped) of an expression, "" when unknown.
func (g *skGen) exprType(f *skFn, e ast.Expr) string {
	switch e := e.(type) {
	case *ast.Ident:
		return f.types[e.Name]
	case *ast.ParenExpr:
		return g.exprType(f, e.X)
	case *ast.StarExpr:
		return g.exprType(f, e.X)
	case *ast.UnaryExpr:
		if e.Op == token.AND {
			return g.exprType(f, e.X)
		}
	case *ast.CompositeLit:
		return skTypeStr(g.s, e.Type)
	case *ast.SelectorExpr:
		xt := g.exprType(f, e.X)
		if st := g.structs[xt]; st != nil {
			for _, fd := range st.Fields.List {
				for _, n := range fd.Names {
					if n.Name == e.Sel.Name {
						return skTypeStr(g.s, fd.Type)
					}
				}
			}
		}
	case *ast.CallExpr:
		if sel, ok := e.Fun.(*ast.SelectorExpr); ok {
			if id, ok := sel.X.(*ast.Ident); ok && g.imports[id.Name] {
				return id.Name + "." + sel.Sel.Name + "()"
			}
		}
		if id, ok := e.Fun.(*ast.Ident); ok {
			if fd := g.s.funcs[id.Name]; fd != nil && fd.Type.Results != nil && len(fd.Type.Results.List) == 1 {
				return skTypeStr(g.s, fd.Type.Results.List[0].Type)
			}
		}
	}
	return ""
}

// ---- classification ----

// what a call stands for in the skeleton
type skAction struct {
	io     string // Io kind, "" = none
	inline string // function to inline ("Type.method" or name), via = constructor providing the receiver
	via    string
	loop   bool   // wrapped in LoopData (called zero or more times through codec wrappers)
	then   string // second function inlined after the loop (writer.Close)
	none   bool
}

var skTable = map[string]skAction{
	// wire reads: wake on data, stop or timeout (buffer.go nextBuffer)
	"trzszTransfer.recvCheckV2": {io: "RecvLine"}, "trzszTransfer.recvLine": {io: "RecvLine"},
	"trzszTransfer.recvCheck": {io: "RecvLine"}, "trzszTransfer.recvString": {io: "RecvLine"},
	"trzszTransfer.recvInteger": {io: "RecvLine"}, "trzszBuffer.readBinary": {io: "RecvLine"},
	"trzszBuffer.readLine": {io: "RecvLine"},
	// wire writes
	"trzszTransfer.writeAll": {io: "WriteWire"}, "trzszTransfer.sendLine": {io: "WriteWire"},
	"trzszTransfer.sendString": {io: "WriteWire"}, "trzszTransfer.sendInteger": {io: "WriteWire"},
	// pause gate (sleeps while paused, returns on stop)
	"trzszTransfer.checkStopAndPause": {io: "PauseGate"},
	// file I/O
	"writeAll(fileWriter)": {io: "FileIO"}, "fileReader.Read": {io: "FileIO"},
	"os.File.Read": {io: "FileIO"}, "os.File.Write": {io: "FileIO"}, "os.File.Seek": {io: "FileIO"},
	"fileWriter.Close": {none: true}, "fileReader.Close": {none: true},
	// codec wrappers around the channel-backed writer / reader
	"writeAll(writeCloseFlusher)": {inline: "sendDataWriter.Write", via: "newSendDataWriter", loop: true},
	"writeCloseFlusher.Flush":     {inline: "sendDataWriter.Write", via: "newSendDataWriter", loop: true},
	"writeCloseFlusher.Close":     {inline: "sendDataWriter.Write", via: "newSendDataWriter", loop: true, then: "sendDataWriter.Close"},
	"readCloser.Read":             {inline: "recvDataReader.Read", via: "newRecvDataReader", loop: true},
	"readCloser.Close":            {none: true},
	// helpers with channel operations, inlined
	"sendDataWriter.deliver":             {inline: "sendDataWriter.deliver"},
	"trzszTransfer.pipelineRecvFinalAck": {inline: "trzszTransfer.pipelineRecvFinalAck"},
	"trzszTransfer.bufInitDone":          {inline: "trzszTransfer.bufInitDone"}, // hooks/fix_bufinit.diff
	// hashing: pure
	"md5.New().Write": {none: true}, "md5.New().Sum": {none: true},
	// progress callbacks write to the terminal
	"progressCallback.onStep": {none: true},
}

// summary of a same-package function that is not in the table: the Io kinds it reaches
// and whether it (transitively, by name) contains a synchronisation construct.
type skSummary struct {
	ios  map[string]bool
	sync bool
}

func (g *skGen) summary(key string, seen map[string]bool) skSummary {
	if s, ok := g.summaries[key]; ok {
		return s
	}
	out := skSummary{ios: map[string]bool{}}
	if seen[key] {
		return out
	}
	seen[key] = true
	fd := g.s.funcs[key]
	if fd == nil || fd.Body == nil {
		return out
	}
	f := g.fnTypes(key, fd.Recv, fd.Type, fd.Body)
	ast.Inspect(fd.Body, func(n ast.Node) bool {
		switch n := n.(type) {
		case *ast.SelectStmt, *ast.SendStmt, *ast.GoStmt:
			skDebug("summary %s: select/send/go", key)
			out.sync = true
		case *ast.UnaryExpr:
			if n.Op == token.ARROW {
				skDebug("summary %s: receive", key)
				out.sync = true
			}
		case *ast.RangeStmt:
			if strings.Contains(g.exprType(f, n.X), "chan") {
				out.sync = true
			}
		case *ast.CallExpr:
			keys, ext := g.callKeys(f, n)
			for _, k := range keys {
				if a, ok := skTable[k]; ok {
					if a.io != "" {
						out.ios[a.io] = true
					}
					if a.inline != "" {
						out.sync = true
					}
					continue
				}
				if g.s.funcs[k] != nil {
					sub := g.summary(k, seen)
					for io := range sub.ios {
						out.ios[io] = true
					}
					out.sync = out.sync || sub.sync
				}
			}
			if ext == "time.Sleep" || ext == "close" || strings.HasPrefix(ext, "sync.WaitGroup.") {
				skDebug("summary %s: %s", key, ext)
				out.sync = true
			}
		}
		return true
	})
	g.summaries[key] = out
	return out
}

// callKeys: candidate table/function keys of a call; ext = external or builtin callee.
func (g *skGen) callKeys(f *skFn, call *ast.CallExpr) (keys []string, ext string) {
	switch fun := call.Fun.(type) {
	case *ast.Ident:
		if fun.Name == "writeAll" && len(call.Args) > 0 {
			return []string{"writeAll(" + g.exprType(f, call.Args[0]) + ")"}, ""
		}
		if g.s.funcs[fun.Name] != nil {
			return []string{fun.Name}, ""
		}
		return nil, fun.Name
	case *ast.SelectorExpr:
		if id, ok := fun.X.(*ast.Ident); ok && g.imports[id.Name] && f.types[id.Name] == "" {
			return nil, id.Name + "." + fun.Sel.Name
		}
		t := g.exprType(f, fun.X)
		m := fun.Sel.Name
		if t != "" {
			k := t + "." + m
			if _, ok := skTable[k]; ok {
				return []string{k}, ""
			}
			if g.s.funcs[k] != nil {
				return []string{k}, ""
			}
			if g.structs[t] == nil && g.ifaces[t] == nil { // type from another package
				return nil, k
			}
		}
		// interface or unresolved receiver: every same-package method of that name
		for k := range g.s.funcs {
			if strings.HasSuffix(k, "."+m) {
				keys = append(keys, k)
			}
		}
		sort.Strings(keys)
		return keys, ""
	}
	return nil, ""
}
