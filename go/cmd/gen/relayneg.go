package main

import (
	"go/ast"
	"go/token"
	"reflect"
	"strconv"
	"strings"
)

func init() { constGens["relayneg"] = genRelayNeg }

// genRelayNeg reads what the relay's negotiation model (Model/RelayNeg.v) depends on:
// kProtocolVersion, the relay status constants, the tmux mode constants, the
// end-of-transfer markers of the four wrap* loops of relay.go (in the order they are
// tested), the Ctrl-C test of wrapInput, the defaults the relay / the server / the
// client decode ACT and CFG into, and the JSON-visible fields of transferAction and
// transferConfig.
func genRelayNeg(s *src, o *out) {
	o.defZ("relayneg_protocol_version", s.evalInt(s.consts["kProtocolVersion"], nil, 0))
	for _, n := range []string{"kRelayStandBy", "kRelayHandshaking", "kRelayTransferring"} {
		c, ok := s.consts[n]
		if !ok {
			die("relayneg: constant %s not found", n)
		}
		o.defN("relayneg_"+c14snake(n[1:]), s.evalInt(c, nil, 0))
	}
	for _, n := range []string{"noTmuxMode", "tmuxNormalMode", "tmuxControlMode"} {
		c, ok := s.consts[n]
		if !ok {
			die("relayneg: constant %s not found", n)
		}
		o.defN("relayneg_"+c14snake(n), s.evalInt(c, nil, 0))
	}

	// markers: every bytes.Contains(buf, []byte("...")) in the loop, in source order
	for _, f := range [][2]string{{"TrzszRelay.wrapInput", "relayneg_markers_in"}, {"TrzszRelay.wrapOutput", "relayneg_markers_out"},
		{"tunnelRelay.wrapInput", "relayneg_markers_tunnel_in"}, {"tunnelRelay.wrapOutput", "relayneg_markers_tunnel_out"}} {
		var ms []string
		ast.Inspect(s.fn(f[0]).Body, func(n ast.Node) bool {
			if c, ok := n.(*ast.CallExpr); ok && s.text(c.Fun) == "bytes.Contains" && len(c.Args) == 2 && s.text(c.Args[0]) == "buf" {
				ms = append(ms, s.evalString(c.Args[1]))
			}
			return true
		})
		if len(ms) == 0 {
			die("relayneg: no end-of-transfer marker test found in %s", f[0])
		}
		o.raw("Definition %s : list (list N) := [", f[1])
		for i, m := range ms {
			if i > 0 {
				o.raw("; ")
			}
			o.raw("%s", c14bytes(m))
		}
		o.raw("].\n")
	}

	// the Ctrl-C test of wrapInput: len(buf) == L && buf[0] == C
	ctrlLen, ctrlByte := int64(-1), int64(-1)
	ast.Inspect(s.fn("TrzszRelay.wrapInput").Body, func(n ast.Node) bool {
		if b, ok := n.(*ast.BinaryExpr); ok && b.Op == token.LAND {
			l, lok := b.X.(*ast.BinaryExpr)
			r, rok := b.Y.(*ast.BinaryExpr)
			if lok && rok && l.Op == token.EQL && r.Op == token.EQL && s.text(l.X) == "len(buf)" && s.text(r.X) == "buf[0]" {
				ctrlLen, ctrlByte = s.evalInt(l.Y, nil, 0), s.evalInt(r.Y, nil, 0)
			}
		}
		return true
	})
	if ctrlLen < 0 {
		die("relayneg: the `len(buf) == 1 && buf[0] == ctrl-c` test of wrapInput was not found")
	}
	o.defN("relayneg_ctrl_c_len", ctrlLen)
	o.defN("relayneg_ctrl_c", ctrlByte)

	// defaults: the composite literal each decoder starts from
	lit := func(fn, typ string) map[string]ast.Expr {
		var found *ast.CompositeLit
		ast.Inspect(s.fn(fn).Body, func(n ast.Node) bool {
			if c, ok := n.(*ast.CompositeLit); ok && found == nil && s.text(c.Type) == typ {
				found = c
			}
			return true
		})
		if found == nil {
			die("relayneg: %s has no %s{...} literal", fn, typ)
		}
		m := map[string]ast.Expr{}
		for _, e := range found.Elts {
			kv, ok := e.(*ast.KeyValueExpr)
			if !ok {
				die("relayneg: %s: positional %s literal", fn, typ)
			}
			m[s.text(kv.Key)] = kv.Value
		}
		return m
	}
	actDefaults := func(fn, prefix string) {
		m := lit(fn, "transferAction")
		if len(m) != 2 || m["Newline"] == nil || m["SupportBinary"] == nil {
			die("relayneg: %s: the transferAction defaults are no longer exactly {Newline, SupportBinary}", fn)
		}
		o.defBytes(prefix+"_newline", s.evalString(m["Newline"]))
		o.raw("Definition %s_binary : bool := %s.\n", prefix, c14bool(s, m["SupportBinary"]))
	}
	actDefaults("TrzszRelay.recvAction", "relayneg_relay_act")
	actDefaults("trzszTransfer.recvAction", "relayneg_server_act")
	cfgDefaults := func(fn, prefix string) {
		m := lit(fn, "transferConfig")
		if len(m) != 3 || m["Timeout"] == nil || m["Newline"] == nil || m["MaxBufSize"] == nil {
			die("relayneg: %s: the transferConfig defaults are no longer exactly {Timeout, Newline, MaxBufSize}", fn)
		}
		o.defZ(prefix+"_timeout", s.evalInt(m["Timeout"], nil, 0))
		o.defBytes(prefix+"_newline", s.evalString(m["Newline"]))
		o.defZ(prefix+"_bufsize", s.evalInt(m["MaxBufSize"], nil, 0))
	}
	cfgDefaults("TrzszRelay.recvConfig", "relayneg_relay_cfg")
	cfgDefaults("newTransfer", "relayneg_client_cfg")
	// the Windows-server newline of the relay's recvConfig: config.Newline = "..."
	winNL, have := "", false
	ast.Inspect(s.fn("TrzszRelay.recvConfig").Body, func(n ast.Node) bool {
		if a, ok := n.(*ast.AssignStmt); ok && len(a.Lhs) == 1 && s.text(a.Lhs[0]) == "config.Newline" {
			winNL, have = s.evalString(a.Rhs[0]), true
		}
		return true
	})
	if !have {
		die("relayneg: TrzszRelay.recvConfig no longer assigns config.Newline for Windows servers")
	}
	o.defBytes("relayneg_relay_cfg_win_newline", winNL)
	// the Windows newline the relay recognises a Windows client by: action.Newline == "..."
	cliNL, have := "", false
	ast.Inspect(s.fn("TrzszRelay.handshake").Body, func(n ast.Node) bool {
		if b, ok := n.(*ast.BinaryExpr); ok && b.Op == token.EQL && s.text(b.X) == "action.Newline" {
			cliNL, have = s.evalString(b.Y), true
		}
		return true
	})
	if !have {
		die("relayneg: handshake no longer compares action.Newline")
	}
	o.defBytes("relayneg_client_win_newline", cliNL)

	// JSON-visible fields (tag, Go type) of the two structs, in declaration order
	for _, st := range [][2]string{{"transferAction", "relayneg_action_fields"}, {"transferConfig", "relayneg_config_fields"}} {
		var fields [][2]string
		for _, f := range s.files {
			ast.Inspect(f, func(n ast.Node) bool {
				ts, ok := n.(*ast.TypeSpec)
				if !ok || ts.Name.Name != st[0] {
					return true
				}
				stt, ok := ts.Type.(*ast.StructType)
				if !ok {
					die("relayneg: %s is not a struct", st[0])
				}
				for _, fl := range stt.Fields.List {
					if fl.Tag == nil || len(fl.Names) != 1 {
						die("relayneg: %s has an untagged or multi-name field", st[0])
					}
					tv, _ := strconv.Unquote(fl.Tag.Value)
					tag := reflect.StructTag(tv).Get("json")
					if !ast.IsExported(fl.Names[0].Name) || tag == "-" {
						continue
					}
					if tag == "" || strings.Contains(tag, ",") {
						die("relayneg: %s.%s: json tag %q has options the model does not know", st[0], fl.Names[0].Name, tag)
					}
					fields = append(fields, [2]string{tag, s.text(fl.Type)})
				}
				return false
			})
		}
		if len(fields) == 0 {
			die("relayneg: struct %s not found", st[0])
		}
		o.raw("Definition %s : list (list N * list N) := [", st[1])
		for i, f := range fields {
			if i > 0 {
				o.raw("; ")
			}
			o.raw("(%s, %s)", c14bytes(f[0]), c14bytes(f[1]))
		}
		o.raw("].\n")
	}
	// escapeTable has no exported field and no MarshalJSON: a non-nil table is
	// re-marshalled as the empty object.  Both facts are read from the source.
	exported, hasMarshal := 0, false
	for _, f := range s.files {
		ast.Inspect(f, func(n ast.Node) bool {
			if ts, ok := n.(*ast.TypeSpec); ok && ts.Name.Name == "escapeTable" {
				if stt, ok := ts.Type.(*ast.StructType); ok {
					for _, fl := range stt.Fields.List {
						for _, nm := range fl.Names {
							if ast.IsExported(nm.Name) {
								exported++
							}
						}
					}
				}
			}
			return true
		})
	}
	if _, ok := s.funcs["escapeTable.MarshalJSON"]; ok {
		hasMarshal = true
	}
	if _, ok := s.funcs["escapeTable.MarshalText"]; ok {
		hasMarshal = true
	}
	// the tunnelConnected flag: set by handshake() from the client's ACT, cleared by
	// resetToStandby once its CAS has succeeded, consulted by addHandshakeBuffer
	top := func(fn, want string) bool {
		for _, st := range s.fn(fn).Body.List {
			if s.text(st) == want {
				return true
			}
		}
		return false
	}
	rs := s.fn("TrzszRelay.resetToStandby").Body.List
	guard := "if !r.relayStatus.CompareAndSwap(status, kRelayStandBy) { return }"
	// not fatal: the shape is reported as a constant and pinned by Proofs/RelayNeg.v
	// (reset_guard_src_ok), so that a reset without the expected-state guard breaks that lemma
	// -- and leaves the models translatable and executable for the search engines (C13)
	o.raw("Definition relayneg_reset_guard_is_cas : bool := %v.\n", len(rs) > 0 && s.text(rs[0]) == guard)
	o.raw("Definition relayneg_reset_clears_tunnel_flag : bool := %v.\n", top("TrzszRelay.resetToStandby", "r.tunnelConnected.Store(false)"))
	o.raw("Definition relayneg_handshake_sets_tunnel_flag : bool := %v.\n", top("TrzszRelay.handshake", "r.tunnelConnected.Store(action.TunnelConnected)"))
	cond := ""
	for _, st := range s.fn("TrzszRelay.addHandshakeBuffer").Body.List {
		if is, ok := st.(*ast.IfStmt); ok {
			cond = s.text(is.Cond) + " => " + s.text(is.Body)
		}
	}
	if cond == "" {
		die("relayneg: addHandshakeBuffer has no if statement")
	}
	o.defBytes("relayneg_parking_rule_src", cond)
	// line framing of what the relay itself sends and reads during the handshake: the four
	// rules (source text, pinned in Proofs/RelayNeg.v) and the two terminators
	ifCond := func(fn string) string {
		for _, st := range s.fn(fn).Body.List {
			if is, ok := st.(*ast.IfStmt); ok && is.Init == nil {
				return s.text(is.Cond)
			}
		}
		die("relayneg: %s has no top-level if", fn)
		return ""
	}
	o.defBytes("relayneg_to_client_rule_src", ifCond("TrzszRelay.sendStringToClient"))
	o.defBytes("relayneg_to_server_rule_src", ifCond("TrzszRelay.sendStringToServer"))
	o.defBytes("relayneg_from_client_rule_src", ifCond("TrzszRelay.recvStringFromClient"))
	o.defBytes("relayneg_from_server_rule_src", ifCond("TrzszRelay.recvStringFromServer"))
	for _, fn := range [][2]string{{"TrzszRelay.sendStringToClient", "relayneg_to_client"}, {"TrzszRelay.sendStringToServer", "relayneg_to_server"}} {
		var plain, win string
		havePlain, haveWin := false, false
		ast.Inspect(s.fn(fn[0]).Body, func(n ast.Node) bool {
			if a, ok := n.(*ast.AssignStmt); ok && len(a.Lhs) == 1 && s.text(a.Lhs[0]) == "newline" && len(a.Rhs) == 1 {
				if a.Tok == token.DEFINE {
					plain, havePlain = s.evalString(a.Rhs[0]), true
				} else {
					win, haveWin = s.evalString(a.Rhs[0]), true
				}
			}
			return true
		})
		if !havePlain || !haveWin {
			die("relayneg: %s no longer chooses between two newline literals", fn[0])
		}
		o.defBytes(fn[1]+"_nl", plain)
		o.defBytes(fn[1]+"_win_nl", win)
	}
	// the client (trzszTransfer.sendAction): the newline it announces, by default and when it
	// frames for Windows, and the terminator it then uses for its own lines
	{
		m := lit("trzszTransfer.sendAction", "transferAction")
		if m["Newline"] == nil {
			die("relayneg: sendAction's transferAction literal has no Newline")
		}
		o.defBytes("relayneg_client_act_nl", s.evalString(m["Newline"]))
		var actWin, lineWin string
		ast.Inspect(s.fn("trzszTransfer.sendAction").Body, func(n ast.Node) bool {
			if a, ok := n.(*ast.AssignStmt); ok && len(a.Lhs) == 1 && len(a.Rhs) == 1 {
				switch s.text(a.Lhs[0]) {
				case "action.Newline":
					actWin = s.evalString(a.Rhs[0])
				case "t.transferConfig.Newline":
					if v := s.evalString(a.Rhs[0]); v != "\n" {
						lineWin = v
					}
				}
			}
			return true
		})
		if actWin == "" || lineWin == "" {
			die("relayneg: sendAction no longer sets the Windows newline of the action / of its own lines")
		}
		o.defBytes("relayneg_client_act_win_nl", actWin)
		o.defBytes("relayneg_client_line_win_nl", lineWin)
		o.defBytes("relayneg_client_windows_rule_src", func() string {
			out := ""
			for _, st := range s.fn("trzszTransfer.sendAction").Body.List {
				if is, ok := st.(*ast.IfStmt); ok && strings.Contains(s.text(is.Body), "action.Newline") {
					out = s.text(is.Cond)
				}
			}
			if out == "" {
				die("relayneg: sendAction: the Windows branch was not found")
			}
			return out
		}())
		rd := ""
		for _, st := range s.fn("trzszTransfer.recvLine").Body.List {
			if is, ok := st.(*ast.IfStmt); ok && strings.Contains(s.text(is.Body), "readLineOnWindows") {
				rd = s.text(is.Cond)
			}
		}
		if rd == "" {
			die("relayneg: recvLine: the Windows reader branch was not found")
		}
		o.defBytes("relayneg_client_reader_rule_src", rd)
	}
	// the order in which handshake() reads, updates the relay's framing state and writes
	tags := map[string]string{
		"confirm := false":                            "",
		"var err error = nil":                         "",
		"action, err := r.recvAction()":               "recvAction",
		"r.tunnelConnected.Store(action.TunnelConnected)": "setTunnelConnected",
		"r.clientIsWindows = action.Newline == \"!\\n\"":   "setClientIsWindows",
		"config, err := r.recvConfig()":               "recvConfig",
		"confirm = true":                              "confirmed",
	}
	var order []string
	for _, st := range s.fn("TrzszRelay.handshake").Body.List {
		txt := s.text(st)
		if tag, ok := tags[txt]; ok {
			if tag != "" {
				order = append(order, tag)
			}
			continue
		}
		switch {
		case strings.HasPrefix(txt, "defer "):
		case strings.HasPrefix(txt, "if err != nil {"):
			order = append(order, "failed?")
		case strings.HasPrefix(txt, "if !action.TunnelConnected {"):
			order = append(order, "binaryOff")
		case strings.HasPrefix(txt, "if action.Protocol > kProtocolVersion {"):
			order = append(order, "clampProtocol")
		case strings.HasPrefix(txt, "if e := r.sendAction(action); e != nil {"):
			order = append(order, "sendAction")
		case strings.HasPrefix(txt, "if !action.Confirm {"):
			order = append(order, "refused?")
		case strings.HasPrefix(txt, "if r.tmuxMode == tmuxNormalMode {"):
			order = append(order, "junk")
		case strings.HasPrefix(txt, "if config.TmuxPaneColumns <= 0"):
			order = append(order, "paneWidth")
		case strings.HasPrefix(txt, "if e := r.sendConfig(config); e != nil {"):
			order = append(order, "sendConfig")
		default:
			order = append(order, "?"+txt)
		}
	}
	o.defBytes("relayneg_handshake_order", strings.Join(order, " "))
	// wrapOutput in stand-by: the detector the relay builds and the `tunnel` argument it passes
	// to detectTrzsz, read as VALUES (0: a tunnel connector is configured; 1: the tunnelConnected
	// flag; 2: true; 3: false); listenForTunnel: its guard and the two strings it exchanges
	{
		var detArgs []string
		tunnelArg := ""
		ast.Inspect(s.fn("TrzszRelay.wrapOutput").Body, func(n ast.Node) bool {
			if c, ok := n.(*ast.CallExpr); ok {
				switch s.text(c.Fun) {
				case "newTrzszDetector":
					for _, a := range c.Args {
						detArgs = append(detArgs, s.text(a))
					}
				case "detector.detectTrzsz":
					if len(c.Args) == 2 && s.text(c.Args[0]) == "buf" {
						tunnelArg = s.text(c.Args[1])
					}
				}
			}
			return true
		})
		if len(detArgs) != 2 || (detArgs[0] != "true" && detArgs[0] != "false") || (detArgs[1] != "true" && detArgs[1] != "false") {
			die("relayneg: wrapOutput no longer builds its detector with two boolean literals (%v)", detArgs)
		}
		o.raw("Definition relayneg_detector_relay : bool := %s.\nDefinition relayneg_detector_tmux : bool := %s.\n", detArgs[0], detArgs[1])
		code, ok := map[string]int{"r.tunnelConnector.Load() != nil": 0, "r.tunnelConnected.Load()": 1, "true": 2, "false": 3}[tunnelArg]
		if !ok {
			die("relayneg: wrapOutput passes %q as the tunnel argument of detectTrzsz: not a value the model knows", tunnelArg)
		}
		o.raw("Definition relayneg_detect_tunnel_arg : N := %d.\n", code)
		lf := s.fn("TrzszRelay.listenForTunnel")
		guard := ""
		if is, ok := lf.Body.List[0].(*ast.IfStmt); ok {
			guard = s.text(is.Cond)
		}
		o.defBytes("relayneg_listen_guard_src", guard)
		ret := ""
		if r, ok := lf.Body.List[len(lf.Body.List)-1].(*ast.ReturnStmt); ok && len(r.Results) == 1 {
			ret = s.text(r.Results[0])
		}
		o.defBytes("relayneg_port_rewrite_src", ret)
	}
	o.raw("Definition relayneg_escape_table_exported_fields : N := %d.\n", exported)
	o.raw("Definition relayneg_escape_table_has_marshaler : bool := %v.\n", hasMarshal)
}

func c14snake(s string) string {
	var b strings.Builder
	for i, r := range s {
		if r >= 'A' && r <= 'Z' {
			if i > 0 {
				b.WriteByte('_')
			}
			b.WriteRune(r + 32)
		} else {
			b.WriteRune(r)
		}
	}
	return b.String()
}

func c14bytes(v string) string {
	bs := make([]int64, len(v))
	for i := 0; i < len(v); i++ {
		bs[i] = int64(v[i])
	}
	return nlist(bs)
}

func c14bool(s *src, e ast.Expr) string {
	switch s.text(e) {
	case "true":
		return "true"
	case "false":
		return "false"
	}
	die("relayneg: expected a boolean literal, got %s", s.text(e))
	return ""
}
