package main

func genRest(s *src, o *out) {}

func genSkeletons(s *src, dir string) {}
