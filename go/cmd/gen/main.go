// gen: translator from /repo/trzsz/*.go to coq/theories/Gen/*.v.
//
// Consts.v: every literal the Coq development depends on, read syntactically
// from the current source (go/parser + go/ast, stdlib only).  The output is a
// function of the source text only, so it is rewritten only when the values
// change.  An expression the translator cannot evaluate is a hard error: the
// build of the proofs then stops instead of silently using a stale value.
package main

import (
	"fmt"
	"go/ast"
	"go/parser"
	"go/token"
	"os"
	"path/filepath"
	"sort"
	"strconv"
	"strings"
)

type src struct {
	fset  *token.FileSet
	files map[string]*ast.File
	funcs map[string]*ast.FuncDecl // "name" or "recv.name"
	consts map[string]ast.Expr
	vars   map[string]ast.Expr
}

func load(dir string) *src {
	s := &src{fset: token.NewFileSet(), files: map[string]*ast.File{}, funcs: map[string]*ast.FuncDecl{},
		consts: map[string]ast.Expr{}, vars: map[string]ast.Expr{}}
	names, _ := filepath.Glob(filepath.Join(dir, "*.go"))
	sort.Strings(names)
	for _, n := range names {
		base := filepath.Base(n)
		if strings.HasSuffix(base, "_test.go") || strings.HasSuffix(base, "_verif.go") || strings.HasPrefix(base, "export_verif") ||
			strings.HasSuffix(base, "_windows.go") || strings.HasSuffix(base, "_darwin.go") || strings.HasSuffix(base, "_other.go") {
			continue
		}
		f, err := parser.ParseFile(s.fset, n, nil, parser.ParseComments)
		if err != nil {
			die("parse %s: %v", n, err)
		}
		s.files[base] = f
		for _, d := range f.Decls {
			switch d := d.(type) {
			case *ast.FuncDecl:
				name := d.Name.Name
				if d.Recv != nil && len(d.Recv.List) == 1 {
					name = recvName(d.Recv.List[0].Type) + "." + name
				}
				s.funcs[name] = d
			case *ast.GenDecl:
				if d.Tok == token.CONST || d.Tok == token.VAR {
					var lastExpr ast.Expr
					iota := 0
					for _, sp := range d.Specs {
						vs := sp.(*ast.ValueSpec)
						for i, id := range vs.Names {
							var e ast.Expr
							if i < len(vs.Values) {
								e = vs.Values[i]
								lastExpr = e
							} else if d.Tok == token.CONST && lastExpr != nil {
								e = lastExpr
							}
							if e == nil {
								continue
							}
							if d.Tok == token.CONST {
								s.consts[id.Name] = &iotaExpr{e, iota}
							} else {
								s.vars[id.Name] = e
							}
						}
						iota++
					}
				}
			}
		}
	}
	return s
}

type iotaExpr struct {
	ast.Expr
	iota int
}

func recvName(e ast.Expr) string {
	switch e := e.(type) {
	case *ast.StarExpr:
		return recvName(e.X)
	case *ast.Ident:
		return e.Name
	}
	return "?"
}

// die aborts the CURRENT extractor: main runs every extractor under recover, so one section of
// the source that no longer has the expected shape does not stop the others from being regenerated.
type genFailure struct{ msg string }

func die(f string, a ...any) {
	panic(genFailure{fmt.Sprintf(f, a...)})
}

var genFailed []string

// guarded runs one extractor; a die() inside it is recorded and reported, not fatal.
func guarded(name string, f func()) (ok bool) {
	defer func() {
		if r := recover(); r != nil {
			gf, isDie := r.(genFailure)
			if !isDie {
				gf = genFailure{fmt.Sprintf("panic: %v", r)}
			}
			fmt.Fprintf(os.Stderr, "gen: FAILED section=%s: %s\n", name, gf.msg)
			genFailed = append(genFailed, name)
			ok = false
		}
	}()
	f()
	return true
}

// evalInt evaluates an integer constant expression.
func (s *src) evalInt(e ast.Expr, local map[string]ast.Expr, iota int) int64 {
	switch e := e.(type) {
	case *iotaExpr:
		return s.evalInt(e.Expr, local, e.iota)
	case *ast.BasicLit:
		switch e.Kind {
		case token.INT:
			v, err := strconv.ParseInt(e.Value, 0, 64)
			if err != nil {
				die("int literal %s", e.Value)
			}
			return v
		case token.CHAR:
			r, _, _, err := strconv.UnquoteChar(e.Value[1:len(e.Value)-1], '\'')
			if err != nil {
				die("char literal %s", e.Value)
			}
			return int64(r)
		case token.FLOAT:
			f, err := strconv.ParseFloat(e.Value, 64)
			if err != nil || f != float64(int64(f)) {
				die("float literal %s", e.Value)
			}
			return int64(f)
		}
	case *ast.ParenExpr:
		return s.evalInt(e.X, local, iota)
	case *ast.Ident:
		if e.Name == "iota" {
			return int64(iota)
		}
		if local != nil {
			if x, ok := local[e.Name]; ok {
				return s.evalInt(x, local, iota)
			}
		}
		if x, ok := s.consts[e.Name]; ok {
			return s.evalInt(x, nil, iota)
		}
		die("unknown identifier %s in constant expression", e.Name)
	case *ast.SelectorExpr:
		if x, ok := e.X.(*ast.Ident); ok && x.Name == "time" {
			switch e.Sel.Name {
			case "Millisecond":
				return 1
			case "Second":
				return 1000
			case "Minute":
				return 60000
			}
		}
	case *ast.CallExpr: // conversions byte(x), int64(x), time.Duration(x)
		if len(e.Args) == 1 {
			return s.evalInt(e.Args[0], local, iota)
		}
	case *ast.BinaryExpr:
		a, b := s.evalInt(e.X, local, iota), s.evalInt(e.Y, local, iota)
		switch e.Op {
		case token.ADD:
			return a + b
		case token.SUB:
			return a - b
		case token.MUL:
			return a * b
		case token.QUO:
			return a / b
		case token.SHL:
			return a << uint(b)
		case token.SHR:
			return a >> uint(b)
		}
	}
	die("cannot evaluate constant expression at %v", s.fset.Position(e.Pos()))
	return 0
}

// evalString evaluates a string constant expression to its Go string value.
func (s *src) evalString(e ast.Expr) string {
	switch e := e.(type) {
	case *iotaExpr:
		return s.evalString(e.Expr)
	case *ast.BasicLit:
		if e.Kind == token.STRING {
			v, err := strconv.Unquote(e.Value)
			if err != nil {
				die("string literal %s", e.Value)
			}
			return v
		}
	case *ast.ParenExpr:
		return s.evalString(e.X)
	case *ast.CallExpr: // []byte("..."), unicode("...")
		if len(e.Args) == 1 {
			return s.evalString(e.Args[0])
		}
	case *ast.Ident:
		if x, ok := s.consts[e.Name]; ok {
			return s.evalString(x)
		}
		if x, ok := s.vars[e.Name]; ok {
			return s.evalString(x)
		}
	case *ast.BinaryExpr:
		if e.Op == token.ADD {
			return s.evalString(e.X) + s.evalString(e.Y)
		}
	}
	die("cannot evaluate string expression at %v", s.fset.Position(e.Pos()))
	return ""
}

func (s *src) fn(name string) *ast.FuncDecl {
	f, ok := s.funcs[name]
	if !ok {
		die("function %s not found", name)
	}
	return f
}

type out struct{ b strings.Builder }

func (o *out) defN(name string, v int64) {
	if v < 0 {
		die("negative constant %s", name)
	}
	fmt.Fprintf(&o.b, "Definition %s : N := %d.\n", name, v)
}
func (o *out) defZ(name string, v int64) {
	fmt.Fprintf(&o.b, "Definition %s : Z := (%d)%%Z.\n", name, v)
}
func nlist(bs []int64) string {
	parts := make([]string, len(bs))
	for i, b := range bs {
		parts[i] = strconv.FormatInt(b, 10)
	}
	return "[" + strings.Join(parts, "; ") + "]"
}
func (o *out) defBytes(name string, v string) {
	bs := make([]int64, len(v))
	for i := 0; i < len(v); i++ {
		bs[i] = int64(v[i])
	}
	fmt.Fprintf(&o.b, "Definition %s : list N := %s.\n", name, nlist(bs))
}
func (o *out) defRunes(name string, v string) {
	var bs []int64
	for _, r := range v {
		bs = append(bs, int64(r))
	}
	fmt.Fprintf(&o.b, "Definition %s : list N := %s.\n", name, nlist(bs))
}
func (o *out) raw(f string, a ...any) { fmt.Fprintf(&o.b, f, a...) }

func writeIfChanged(path, content string) {
	old, err := os.ReadFile(path)
	if err == nil && string(old) == content {
		return
	}
	if err := os.WriteFile(path, []byte(content), 0644); err != nil {
		die("write %s: %v", path, err)
	}
	fmt.Printf("gen: updated %s\n", path)
}

func main() {
	if len(os.Args) != 3 {
		fmt.Fprintln(os.Stderr, "usage: gen <repo/trzsz dir> <Gen output dir>")
		os.Exit(2)
	}
	var s *src
	if !guarded("load", func() { s = load(os.Args[1]) }) {
		os.Exit(2)
	}
	o := &out{}
	o.raw("(* GENERATED by /verif/go/cmd/gen from the current source of trzsz-go. Do not edit. *)\n")
	o.raw("From Coq Require Import List NArith ZArith.\nImport ListNotations.\nOpen Scope N_scope.\n\n")
	var names []string
	for n := range constGens {
		names = append(names, n)
	}
	sort.Strings(names)
	for _, n := range names {
		// a section is emitted whole or not at all: its definitions go to a scratch buffer first
		sec := &out{}
		if guarded(n, func() { constGens[n](s, sec) }) {
			o.raw("(* ---- %s ---- *)\n", n)
			o.b.WriteString(sec.b.String())
		} else {
			o.raw("(* ---- %s ---- NOT GENERATED: the source no longer has the shape this extractor expects *)\n", n)
		}
		o.raw("\n")
	}
	writeIfChanged(filepath.Join(os.Args[2], "Consts.v"), o.b.String())
	names = nil
	for n := range fileGens {
		names = append(names, n)
	}
	sort.Strings(names)
	for _, n := range names {
		var txt string
		if !guarded(n, func() { txt = fileGens[n](s) }) {
			txt = "(* NOT GENERATED: the source no longer has the shape the extractor of this file expects. *)\n"
		}
		writeIfChanged(filepath.Join(os.Args[2], n), txt)
	}
	if len(genFailed) > 0 {
		os.Exit(3)
	}
}

// constGens: section name -> extractor appending definitions to Gen/Consts.v (run in name order).
// fileGens: file name (e.g. "Skel_relay.v") -> generator of a whole Gen file.
// Each extractor lives in its own file and registers itself in init().
var constGens = map[string]func(*src, *out){}
var fileGens = map[string]func(*src) string{}
