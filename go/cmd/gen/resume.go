package main

import (
	"go/ast"
	"strings"
)

func init() { constGens["resume"] = genResume }

// genResume reads append.go / transfer.go: the prefix-hash block size, the protocol
// version from which the prefix-hash exchange (recvFileNameV3 / sendFileNameV3) is
// used, and the `truncate` argument with which each receive path opens the
// destination file.
func genResume(s *src, o *out) {
	c, ok := s.consts["kPrefixHashStep"]
	if !ok {
		die("kPrefixHashStep not found")
	}
	o.defN("prefix_hash_step", s.evalInt(c, nil, 0))

	// recvFiles / sendFiles choose the V3 name exchange by `Protocol >= kProtocolVersion3`
	v3, ok := s.consts["kProtocolVersion3"]
	if !ok {
		die("kProtocolVersion3 not found")
	}
	for _, fn := range []string{"trzszTransfer.recvFiles", "trzszTransfer.sendFiles"} {
		txt := s.text(s.fn(fn).Body)
		if !strings.Contains(txt, "if t.transferConfig.Protocol >= kProtocolVersion3 {") ||
			!strings.Contains(txt, "FileNameV3(") {
			die("%s no longer selects the V3 file-name exchange by Protocol >= kProtocolVersion3", fn)
		}
	}
	o.defN("resume_min_protocol", s.evalInt(v3, nil, 0))

	// the literal `truncate` argument of every createFile / createDirOrFile call
	truncArgs := func(fn string) []string {
		var out []string
		ast.Inspect(s.fn(fn).Body, func(n ast.Node) bool {
			call, ok := n.(*ast.CallExpr)
			if !ok {
				return true
			}
			sel, ok := call.Fun.(*ast.SelectorExpr)
			if !ok {
				return true
			}
			switch sel.Sel.Name {
			case "createDirOrFile":
				if len(call.Args) == 3 {
					out = append(out, s.text(call.Args[2]))
				}
			case "createFile":
				if len(call.Args) == 4 {
					out = append(out, s.text(call.Args[2]))
				}
			}
			return true
		})
		return out
	}
	same := func(fn string, want int) string {
		a := truncArgs(fn)
		if len(a) != want {
			die("%s: expected %d createFile/createDirOrFile calls, found %v", fn, want, a)
		}
		for _, x := range a {
			if x != a[0] || (x != "true" && x != "false") {
				die("%s: truncate arguments are not one boolean literal: %v", fn, a)
			}
		}
		return a[0]
	}
	o.raw("Definition resume_v3_truncate : bool := %s.\n", same("trzszTransfer.recvFileNameV3", 1))
	o.raw("Definition resume_v2_truncate : bool := %s.\n", same("trzszTransfer.recvFileName", 2))

	// recvPrefixHash: the guard on the peer-chosen step, right after it is computed and before
	// anything is allocated
	rp := s.text(s.fn("trzszTransfer.recvPrefixHash").Body)
	if !strings.Contains(rp, "step := hash.Step - matchStep") || !strings.Contains(rp, "buffer := make([]byte, step)") {
		die("recvPrefixHash no longer computes `step := hash.Step - matchStep` / allocates `make([]byte, step)`")
	}
	guard := strings.Contains(rp, "step := hash.Step - matchStep if step <= 0 || step > kPrefixHashStep { return simpleTrzszError(")
	o.raw("Definition resume_step_guard : bool := %v.\n", guard)

	// doCreateFile: O_TRUNC exactly when truncate
	txt := s.text(s.fn("trzszTransfer.doCreateFile").Body)
	if !strings.Contains(txt, "flag := os.O_RDWR | os.O_CREATE if truncate { flag |= os.O_TRUNC }") {
		die("doCreateFile no longer opens with O_RDWR|O_CREATE (+O_TRUNC iff truncate)")
	}
}
