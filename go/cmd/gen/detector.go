package main

import (
	"fmt"
	"go/ast"
	"go/token"
	"os"
)

func init() { constGens["detector"] = genDetector }

// c06Calls: every call in n whose callee prints as name.
func c06Calls(s *src, n ast.Node, name string) []*ast.CallExpr {
	var out []*ast.CallExpr
	ast.Inspect(n, func(x ast.Node) bool {
		if c, ok := x.(*ast.CallExpr); ok && s.text(c.Fun) == name {
			out = append(out, c)
		}
		return true
	})
	return out
}

// c06Cmp: right-hand sides of every binary expression `lhs op <rhs>` in n.
func c06Cmp(s *src, n ast.Node, lhs string, op token.Token) []ast.Expr {
	var out []ast.Expr
	ast.Inspect(n, func(x ast.Node) bool {
		if b, ok := x.(*ast.BinaryExpr); ok && b.Op == op && s.text(b.X) == lhs {
			out = append(out, b.Y)
		}
		return true
	})
	return out
}

func c06OneInt(s *src, where string, es []ast.Expr) int64 {
	if len(es) == 0 {
		c06Die("detector: %s not found", where)
	}
	v := s.evalInt(es[0], nil, 0)
	for _, e := range es[1:] {
		if s.evalInt(e, nil, 0) != v {
			c06Die("detector: %s has diverging values", where)
		}
	}
	return v
}

func c06OneStr(s *src, where string, es []ast.Expr) string {
	if len(es) == 0 {
		c06Die("detector: %s not found", where)
	}
	v := s.evalString(es[0])
	for _, e := range es[1:] {
		if s.evalString(e) != v {
			c06Die("detector: %s has diverging values", where)
		}
	}
	return v
}

func c06Args(cs []*ast.CallExpr, i int) []ast.Expr {
	var out []ast.Expr
	for _, c := range cs {
		if i < len(c.Args) {
			out = append(out, c.Args[i])
		}
	}
	return out
}

// genDetector reads comm.go's trigger detector (detectTrzsz, rewriteTrzszTrigger,
// addRelaySuffix, isRepeatedID, parseTrzszVersion, the three regexps) and the trigger
// format strings of trz.go / tsz.go.
type c06Fail string

// c06Die aborts the current block of the detector extractor only (see c06Try).
func c06Die(f string, a ...any) { panic(c06Fail(fmt.Sprintf(f, a...))) }

// c06Try runs one block of the extractor; if the source no longer has the expected
// shape the block's definitions are left out (the Coq build of the detector model then
// fails, which bin/check reports as a broken obligation of C06) while every other block,
// every other property's constants, the correspondence run and the direct oracles still work.
func c06Try(o *out, what string, f func(o *out)) {
	tmp := &out{}
	defer func() {
		if r := recover(); r != nil {
			m, ok := r.(c06Fail)
			if !ok {
				panic(r)
			}
			o.raw("(* detector: %s: NOT TRANSLATED: %s *)\n", what, string(m))
			fmt.Fprintf(os.Stderr, "gen: detector: %s: not translated: %s\n", what, string(m))
			return
		}
		o.b.WriteString(tmp.b.String())
	}()
	f(tmp)
}

func genDetector(s *src, o *out) {
	// ---- detectTrzsz
	d := s.fn("trzszDetector.detectTrzsz").Body
	c06Try(o, "detectTrzsz head", func(o *out) {
		o.defN("det_min_len", c06OneInt(s, "len(output) < N", c06Cmp(s, d, "len(output)", token.LSS)))
		o.defBytes("det_marker", c06OneStr(s, "bytes.LastIndex marker", c06Args(c06Calls(s, d, "bytes.LastIndex"), 1)))
	}) // end block detect-head
	c06Try(o, "finished-transfer look-ahead", func(o *out) {
		// the if statement that guards the loop over the []string literal of finished words;
		// robust against a change of the scanned slice: the offset is read from the slice
		// expression, the SHAPE (what is measured, what is scanned) is emitted as a string
		// that Proofs/Detector.v pins, so a changed shape breaks a lemma, not the translator
		var guard *ast.IfStmt
		var loop *ast.RangeStmt
		ast.Inspect(d, func(x ast.Node) bool {
			if is, ok := x.(*ast.IfStmt); ok && loop == nil {
				for _, st := range is.Body.List {
					if r, ok := st.(*ast.RangeStmt); ok {
						if cl, ok := r.X.(*ast.CompositeLit); ok && s.text(cl.Type) == "[]string" {
							guard, loop = is, r
						}
					}
				}
			}
			return true
		})
		if loop == nil {
			c06Die("detector: finished-word loop not found")
		}
		var lows []ast.Expr
		var scanned []string
		ast.Inspect(loop.Body, func(x ast.Node) bool {
			if sl, ok := x.(*ast.SliceExpr); ok && sl.Low != nil && sl.High == nil {
				lows = append(lows, sl.Low)
				scanned = append(scanned, s.text(sl.X))
			}
			return true
		})
		off := c06OneInt(s, "finished-word scan slice X[N:]", lows)
		o.defN("det_finished_offset", off)
		var words []string
		for _, e := range loop.X.(*ast.CompositeLit).Elts {
			words = append(words, s.evalString(e))
		}
		if len(words) == 0 {
			c06Die("detector: finished-word list is empty")
		}
		o.raw("Definition det_finished_words : list (list N) := [")
		for i, w := range words {
			if i > 0 {
				o.raw("; ")
			}
			bs := make([]int64, len(w))
			for j := 0; j < len(w); j++ {
				bs[j] = int64(w[j])
			}
			o.raw("%s", nlist(bs))
		}
		o.raw("].\n")
		// shape: guard condition and loop body with the word list elided
		o.defBytes("det_finished_shape", "if "+s.text(guard.Cond)+" { for _, s := range WORDS "+s.text(loop.Body)+" }")
	})
	c06Try(o, "detectTrzsz tail", func(o *out) {
		o.defBytes("det_win_id", c06OneStr(s, `uniqueID == "1"`, c06Cmp(s, d, "uniqueID", token.EQL)))
		o.defN("det_win_id_len", c06OneInt(s, "winServer len(uniqueID) == N", c06Cmp(s, d, "len(uniqueID)", token.EQL)))
		o.defBytes("det_win_suffix", c06OneStr(s, "winServer HasSuffix", c06Args(c06Calls(s, d, "strings.HasSuffix"), 1)))
		ra := c06Calls(s, d, "bytes.ReplaceAll")
		if len(ra) != 1 || len(ra[0].Args) != 3 || s.text(ra[0].Args[0]) != "output" {
			c06Die("detector: expected exactly one bytes.ReplaceAll(output, old, new) in detectTrzsz")
		}
		o.defBytes("det_client_old", s.evalString(ra[0].Args[1]))
		o.defBytes("det_client_new", s.evalString(ra[0].Args[2]))

	})
	// ---- isRepeatedID
	c06Try(o, "isRepeatedID", func(o *out) {
		r := s.fn("trzszDetector.isRepeatedID").Body
		o.defN("det_id_min_len", c06OneInt(s, "len(uniqueID) > N", c06Cmp(s, r, "len(uniqueID)", token.GTR)))
		o.defN("det_plain_id_len", c06OneInt(s, "isRepeatedID len(uniqueID) == N", c06Cmp(s, r, "len(uniqueID)", token.EQL)))
		o.defBytes("det_plain_suffix", c06OneStr(s, "isRepeatedID HasSuffix", c06Args(c06Calls(s, r, "strings.HasSuffix"), 1)))
		o.defN("det_prune_limit", c06OneInt(s, "len(detector.uniqueIDMap) > N", c06Cmp(s, r, "len(detector.uniqueIDMap)", token.GTR)))
		keep := c06OneInt(s, "v >= N", c06Cmp(s, r, "v", token.GEQ))
		if c06OneInt(s, "v - N", c06Cmp(s, r, "v", token.SUB)) != keep {
			c06Die("detector: prune threshold and shift differ")
		}
		o.defN("det_prune_keep", keep)

	})
	// ---- rewriteTrzszTrigger
	c06Try(o, "rewriteTrzszTrigger", func(o *out) {
		w := s.fn("trzszDetector.rewriteTrzszTrigger").Body
		o.defN("det_rewrite_min_len", c06OneInt(s, "len(uniqueID) >= N", c06Cmp(s, w, "len(uniqueID)", token.GEQ)))
		o.defBytes("det_rewrite_suffix", c06OneStr(s, "bytes.HasSuffix", c06Args(c06Calls(s, w, "bytes.HasSuffix"), 1)))
		var back, ch []ast.Expr
		ast.Inspect(w, func(x ast.Node) bool {
			if a, ok := x.(*ast.AssignStmt); ok && a.Tok == token.ASSIGN && len(a.Lhs) == 1 && len(a.Rhs) == 1 {
				if ix, ok := a.Lhs[0].(*ast.IndexExpr); ok && s.text(ix.X) == "newUniqueID" {
					if b, ok := ix.Index.(*ast.BinaryExpr); ok && b.Op == token.SUB && s.text(b.X) == "len(uniqueID)" {
						back = append(back, b.Y)
						ch = append(ch, a.Rhs[0])
					}
				}
			}
			return true
		})
		if len(back) != 1 {
			c06Die("detector: expected exactly one newUniqueID[len(uniqueID)-k] = c")
		}
		o.defN("det_retag_back", s.evalInt(back[0], nil, 0))
		o.defN("det_retag_char", s.evalInt(ch[0], nil, 0))

	})
	// ---- addRelaySuffix
	c06Try(o, "addRelaySuffix", func(o *out) {
		a := s.fn("trzszDetector.addRelaySuffix").Body
		var offs []ast.Expr
		ast.Inspect(a, func(x ast.Node) bool {
			if as, ok := x.(*ast.AssignStmt); ok && as.Tok == token.ADD_ASSIGN && s.text(as.Lhs[0]) == "idx" {
				offs = append(offs, as.Rhs[0])
			}
			return true
		})
		o.defN("det_relay_offset", c06OneInt(s, "idx += N", offs))
		stop := c06Cmp(s, a, "c", token.NEQ)
		if len(stop) != 2 {
			c06Die("detector: addRelaySuffix scan class has an unexpected shape")
		}
		o.raw("Definition det_relay_scan_chars : list N := [%d; %d].\n", s.evalInt(stop[0], nil, 0), s.evalInt(stop[1], nil, 0))
		o.defN("det_relay_scan_lo", c06OneInt(s, "c >= lo", c06Cmp(s, a, "c", token.GEQ)))
		o.defN("det_relay_scan_hi", c06OneInt(s, "c <= hi", c06Cmp(s, a, "c", token.LEQ)))
		var sufs []ast.Expr
		for _, c := range c06Calls(s, a, "buf.Write") {
			if len(c.Args) == 1 {
				if cv, ok := c.Args[0].(*ast.CallExpr); ok && s.text(cv.Fun) == "[]byte" {
					sufs = append(sufs, cv.Args[0])
				}
			}
		}
		o.defBytes("det_relay_suffix", c06OneStr(s, `buf.Write([]byte("#R"))`, sufs))

	})
	// ---- parseTrzszVersion
	c06Try(o, "parseTrzszVersion", func(o *out) {
		p := s.fn("parseTrzszVersion").Body
		o.defBytes("det_version_sep", c06OneStr(s, "strings.Split sep", c06Args(c06Calls(s, p, "strings.Split"), 1)))
		nf := c06OneInt(s, "len(tokens) != N", c06Cmp(s, p, "len(tokens)", token.NEQ))
		if c06OneInt(s, "i < N", c06Cmp(s, p, "i", token.LSS)) != nf {
			c06Die("detector: parseTrzszVersion token count and loop bound differ")
		}
		o.defN("det_version_fields", nf)
		pu := c06Calls(s, p, "strconv.ParseUint")
		o.defN("det_version_base", c06OneInt(s, "ParseUint base", c06Args(pu, 1)))
		o.defN("det_version_bits", c06OneInt(s, "ParseUint bits", c06Args(pu, 2)))

	})
	// ---- the regexps
	c06Try(o, "the regexps", func(o *out) {
		for _, nv := range [][2]string{{"det_trzsz_regex_src", "trzszRegexp"}, {"det_uid_regex_src", "uniqueIDRegexp"}, {"det_tmux_regex_src", "tmuxControlModeRegexp"}} {
			e, ok := s.vars[nv[1]]
			if !ok {
				c06Die("detector: var %s not found", nv[1])
			}
			c, ok := e.(*ast.CallExpr)
			if !ok || s.text(c.Fun) != "regexp.MustCompile" || len(c.Args) != 1 {
				c06Die("detector: %s is not regexp.MustCompile(<literal>)", nv[1])
			}
			o.defBytes(nv[0], s.evalString(c.Args[0]))
		}

	})
	// ---- what trz / tsz print
	c06Try(o, "what trz / tsz print", func(o *out) {
		for _, nf := range [][2]string{{"det_trz_format", "TrzMain"}, {"det_tsz_format", "TszMain"}} {
			var fm []ast.Expr
			f, ok := s.funcs[nf[1]]
			if !ok {
				c06Die("detector: %s not found", nf[1])
			}
			for _, c := range c06Calls(s, f.Body, "fmt.Sprintf") {
				if len(c.Args) > 0 {
					if bl, ok := c.Args[0].(*ast.BasicLit); ok && bl.Kind == token.STRING {
						if v := s.evalString(bl); len(v) > 20 && contains06(v, "TRANSFER") {
							fm = append(fm, bl)
						}
					}
				}
			}
			o.defBytes(nf[0], c06OneStr(s, nf[1]+" trigger format", fm))
		}
	})
}

func contains06(s, sub string) bool {
	for i := 0; i+len(sub) <= len(s); i++ {
		if s[i:i+len(sub)] == sub {
			return true
		}
	}
	return false
}
