package main

import (
	"go/ast"
	"go/token"
	"strings"
)

func init() { constGens["names"] = genNames }

// genNames reads the receiver's name handling (C07, C09):
//   - getNewName (comm.go): the length limit, the number of numbered candidates and
//     the Sprintf format of a candidate;
//   - checkFileName (comm.go), if present: the names rejected outright and the bytes no
//     name may contain; whether unmarshalSourceFile applies it to every path element
//     and whether createFile applies it to the plain name.
//
// A tree without checkFileName is translated too (flags false, lists empty): the
// theorems about the validated code then stop compiling, nothing else does.
func genNames(s *src, o *out) {
	f := s.fn("getNewName")
	maxLen, tries := int64(-1), int64(-1)
	format := ""
	statShape := 0
	sprintfs := 0
	loopOK := false
	ast.Inspect(f.Body, func(n ast.Node) bool {
		switch n := n.(type) {
		case *ast.GenDecl:
			if n.Tok == token.CONST {
				for _, sp := range n.Specs {
					vs := sp.(*ast.ValueSpec)
					if len(vs.Names) == 1 && vs.Names[0].Name == "maxNameLen" && len(vs.Values) == 1 {
						maxLen = s.evalInt(vs.Values[0], nil, 0)
					}
				}
			}
		case *ast.IfStmt:
			t := s.text(n.Cond)
			if t == "len(name) > maxNameLen" {
				statShape |= 1
			}
			if n.Init != nil {
				it := s.text(n.Init) + "; " + t
				if it == "_, err := os.Stat(filepath.Join(path, name)); os.IsNotExist(err)" {
					statShape |= 2
				}
				if it == "_, err := os.Stat(filepath.Join(path, newName)); os.IsNotExist(err)" {
					statShape |= 4
				}
			}
		case *ast.ForStmt:
			// the bound of the probing loop is read from any `for ...; i < N; ...`; whether the loop is
			// the one the model transcribes is a separate value (loopOK)
			if b, ok := n.Cond.(*ast.BinaryExpr); ok && b.Op == token.LSS && s.text(b.X) == "i" {
				func() {
					defer func() { _ = recover() }() // a bound that is not a constant expression stays unread
					tries = s.evalInt(b.Y, nil, 0)
				}()
			}
			if s.text(n) == `for i := 0; i < `+s.text(n.Cond)[len("i < "):]+`; i++ { newName := fmt.Sprintf("%s.%d", name, i) if _, err := os.Stat(filepath.Join(path, newName)); os.IsNotExist(err) { return newName, nil } }` {
				loopOK = true
			}
		case *ast.CallExpr:
			if s.text(n.Fun) == "fmt.Sprintf" {
				sprintfs++
				// the candidate is Sprintf(<string literal>, name, i): the format is a constant of the
				// source and the peer's name is only ever an ARGUMENT of it
				if lit, ok := n.Args[0].(*ast.BasicLit); ok && lit.Kind == token.STRING && len(n.Args) == 3 &&
					s.text(n.Args[1]) == "name" && s.text(n.Args[2]) == "i" {
					format = s.evalString(n.Args[0])
				}
			}
		}
		return true
	})
	// the probing loop the model transcribes: `for i := 0; i < N; i++ { candidate; if free { return
	// candidate, nil } }` DIRECTLY followed by `return "", <error>` as the last statement: the only way out
	// of an exhausted series is the error.  Anything else (another exit, a test between loop and error)
	// is translated as names_getnewname_loop_ok = false: the pin lemma of Proofs/Names.v fails then
	// (C07, C09 only), everything else stays buildable.  A bound or limit that cannot be read is 0.
	if l := f.Body.List; loopOK && len(l) >= 2 {
		_, isFor := l[len(l)-2].(*ast.ForStmt)
		last := s.text(l[len(l)-1])
		loopOK = isFor && last == `return "", simpleTrzszError("Fail to assign new file name to %s", name)`
	} else {
		loopOK = false
	}
	if maxLen < 0 {
		maxLen = 0
	}
	if tries < 0 {
		tries, loopOK = 0, false
	}
	o.defN("names_max_len", maxLen)
	o.defN("names_max_tries", tries)
	o.raw("Definition names_getnewname_loop_ok : bool := %v.\n", loopOK && maxLen > 0)
	// a candidate that is not built by exactly one Sprintf with a literal format and the arguments
	// (name, i), or a changed existence test, is translated as "unknown": the pin lemma of
	// Proofs/Names.v then fails (C07, C09 only), everything else stays buildable
	if sprintfs != 1 {
		format = ""
	}
	o.defBytes("names_candidate_format", format)
	o.raw("Definition names_getnewname_shape_ok : bool := %v.\n", statShape == 7 && format != "")

	// checkFileName
	var exact []string
	var bytesRejected []int64
	shapeOK := false
	if cf, ok := s.funcs["checkFileName"]; ok {
		usesIsPathSeparator := false
		ast.Inspect(cf.Body, func(n ast.Node) bool {
			switch n := n.(type) {
			case *ast.BinaryExpr:
				if n.Op == token.EQL {
					x := s.text(n.X)
					if x == "name" {
						exact = append(exact, s.evalString(n.Y))
					} else if x == "name[i]" {
						bytesRejected = append(bytesRejected, s.evalInt(n.Y, nil, 0))
					}
				}
			case *ast.CallExpr:
				if s.text(n) == "os.IsPathSeparator(name[i])" {
					usesIsPathSeparator = true
				}
			}
			return true
		})
		// the function must consist of: one `if <exact tests> { return error }`, one loop over
		// all bytes with `if <byte tests> { return error }`, and `return nil`
		body := s.text(cf.Body)
		shapeOK = len(cf.Body.List) == 3 && usesIsPathSeparator &&
			strings.HasPrefix(body, "{ if name == ") &&
			strings.Contains(body, "for i := 0; i < len(name); i++ { if ") &&
			strings.HasSuffix(body, "return nil }") &&
			strings.Count(body, "return") == 3 && strings.Count(body, "return simpleTrzszError(") == 2
		if !shapeOK {
			die("checkFileName has an unexpected shape: %s", body)
		}
		// os.IsPathSeparator on Unix is exactly '/'
		has := false
		for _, b := range bytesRejected {
			has = has || b == '/'
		}
		if !has {
			bytesRejected = append(bytesRejected, '/')
		}
	}
	o.raw("Definition names_check_present : bool := %v.\n", shapeOK)
	o.raw("Definition names_reject_exact : list (list N) := [")
	for i, e := range exact {
		if i > 0 {
			o.raw("; ")
		}
		bs := make([]int64, len(e))
		for j := 0; j < len(e); j++ {
			bs[j] = int64(e[j])
		}
		o.raw("%s", nlist(bs))
	}
	o.raw("].\n")
	// bytes rejected on this platform: the literal tests plus os.IsPathSeparator on Unix ('/')
	o.raw("Definition names_reject_bytes : list N := %s.\n", nlist(bytesRejected))

	// unmarshalSourceFile: after the non-empty check, every element goes through checkFileName
	inUnmarshal := false
	uf := s.fn("unmarshalSourceFile")
	nonEmpty := false
	for _, st := range uf.Body.List {
		switch st := st.(type) {
		case *ast.IfStmt:
			if s.text(st.Cond) == "len(file.RelPath) < 1" {
				nonEmpty = true
			}
		case *ast.RangeStmt:
			if nonEmpty && s.text(st) == "for _, name := range file.RelPath { if err := checkFileName(name); err != nil { return nil, err } }" {
				inUnmarshal = true
			}
		}
	}
	if !nonEmpty {
		die("unmarshalSourceFile no longer checks len(file.RelPath) < 1")
	}
	o.raw("Definition names_check_in_unmarshal : bool := %v.\n", inUnmarshal && shapeOK)

	// createFile: first statement is the check of the plain name
	inCreate := false
	cf := s.fn("trzszTransfer.createFile")
	if len(cf.Body.List) > 0 {
		if s.text(cf.Body.List[0]) == `if err := checkFileName(fileName); err != nil { return nil, "", err }` {
			inCreate = true
		}
	}
	o.raw("Definition names_check_in_create_file : bool := %v.\n", inCreate && shapeOK)

	// checkDuplicateNames (comm.go) and its two call sites: the key of the map is the
	// destination-relative name filepath.Join(srcFile.RelPath...), a second occurrence is an error;
	// tsz.go (args.Overwrite) and filter.go uploadFiles (config.Overwrite) leave before anything is sent
	dupKey, dupBody := false, false
	if df, ok := s.funcs["checkDuplicateNames"]; ok {
		body := s.text(df.Body)
		dupKey = strings.Contains(body, "p := filepath.Join(srcFile.RelPath...)")
		dupBody = body == `{ m := make(map[string]bool) for _, srcFile := range sourceFiles { p := filepath.Join(srcFile.RelPath...) if _, ok := m[p]; ok { return simpleTrzszError("Duplicate name: %s", p) } m[p] = true } return nil }`
	}
	o.raw("Definition names_dup_key_is_relpath : bool := %v.\n", dupKey)
	o.raw("Definition names_dup_check_shape_ok : bool := %v.\n", dupBody)
	guardBefore := func(fn, guard, after string) bool {
		f, ok := s.funcs[fn]
		if !ok {
			return false
		}
		body := s.text(f.Body)
		g := strings.Index(body, guard)
		a := strings.Index(body, after)
		return g >= 0 && a > g
	}
	o.raw("Definition names_dup_guard_tsz : bool := %v.\n", guardBefore("TszMain",
		"if args.Overwrite { if err := checkDuplicateNames(files); err != nil { fmt.Fprintln(os.Stderr, err) return -2 } }", "::TRZSZ:TRANSFER:"))
	o.raw("Definition names_dup_guard_upload : bool := %v.\n", guardBefore("TrzszFilter.uploadFiles",
		"if config.Overwrite { if err := checkDuplicateNames(files); err != nil { return err } }", "transfer.sendFiles("))
}
