package main

// Consts "cfgtimeout" (C11, "a timeout of zero or less means wait indefinitely - on both ends,
// after the real handshake"): how the timeout member travels in the CFG record, read as VALUES:
// the condition under which sendConfig puts "timeout" into the record (none, or `args.Timeout
// OP n`), what it puts there, the default both transferConfigs start from (newTransfer), that
// both ends unmarshal the record into their own transferConfig, and the condition under which
// getNewTimeout arms a timer.  Operators: 0 '>', 1 '>=', 2 '!=', 3 '<', 4 '<=', 5 '==', 9 = a
// condition the translator does not know (the theorem then fails, not the translator).

import (
	"go/ast"
	"go/token"
	"strings"
)

func init() { constGens["cfgtimeout"] = genCfgTimeout }

func cfgtOp(t token.Token) int64 {
	switch t {
	case token.GTR:
		return 0
	case token.GEQ:
		return 1
	case token.NEQ:
		return 2
	case token.LSS:
		return 3
	case token.LEQ:
		return 4
	case token.EQL:
		return 5
	}
	return 9
}

// cfgtCond: `<lhs> OP <int>` -> (op, n); anything else (9, 0)
func cfgtCond(s *src, e ast.Expr, lhs string) (int64, int64) {
	if p, ok := e.(*ast.ParenExpr); ok {
		return cfgtCond(s, p.X, lhs)
	}
	if be, ok := e.(*ast.BinaryExpr); ok && s.text(be.X) == lhs {
		if op := cfgtOp(be.Op); op != 9 {
			if bl, ok := be.Y.(*ast.BasicLit); ok && bl.Kind == token.INT {
				return op, s.evalInt(be.Y, nil, 0)
			}
			if u, ok := be.Y.(*ast.UnaryExpr); ok && u.Op == token.SUB {
				return op, -s.evalInt(u.X, nil, 0)
			}
		}
	}
	return 9, 0
}

func cfgtIsTimeoutKey(s *src, st ast.Stmt) (*ast.AssignStmt, bool) {
	as, ok := st.(*ast.AssignStmt)
	if !ok || len(as.Lhs) != 1 || len(as.Rhs) != 1 {
		return nil, false
	}
	return as, s.text(as.Lhs[0]) == `cfgMap["timeout"]`
}

func cfgtUnmarshalsOwn(s *src, fd *ast.FuncDecl) bool {
	found := false
	ast.Inspect(fd.Body, func(n ast.Node) bool {
		if call, ok := n.(*ast.CallExpr); ok && s.text(call.Fun) == "json.Unmarshal" && len(call.Args) == 2 &&
			s.text(call.Args[1]) == "&t.transferConfig" {
			found = true
		}
		return true
	})
	return found
}

func genCfgTimeout(s *src, o *out) {
	fd := s.fn("trzszTransfer.sendConfig")
	// the statement that writes the key: at the top level of the body (no condition) or the
	// only statement of an if without else at the top level (its condition is the guard)
	guard, gop, gval, valueIsArg, sites := false, int64(9), int64(0), false, 0
	for _, st := range fd.Body.List {
		if as, ok := cfgtIsTimeoutKey(s, st); ok {
			sites++
			valueIsArg = s.text(as.Rhs[0]) == "args.Timeout"
			continue
		}
		if ifs, ok := st.(*ast.IfStmt); ok {
			for _, in := range ifs.Body.List {
				if as, ok := cfgtIsTimeoutKey(s, in); ok {
					sites++
					guard = true
					valueIsArg = s.text(as.Rhs[0]) == "args.Timeout"
					if ifs.Init == nil && ifs.Else == nil && len(ifs.Body.List) == 1 {
						gop, gval = cfgtCond(s, ifs.Cond, "args.Timeout")
					}
				}
			}
		}
	}
	// anywhere else (nested deeper, in an else): not understood
	total := 0
	ast.Inspect(fd.Body, func(n ast.Node) bool {
		if st, ok := n.(ast.Stmt); ok {
			if _, ok := cfgtIsTimeoutKey(s, st); ok {
				total++
			}
		}
		return true
	})
	if total != sites || sites != 1 {
		guard, gop, gval = true, 9, 0
	}
	if guard {
		o.raw("Definition cfgtimeout_guard : option (N * Z) := Some (%d%%N, (%d)%%Z).\n", gop, gval)
	} else {
		o.raw("Definition cfgtimeout_guard : option (N * Z) := None.\n")
	}
	o.raw("Definition cfgtimeout_value_is_arg : bool := %v.\n", valueIsArg)
	o.raw("Definition cfgtimeout_server_unmarshals : bool := %v.\n", cfgtUnmarshalsOwn(s, fd))
	o.raw("Definition cfgtimeout_client_unmarshals : bool := %v.\n", cfgtUnmarshalsOwn(s, s.fn("trzszTransfer.recvConfig")))
	// the default of both ends
	def, have := int64(0), false
	ast.Inspect(s.fn("newTransfer").Body, func(n ast.Node) bool {
		if kv, ok := n.(*ast.KeyValueExpr); ok && s.text(kv.Key) == "Timeout" {
			def, have = s.evalInt(kv.Value, nil, 0), true
		}
		return true
	})
	if !have {
		die("cfgtimeout: newTransfer no longer sets a default Timeout")
	}
	o.defZ("cfgtimeout_default", def)
	// getNewTimeout: `if t.transferConfig.Timeout OP n { return <timer> }; return nil`
	top, tval := int64(9), int64(0)
	gn := s.fn("trzszTransfer.getNewTimeout")
	if len(gn.Body.List) == 2 {
		if ifs, ok := gn.Body.List[0].(*ast.IfStmt); ok && ifs.Init == nil && ifs.Else == nil {
			if ret, ok := gn.Body.List[1].(*ast.ReturnStmt); ok && len(ret.Results) == 1 && s.text(ret.Results[0]) == "nil" {
				top, tval = cfgtCond(s, ifs.Cond, "t.transferConfig.Timeout")
			}
		}
	}
	o.raw("Definition cfgtimeout_timer : N * Z := (%d%%N, (%d)%%Z).\n", top, tval)
	// a relay in between (relay.go): it unmarshals the record into a config of its own (default)
	// and marshals that whole struct again: the member is present unless its tag says omitempty
	rdef, have := int64(0), false
	ast.Inspect(s.fn("TrzszRelay.recvConfig").Body, func(n ast.Node) bool {
		if kv, ok := n.(*ast.KeyValueExpr); ok && s.text(kv.Key) == "Timeout" {
			rdef, have = s.evalInt(kv.Value, nil, 0), true
		}
		return true
	})
	if !have {
		die("cfgtimeout: the relay's recvConfig no longer sets a default Timeout")
	}
	o.defZ("cfgtimeout_relay_default", rdef)
	omit, tagged := false, false
	for _, f := range s.files {
		ast.Inspect(f, func(n ast.Node) bool {
			ts, ok := n.(*ast.TypeSpec)
			if !ok || ts.Name.Name != "transferConfig" {
				return true
			}
			if st, ok := ts.Type.(*ast.StructType); ok {
				for _, fd := range st.Fields.List {
					if len(fd.Names) == 1 && fd.Names[0].Name == "Timeout" && fd.Tag != nil {
						tagged = strings.Contains(fd.Tag.Value, `json:"timeout`)
						omit = strings.Contains(fd.Tag.Value, "omitempty")
					}
				}
			}
			return false
		})
	}
	if !tagged {
		die("cfgtimeout: transferConfig.Timeout no longer has the json tag timeout")
	}
	o.raw("Definition cfgtimeout_relay_omitempty : bool := %v.\n", omit)
}
