package main

import (
	"go/ast"
	"go/token"
)

func init() { constGens["buffer"] = c03GenBuffer }

// c03CharLits returns the values of all character literals of a function body in
// source order.
func c03CharLits(s *src, f *ast.FuncDecl) []int64 {
	var out []int64
	ast.Inspect(f.Body, func(n ast.Node) bool {
		if l, ok := n.(*ast.BasicLit); ok && l.Kind == token.CHAR {
			out = append(out, s.evalInt(l, nil, 0))
		}
		return true
	})
	return out
}

// c03Calls returns the source text of every call expression of the body whose
// printed form starts with prefix, in source order.
func c03Calls(s *src, f *ast.FuncDecl, prefix string) []string {
	var out []string
	ast.Inspect(f.Body, func(n ast.Node) bool {
		if c, ok := n.(*ast.CallExpr); ok {
			t := s.text(c)
			if len(t) >= len(prefix) && t[:len(prefix)] == prefix {
				out = append(out, t)
			}
		}
		return true
	})
	return out
}

// c03GenBuffer reads buffer.go's readLine: the delimiter searched for, the interrupt
// byte, and the byte that marks a wrapped line in junk mode.  The roles are fixed by
// position (IndexByte(buf, NL), IndexByte(buf, INTR), == CR); a change in the number
// or order of the literals is a hard error.
func c03GenBuffer(s *src, o *out) {
	f := s.fn("trzszBuffer.readLine")
	lits := c03CharLits(s, f)
	calls := c03Calls(s, f, "bytes.IndexByte(")
	if len(lits) != 3 || len(calls) != 2 {
		die("readLine has an unexpected shape: %d char literals, %d IndexByte calls", len(lits), len(calls))
	}
	o.defN("buffer_line_newline", lits[0])
	o.defN("buffer_line_interrupt", lits[1])
	o.defN("buffer_line_cr", lits[2])
	// readBinary looks at no particular byte at all
	if n := len(c03CharLits(s, s.fn("trzszBuffer.readBinary"))); n != 0 {
		die("readBinary now contains %d character literals", n)
	}
	// the queue between the pumps and the reader: its capacity, and whether the producer
	// waits when it is full.  Both are VALUES: addBuffer is "blocking" exactly when its body is
	// the single statement `b.bufCh <- buf`; anything else (a select with a default, a
	// length test, ...) gives false and Proofs/BufQueue.v no longer has its premise.
	nb := s.fn("newTrzszBuffer")
	capacity := int64(-1)
	ast.Inspect(nb.Body, func(n ast.Node) bool {
		if kv, ok := n.(*ast.KeyValueExpr); ok && s.text(kv.Key) == "bufCh" {
			if c, ok := kv.Value.(*ast.CallExpr); ok && len(c.Args) == 2 && s.text(c.Fun) == "make" && s.text(c.Args[0]) == "chan []byte" {
				capacity = s.evalInt(c.Args[1], nil, 0)
			}
		}
		return true
	})
	if capacity < 0 {
		die("newTrzszBuffer: no `bufCh: make(chan []byte, n)`")
	}
	o.defN("buffer_queue_capacity", capacity)
	ab := s.fn("trzszBuffer.addBuffer")
	blocking := false
	if len(ab.Body.List) == 1 {
		if snd, ok := ab.Body.List[0].(*ast.SendStmt); ok && s.text(snd.Chan) == "b.bufCh" && s.text(snd.Value) == "buf" {
			blocking = true
		}
	}
	o.raw("Definition buffer_add_blocks : bool := %v.\n", blocking)
}
