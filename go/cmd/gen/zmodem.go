package main

import (
	"go/ast"
	"go/token"
	"strings"
)

func init() {
	constGens["zmodem"] = genZmodem
	fileGens["Skel_zmodem.v"] = genZmodemSkel
}

// c19Calls returns every call expression inside n in source order.
func c19Calls(n ast.Node) []*ast.CallExpr {
	var out []*ast.CallExpr
	ast.Inspect(n, func(x ast.Node) bool {
		if c, ok := x.(*ast.CallExpr); ok {
			out = append(out, c)
		}
		return true
	})
	return out
}

// c19Duration finds the unique call `<callee>(d, ...)` in fn and evaluates d in milliseconds.
func c19Duration(s *src, fn, callee string) int64 {
	var vals []int64
	for _, c := range c19Calls(s.fn(fn).Body) {
		if s.text(c.Fun) == callee && len(c.Args) >= 1 {
			vals = append(vals, s.evalInt(c.Args[0], nil, 0))
		}
	}
	if len(vals) != 1 {
		die("%s: expected exactly one %s call, found %d", fn, callee, len(vals))
	}
	return vals[0]
}

// c19LenBound finds the unique comparison `len(buf) < N` in fn.
func c19LenBound(s *src, fn string) int64 {
	var vals []int64
	ast.Inspect(s.fn(fn).Body, func(x ast.Node) bool {
		if b, ok := x.(*ast.BinaryExpr); ok && b.Op == token.LSS && s.text(b.X) == "len(buf)" {
			vals = append(vals, s.evalInt(b.Y, nil, 0))
		}
		return true
	})
	if len(vals) != 1 {
		die("%s: expected exactly one `len(buf) < N`, found %d", fn, len(vals))
	}
	return vals[0]
}

func c19Var(s *src, name string) string {
	e, ok := s.vars[name]
	if !ok {
		die("package variable %s not found", name)
	}
	return s.evalString(e)
}

// genZmodem reads zmodem.go (+ the cursor sequences of comm.go and the Ctrl-C byte and
// the default-path delay of filter.go).
func genZmodem(s *src, o *out) {
	o.defBytes("zmodem_init_regexp_src", c19Var(s, "zmodemInitRegexp"))
	o.defBytes("zmodem_finish_regexp_src", c19Var(s, "zmodemFinishRegexp"))
	o.defBytes("zmodem_over_and_out", c19Var(s, "zmodemOverAndOut"))
	o.defBytes("zmodem_cannot_open", c19Var(s, "zmodemCanNotOpenFile"))
	o.defBytes("zmodem_cancel_sub", c19Var(s, "zmodemCancelSubSequence"))
	o.defBytes("zmodem_cancel_full", c19Var(s, "zmodemCancelFullSequence"))

	o.defN("zmodem_cleanup_ms", c19Duration(s, "zmodemTransfer.resetCleanupTimer", "time.AfterFunc"))
	o.defN("zmodem_client_timeout_ms", c19Duration(s, "zmodemTransfer.resetClientTimer", "time.AfterFunc"))
	o.defN("zmodem_server_timeout_ms", c19Duration(s, "zmodemTransfer.resetServerTimer", "time.AfterFunc"))
	o.defN("zmodem_launch_delay_ms", c19Duration(s, "zmodemTransfer.handleZmodemEvent", "time.Sleep"))
	o.defN("zmodem_kill_delay_ms", c19Duration(s, "zmodemTransfer.ensureClientExit", "time.Sleep"))
	o.defN("zmodem_default_path_delay_ms", c19Duration(s, "TrzszFilter.chooseDownloadPath", "time.Sleep"))
	a, b := c19LenBound(s, "zmodemTransfer.handleServerOutput"), c19LenBound(s, "zmodemTransfer.handleZmodemStream")
	if a != b {
		die("finish-header length bounds differ: %d (server) vs %d (client)", a, b)
	}
	o.defN("zmodem_finish_max_len", a)

	// the byte written to the server when the cleanup timer fires
	var enter []string
	for _, c := range c19Calls(s.fn("zmodemTransfer.resetCleanupTimer").Body) {
		if s.text(c.Fun) == "z.serverIn.Write" && len(c.Args) == 1 {
			enter = append(enter, s.evalString(c.Args[0]))
		}
	}
	if len(enter) != 1 {
		die("resetCleanupTimer: expected one z.serverIn.Write")
	}
	o.defBytes("zmodem_cleanup_enter", enter[0])

	// cursor sequences (comm.go)
	for _, p := range [][2]string{{"hideCursor", "zmodem_hide_cursor"}, {"showCursor", "zmodem_show_cursor"}} {
		var v []string
		for _, c := range c19Calls(s.fn(p[0]).Body) {
			if s.text(c.Fun) == "writeAll" && len(c.Args) == 2 {
				v = append(v, s.evalString(c.Args[1]))
			}
		}
		if len(v) != 1 {
			die("%s: expected one writeAll", p[0])
		}
		o.defBytes(p[1], v[0])
	}

	// the Ctrl-C byte tested in sendInput's zmodem block: `len(buf) == 1 && buf[0] == '\x03'`
	var cc []int64
	ast.Inspect(s.fn("TrzszFilter.sendInput").Body, func(x ast.Node) bool {
		if ifs, ok := x.(*ast.IfStmt); ok {
			if strings.Contains(s.text(ifs.Body), "zmodem.stopTransferringFiles()") {
				if b, ok := ifs.Cond.(*ast.BinaryExpr); ok && b.Op == token.LAND && s.text(b.X) == "len(buf) == 1" {
					if e, ok := b.Y.(*ast.BinaryExpr); ok && e.Op == token.EQL && s.text(e.X) == "buf[0]" {
						cc = append(cc, s.evalInt(e.Y, nil, 0))
					}
				}
			}
		}
		return true
	})
	if len(cc) != 1 {
		die("sendInput: zmodem Ctrl-C test has an unexpected shape (%d candidates)", len(cc))
	}
	o.defN("zmodem_ctrl_c", cc[0])
}

// ---- synchronisation / effect skeleton ----
//
// Per function: the calls that touch a flag, a timer, a writer, the helper process or
// the session pointer, in source order.  Logging, progress arithmetic and names of
// locals do not appear.  Proofs/Zmodem.v pins the result (skel_ok), so re-ordering,
// removing or adding such an operation breaks a proof obligation.

var c19SkelFuncs = []string{
	"detectZmodem", "zmodemTransfer.resetCleanupTimer", "zmodemTransfer.resetClientTimer",
	"zmodemTransfer.resetServerTimer", "zmodemTransfer.isTransferringFiles",
	"zmodemTransfer.stopTransferringFiles", "zmodemTransfer.handleZmodemError",
	"zmodemTransfer.handleServerOutput", "zmodemTransfer.handleZmodemStream",
	"zmodemTransfer.ensureOverAndOut", "zmodemTransfer.ensureClientExit",
	"zmodemTransfer.checkClientExited", "zmodemTransfer.uploadFiles", "zmodemTransfer.downloadFiles",
	"zmodemTransfer.handleZmodemEvent", "TrzszFilter.sendInput", "TrzszFilter.wrapOutput",
}

func c19Interesting(t string, filterFn bool) bool {
	if strings.HasPrefix(t, "z.logger") || strings.HasPrefix(t, "filter.logger") {
		return false
	}
	if filterFn {
		return strings.Contains(t, "zmodem") || strings.Contains(t, "Zmodem") || strings.Contains(t, "Cursor(")
	}
	for _, p := range []string{"z.", "writeAll(", "time.Sleep(", "time.AfterFunc(", "cmd.", "bytes.Contains(",
		"zmodemInitRegexp.", "zmodemFinishRegexp.", "chooseUploadFiles(", "chooseDownloadPath("} {
		if strings.HasPrefix(t, p) {
			return true
		}
	}
	return false
}

func c19CoqString(t string) string { return "\"" + strings.ReplaceAll(t, "\"", "\"\"") + "\"" }

func genZmodemSkel(s *src) string {
	var b strings.Builder
	b.WriteString("(* GENERATED by /verif/go/cmd/gen (zmodem.go) from the current source of trzsz-go. Do not edit. *)\n")
	b.WriteString("From Coq Require Import List String.\nImport ListNotations.\nOpen Scope string_scope.\n\n")
	b.WriteString("Definition zmodem_skel : list (string * list string) := [\n")
	for i, fn := range c19SkelFuncs {
		f := s.fn(fn)
		filterFn := strings.HasPrefix(fn, "TrzszFilter.")
		var items []string
		ast.Inspect(f.Body, func(x ast.Node) bool {
			switch n := x.(type) {
			case *ast.CallExpr:
				t := s.text(n)
				if s.text(n.Fun) == "time.AfterFunc" && len(n.Args) == 2 {
					t = "time.AfterFunc(" + s.text(n.Args[0]) + ")"
				}
				if len(t) > 160 {
					t = s.text(n.Fun) + "(...)"
				}
				if c19Interesting(t, filterFn) {
					items = append(items, t)
				}
			case *ast.GoStmt:
				if !filterFn {
					items = append(items, "go")
				}
			case *ast.ReturnStmt:
				if !filterFn {
					items = append(items, "return")
				}
			case *ast.BranchStmt:
				if !filterFn {
					items = append(items, n.Tok.String())
				}
			}
			return true
		})
		b.WriteString("  (" + c19CoqString(fn) + ", [")
		for j, it := range items {
			if j > 0 {
				b.WriteString(";\n     ")
			}
			b.WriteString(c19CoqString(it))
		}
		b.WriteString("])")
		if i < len(c19SkelFuncs)-1 {
			b.WriteString(";")
		}
		b.WriteString("\n")
	}
	b.WriteString("].\n")
	return b.String()
}
