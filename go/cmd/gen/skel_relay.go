package main

// Synchronisation skeleton of the relay (DESIGN 3.1 (b)) -> Gen/Skel_relay.v, and the
// numeric values of the relay status word -> Gen/Consts.v (section "relay").
//
// Kept, in evaluation order with the branch structure: atomic Load/Store/CompareAndSwap/Swap
// (with the field name), Lock/Unlock (with the mutex field), channel sends/receives/close
// (with the channel field), calls of addBuffer/popBuffer/readLine/readLineOnWindows, calls
// of same-file functions that themselves have a skeleton, go statements, defer, if/else,
// for, return/continue/break.  Everything else (locals, logging, arithmetic, string
// building, conditions without such operations) is dropped; an if or loop with nothing
// left inside is dropped as a whole.  So renaming a local or adding a trace line leaves
// the output byte-identical, while moving a status store across a send, dropping the
// re-read under the lock or releasing the lock early changes the term.

import (
	"fmt"
	"go/ast"
	"go/token"
	"sort"
	"strings"
)

func init() {
	constGens["relay"] = c13GenRelayConsts
	fileGens["Skel_relay.v"] = c13GenRelaySkel
}

func c13GenRelayConsts(s *src, o *out) {
	for _, p := range [][2]string{{"kRelayStandBy", "relay_standby"}, {"kRelayHandshaking", "relay_handshaking"},
		{"kRelayTransferring", "relay_transferring"}} {
		e, ok := s.consts[p[0]]
		if !ok {
			die("relay.go: constant %s not found", p[0])
		}
		o.defN(p[1], s.evalInt(e, nil, 0))
	}
	// the reset guard: the first operation on relayStatus in resetToStandby is a
	// CompareAndSwap whose expected value is the function's own parameter (any other
	// operation there -- Swap, Store -- resets the relay from whatever state it is in)
	guarded := false
	if fd, ok := s.funcs["TrzszRelay.resetToStandby"]; ok && fd.Body != nil {
		param := ""
		if fd.Type.Params != nil && len(fd.Type.Params.List) == 1 && len(fd.Type.Params.List[0].Names) == 1 {
			param = fd.Type.Params.List[0].Names[0].Name
		}
		seen := false
		ast.Inspect(fd.Body, func(n ast.Node) bool {
			call, ok := n.(*ast.CallExpr)
			if !ok || seen {
				return !seen
			}
			sel, ok := call.Fun.(*ast.SelectorExpr)
			if !ok || c13Field(sel.X) != "relayStatus" {
				return true
			}
			seen = true
			if sel.Sel.Name == "CompareAndSwap" && len(call.Args) == 2 && param != "" {
				if id, ok := call.Args[0].(*ast.Ident); ok && id.Name == param {
					guarded = true
				}
			}
			return false
		})
	} else {
		die("relay.go: function resetToStandby not found")
	}
	o.raw("Definition relay_reset_guarded : bool := %v.\n", guarded)
	// where "handshaking" is published: by the output reader, in front of `go r.handshake()`
	// (hence in front of the forward of the trigger), and/or as the first statement of the worker
	byReader, byWorker := false, false
	isStore := func(n ast.Node) bool {
		call, ok := n.(*ast.CallExpr)
		if !ok {
			return false
		}
		sel, ok := call.Fun.(*ast.SelectorExpr)
		return ok && sel.Sel.Name == "Store" && c13Field(sel.X) == "relayStatus"
	}
	if fd, ok := s.funcs["TrzszRelay.wrapOutput"]; ok && fd.Body != nil {
		var storePos, goPos token.Pos
		ast.Inspect(fd.Body, func(n ast.Node) bool {
			if n == nil {
				return true
			}
			if isStore(n) && storePos == 0 {
				storePos = n.Pos()
			}
			if g, ok := n.(*ast.GoStmt); ok && goPos == 0 {
				if sel, ok := g.Call.Fun.(*ast.SelectorExpr); ok && sel.Sel.Name == "handshake" {
					goPos = n.Pos()
				}
			}
			return true
		})
		if goPos == 0 {
			die("relay.go: wrapOutput no longer starts the handshake worker with a go statement")
		}
		byReader = storePos != 0 && storePos < goPos
	} else {
		die("relay.go: function wrapOutput not found")
	}
	if fd, ok := s.funcs["TrzszRelay.handshake"]; ok && fd.Body != nil && len(fd.Body.List) > 0 {
		if es, ok := fd.Body.List[0].(*ast.ExprStmt); ok && isStore(es.X) {
			byWorker = true
		}
	}
	o.raw("Definition relay_handshaking_stored_by_reader : bool := %v.\n", byReader)
	o.raw("Definition relay_handshaking_stored_by_worker : bool := %v.\n", byWorker)
}

// roots of the relay model; the closure over same-file callees is emitted too
var c13Roots = []string{"TrzszRelay.wrapInput", "TrzszRelay.wrapOutput", "TrzszRelay.addHandshakeBuffer",
	"TrzszRelay.flushHandshakeBuffer", "TrzszRelay.handshake", "TrzszRelay.resetToStandby"}

// calls kept as leaves without a skeleton of their own
var c13Prims = map[string]bool{"addBuffer": true, "popBuffer": true, "readLine": true, "readLineOnWindows": true}

// tunnel set-up is outside the relay model: kept as a leaf call, not expanded
var c13Stop = map[string]bool{"TrzszRelay.listenForTunnel": true}

type c13sk struct {
	s       *src
	file    *ast.File
	inFile  map[string]string // bare function/method name -> key in s.funcs, for functions of relay.go
	hasSync map[string]bool   // key -> transitively contains a synchronisation operation
	need    map[string]bool
}

func c13Q(x string) string { return "\"" + x + "\"" }

func c13List(items []string) string { return "[" + strings.Join(items, "; ") + "]" }

// name of the field an operation is applied to: r.relayStatus.Load() -> relayStatus
func c13Field(e ast.Expr) string {
	switch e := e.(type) {
	case *ast.SelectorExpr:
		return e.Sel.Name
	case *ast.Ident:
		return e.Name
	case *ast.ParenExpr:
		return c13Field(e.X)
	case *ast.StarExpr:
		return c13Field(e.X)
	}
	return "?"
}

func (g *c13sk) calleeKey(call *ast.CallExpr) (string, string) {
	switch f := call.Fun.(type) {
	case *ast.Ident:
		if k, ok := g.inFile[f.Name]; ok {
			return k, f.Name
		}
	case *ast.SelectorExpr:
		if k, ok := g.inFile[f.Sel.Name]; ok && strings.Contains(k, ".") {
			return k, f.Sel.Name
		}
	}
	return "", ""
}

// operations inside an expression, in evaluation order (operands before the operation)
func (g *c13sk) expr(e ast.Node) []string {
	var out []string
	var walk func(n ast.Node)
	walk = func(n ast.Node) {
		switch n := n.(type) {
		case nil:
			return
		case *ast.FuncLit:
			return // a literal that is not called here contributes nothing at this point
		case *ast.UnaryExpr:
			walk(n.X)
			if n.Op == token.ARROW {
				out = append(out, "SkRecv "+c13Q(c13Field(n.X)))
			}
			return
		case *ast.CallExpr:
			if sel, ok := n.Fun.(*ast.SelectorExpr); ok {
				walk(sel.X)
			}
			for _, a := range n.Args {
				walk(a)
			}
			if id, ok := n.Fun.(*ast.Ident); ok && id.Name == "close" && len(n.Args) == 1 {
				out = append(out, "SkClose "+c13Q(c13Field(n.Args[0])))
				return
			}
			if sel, ok := n.Fun.(*ast.SelectorExpr); ok {
				switch sel.Sel.Name {
				case "Load":
					out = append(out, "SkAtomic "+c13Q(c13Field(sel.X))+" ALoad")
					return
				case "Store":
					out = append(out, "SkAtomic "+c13Q(c13Field(sel.X))+" AStore")
					return
				case "CompareAndSwap":
					out = append(out, "SkAtomic "+c13Q(c13Field(sel.X))+" ACas")
					return
				case "Swap":
					// an unconditional exchange (no expected value): kept as its own kind so that the
					// model can tell a guarded reset (ACas) from a reset from any state (ASwap)
					out = append(out, "SkAtomic "+c13Q(c13Field(sel.X))+" ASwap")
					return
				case "Lock":
					out = append(out, "SkLock "+c13Q(c13Field(sel.X)))
					return
				case "Unlock":
					out = append(out, "SkUnlock "+c13Q(c13Field(sel.X)))
					return
				}
				if c13Prims[sel.Sel.Name] {
					out = append(out, "SkCall "+c13Q(sel.Sel.Name))
					return
				}
			}
			if k, name := g.calleeKey(n); k != "" && g.hasSync[k] {
				if !c13Stop[k] {
					g.need[k] = true
				}
				out = append(out, "SkCall "+c13Q(name))
			}
			return
		}
		// generic traversal of the children in source order
		first := true
		ast.Inspect(n, func(c ast.Node) bool {
			if first {
				first = false
				return true
			}
			if c != nil {
				walk(c)
			}
			return false
		})
	}
	walk(e)
	return out
}

func (g *c13sk) block(list []ast.Stmt) []string {
	var out []string
	for _, st := range list {
		out = append(out, g.stmt(st)...)
	}
	return out
}

func (g *c13sk) stmt(st ast.Stmt) []string {
	switch st := st.(type) {
	case nil:
		return nil
	case *ast.BlockStmt:
		return g.block(st.List)
	case *ast.SendStmt:
		o := g.expr(st.Chan)
		o = append(o, g.expr(st.Value)...)
		return append(o, "SkSend "+c13Q(c13Field(st.Chan)))
	case *ast.IfStmt:
		cond := g.stmt(st.Init)
		cond = append(cond, g.expr(st.Cond)...)
		thn := g.block(st.Body.List)
		var els []string
		if st.Else != nil {
			els = g.stmt(st.Else)
		}
		if len(cond) == 0 && len(thn) == 0 && len(els) == 0 {
			return nil
		}
		return []string{"SkIf " + c13List(cond) + " " + c13List(thn) + " " + c13List(els)}
	case *ast.ForStmt:
		o := g.stmt(st.Init)
		body := g.expr(st.Cond)
		body = append(body, g.block(st.Body.List)...)
		body = append(body, g.stmt(st.Post)...)
		if len(body) == 0 {
			return o
		}
		return append(o, "SkLoop "+c13List(body))
	case *ast.RangeStmt:
		body := g.expr(st.X)
		body = append(body, g.block(st.Body.List)...)
		if len(body) == 0 {
			return nil
		}
		return []string{"SkLoop " + c13List(body)}
	case *ast.ReturnStmt:
		var o []string
		for _, r := range st.Results {
			o = append(o, g.expr(r)...)
		}
		return append(o, "SkReturn")
	case *ast.BranchStmt:
		switch st.Tok {
		case token.CONTINUE:
			return []string{"SkContinue"}
		case token.BREAK:
			return []string{"SkBreak"}
		}
		die("relay skeleton: unsupported branch statement at %v", g.s.fset.Position(st.Pos()))
	case *ast.DeferStmt:
		var body []string
		if fl, ok := st.Call.Fun.(*ast.FuncLit); ok {
			body = g.block(fl.Body.List)
		} else {
			body = g.expr(st.Call)
		}
		if len(body) == 0 {
			return nil
		}
		return []string{"SkDefer " + c13List(body)}
	case *ast.GoStmt:
		if fl, ok := st.Call.Fun.(*ast.FuncLit); ok {
			return []string{"SkGoLit " + c13List(g.block(fl.Body.List))}
		}
		o := []string{}
		for _, a := range st.Call.Args {
			o = append(o, g.expr(a)...)
		}
		if k, name := g.calleeKey(st.Call); k != "" {
			if !c13Stop[k] {
				g.need[k] = true
			}
			return append(o, "SkGo "+c13Q(name))
		}
		return append(o, "SkGo "+c13Q(c13Field(st.Call.Fun)))
	case *ast.SelectStmt, *ast.SwitchStmt, *ast.TypeSwitchStmt, *ast.LabeledStmt:
		die("relay skeleton: unsupported statement (select/switch/label) at %v", g.s.fset.Position(st.Pos()))
	case *ast.ExprStmt:
		return g.expr(st.X)
	case *ast.AssignStmt:
		var o []string
		for _, r := range st.Rhs {
			o = append(o, g.expr(r)...)
		}
		return o
	case *ast.DeclStmt, *ast.IncDecStmt, *ast.EmptyStmt:
		return g.expr(st)
	}
	die("relay skeleton: unsupported statement %T at %v", st, g.s.fset.Position(st.Pos()))
	return nil
}

func c13GenRelaySkel(s *src) string {
	f, ok := s.files["relay.go"]
	if !ok {
		die("relay.go not found")
	}
	g := &c13sk{s: s, file: f, inFile: map[string]string{}, hasSync: map[string]bool{}, need: map[string]bool{}}
	decls := map[string]*ast.FuncDecl{}
	for _, d := range f.Decls {
		if fd, ok := d.(*ast.FuncDecl); ok && fd.Body != nil {
			key := fd.Name.Name
			if fd.Recv != nil && len(fd.Recv.List) == 1 {
				key = recvName(fd.Recv.List[0].Type) + "." + key
			}
			decls[key] = fd
			// methods of TrzszRelay win over same-named methods of tunnelRelay (wrapInput/wrapOutput)
			if old, dup := g.inFile[fd.Name.Name]; !dup || !strings.HasPrefix(old, "TrzszRelay.") {
				g.inFile[fd.Name.Name] = key
			}
		}
	}
	// which functions (transitively) contain a synchronisation operation: fixpoint
	for changed := true; changed; {
		changed = false
		for k, fd := range decls {
			if g.hasSync[k] {
				continue
			}
			g.need = map[string]bool{}
			if len(c13NonControl(g.block(fd.Body.List))) > 0 {
				g.hasSync[k] = true
				changed = true
			}
		}
	}
	// closure from the roots
	g.need = map[string]bool{}
	done := map[string][]string{}
	todo := append([]string(nil), c13Roots...)
	for len(todo) > 0 {
		k := todo[0]
		todo = todo[1:]
		if _, ok := done[k]; ok {
			continue
		}
		fd, ok := decls[k]
		if !ok {
			die("relay.go: function %s not found", k)
		}
		g.need = map[string]bool{}
		done[k] = g.block(fd.Body.List)
		var more []string
		for n := range g.need {
			more = append(more, n)
		}
		sort.Strings(more)
		todo = append(todo, more...)
	}
	var keys []string
	for k := range done {
		keys = append(keys, k)
	}
	sort.Strings(keys)
	var b strings.Builder
	b.WriteString("(* GENERATED by /verif/go/cmd/gen (skel_relay.go) from relay.go. Do not edit.\n" +
		"   Synchronisation skeleton of the relay: atomics, locks, channel operations, buffer\n" +
		"   primitives, go/defer and control structure, in program order. *)\n" +
		"From Trzsz Require Import Base.Skel.\nOpen Scope string_scope.\n\n" +
		"Definition relay_skel : skel := [\n")
	for i, k := range keys {
		name := k
		if strings.HasPrefix(k, "TrzszRelay.") {
			name = k[len("TrzszRelay."):]
		}
		fmt.Fprintf(&b, "  (%s,\n   [", c13Q(name))
		for j, it := range done[k] {
			if j > 0 {
				b.WriteString(";\n    ")
			}
			b.WriteString(it)
		}
		b.WriteString("])")
		if i < len(keys)-1 {
			b.WriteString(";")
		}
		b.WriteString("\n")
	}
	b.WriteString("].\n")
	return b.String()
}

// items other than bare control statements (used to decide whether a function has any
// synchronisation content at all)
func c13NonControl(items []string) []string {
	var out []string
	for _, it := range items {
		t := it
		for _, w := range []string{"SkReturn", "SkContinue", "SkBreak", "SkIf", "SkLoop", "[", "]", ";", " "} {
			t = strings.ReplaceAll(t, w, "")
		}
		if t != "" {
			out = append(out, it)
		}
	}
	return out
}
