package main

// C12: constants of the guards and a STRUCTURAL tie for every sink a peer-controlled
// number can reach: the sink expression is located in the AST and the conditions that
// dominate it (the `if` / `for` conditions on the path from the function entry, early
// exits negated) are emitted as normalised strings into Gen/Skel_guards.v.  Proofs/Guards.v
// pins them by reflexivity, so removing or weakening a guard breaks a proof obligation.

import (
	"fmt"
	"go/ast"
	"go/token"
	"regexp"
	"sort"
	"strings"
)

func init() {
	constGens["guards"] = genGuardConsts
	fileGens["Skel_guards.v"] = genGuardSkel
}

// ---- path conditions ----

type c12Hit struct {
	fn    string
	expr  string
	conds []string
}

type c12Walker struct {
	s     *src
	fn    string
	match func(n ast.Node) bool
	hits  []c12Hit
}

var c12ErrCond = regexp.MustCompile(`^!\(\w+ != nil\)$`)

func c12Terminates(b *ast.BlockStmt) bool {
	if b == nil || len(b.List) == 0 {
		return false
	}
	switch last := b.List[len(b.List)-1].(type) {
	case *ast.ReturnStmt:
		return true
	case *ast.BranchStmt:
		return last.Tok == token.CONTINUE || last.Tok == token.BREAK || last.Tok == token.GOTO
	case *ast.ExprStmt:
		if c, ok := last.X.(*ast.CallExpr); ok {
			if id, ok := c.Fun.(*ast.Ident); ok && id.Name == "panic" {
				return true
			}
		}
	}
	return false
}

func (w *c12Walker) simple(n ast.Node, conds []string) {
	if n == nil {
		return
	}
	ast.Inspect(n, func(x ast.Node) bool {
		if x == nil {
			return false
		}
		if fl, ok := x.(*ast.FuncLit); ok {
			w.block(fl.Body.List, conds)
			return false
		}
		if w.match(x) {
			var keep []string
			for _, c := range conds {
				if !c12ErrCond.MatchString(c) {
					keep = append(keep, c)
				}
			}
			w.hits = append(w.hits, c12Hit{w.fn, w.s.text(x), keep})
		}
		return true
	})
}

func (w *c12Walker) block(stmts []ast.Stmt, conds []string) {
	conds = append([]string(nil), conds...)
	for _, st := range stmts {
		switch st := st.(type) {
		case *ast.IfStmt:
			w.simple(st.Init, conds)
			c := w.s.text(st.Cond)
			w.block(st.Body.List, append(conds, c))
			elseTerm := false
			switch e := st.Else.(type) {
			case *ast.BlockStmt:
				w.block(e.List, append(conds, "!("+c+")"))
				elseTerm = c12Terminates(e)
			case *ast.IfStmt:
				w.block([]ast.Stmt{e}, append(conds, "!("+c+")"))
			}
			if c12Terminates(st.Body) {
				conds = append(conds, "!("+c+")")
			} else if elseTerm {
				conds = append(conds, c)
			}
		case *ast.ForStmt:
			w.simple(st.Init, conds)
			inner := conds
			if st.Cond != nil {
				inner = append(append([]string(nil), conds...), w.s.text(st.Cond))
			}
			w.block(st.Body.List, inner)
		case *ast.RangeStmt:
			w.block(st.Body.List, conds)
		case *ast.BlockStmt:
			w.block(st.List, conds)
		case *ast.LabeledStmt:
			w.block([]ast.Stmt{st.Stmt}, conds)
		case *ast.SwitchStmt:
			tag := ""
			if st.Tag != nil {
				tag = w.s.text(st.Tag) + " "
			}
			for _, cl := range st.Body.List {
				cc := cl.(*ast.CaseClause)
				var vals []string
				for _, e := range cc.List {
					vals = append(vals, w.s.text(e))
				}
				lbl := "switch " + tag + "case " + strings.Join(vals, ", ")
				if cc.List == nil {
					lbl = "switch " + tag + "default"
				}
				w.block(cc.Body, append(conds, lbl))
			}
		case *ast.TypeSwitchStmt:
			for _, cl := range st.Body.List {
				w.block(cl.(*ast.CaseClause).Body, conds)
			}
		case *ast.SelectStmt:
			for _, cl := range st.Body.List {
				cc := cl.(*ast.CommClause)
				if cc.Comm != nil {
					w.simple(cc.Comm, conds)
				}
				w.block(cc.Body, conds)
			}
		default:
			w.simple(st, conds)
		}
	}
}

// c12Dominators walks function fn and returns every node accepted by match with the
// conditions that hold on the way to it.
func c12Dominators(s *src, fn string, match func(ast.Node) bool) []c12Hit {
	f := s.fn(fn)
	w := &c12Walker{s: s, fn: fn, match: match}
	w.block(f.Body.List, nil)
	return w.hits
}

func c12CallNamed(n ast.Node, sel string) (*ast.CallExpr, bool) {
	c, ok := n.(*ast.CallExpr)
	if !ok {
		return nil, false
	}
	switch f := c.Fun.(type) {
	case *ast.SelectorExpr:
		return c, f.Sel.Name == sel
	case *ast.Ident:
		return c, f.Name == sel
	}
	return c, false
}

func c12FuncNames(s *src) []string {
	var names []string
	for n := range s.funcs {
		names = append(names, n)
	}
	sort.Strings(names)
	return names
}

// ---- constants ----

func genGuardConsts(s *src, o *out) {
	o.defZ("guards_hash_step", s.evalInt(s.consts["kPrefixHashStep"], nil, 0))

	// recvPrefixHash: the upper bound in the guard in front of make([]byte, step) must be a CONSTANT of
	// the code and must bound the very variable make receives - not another number the peer announces.
	// The right-hand operand of the `>` comparison is evaluated as a constant expression; if it is not
	// one (a variable, a field, a call) the bound is reported as not constant.
	boundConst, boundVal, boundLHS := false, int64(0), ""
	for _, h := range c12Dominators(s, "trzszTransfer.recvPrefixHash", func(n ast.Node) bool {
		c, ok := c12CallNamed(n, "make")
		return ok && len(c.Args) >= 2
	}) {
		_ = h
	}
	ast.Inspect(s.fn("trzszTransfer.recvPrefixHash").Body, func(n ast.Node) bool {
		i, ok := n.(*ast.IfStmt)
		if !ok || !c12Terminates(i.Body) {
			return true
		}
		var walk func(e ast.Expr)
		walk = func(e ast.Expr) {
			switch e := e.(type) {
			case *ast.ParenExpr:
				walk(e.X)
			case *ast.BinaryExpr:
				if e.Op == token.LOR {
					walk(e.X)
					walk(e.Y)
				} else if e.Op == token.GTR && boundLHS == "" && strings.Contains(s.text(i.Cond), "step") {
					boundLHS = s.text(e.X)
					func() {
						defer func() {
							if r := recover(); r != nil {
								if _, isDie := r.(genFailure); !isDie {
									panic(r)
								}
							}
						}()
						boundVal = s.evalInt(e.Y, nil, 0)
						boundConst = true
					}()
				}
			}
		}
		walk(i.Cond)
		return true
	})
	if !boundConst {
		boundVal = 0
	}
	o.defZ("guards_hash_step_bound", boundVal)
	o.raw("Definition guards_hash_step_bound_const : bool := %v.\n", boundConst)
	o.raw("Definition guards_hash_step_bound_on_make_arg : bool := %v.\n", boundLHS == "step")

	// newTransfer: default MaxBufSize and the initial buffer size
	var dfltBuf, initBuf, dfltTimeout int64 = -1, -1, -1
	ast.Inspect(s.fn("newTransfer").Body, func(n ast.Node) bool {
		switch n := n.(type) {
		case *ast.KeyValueExpr:
			if id, ok := n.Key.(*ast.Ident); ok && id.Name == "MaxBufSize" {
				dfltBuf = s.evalInt(n.Value, nil, 0)
			}
			if id, ok := n.Key.(*ast.Ident); ok && id.Name == "Timeout" {
				dfltTimeout = s.evalInt(n.Value, nil, 0)
			}
		case *ast.CallExpr:
			if s.text(n.Fun) == "t.bufferSize.Store" && len(n.Args) == 1 {
				initBuf = s.evalInt(n.Args[0], nil, 0)
			}
		}
		return true
	})
	if dfltBuf < 0 || initBuf < 0 || dfltTimeout < 0 {
		die("newTransfer: default MaxBufSize / initial bufferSize not found")
	}
	o.defZ("guards_default_bufsize", dfltBuf)
	o.defZ("guards_init_buffer_size", initBuf)
	o.defZ("guards_default_timeout", dfltTimeout)

	// sendFileData (protocol 1 sender): initial chunk size
	v1Init := int64(-1)
	ast.Inspect(s.fn("trzszTransfer.sendFileData").Body, func(n ast.Node) bool {
		if a, ok := n.(*ast.AssignStmt); ok && a.Tok == token.DEFINE && len(a.Lhs) == 1 && s.text(a.Lhs[0]) == "bufSize" && v1Init < 0 {
			v1Init = s.evalInt(a.Rhs[0], nil, 0)
		}
		return true
	})
	if v1Init < 0 {
		die("sendFileData: initial bufSize not found")
	}
	o.defZ("guards_v1_init_bufsize", v1Init)

	// bufferSize.UnmarshalText: the bounds of the servers' -B argument
	var argMin, argMax int64 = -1, -1
	ast.Inspect(s.fn("bufferSize.UnmarshalText").Body, func(n ast.Node) bool {
		if i, ok := n.(*ast.IfStmt); ok {
			if b, ok := i.Cond.(*ast.BinaryExpr); ok && s.text(b.X) == "sizeValue" {
				if b.Op == token.LSS {
					argMin = s.evalInt(b.Y, nil, 0)
				} else if b.Op == token.GTR {
					argMax = s.evalInt(b.Y, nil, 0)
				}
			}
		}
		return true
	})
	if argMin < 0 || argMax < 0 {
		die("bufferSize.UnmarshalText: bounds not found")
	}
	o.defZ("guards_arg_bufsize_min", argMin)
	o.defZ("guards_arg_bufsize_max", argMax)

	// maxDataSize (fix_databound): `if bufSize < A { bufSize = A }; return bufSize * F`
	minBuf, factor := int64(0), int64(0)
	if f, ok := s.funcs["trzszTransfer.maxDataSize"]; ok {
		want := regexp.MustCompile(`^\{ bufSize := t\.transferConfig\.MaxBufSize if bufSize < (\S+) \{ bufSize = (\S+) \} return bufSize \* (\S+) \}$`)
		m := want.FindStringSubmatch(s.text(f.Body))
		if m == nil || m[1] != m[2] {
			die("maxDataSize has an unexpected shape: %s", s.text(f.Body))
		}
		ast.Inspect(f.Body, func(n ast.Node) bool {
			switch n := n.(type) {
			case *ast.IfStmt:
				minBuf = s.evalInt(n.Cond.(*ast.BinaryExpr).Y, nil, 0)
			case *ast.ReturnStmt:
				factor = s.evalInt(n.Results[0].(*ast.BinaryExpr).Y, nil, 0)
			}
			return true
		})
	}
	// without the fix there is no bound: 0 / 0 make the proofs about the fixed code fail
	o.defZ("guards_data_min_bufsize", minBuf)
	o.defZ("guards_data_factor", factor)

	// recvConfig (fix_databound): `if t.transferConfig.MaxBufSize > C { t.transferConfig.MaxBufSize = C }`
	clamp := int64(-1)
	ast.Inspect(s.fn("trzszTransfer.recvConfig").Body, func(n ast.Node) bool {
		if i, ok := n.(*ast.IfStmt); ok {
			if b, ok := i.Cond.(*ast.BinaryExpr); ok && b.Op == token.GTR && s.text(b.X) == "t.transferConfig.MaxBufSize" &&
				len(i.Body.List) == 1 && i.Else == nil {
				if a, ok := i.Body.List[0].(*ast.AssignStmt); ok && a.Tok == token.ASSIGN && s.text(a.Lhs[0]) == "t.transferConfig.MaxBufSize" {
					c1, c2 := s.evalInt(b.Y, nil, 0), s.evalInt(a.Rhs[0], nil, 0)
					if c1 == c2 {
						clamp = c1
					}
				}
			}
		}
		return true
	})
	if clamp < 0 {
		// no clamp in the source: the configuration is not bounded; 2^63-1 makes cfg_ok vacuous
		// and the overflow lemma fail
		clamp = 1<<63 - 1
	}
	o.defZ("guards_bufsize_clamp", clamp)

	// pipelineRecvAck: how the sender's chunk size evolves (thresholds in ms, growth growFactor, minChunk)
	var fastMs, slowMs, growFactor, minChunk int64 = -1, -1, -1, -1
	ast.Inspect(s.fn("trzszTransfer.pipelineRecvAck").Body, func(n ast.Node) bool {
		switch n := n.(type) {
		case *ast.BinaryExpr:
			if s.text(n.X) == "chunkTime" && n.Op == token.LSS {
				fastMs = s.evalInt(n.Y, nil, 0)
			}
			if s.text(n.X) == "chunkTime" && n.Op == token.GEQ {
				slowMs = s.evalInt(n.Y, nil, 0)
			}
			if s.text(n.X) == "bufSize" && n.Op == token.MUL {
				growFactor = s.evalInt(n.Y, nil, 0)
			}
		case *ast.IfStmt:
			if b, ok := n.Cond.(*ast.BinaryExpr); ok && s.text(b.X) == "bufSize" && b.Op == token.LSS && len(n.Body.List) == 1 {
				if a, ok := n.Body.List[0].(*ast.AssignStmt); ok && s.text(a.Lhs[0]) == "bufSize" {
					c1, c2 := s.evalInt(b.Y, nil, 0), s.evalInt(a.Rhs[0], nil, 0)
					if c1 == c2 {
						minChunk = c1
					}
				}
			}
		}
		return true
	})
	if fastMs < 0 || slowMs < 0 || growFactor < 0 || minChunk < 0 {
		die("pipelineRecvAck: thresholds / growFactor / minChunk of the buffer size not found (%d %d %d %d)", fastMs, slowMs, growFactor, minChunk)
	}
	o.defZ("guards_ack_fast_ms", fastMs)
	o.defZ("guards_ack_slow_ms", slowMs)
	o.defZ("guards_grow_factor", growFactor)
	o.defZ("guards_min_chunk", minChunk)
}

// ---- skeleton ----

func c12Q(x string) string { return `"` + strings.ReplaceAll(x, `"`, `""`) + `"` }

func c12List(xs []string) string {
	q := make([]string, len(xs))
	for i, x := range xs {
		q[i] = c12Q(x)
	}
	return "[" + strings.Join(q, "; ") + "]"
}

func c12Hits(name string, hits []c12Hit) string {
	var b strings.Builder
	fmt.Fprintf(&b, "Definition %s : list (string * string * list string) := [", name)
	for i, h := range hits {
		if i > 0 {
			b.WriteString(";")
		}
		fmt.Fprintf(&b, "\n  (%s, %s, %s)", c12Q(h.fn), c12Q(h.expr), c12List(h.conds))
	}
	b.WriteString("].\n")
	return b.String()
}

// constness of a size expression: literals, package constants, function-local constants,
// len()/cap() of anything (memory proportional to data already held)
func c12IsBounded(s *src, e ast.Expr, localConst map[string]bool) bool {
	switch e := e.(type) {
	case *ast.BasicLit:
		return true
	case *ast.ParenExpr:
		return c12IsBounded(s, e.X, localConst)
	case *ast.Ident:
		_, ok := s.consts[e.Name]
		return ok || localConst[e.Name]
	case *ast.BinaryExpr:
		return c12IsBounded(s, e.X, localConst) && c12IsBounded(s, e.Y, localConst)
	case *ast.CallExpr:
		if id, ok := e.Fun.(*ast.Ident); ok {
			if id.Name == "len" || id.Name == "cap" {
				return true
			}
			if (id.Name == "int" || id.Name == "int64" || id.Name == "int32") && len(e.Args) == 1 {
				return c12IsBounded(s, e.Args[0], localConst)
			}
		}
	}
	return false
}

func genGuardSkel(s *src) string {
	var b strings.Builder
	b.WriteString("(* GENERATED by /verif/go/cmd/gen (guards.go) from the current source of trzsz-go. Do not edit.\n")
	b.WriteString("   For every sink a peer-controlled number can reach: (function, sink expression, the conditions\n")
	b.WriteString("   that hold on every path from the function entry to it; plain `err != nil` exits left out). *)\n")
	b.WriteString("From Coq Require Import List String.\nImport ListNotations.\nOpen Scope string_scope.\n\n")

	// 1. readBinary: who calls it, under which conditions; whether it reserves memory up front
	var rb []c12Hit
	for _, fn := range c12FuncNames(s) {
		rb = append(rb, c12Dominators(s, fn, func(n ast.Node) bool { _, ok := c12CallNamed(n, "readBinary"); return ok })...)
	}
	b.WriteString(c12Hits("read_binary_calls", rb))
	grow := c12Dominators(s, "trzszBuffer.readBinary", func(n ast.Node) bool { _, ok := c12CallNamed(n, "Grow"); return ok })
	b.WriteString(c12Hits("read_binary_pregrow", grow))
	b.WriteString(c12Hits("read_binary_growth", c12Dominators(s, "trzszBuffer.readBinary", func(n ast.Node) bool {
		c, ok := c12CallNamed(n, "Write")
		return ok && s.text(c.Fun) == "b.readBuf.Write"
	})))
	if f, ok := s.funcs["trzszTransfer.maxDataSize"]; ok {
		fmt.Fprintf(&b, "Definition max_data_size_body : string := %s.\n", c12Q(s.text(f.Body)))
	} else {
		b.WriteString("Definition max_data_size_body : string := \"\".\n")
	}

	// 2. recvPrefixHash: make([]byte, step) and the definition of step
	isMake := func(n ast.Node) bool {
		c, ok := c12CallNamed(n, "make")
		return ok && len(c.Args) >= 2
	}
	b.WriteString(c12Hits("hash_make", c12Dominators(s, "trzszTransfer.recvPrefixHash", isMake)))
	var stepDef []string
	ast.Inspect(s.fn("trzszTransfer.recvPrefixHash").Body, func(n ast.Node) bool {
		if a, ok := n.(*ast.AssignStmt); ok && len(a.Lhs) == 1 && s.text(a.Lhs[0]) == "step" {
			stepDef = append(stepDef, s.text(a))
		}
		return true
	})
	fmt.Fprintf(&b, "Definition hash_step_defs : list string := %s.\n", c12List(stepDef))

	// 3. the bar width: assignments to columns in newTextProgressBar, and what createProgressBar
	//    does to the pane width before passing it on
	b.WriteString(c12Hits("bar_columns_assign", c12Dominators(s, "newTextProgressBar", func(n ast.Node) bool {
		a, ok := n.(*ast.AssignStmt)
		return ok && len(a.Lhs) == 1 && s.text(a.Lhs[0]) == "columns"
	})))
	b.WriteString(c12Hits("bar_create", c12Dominators(s, "TrzszFilter.createProgressBar", func(n ast.Node) bool {
		_, ok := c12CallNamed(n, "newTextProgressBar")
		return ok
	})))
	var sanit []string
	for _, st := range s.fn("TrzszFilter.createProgressBar").Body.List {
		if i, ok := st.(*ast.IfStmt); ok && i.Else == nil && len(i.Body.List) == 1 {
			if a, ok := i.Body.List[0].(*ast.AssignStmt); ok && a.Tok == token.ASSIGN && s.text(a.Lhs[0]) == "tmuxPaneColumns" {
				sanit = append(sanit, "if "+s.text(i.Cond)+" { "+s.text(a)+" }")
			}
		}
	}
	fmt.Fprintf(&b, "Definition pane_sanitizers : list string := %s.\n", c12List(sanit))
	var callers []c12Hit
	for _, fn := range c12FuncNames(s) {
		callers = append(callers, c12Dominators(s, fn, func(n ast.Node) bool { _, ok := c12CallNamed(n, "createProgressBar"); return ok })...)
		if fn != "TrzszFilter.createProgressBar" {
			callers = append(callers, c12Dominators(s, fn, func(n ast.Node) bool { _, ok := c12CallNamed(n, "newTextProgressBar"); return ok })...)
		}
	}
	b.WriteString(c12Hits("bar_create_calls", callers))

	// 4. strings.Repeat in the progress bar
	b.WriteString(c12Hits("repeat_sites", c12Dominators(s, "textProgressBar.getProgressBar", func(n ast.Node) bool {
		c, ok := c12CallNamed(n, "Repeat")
		return ok && s.text(c.Fun) == "strings.Repeat"
	})))

	// 5. steps on their way to the progress display
	isSendStep := func(n ast.Node) bool {
		sd, ok := n.(*ast.SendStmt)
		return ok && s.text(sd.Chan) == "progressChan"
	}
	b.WriteString(c12Hits("final_ack_forward", c12Dominators(s, "trzszTransfer.pipelineRecvFinalAck", isSendStep)))
	b.WriteString(c12Hits("chunk_ack_forward", c12Dominators(s, "trzszTransfer.pipelineRecvAck", isSendStep)))
	b.WriteString(c12Hits("hash_ack_show", c12Dominators(s, "trzszTransfer.pipelineRecvHashAck", func(n ast.Node) bool {
		_, ok := c12CallNamed(n, "onStep")
		return ok
	})))

	// 5b. the sender's chunk buffer: every store to bufferSize with the conditions in front of it, the
	//     capacities handed to make by the chunk writer, and the protocol-1 sender's own buffer
	var stores []c12Hit
	for _, fn := range c12FuncNames(s) {
		stores = append(stores, c12Dominators(s, fn, func(n ast.Node) bool {
			c, ok := c12CallNamed(n, "Store")
			return ok && strings.HasSuffix(s.text(c.Fun), ".bufferSize.Store")
		})...)
	}
	b.WriteString(c12Hits("bufsize_stores", stores))
	b.WriteString(c12Hits("v1_bufsize_assign", c12Dominators(s, "trzszTransfer.sendFileData", func(n ast.Node) bool {
		a, ok := n.(*ast.AssignStmt)
		return ok && len(a.Lhs) == 1 && s.text(a.Lhs[0]) == "bufSize"
	})))

	// 5c. the archive writer: the conditions in front of the write to the entry's file (a directory entry
	//     has none), and the line splitters: the guard on the index of the colon before line[1:idx]
	b.WriteString(c12Hits("archive_file_write", c12Dominators(s, "archiveFileWriter.Write", func(n ast.Node) bool {
		c, ok := c12CallNamed(n, "Write")
		return ok && s.text(c.Fun) == "f.file.Write"
	})))
	var splits []c12Hit
	for _, fn := range []string{"decodeRelayBufferString", "trzszTransfer.recvCheck", "trzszTransfer.recvCheckV2"} {
		for _, h := range c12Dominators(s, fn, func(n ast.Node) bool {
			sl, ok := n.(*ast.SliceExpr)
			return ok && s.text(sl) == "line[1:idx]"
		}) {
			var keep []string
			for _, cnd := range h.conds {
				if strings.Contains(cnd, "idx") {
					keep = append(keep, cnd)
				}
			}
			h.conds = keep
			splits = append(splits, h)
		}
	}
	b.WriteString(c12Hits("line_split_sites", splits))

	// 6. every allocation / growth / repeat in the package whose size is not a constant and not the
	//    length of data already held: a new flow into an allocation shows up here
	type site struct{ fn, expr string }
	var sites []site
	for _, fn := range c12FuncNames(s) {
		f := s.funcs[fn]
		if f.Body == nil {
			continue
		}
		localConst := map[string]bool{}
		ast.Inspect(f.Body, func(n ast.Node) bool {
			if g, ok := n.(*ast.GenDecl); ok && g.Tok == token.CONST {
				for _, sp := range g.Specs {
					for _, id := range sp.(*ast.ValueSpec).Names {
						localConst[id.Name] = true
					}
				}
			}
			return true
		})
		ast.Inspect(f.Body, func(n ast.Node) bool {
			c, ok := n.(*ast.CallExpr)
			if !ok {
				return true
			}
			var sizes []ast.Expr
			if id, ok := c.Fun.(*ast.Ident); ok && id.Name == "make" && len(c.Args) >= 2 {
				if _, isChan := c.Args[0].(*ast.ChanType); !isChan {
					sizes = c.Args[1:]
				}
			} else if sel, ok := c.Fun.(*ast.SelectorExpr); ok && len(c.Args) >= 1 {
				if sel.Sel.Name == "Grow" {
					sizes = c.Args[:1]
				} else if s.text(c.Fun) == "strings.Repeat" || s.text(c.Fun) == "bytes.Repeat" {
					sizes = c.Args[1:2]
				}
			}
			for _, e := range sizes {
				if !c12IsBounded(s, e, localConst) {
					sites = append(sites, site{fn, s.text(c)})
					break
				}
			}
			return true
		})
	}
	b.WriteString("Definition alloc_sites : list (string * string) := [")
	for i, st := range sites {
		if i > 0 {
			b.WriteString(";")
		}
		fmt.Fprintf(&b, "\n  (%s, %s)", c12Q(st.fn), c12Q(st.expr))
	}
	b.WriteString("].\n")

	// 7. which functions contain a recover(): a panic anywhere else ends the process
	var rec []string
	for _, fn := range c12FuncNames(s) {
		f := s.funcs[fn]
		if f.Body == nil {
			continue
		}
		has := false
		ast.Inspect(f.Body, func(n ast.Node) bool {
			if c, ok := n.(*ast.CallExpr); ok {
				if id, ok := c.Fun.(*ast.Ident); ok && id.Name == "recover" {
					has = true
				}
			}
			return true
		})
		if has {
			rec = append(rec, fn)
		}
	}
	fmt.Fprintf(&b, "Definition recover_sites : list string := %s.\n", c12List(rec))
	return b.String()
}
