package main

// skel_pipeline: regenerates Gen/Skel_pipeline.v, the synchronisation skeletons of the
// goroutines of pipeline.go (send net, receive net) and of the hash stages of append.go,
// as terms of the process language of Model/Proc.v.
//
// The translation is syntactic and conservative: everything that is not a synchronisation,
// I/O or control construct is dropped (logging, arithmetic, names); a construct the
// translator does not understand becomes `Io Unknown`, which wf rejects.

import (
	"fmt"
	"go/ast"
	"go/token"
	"os"
	"sort"
	"strings"
)

func init() { fileGens["Skel_pipeline.v"] = genSkelPipeline }

type skGen struct {
	s         *src
	structs   map[string]*ast.StructType
	ifaces    map[string]*ast.InterfaceType
	imports   map[string]bool
	summaries map[string]skSummary
	net       *skNet
	chanOrd   map[string]int
}

const (
	skRetGoroutine = iota // return leaves the goroutine
	skRetEscape           // return leaves an inlined function / deferred literal
	skRetCont             // return of an inlined error-returning closure: continues with retCont(result)
)
const (
	skLoopNone = iota
	skLoopFree // LoopCtx / LoopData: the head may leave at any visit
	skLoopRange
)

type skTc struct {
	g        *skGen
	env      *skEnv
	fn       *skFn
	proc     *skProc
	top      ast.Node // the stage function, searched for constructor calls
	fnBody   *ast.BlockStmt
	retMode  int
	loop     int
	loopTail bool // break == leaving the goroutine
	selDepth int
	cond     int  // nesting depth of conditionals (for conditional defers)
	tail     bool // falling through the current block ends the goroutine
	tailHere bool
	depth    int
	// error flow: the error variable known to hold an error (failVar) / known to hold none
	// (okVar; okEOF: "none" includes io.EOF) since the operation that assigned it
	failVar, okVar string
	okEOF          bool
	retCont        func(c *skTc, result ast.Expr) []skS
	deferLit       bool // directly in a deferred function literal
}

func skUnknown() []skS { return []skS{{kind: "Io", io: "Unknown"}} }

func skDebug(f string, a ...any) {
	if os.Getenv("SKEL_DEBUG") != "" {
		fmt.Fprintf(os.Stderr, "skel: "+f+"\n", a...)
	}
}

func (g *skGen) newChan(fn string, cap int64) *skChan {
	fn = strings.TrimPrefix(fn[strings.LastIndex(fn, ".")+1:], "pipeline")
	c := &skChan{name: fn + "_" + itoa(g.chanOrd[fn]), cap: cap}
	g.chanOrd[fn]++
	g.net.chans = append(g.net.chans, c)
	return c
}

func itoa(i int) string {
	if i == 0 {
		return "0"
	}
	s := ""
	for i > 0 {
		s = string(rune('0'+i%10)) + s
		i /= 10
	}
	return s
}

// ---- symbolic evaluation of expressions that denote channels / contexts / wait groups ----

func (c *skTc) eval(e ast.Expr) *skVal {
	switch e := e.(type) {
	case *ast.Ident:
		return c.env.get(e.Name)
	case *ast.ParenExpr:
		return c.eval(e.X)
	case *ast.StarExpr:
		return c.eval(e.X)
	case *ast.UnaryExpr:
		if e.Op == token.AND {
			return c.eval(e.X)
		}
	case *ast.SelectorExpr:
		if v := c.eval(e.X); v != nil && v.fields != nil {
			if f := v.fields[e.Sel.Name]; f != nil {
				return f
			}
		}
		// a channel held in a field of the transfer object: one shared channel per field
		if c.g.exprType(c.fn, e.X) == "trzszTransfer" && strings.HasPrefix(c.g.exprType(c.fn, e), "chan") {
			return c.g.fieldChan(e.Sel.Name)
		}
	case *ast.FuncLit:
		return &skVal{kind: skvClosure, lit: e, env: c.env, fn: c.fn}
	case *ast.CompositeLit:
		t := skTypeStr(c.g.s, e.Type)
		st := c.g.structs[t]
		if st == nil {
			return nil
		}
		v := &skVal{kind: skvStruct, fields: map[string]*skVal{}}
		if t == "pipelineContext" {
			v.kind = skvCtx
		}
		var names []string
		for _, fd := range st.Fields.List {
			for _, n := range fd.Names {
				names = append(names, n.Name)
			}
			if len(fd.Names) == 0 {
				names = append(names, "")
			}
		}
		for i, el := range e.Elts {
			if kv, ok := el.(*ast.KeyValueExpr); ok {
				if id, ok := kv.Key.(*ast.Ident); ok {
					v.fields[id.Name] = c.eval(kv.Value)
				}
			} else if i < len(names) {
				v.fields[names[i]] = c.eval(el)
			}
		}
		return v
	case *ast.CallExpr:
		if id, ok := e.Fun.(*ast.Ident); ok {
			if id.Name == "make" && len(e.Args) >= 1 {
				if _, ok := e.Args[0].(*ast.ChanType); ok {
					cap := int64(0)
					if len(e.Args) == 2 {
						cap = c.g.s.evalInt(e.Args[1], nil, 0)
					}
					return &skVal{kind: skvChan, ch: c.g.newChan(c.fn.name, cap)}
				}
				return nil
			}
			// constructor: a same-package function whose body is `... return &T{...}`
			if fd := c.g.s.funcs[id.Name]; fd != nil && strings.HasPrefix(id.Name, "new") {
				return c.evalCtor(fd, e.Args)
			}
		}
	}
	return nil
}

func (c *skTc) evalCtor(fd *ast.FuncDecl, args []ast.Expr) *skVal {
	c2 := *c
	c2.env = skNewEnv(nil)
	c2.fn = c.g.fnTypes(fd.Name.Name, fd.Recv, fd.Type, fd.Body)
	i := 0
	for _, p := range fd.Type.Params.List {
		for _, n := range p.Names {
			if i < len(args) {
				c2.env.vars[n.Name] = c.eval(args[i])
			}
			i++
		}
	}
	for _, st := range fd.Body.List {
		if r, ok := st.(*ast.ReturnStmt); ok && len(r.Results) >= 1 {
			return c2.eval(r.Results[0])
		}
	}
	return nil
}

func (c *skTc) isCtx(e ast.Expr) bool {
	t := c.g.exprType(c.fn, e)
	if t == "pipelineContext" || t == "context.Context" {
		return true
	}
	v := c.eval(e)
	return v != nil && v.kind == skvCtx
}

// ctxCall: e is X.<method>() with X a context
func (c *skTc) ctxCall(e ast.Expr, method string) bool {
	call, ok := e.(*ast.CallExpr)
	if !ok {
		return false
	}
	sel, ok := call.Fun.(*ast.SelectorExpr)
	return ok && sel.Sel.Name == method && c.isCtx(sel.X)
}

func (c *skTc) isCancel(fun ast.Expr) bool {
	t := c.g.exprType(c.fn, fun)
	if strings.HasPrefix(t, "context.Cancel") {
		return true
	}
	switch f := fun.(type) {
	case *ast.Ident:
		return f.Name == "cancel" && c.g.s.funcs["cancel"] == nil
	case *ast.SelectorExpr:
		return f.Sel.Name == "cancel" && c.isCtx(f.X)
	}
	return false
}

// ---- expressions ----

func (c *skTc) exprs(e ast.Expr) []skS {
	var out []skS
	if e == nil {
		return nil
	}
	switch e := e.(type) {
	case *ast.FuncLit:
		return nil
	case *ast.CallExpr:
		for _, a := range e.Args {
			out = append(out, c.exprs(a)...)
		}
		if sel, ok := e.Fun.(*ast.SelectorExpr); ok {
			out = append(out, c.exprs(sel.X)...)
		}
		return append(out, c.call(e)...)
	case *ast.UnaryExpr:
		if e.Op == token.ARROW {
			if c.ctxCall(e.X, "Done") {
				return []skS{{kind: "Sel", alts: []skAlt{{kind: "DoneAlt"}}}}
			}
			if v := c.eval(e.X); v != nil && v.kind == skvChan {
				return []skS{{kind: "RecvClose", ch: v.ch}}
			}
			return skUnknown()
		}
		return c.exprs(e.X)
	case *ast.BinaryExpr:
		return append(c.exprs(e.X), c.exprs(e.Y)...)
	case *ast.ParenExpr:
		return c.exprs(e.X)
	case *ast.StarExpr:
		return c.exprs(e.X)
	case *ast.SelectorExpr:
		return c.exprs(e.X)
	case *ast.IndexExpr:
		return append(c.exprs(e.X), c.exprs(e.Index)...)
	case *ast.SliceExpr:
		out = c.exprs(e.X)
		out = append(out, c.exprs(e.Low)...)
		out = append(out, c.exprs(e.High)...)
		return append(out, c.exprs(e.Max)...)
	case *ast.CompositeLit:
		for _, el := range e.Elts {
			out = append(out, c.exprs(el)...)
		}
		return out
	case *ast.KeyValueExpr:
		return c.exprs(e.Value)
	case *ast.TypeAssertExpr:
		return c.exprs(e.X)
	}
	return nil
}

func (c *skTc) call(e *ast.CallExpr) []skS {
	if sel, ok := e.Fun.(*ast.SelectorExpr); ok {
		m := sel.Sel.Name
		if c.g.exprType(c.fn, sel.X) == "sync.WaitGroup" && (m == "Wait" || m == "Add" || m == "Done") {
			if v := c.eval(sel.X); v != nil && v.kind == skvJoin {
				if m == "Wait" {
					if *v.join == nil {
						return skUnknown()
					}
					return []skS{{kind: "Join", proc: *v.join}}
				}
				return nil // Add / Done of a local wait group are accounted for by Join
			}
			name := sel.X
			if s2, ok := name.(*ast.SelectorExpr); ok {
				w := s2.Sel.Name
				c.g.addWg(w)
				return []skS{{kind: "Wg" + m, wg: w}}
			}
			return skUnknown()
		}
		if (m == "Err" || m == "Done") && c.isCtx(sel.X) {
			return nil
		}
	}
	if c.isCancel(e.Fun) {
		return []skS{{kind: "Cancel"}}
	}
	if id, ok := e.Fun.(*ast.Ident); ok {
		if v := c.env.get(id.Name); v != nil && v.kind == skvClosure {
			return c.inlineLit(v, e.Args)
		}
	}
	keys, ext := c.g.callKeys(c.fn, e)
	if ext == "time.Sleep" || ext == "close" {
		skDebug("call %s", ext)
		return skUnknown()
	}
	if len(keys) == 1 {
		if a, ok := skTable[keys[0]]; ok {
			return c.action(a, e)
		}
	}
	ios := map[string]bool{}
	for _, k := range keys {
		if a, ok := skTable[k]; ok {
			if a.inline != "" {
				return skUnknown()
			}
			if a.io != "" {
				ios[a.io] = true
			}
			continue
		}
		sm := c.g.summary(k, map[string]bool{})
		if sm.sync {
			skDebug("call %s: %s contains a synchronisation construct", c.g.s.text(e.Fun), k)
			return skUnknown()
		}
		for io := range sm.ios {
			ios[io] = true
		}
	}
	var names []string
	for io := range ios {
		names = append(names, io)
	}
	sort.Strings(names)
	var out []skS
	for _, io := range names {
		out = append(out, skS{kind: "Io", io: io})
	}
	return out
}

func (c *skTc) action(a skAction, e *ast.CallExpr) []skS {
	if a.none {
		return nil
	}
	if a.io != "" {
		return []skS{{kind: "Io", io: a.io}}
	}
	var recv *skVal
	if a.via != "" {
		var ctor *ast.CallExpr
		ast.Inspect(c.top, func(n ast.Node) bool {
			if ce, ok := n.(*ast.CallExpr); ok && ctor == nil {
				if id, ok := ce.Fun.(*ast.Ident); ok && id.Name == a.via {
					ctor = ce
				}
			}
			return true
		})
		if ctor == nil {
			return skUnknown()
		}
		recv = c.evalCtor(c.g.s.fn(a.via), ctor.Args)
	} else if sel, ok := e.Fun.(*ast.SelectorExpr); ok {
		recv = c.eval(sel.X)
	}
	args := e.Args
	if a.via != "" {
		args = nil // arguments of the wrapper call are data
	}
	body := c.inlineFn(a.inline, recv, args, a.loop)
	if a.loop {
		body = []skS{{kind: "LoopData", a: body}}
	}
	if a.then != "" {
		body = append(body, c.inlineFn(a.then, recv, nil, false)...)
	}
	return body
}

func (c *skTc) bindParams(env *skEnv, fn *skFn, params *ast.FieldList, args []ast.Expr) {
	i := 0
	for _, p := range params.List {
		for _, n := range p.Names {
			var v *skVal
			if i < len(args) {
				v = c.eval(args[i])
			}
			if v == nil && strings.Contains(fn.types[n.Name], "ontext") {
				v = &skVal{kind: skvCtx, fields: map[string]*skVal{}}
			}
			env.vars[n.Name] = v
			i++
		}
	}
}

func (c *skTc) inlineFn(key string, recv *skVal, args []ast.Expr, inLoop bool) []skS {
	if c.depth > 8 {
		return skUnknown()
	}
	fd := c.g.s.fn(key)
	c2 := *c
	c2.depth++
	c2.env = skNewEnv(nil)
	c2.fn = c.g.fnTypes(key, fd.Recv, fd.Type, fd.Body)
	c2.fnBody = fd.Body
	if fd.Recv != nil && len(fd.Recv.List) == 1 && len(fd.Recv.List[0].Names) == 1 {
		c2.env.vars[fd.Recv.List[0].Names[0].Name] = recv
	}
	c.bindParams(c2.env, c2.fn, fd.Type.Params, args)
	c2.selDepth, c2.cond = 0, 0
	c2.failVar, c2.okVar, c2.retCont, c2.deferLit = "", "", nil, false
	if !inLoop && c.tailHere && c.retMode == skRetGoroutine {
		c2.tail, c2.loop = true, skLoopNone
	} else {
		c2.retMode, c2.tail, c2.loop, c2.loopTail = skRetEscape, false, skLoopNone, false
	}
	return c2.block(fd.Body.List, nil)
}

func (c *skTc) inlineLit(v *skVal, args []ast.Expr) []skS {
	if c.depth > 8 {
		return skUnknown()
	}
	c2 := *c
	c2.depth++
	c2.env = skNewEnv(v.env)
	c2.fn = v.fn
	c2.fnBody = v.lit.Body
	c.bindParams(c2.env, c2.fn, v.lit.Type.Params, args)
	c2.retMode, c2.tail, c2.loop, c2.loopTail, c2.selDepth, c2.cond = skRetEscape, false, skLoopNone, false, 0, 0
	c2.failVar, c2.okVar, c2.retCont, c2.deferLit = "", "", nil, false
	return c2.block(v.lit.Body.List, nil)
}

// inlineLitCont: inline an error-returning closure; each of its returns continues with
// cont(result expression) (the caller's error path or its normal path)
func (c *skTc) inlineLitCont(v *skVal, args []ast.Expr, cont func(c *skTc, result ast.Expr) []skS) []skS {
	if c.depth > 8 {
		return skUnknown()
	}
	c2 := *c
	c2.depth++
	c2.env = skNewEnv(v.env)
	c2.fn = v.fn
	c2.fnBody = v.lit.Body
	c.bindParams(c2.env, c2.fn, v.lit.Type.Params, args)
	c2.retMode, c2.tail, c2.tailHere, c2.loop, c2.loopTail, c2.selDepth, c2.cond = skRetCont, false, false, skLoopNone, false, 0, 0
	c2.failVar, c2.okVar, c2.retCont = "", "", cont
	return c2.block(v.lit.Body.List, nil)
}

// ---- error flow ----

func (c *skTc) isErrName(n string) bool { return n == "err" || c.fn.types[n] == "error" }

// errVarOf: the error variable an assignment sets (its last left-hand side)
func (c *skTc) errVarOf(as *ast.AssignStmt) string {
	if len(as.Lhs) == 0 {
		return ""
	}
	if id, ok := as.Lhs[len(as.Lhs)-1].(*ast.Ident); ok && c.isErrName(id.Name) {
		return id.Name
	}
	return ""
}

// errTest: the condition is `v != nil` for an error variable v
func (c *skTc) errTest(e ast.Expr) (string, bool) {
	if p, ok := e.(*ast.ParenExpr); ok {
		return c.errTest(p.X)
	}
	be, ok := e.(*ast.BinaryExpr)
	if !ok || be.Op != token.NEQ {
		return "", false
	}
	id, ok := be.X.(*ast.Ident)
	if !ok || !c.isErrName(id.Name) || c.g.s.text(be.Y) != "nil" {
		return "", false
	}
	return id.Name, true
}

// condVal: value of a condition on the tracked error variable: 1 true, 0 false, -1 unknown.
// "Holds an error" means: not nil and not io.EOF.
func (c *skTc) condVal(e ast.Expr) int {
	switch e := e.(type) {
	case *ast.ParenExpr:
		return c.condVal(e.X)
	case *ast.UnaryExpr:
		if e.Op == token.NOT {
			if v := c.condVal(e.X); v >= 0 {
				return 1 - v
			}
		}
	case *ast.BinaryExpr:
		switch e.Op {
		case token.LAND, token.LOR:
			a, b := c.condVal(e.X), c.condVal(e.Y)
			dom := 0 // the dominating value: false for &&, true for ||
			if e.Op == token.LOR {
				dom = 1
			}
			if a == dom || b == dom {
				return dom
			}
			if a == 1-dom && b == 1-dom {
				return 1 - dom
			}
		case token.EQL, token.NEQ:
			id, ok := e.X.(*ast.Ident)
			if !ok {
				return -1
			}
			rhs := c.g.s.text(e.Y)
			v := -1 // value of ==
			switch {
			case id.Name == c.failVar && (rhs == "nil" || rhs == "io.EOF"):
				v = 0
			case id.Name == c.okVar && rhs == "nil" && !c.okEOF:
				v = 1
			}
			if v >= 0 && e.Op == token.NEQ {
				v = 1 - v
			}
			return v
		}
	}
	return -1
}

func skAllIo(l []skS) bool {
	for _, s := range l {
		if s.kind != "Io" || s.io == "Unknown" {
			return false
		}
	}
	return len(l) > 0
}

func (c *skTc) mentionsEOF(lists ...[]ast.Stmt) bool {
	found := false
	for _, l := range lists {
		for _, st := range l {
			ast.Inspect(st, func(n ast.Node) bool {
				if sel, ok := n.(*ast.SelectorExpr); ok && c.g.s.text(sel) == "io.EOF" {
					found = true
				}
				return true
			})
		}
	}
	return found
}

// endsWithReturn: the block ends with a return statement that is not the completion idiom
// `ch <- result; return`
func skEndsWithReturn(l []ast.Stmt) bool {
	if len(l) == 0 {
		return false
	}
	if _, ok := l[len(l)-1].(*ast.ReturnStmt); !ok {
		return false
	}
	if len(l) >= 2 {
		if _, ok := l[len(l)-2].(*ast.SendStmt); ok {
			return false
		}
	}
	return true
}

// tieAssign: `..., v := CALL` where CALL is one or more operations of the Io table (or a codec
// wrapper with channel operations inside) and v an error variable.  The statements after it are translated twice: with v known to hold an
// error (the error path h, tied to the operation as IoE k h) and with v known to hold none.
// scoped != nil: the assignment is the init part of `if v := CALL; cond {..}`; scoped is
// that if statement without its init part and v is not visible after it.
// Also: CALL is an error-returning closure with channel operations (inlined; each of its
// returns continues with the caller's error path or normal path).
func (c *skTc) tieAssign(as *ast.AssignStmt, scoped, rest []ast.Stmt, k []skS) ([]skS, bool) {
	if len(as.Rhs) != 1 {
		return nil, false
	}
	call, ok := as.Rhs[0].(*ast.CallExpr)
	v := c.errVarOf(as)
	if v == "" && ok && len(as.Lhs) > 0 {
		// whatever its name: the last result of the call, compared with nil / io.EOF afterwards
		if id, isId := as.Lhs[len(as.Lhs)-1].(*ast.Ident); isId && id.Name != "_" && c.testedLater(id.Name, scoped, rest) {
			v = id.Name
		}
	}
	if !ok || v == "" {
		return nil, false
	}
	cf, co := *c, *c
	cf.failVar, cf.okVar = v, ""
	co.failVar, co.okVar, co.okEOF = "", v, c.mentionsEOF(scoped, rest)
	if id, ok := call.Fun.(*ast.Ident); ok {
		if cv := c.env.get(id.Name); cv != nil && cv.kind == skvClosure {
			res := cv.lit.Type.Results
			if res == nil || len(res.List) == 0 || skTypeStr(c.g.s, res.List[len(res.List)-1].Type) != "error" {
				return nil, false
			}
			var failC, okC []skS
			if scoped != nil {
				kRest := c.block(rest, k)
				failC, okC = cf.block(scoped, kRest), co.block(scoped, kRest)
			} else {
				failC, okC = cf.block(rest, k), co.block(rest, k)
			}
			var pre []skS
			for _, a := range call.Args {
				pre = append(pre, c.exprs(a)...)
			}
			body := c.inlineLitCont(cv, call.Args, func(ci *skTc, r ast.Expr) []skS {
				switch ci.errClass(r) {
				case 1:
					return failC
				case 0:
					return okC
				}
				return []skS{{kind: "Branch", a: failC, b: okC}}
			})
			return append(pre, body...), true
		}
	}
	ios := c.exprs(call)
	pure := skAllIo(ios)
	if len(ios) == 0 {
		return nil, false // a computation: its error test is rendered as IoE Check where it stands
	}
	for _, s := range ios {
		if s.kind == "Io" && s.io == "Unknown" {
			return nil, false
		}
	}
	var h, okc []skS
	if scoped != nil {
		h = cf.block(scoped, nil)
		okc = append(co.block(scoped, nil), c.block(rest, k)...)
	} else {
		h = cf.block(rest, k)
		okc = co.block(rest, k)
		if !skTerminates(h) {
			// the error path rejoins the normal path: not representable, leave the operation
			// untied (faults_cancel then reports it)
			return nil, false
		}
	}
	var out []skS
	if pure {
		for _, io := range ios {
			out = append(out, skS{kind: "IoE", io: io.io, a: h})
		}
	} else {
		// a call with channel operations inside (codec wrapper around the channel-backed
		// reader / writer): its error is that of a computation made after them
		out = append(append(out, ios...), skS{kind: "IoE", io: "Check", a: h})
	}
	return append(out, okc...), true
}

// testedLater: one of the statements (or an else-if chain in them) tests `name ==/!= nil` or io.EOF
func (c *skTc) testedLater(name string, lists ...[]ast.Stmt) bool {
	found := false
	var cond func(e ast.Expr)
	cond = func(e ast.Expr) {
		switch e := e.(type) {
		case *ast.ParenExpr:
			cond(e.X)
		case *ast.BinaryExpr:
			if e.Op == token.LAND || e.Op == token.LOR {
				cond(e.X)
				cond(e.Y)
			} else if e.Op == token.EQL || e.Op == token.NEQ {
				if id, ok := e.X.(*ast.Ident); ok && id.Name == name {
					if y := c.g.s.text(e.Y); y == "nil" || y == "io.EOF" {
						found = true
					}
				}
			}
		}
	}
	var ifs func(st ast.Stmt)
	ifs = func(st ast.Stmt) {
		if s, ok := st.(*ast.IfStmt); ok {
			cond(s.Cond)
			if s.Else != nil {
				ifs(s.Else)
			}
		}
	}
	for _, l := range lists {
		for _, st := range l {
			ifs(st)
		}
	}
	return found
}

// errClass: does the returned error expression hold an error?  1 yes, 0 no, -1 unknown
func (c *skTc) errClass(r ast.Expr) int {
	switch r := r.(type) {
	case nil:
		return 0
	case *ast.Ident:
		switch {
		case r.Name == "nil":
			return 0
		case r.Name == c.failVar:
			return 1
		case r.Name == c.okVar && !c.okEOF:
			return 0
		}
	case *ast.CallExpr:
		return 1 // ctx.Err() in a Done arm, simpleTrzszError(...), fmt.Errorf(...)
	}
	return -1
}

// endsWithTie: the statement is an if whose arms (recursively) end with an assignment of the
// error variable v from an operation of the Io table
func (c *skTc) endsWithTie(st ast.Stmt, v string) bool {
	switch st := st.(type) {
	case *ast.AssignStmt:
		if len(st.Rhs) == 1 && c.errVarOf(st) == v {
			if call, ok := st.Rhs[0].(*ast.CallExpr); ok {
				return skAllIo(c.exprs(call))
			}
		}
	case *ast.BlockStmt:
		return len(st.List) > 0 && c.endsWithTie(st.List[len(st.List)-1], v)
	case *ast.IfStmt:
		if c.endsWithTie(st.Body, v) {
			return true
		}
		return st.Else != nil && c.endsWithTie(st.Else, v)
	}
	return false
}

// ---- statements ----

// escapes: does the statement list contain a jump that leaves it without reaching its end
// (other than an explicit goroutine Return)?
func (c *skTc) escapes(stmts []ast.Stmt) bool {
	found := false
	var walk func(n ast.Node, inLoop bool)
	walk = func(n ast.Node, inLoop bool) {
		ast.Inspect(n, func(x ast.Node) bool {
			switch x := x.(type) {
			case *ast.FuncLit:
				return false
			case *ast.ReturnStmt:
				if c.retMode == skRetEscape {
					found = true
				}
			case *ast.BranchStmt:
				if !inLoop && (x.Tok == token.CONTINUE || (x.Tok == token.BREAK && !(c.loopTail && c.retMode == skRetGoroutine))) {
					found = true
				}
			case *ast.ForStmt:
				walk(x.Body, true)
				return false
			case *ast.RangeStmt:
				walk(x.Body, true)
				return false
			}
			return true
		})
	}
	for _, s := range stmts {
		walk(s, false)
	}
	return found
}

func (c *skTc) block(stmts []ast.Stmt, k []skS) []skS {
	if len(stmts) == 0 {
		return k
	}
	st, rest := stmts[0], stmts[1:]
	switch st := st.(type) {
	case *ast.BlockStmt:
		return c.block(append(append([]ast.Stmt{}, st.List...), rest...), k)
	case *ast.ReturnStmt:
		var out []skS
		for _, r := range st.Results {
			out = append(out, c.exprs(r)...)
		}
		if c.retMode == skRetGoroutine {
			out = append(out, skS{kind: "Return"})
		}
		if c.retMode == skRetCont {
			var last ast.Expr
			if len(st.Results) > 0 {
				last = st.Results[len(st.Results)-1]
			}
			out = append(out, c.retCont(c, last)...)
		}
		return out // the rest is unreachable; an inlined return drops the continuation
	case *ast.BranchStmt:
		if st.Label != nil || c.loop == skLoopNone || c.selDepth > 0 && st.Tok == token.BREAK {
			return skUnknown()
		}
		if st.Tok == token.BREAK && c.loopTail && c.retMode == skRetGoroutine {
			return []skS{{kind: "Return"}}
		}
		if st.Tok == token.BREAK && c.loop == skLoopRange {
			return skUnknown()
		}
		return nil // skip the rest of the iteration; the head of a free loop may leave
	}
	restS := func() []skS { return c.block(rest, k) }
	switch st := st.(type) {
	case *ast.IfStmt:
		if s, ok := c.ifCtxExit(st); ok {
			return append(s, restS()...)
		}
		// `if v := OP(); v != nil {..}`: the error path is tied to the operation
		if as, ok := st.Init.(*ast.AssignStmt); ok && st.Init != nil {
			noInit := *st
			noInit.Init = nil
			if out, ok := c.tieAssign(as, []ast.Stmt{&noInit}, rest, k); ok {
				return out
			}
		}
		// the arms end by assigning an error from an operation, the test follows the if:
		// move the test into the arms
		if len(rest) > 0 && st.Init == nil {
			if nx, ok := rest[0].(*ast.IfStmt); ok && nx.Init == nil {
				if v, ok := c.errTest(nx.Cond); ok && c.endsWithTie(st, v) {
					return c.block(append([]ast.Stmt{skHoist(st, nx)}, rest[1:]...), k)
				}
			}
		}
		var pre []skS
		if st.Init != nil {
			pre = c.stmt(st.Init)
		}
		pre = append(pre, c.exprs(st.Cond)...)
		var els []ast.Stmt
		if st.Else != nil {
			els = []ast.Stmt{st.Else}
		}
		// the condition is decided by what is known of the tracked error variable
		switch c.condVal(st.Cond) {
		case 1:
			return append(pre, c.block(append(append([]ast.Stmt{}, st.Body.List...), rest...), k)...)
		case 0:
			return append(pre, c.block(append(append([]ast.Stmt{}, els...), rest...), k)...)
		}
		c2 := *c
		c2.cond++
		if c.escapes(st.Body.List) || c.escapes(els) {
			kk := restS()
			c2.tailHere, c2.tail = false, c.tail && len(kk) == 0
			return append(pre, skS{kind: "Branch", a: c2.block(st.Body.List, kk), b: c2.block(els, kk)})
		}
		c2.tail = c.tail && len(rest) == 0 && len(k) == 0
		// an error test, or a conditional return from a stage: a failure of the stage itself
		fault := false
		if st.Else == nil && (c.retMode != skRetEscape || c.deferLit) {
			if _, ok := c.errTest(st.Cond); ok {
				fault = true
			} else if c.retMode == skRetGoroutine && skEndsWithReturn(st.Body.List) {
				fault = true
			}
		}
		if fault {
			br := skS{kind: "IoE", io: "Check", a: c2.block(st.Body.List, nil)}
			return append(append(pre, br), restS()...)
		}
		br := skS{kind: "Branch", a: c2.block(st.Body.List, nil), b: c2.block(els, nil)}
		return append(append(pre, br), restS()...)
	case *ast.SelectStmt:
		esc := false
		for _, cl := range st.Body.List {
			if c.escapes(cl.(*ast.CommClause).Body) {
				esc = true
			}
		}
		var kk []skS
		if esc {
			kk = restS()
		}
		c2 := *c
		c2.selDepth++
		c2.cond++
		c2.tail = c.tail && len(rest) == 0 && len(k) == 0 && !esc
		if esc {
			c2.tail = c.tail && len(kk) == 0
		}
		s := skS{kind: "Sel"}
		for _, cl := range st.Body.List {
			cc := cl.(*ast.CommClause)
			a := c.alt(cc.Comm)
			a.body = c2.block(cc.Body, kk)
			s.alts = append(s.alts, a)
		}
		if esc {
			return []skS{s}
		}
		return append([]skS{s}, restS()...)
	}
	if as, ok := st.(*ast.AssignStmt); ok {
		if out, ok := c.tieAssign(as, nil, rest, k); ok {
			return out
		}
	}
	c2 := *c
	c2.tailHere = c.tail && len(rest) == 0 && len(k) == 0
	out := c2.stmt(st)
	if as, ok := st.(*ast.AssignStmt); ok {
		if v := c.errVarOf(as); v != "" && (v == c.failVar || v == c.okVar) {
			c3 := *c // the tracked variable is overwritten
			c3.failVar, c3.okVar = "", ""
			return append(out, c3.block(rest, k)...)
		}
	}
	return append(out, restS()...)
}

// skHoist: `if c {A} else {B}; if t {H}`  ==>  `if c {A; if t {H}} else {B; if t {H}}`
func skHoist(st, test *ast.IfStmt) *ast.IfStmt {
	out := *st
	body := *st.Body
	body.List = append(append([]ast.Stmt{}, st.Body.List...), test)
	out.Body = &body
	switch e := st.Else.(type) {
	case nil:
		out.Else = &ast.BlockStmt{List: []ast.Stmt{test}}
	case *ast.BlockStmt:
		eb := *e
		eb.List = append(append([]ast.Stmt{}, e.List...), test)
		out.Else = &eb
	case *ast.IfStmt:
		out.Else = &ast.BlockStmt{List: []ast.Stmt{e, test}}
	}
	return &out
}

func (c *skTc) ifCtxExit(st *ast.IfStmt) ([]skS, bool) {
	if st.Init != nil || st.Else != nil || c.retMode != skRetGoroutine || len(st.Body.List) != 1 {
		return nil, false
	}
	be, ok := st.Cond.(*ast.BinaryExpr)
	if !ok || be.Op != token.NEQ || !c.ctxCall(be.X, "Err") {
		return nil, false
	}
	if id, ok := be.Y.(*ast.Ident); !ok || id.Name != "nil" {
		return nil, false
	}
	ret, ok := st.Body.List[0].(*ast.ReturnStmt)
	if !ok {
		return nil, false
	}
	for _, r := range ret.Results {
		if len(c.exprs(r)) > 0 {
			return nil, false
		}
	}
	return []skS{{kind: "IfCtxExit"}}, true
}

func (c *skTc) alt(comm ast.Stmt) skAlt {
	if comm == nil {
		return skAlt{kind: "DefaultAlt"}
	}
	var rx ast.Expr
	switch s := comm.(type) {
	case *ast.SendStmt:
		if v := c.eval(s.Chan); v != nil && v.kind == skvChan {
			return skAlt{kind: "SendAlt", ch: v.ch}
		}
	case *ast.ExprStmt:
		rx = s.X
	case *ast.AssignStmt:
		if len(s.Rhs) == 1 {
			rx = s.Rhs[0]
		}
	}
	if u, ok := rx.(*ast.UnaryExpr); ok && u.Op == token.ARROW {
		if c.ctxCall(u.X, "Done") {
			return skAlt{kind: "DoneAlt"}
		}
		if call, ok := u.X.(*ast.CallExpr); ok {
			if _, ext := c.g.callKeys(c.fn, call); ext == "time.After" {
				return skAlt{kind: "TimerAlt"}
			}
		}
		if v := c.eval(u.X); v != nil && v.kind == skvChan {
			return skAlt{kind: "RecvAlt", ch: v.ch}
		}
	}
	// an alternative the translator cannot name: a receive on a channel nobody closes
	ch := c.g.newChan(c.fn.name+"_unknown", 0)
	return skAlt{kind: "RecvAlt", ch: ch}
}

func (c *skTc) containsReturn(n ast.Node) bool {
	found := false
	ast.Inspect(n, func(x ast.Node) bool {
		switch x.(type) {
		case *ast.FuncLit:
			return false
		case *ast.ReturnStmt:
			found = true
		}
		return true
	})
	return found
}

func (c *skTc) loopBody(loop ast.Stmt, body *ast.BlockStmt, kind int) ([]skS, bool) {
	c2 := *c
	c2.loop, c2.selDepth, c2.tail, c2.tailHere = kind, 0, false, false
	c2.loopTail = c.tailHere && c.retMode == skRetGoroutine
	c2.cond++
	if c.retMode == skRetEscape && c.containsReturn(body) {
		// a return inside a loop of an inlined function is a break: the loop must be free
		// and the last statement of that function
		last := c.fnBody != nil && len(c.fnBody.List) > 0 && c.fnBody.List[len(c.fnBody.List)-1] == loop
		if !last || kind != skLoopFree {
			return nil, false
		}
	}
	return c2.block(body.List, nil), true
}

func (c *skTc) stmt(st ast.Stmt) []skS {
	switch st := st.(type) {
	case nil, *ast.EmptyStmt, *ast.IncDecStmt:
		return nil
	case *ast.ExprStmt:
		if call, ok := st.X.(*ast.CallExpr); ok {
			if vals, ok := c.spawn(call); ok {
				_ = vals
				return nil
			}
		}
		return c.exprs(st.X)
	case *ast.DeclStmt:
		gd, ok := st.Decl.(*ast.GenDecl)
		if !ok {
			return nil
		}
		var out []skS
		for _, sp := range gd.Specs {
			vs, ok := sp.(*ast.ValueSpec)
			if !ok {
				continue
			}
			for _, id := range vs.Names {
				if vs.Type != nil && skTypeStr(c.g.s, vs.Type) == "sync.WaitGroup" {
					var p *skProc
					c.env.vars[id.Name] = &skVal{kind: skvJoin, join: &p}
				}
			}
			for _, v := range vs.Values {
				out = append(out, c.exprs(v)...)
			}
		}
		return out
	case *ast.AssignStmt:
		if len(st.Rhs) == 1 {
			if call, ok := st.Rhs[0].(*ast.CallExpr); ok {
				if vals, ok := c.spawn(call); ok {
					for i, l := range st.Lhs {
						if id, ok := l.(*ast.Ident); ok && i < len(vals) {
							c.env.vars[id.Name] = vals[i]
						}
					}
					return nil
				}
				if _, ext := c.g.callKeys(c.fn, call); ext == "context.WithCancelCause" || ext == "context.WithCancel" {
					if id, ok := st.Lhs[0].(*ast.Ident); ok {
						c.env.vars[id.Name] = &skVal{kind: skvCtx, fields: map[string]*skVal{}}
					}
					return nil
				}
			}
		}
		var out []skS
		for _, r := range st.Rhs {
			out = append(out, c.exprs(r)...)
		}
		if len(st.Lhs) == len(st.Rhs) {
			for i, l := range st.Lhs {
				if id, ok := l.(*ast.Ident); ok {
					if v := c.eval(st.Rhs[i]); v != nil {
						if st.Tok == token.DEFINE {
							c.env.vars[id.Name] = v
						} else if old := c.env.get(id.Name); old == nil || old.kind == skvNone {
							c.setVar(id.Name, v)
						}
					}
				}
			}
		}
		return out
	case *ast.SendStmt:
		out := c.exprs(st.Value)
		if v := c.eval(st.Chan); v != nil && v.kind == skvChan {
			return append(out, skS{kind: "SendOnce", ch: v.ch})
		}
		return skUnknown()
	case *ast.DeferStmt:
		return c.deferStmt(st)
	case *ast.ForStmt:
		pre := c.stmt(st.Init)
		if len(c.exprs(st.Cond)) > 0 || len(c.stmt(st.Post)) > 0 {
			return skUnknown()
		}
		kind := "LoopData"
		ast.Inspect(st.Cond, func(n ast.Node) bool {
			if be, ok := n.(*ast.BinaryExpr); ok && be.Op == token.EQL && c.ctxCall(be.X, "Err") {
				kind = "LoopCtx"
			}
			return st.Cond != nil
		})
		body, ok := c.loopBody(st, st.Body, skLoopFree)
		if !ok {
			return skUnknown()
		}
		return append(pre, skS{kind: kind, a: body})
	case *ast.RangeStmt:
		pre := c.exprs(st.X)
		if v := c.eval(st.X); v != nil && v.kind == skvChan {
			body, ok := c.loopBody(st, st.Body, skLoopRange)
			if !ok {
				return skUnknown()
			}
			return append(pre, skS{kind: "LoopRange", ch: v.ch, a: body})
		}
		if strings.Contains(c.g.exprType(c.fn, st.X), "chan") {
			return skUnknown()
		}
		body, ok := c.loopBody(st, st.Body, skLoopFree)
		if !ok {
			return skUnknown()
		}
		return append(pre, skS{kind: "LoopData", a: body})
	case *ast.SwitchStmt:
		out := c.stmt(st.Init)
		out = append(out, c.exprs(st.Tag)...)
		var chain []skS
		for i := len(st.Body.List) - 1; i >= 0; i-- {
			cc := st.Body.List[i].(*ast.CaseClause)
			if c.escapes(cc.Body) {
				return skUnknown()
			}
			c2 := *c
			c2.cond++
			c2.tail = false
			chain = []skS{{kind: "Branch", a: c2.block(cc.Body, nil), b: chain}}
		}
		return append(out, chain...)
	case *ast.IfStmt, *ast.SelectStmt, *ast.BlockStmt, *ast.ReturnStmt, *ast.BranchStmt:
		return c.block([]ast.Stmt{st}, nil)
	}
	return skUnknown() // go statements outside a stage function, labels, type switches, goto
}

func (c *skTc) setVar(name string, v *skVal) {
	for e := c.env; e != nil; e = e.parent {
		if _, ok := e.vars[name]; ok {
			e.vars[name] = v
			return
		}
	}
	c.env.vars[name] = v
}

func (c *skTc) deferStmt(st *ast.DeferStmt) []skS {
	if c.proc == nil || c.retMode != skRetGoroutine {
		return skUnknown()
	}
	wrap := func(l []skS) []skS {
		if c.cond > 0 && len(l) > 0 {
			return []skS{{kind: "Branch", a: l}}
		}
		return l
	}
	call := st.Call
	if id, ok := call.Fun.(*ast.Ident); ok && id.Name == "close" && len(call.Args) == 1 {
		if v := c.eval(call.Args[0]); v != nil && v.kind == skvChan {
			c.proc.deferClose = append(c.proc.deferClose, v.ch)
			return nil
		}
		return skUnknown()
	}
	if sel, ok := call.Fun.(*ast.SelectorExpr); ok && sel.Sel.Name == "Done" && c.g.exprType(c.fn, sel.X) == "sync.WaitGroup" {
		if v := c.eval(sel.X); v != nil && v.kind == skvJoin {
			*v.join = c.proc
			return nil
		}
	}
	if c.isCancel(call.Fun) {
		c.proc.exitCancel = true
		return nil
	}
	var body []skS
	if lit, ok := call.Fun.(*ast.FuncLit); ok {
		c2 := *c
		c2.depth++
		c2.env = skNewEnv(c.env)
		c2.fnBody = lit.Body
		c2.retMode, c2.tail, c2.tailHere, c2.loop, c2.loopTail, c2.selDepth, c2.cond = skRetEscape, false, false, skLoopNone, false, 0, 0
		c2.failVar, c2.okVar, c2.retCont, c2.deferLit = "", "", nil, true
		body = c2.block(lit.Body.List, nil)
	} else {
		c2 := *c
		c2.tailHere = false
		body = c2.exprs(call)
	}
	c.proc.finally = append(wrap(body), c.proc.finally...)
	return nil
}

// spawn: a call to a stage function (a same-package function whose body starts goroutines):
// its channels are created, its goroutines become processes, its results are returned.
func (c *skTc) spawn(call *ast.CallExpr) ([]*skVal, bool) {
	keys, _ := c.g.callKeys(c.fn, call)
	if len(keys) != 1 {
		return nil, false
	}
	fd := c.g.s.funcs[keys[0]]
	if fd == nil || fd.Body == nil {
		return nil, false
	}
	hasGo := false
	for _, st := range fd.Body.List {
		if _, ok := st.(*ast.GoStmt); ok {
			hasGo = true
		}
	}
	if !hasGo {
		return nil, false
	}
	c2 := skTc{g: c.g, env: skNewEnv(nil), top: fd, fnBody: fd.Body, retMode: skRetEscape}
	c2.fn = c.g.fnTypes(keys[0], fd.Recv, fd.Type, fd.Body)
	c.bindParams(c2.env, c2.fn, fd.Type.Params, call.Args)
	var results []*skVal
	var setup func(stmts []ast.Stmt)
	setup = func(stmts []ast.Stmt) {
		for _, st := range stmts {
			switch st := st.(type) {
			case *ast.GoStmt:
				lit, ok := st.Call.Fun.(*ast.FuncLit)
				if !ok {
					die("skel: %s: go statement without a function literal", keys[0])
				}
				p := &skProc{name: strings.TrimPrefix(fd.Name.Name, "pipeline")}
				c.g.net.procs = append(c.g.net.procs, p)
				c3 := skTc{g: c.g, env: skNewEnv(c2.env), fn: c2.fn, proc: p, top: fd, fnBody: lit.Body,
					retMode: skRetGoroutine, tail: true}
				p.body = c3.block(lit.Body.List, nil)
			case *ast.ReturnStmt:
				for _, r := range st.Results {
					results = append(results, c2.eval(r))
				}
			case *ast.IfStmt:
				setup(st.Body.List)
			case *ast.AssignStmt, *ast.DeclStmt:
				if out := c2.stmt(st); len(out) > 0 {
					die("skel: %s: synchronisation in the set-up part of a stage function", keys[0])
				}
			case *ast.ExprStmt: // wg.Add(1)
				if out := c2.stmt(st); len(out) > 0 {
					die("skel: %s: synchronisation in the set-up part of a stage function", keys[0])
				}
			}
		}
	}
	setup(fd.Body.List)
	return results, true
}

func (g *skGen) fieldChan(field string) *skVal {
	name := "transfer_" + field
	for _, ch := range g.net.chans {
		if ch.name == name {
			return &skVal{kind: skvChan, ch: ch}
		}
	}
	cap := int64(0)
	ast.Inspect(g.s.fn("newTransfer"), func(n ast.Node) bool {
		if kv, ok := n.(*ast.KeyValueExpr); ok {
			if id, ok := kv.Key.(*ast.Ident); ok && id.Name == field {
				if call, ok := kv.Value.(*ast.CallExpr); ok && len(call.Args) == 2 {
					cap = g.s.evalInt(call.Args[1], nil, 0)
				}
			}
		}
		return true
	})
	ch := &skChan{name: name, cap: cap}
	g.net.chans = append(g.net.chans, ch)
	return &skVal{kind: skvChan, ch: ch}
}

func (g *skGen) addWg(w string) {
	for _, x := range g.net.wgs {
		if x == w {
			return
		}
	}
	g.net.wgs = append(g.net.wgs, w)
}

func (g *skGen) build(name, mainKey string) *skNet {
	g.net = &skNet{name: name}
	g.chanOrd = map[string]int{}
	fd := g.s.fn(mainKey)
	p := &skProc{name: "main"}
	g.net.procs = append(g.net.procs, p)
	c := skTc{g: g, env: skNewEnv(nil), proc: p, top: fd, fnBody: fd.Body, retMode: skRetGoroutine, tail: true}
	c.fn = g.fnTypes(mainKey, fd.Recv, fd.Type, fd.Body)
	c.bindParams(c.env, c.fn, fd.Type.Params, nil)
	// the net exists from the statement that creates the context; what the main function does
	// before (its own early returns) is kept apart as <net>_main_prelude
	stmts := fd.Body.List
	cut := 0
	for i, st := range stmts {
		found := false
		ast.Inspect(st, func(n ast.Node) bool {
			if call, ok := n.(*ast.CallExpr); ok {
				if _, ext := g.callKeys(c.fn, call); ext == "context.WithCancelCause" || ext == "context.WithCancel" {
					found = true
				}
			}
			return true
		})
		if found {
			cut = i
			break
		}
	}
	if cut > 0 {
		cp := c
		cp.proc = &skProc{name: "prelude"}
		cp.tail = false
		g.net.prelude = skNorm(cp.block(stmts[:cut], nil))
		if g.net.prelude == nil {
			g.net.prelude = []skS{}
		}
	}
	p.body = c.block(stmts[cut:], nil)
	// main first in the source, last in the net: stage goroutines in spawn order, then main
	g.net.procs = append(g.net.procs[1:], p)
	for _, q := range g.net.procs {
		q.body = skSendOnce(skNorm(q.body), true)
		q.finally = skSendOnce(skNorm(q.finally), false)
	}
	g.net.ranks()
	return g.net
}

func genSkelPipeline(s *src) string {
	g := &skGen{s: s, structs: map[string]*ast.StructType{}, ifaces: map[string]*ast.InterfaceType{},
		imports: map[string]bool{}, summaries: map[string]skSummary{}}
	for _, f := range s.files {
		for _, im := range f.Imports {
			p := strings.Trim(im.Path.Value, `"`)
			n := p[strings.LastIndex(p, "/")+1:]
			if im.Name != nil {
				n = im.Name.Name
			}
			g.imports[n] = true
		}
		for _, d := range f.Decls {
			gd, ok := d.(*ast.GenDecl)
			if !ok || gd.Tok != token.TYPE {
				continue
			}
			for _, sp := range gd.Specs {
				ts := sp.(*ast.TypeSpec)
				switch t := ts.Type.(type) {
				case *ast.StructType:
					g.structs[ts.Name.Name] = t
				case *ast.InterfaceType:
					g.ifaces[ts.Name.Name] = t
				}
			}
		}
	}
	var b strings.Builder
	b.WriteString("(* GENERATED by /verif/go/cmd/gen (skel_pipeline.go) from pipeline.go and append.go. Do not edit. *)\n")
	b.WriteString("From Coq Require Import List.\nImport ListNotations.\nFrom Trzsz Require Import Model.Proc.\n\n")
	nets := []*skNet{
		g.build("send", "trzszTransfer.sendFileDataV2"),
		g.build("recv", "trzszTransfer.recvFileDataV2"),
		g.build("hash", "trzszTransfer.sendPrefixHash"),
	}
	var wgs []string
	for _, n := range nets {
		for _, w := range n.wgs {
			dup := false
			for _, x := range wgs {
				dup = dup || x == w
			}
			if !dup {
				wgs = append(wgs, w)
			}
		}
	}
	for i, w := range wgs {
		b.WriteString("Definition wg_" + skIdent(w) + " : wgid := " + itoa(i) + ".\n")
	}
	b.WriteString("\n")
	for _, n := range nets {
		n.print(&b)
	}
	return b.String()
}
