package main

// Skel_errtell.v (C11, "a side that can still talk tells its peer why"): the decision
// skeletons of transfer.go's clientError / serverError as terms of Model/ErrTell.v, the error
// predicates of comm.go they consult (isTraceBack, isRemoteExit, isRemoteFail,
// isStopAndDelete), and where the callers (filter.go handleTrzsz, trz.go, tsz.go) hand an
// error to them.  A construct the translator does not know becomes an Unknown term, which
// the interpreter reports and the theorem rejects.

import (
	"fmt"
	"go/ast"
	"go/token"
	"strconv"
	"strings"
)

func init() {
	fileGens["Skel_errtell.v"] = genSkelErrTell
	fileGens["Skel_errcallers.v"] = genSkelErrCallers
}

var etPredNames = map[string]string{"isTraceBack": "PTraceBack", "isRemoteExit": "PRemoteExit", "isRemoteFail": "PRemoteFail", "isStopAndDelete": "PStopAndDelete"}
var etVarNames = map[string]string{"trace": "VTrace", "typ": "VTyp"}

func etWord(s string) string {
	switch s {
	case "fail":
		return "WFail"
	case "FAIL":
		return "WFAIL"
	}
	return "WOther"
}

func etQuote(s string) string {
	return `"` + strings.ReplaceAll(strings.Join(strings.Fields(s), " "), `"`, `""`) + `"`
}

type etGen struct {
	s *src
}

func etTypeOf(lit string) string {
	switch lit {
	case "":
		return "EtNone"
	case "fail":
		return "EtFail"
	case "FAIL":
		return "EtFAIL"
	case "EXIT":
		return "EtEXIT"
	}
	return "EtOther"
}

// bexp: a boolean expression over the fields of the receiver e of a trzszError method
func (g *etGen) bexp(e ast.Expr, recv string) string {
	unk := func() string { return "BUnknownExp" }
	switch e := e.(type) {
	case *ast.ParenExpr:
		return g.bexp(e.X, recv)
	case *ast.Ident:
		if e.Name == "true" || e.Name == "false" {
			return "(BConst " + e.Name + ")"
		}
	case *ast.UnaryExpr:
		if e.Op == token.NOT {
			return "(BNot " + g.bexp(e.X, recv) + ")"
		}
	case *ast.SelectorExpr:
		if g.s.text(e) == recv+".trace" {
			return "BTrace"
		}
	case *ast.BinaryExpr:
		switch e.Op {
		case token.LOR:
			return "(BOr " + g.bexp(e.X, recv) + " " + g.bexp(e.Y, recv) + ")"
		case token.LAND:
			return "(BAnd " + g.bexp(e.X, recv) + " " + g.bexp(e.Y, recv) + ")"
		case token.EQL, token.NEQ:
			x, y := g.s.text(e.X), g.s.text(e.Y)
			r := ""
			switch {
			case x == recv+".errType":
				if bl, ok := e.Y.(*ast.BasicLit); ok && bl.Kind == token.STRING {
					if v, err := strconv.Unquote(bl.Value); err == nil {
						r = "(BTypeIs " + etTypeOf(v) + ")"
					}
				}
			case x == recv && y == "nil":
				r = "BNil"
			case x == recv+".message" && y == "errStoppedAndDeleted.message":
				r = "BMsgSad"
			}
			if r == "" {
				return unk()
			}
			if e.Op == token.NEQ {
				return "(BNot " + r + ")"
			}
			return r
		}
	}
	return unk()
}

// pred: `func (e *trzszError) name() bool { [if g { return b }]* return x }`
func (g *etGen) pred(name string) string {
	fd := g.s.fn("trzszError." + name)
	recv := "e"
	if fd.Recv != nil && len(fd.Recv.List) == 1 && len(fd.Recv.List[0].Names) == 1 {
		recv = fd.Recv.List[0].Names[0].Name
	}
	var guards []string
	final := ""
	for i, st := range fd.Body.List {
		switch st := st.(type) {
		case *ast.IfStmt:
			ok := st.Init == nil && st.Else == nil && len(st.Body.List) == 1
			var ret *ast.ReturnStmt
			if ok {
				ret, ok = st.Body.List[0].(*ast.ReturnStmt)
			}
			if ok && len(ret.Results) == 1 {
				if id, isId := ret.Results[0].(*ast.Ident); isId && (id.Name == "true" || id.Name == "false") {
					guards = append(guards, "("+g.bexp(st.Cond, recv)+", "+id.Name+")")
					continue
				}
			}
			guards = append(guards, "(BUnknownExp, false)")
		case *ast.ReturnStmt:
			if i == len(fd.Body.List)-1 && len(st.Results) == 1 {
				final = g.bexp(st.Results[0], recv)
			}
		default:
			guards = append(guards, "(BUnknownExp, false)")
		}
	}
	if final == "" {
		final = "BUnknownExp"
	}
	return fmt.Sprintf("{| ep_name := %s; ep_guards := [%s]; ep_final := %s |}", etPredNames[name], strings.Join(guards, "; "), final)
}

func (g *etGen) cond(e ast.Expr) string {
	unk := func() string { return "CUnknownCond" }
	switch e := e.(type) {
	case *ast.ParenExpr:
		return g.cond(e.X)
	case *ast.Ident:
		if e.Name == "true" || e.Name == "false" {
			return "(CConst " + e.Name + ")"
		}
		if v, ok := etVarNames[e.Name]; ok {
			return "(CVar " + v + ")"
		}
	case *ast.UnaryExpr:
		if e.Op == token.NOT {
			return "(CNot " + g.cond(e.X) + ")"
		}
	case *ast.BinaryExpr:
		switch e.Op {
		case token.LOR:
			return "(COr " + g.cond(e.X) + " " + g.cond(e.Y) + ")"
		case token.LAND:
			return "(CAnd " + g.cond(e.X) + " " + g.cond(e.Y) + ")"
		case token.GTR:
			if g.s.text(e) == "len(deletedFiles) > 0" {
				return "CDeleted"
			}
		}
	case *ast.CallExpr:
		t := g.s.text(e)
		if t == "t.stopAndDelete.Load()" {
			return "CFlag"
		}
		if sel, ok := e.Fun.(*ast.SelectorExpr); ok && len(e.Args) == 0 {
			if id, ok := sel.X.(*ast.Ident); ok && id.Name == "e" && etPredNames[sel.Sel.Name] != "" {
				return "(CPred " + etPredNames[sel.Sel.Name] + ")"
			}
		}
	}
	return unk()
}

// names: does the message expression list the deleted files?
func (g *etGen) names(e ast.Expr) bool {
	return strings.Contains(g.s.text(e), "deletedFiles")
}

func (g *etGen) stmts(list []ast.Stmt) string {
	var out []string
	for _, st := range list {
		out = append(out, g.stmt(st))
	}
	return "[" + strings.Join(out, "; ") + "]"
}

func (g *etGen) callStmt(call *ast.CallExpr, st ast.Stmt) string {
	switch g.s.text(call.Fun) {
	case "t.cleanInput":
		return "TClean"
	case "t.sendString":
		if len(call.Args) == 2 {
			switch a := call.Args[0].(type) {
			case *ast.BasicLit:
				if v, err := strconv.Unquote(a.Value); err == nil {
					return fmt.Sprintf("TSend (SLit %s) %v", etWord(v), g.names(call.Args[1]))
				}
			case *ast.Ident:
				if v, ok := etVarNames[a.Name]; ok {
					return fmt.Sprintf("TSend (SVar %s) %v", v, g.names(call.Args[1]))
				}
			}
		}
	case "t.serverExit":
		if len(call.Args) == 1 {
			return fmt.Sprintf("TExit %v", g.names(call.Args[0]))
		}
	}
	return "TUnknownStmt"
}

func (g *etGen) stmt(st ast.Stmt) string {
	unk := "TUnknownStmt"
	switch st := st.(type) {
	case *ast.ReturnStmt:
		if len(st.Results) == 0 {
			return "TReturn"
		}
	case *ast.ExprStmt:
		if call, ok := st.X.(*ast.CallExpr); ok {
			return g.callStmt(call, st)
		}
	case *ast.AssignStmt:
		if len(st.Lhs) != 1 || len(st.Rhs) != 1 {
			return unk
		}
		if g.s.text(st) == "t.writer = *conn" {
			return "TSwitchWriter" // conn: the accepted tunnel connection (only inside the CWindow test)
		}
		lhs, ok := st.Lhs[0].(*ast.Ident)
		if !ok {
			return unk
		}
		lv := etVarNames[lhs.Name]
		if lhs.Name == "_" {
			if call, ok := st.Rhs[0].(*ast.CallExpr); ok {
				return g.callStmt(call, st)
			}
			return unk
		}
		switch r := st.Rhs[0].(type) {
		case *ast.BasicLit:
			if r.Kind == token.STRING {
				if v, err := strconv.Unquote(r.Value); err == nil {
					if lv != "" {
						return "TSetStr " + lv + " " + etWord(v)
					}
				}
			}
		case *ast.Ident:
			if (r.Name == "true" || r.Name == "false") && lv != "" {
				return "TSetBool " + lv + " (CConst " + r.Name + ")"
			}
		case *ast.CallExpr:
			if g.s.text(r) == "t.deleteCreatedFiles()" && lhs.Name == "deletedFiles" {
				return "TDelete"
			}
			if c := g.cond(r); c != "CUnknownCond" && lv != "" {
				return "TSetBool " + lv + " " + c
			}
		}
	case *ast.IfStmt:
		c := ""
		if st.Init != nil {
			if g.s.text(st.Init) == "e, ok := err.(*trzszError)" && g.s.text(st.Cond) == "ok" {
				c = "CIsTrz"
			} else if g.s.text(st.Init) == "conn := t.tunnelConn.Load()" && g.s.text(st.Cond) == "conn != nil && !t.tunnelConnected" {
				c = "CWindow" // a tunnel connection was accepted, the ACT has not been read
			} else {
				return unk
			}
		} else {
			c = g.cond(st.Cond)
		}
		els := "[]"
		switch e := st.Else.(type) {
		case *ast.BlockStmt:
			els = g.stmts(e.List)
		case *ast.IfStmt:
			els = "[" + g.stmt(e) + "]"
		}
		return "TIf " + c + " " + g.stmts(st.Body.List) + " " + els
	}
	return unk
}

// callers: every call of clientError / serverError in the function, with the condition of
// the innermost enclosing if, whether it sits in a deferred recover, and what follows it in
// its block
func (g *etGen) callers(fn, callee string) []string {
	fd := g.s.fn(fn)
	var out []string
	var walk func(list []ast.Stmt, cond string, deferred bool)
	gor := false // inside a `go func` literal
	inspectLits := func(n ast.Node, cond string, deferred bool) {
		ast.Inspect(n, func(x ast.Node) bool {
			if lit, ok := x.(*ast.FuncLit); ok {
				walk(lit.Body.List, cond, deferred)
				return false
			}
			return true
		})
	}
	walk = func(list []ast.Stmt, cond string, deferred bool) {
		for i, st := range list {
			switch s := st.(type) {
			case *ast.ExprStmt:
				if call, ok := s.X.(*ast.CallExpr); ok {
					if sel, ok := call.Fun.(*ast.SelectorExpr); ok && sel.Sel.Name == callee {
						next := "end"
						if i+1 < len(list) {
							next = g.s.text(list[i+1])
						}
						where := "body"
						if deferred {
							where = "deferred"
						}
						if gor {
							where = "goroutine " + where
						} else {
							where = "function " + where
						}
						out = append(out, fmt.Sprintf("%s | if %s | %s | then %s", where, cond, g.s.text(call), next))
						continue
					}
				}
				inspectLits(s, cond, deferred)
			case *ast.AssignStmt:
				// where the error handed over comes from
				if len(s.Lhs) == 1 && g.s.text(s.Lhs[0]) == "err" && s.Tok == token.ASSIGN {
					out = append(out, fmt.Sprintf("assign | if %s | %s", cond, g.s.text(s)))
				}
			case *ast.IfStmt:
				c := g.s.text(s.Cond)
				if s.Init != nil {
					c = g.s.text(s.Init) + "; " + c
				}
				walk(s.Body.List, c, deferred)
				switch e := s.Else.(type) {
				case *ast.BlockStmt:
					walk(e.List, "!("+c+")", deferred)
				case *ast.IfStmt:
					walk([]ast.Stmt{e}, "!("+c+")", deferred)
				}
			case *ast.DeferStmt:
				if lit, ok := s.Call.Fun.(*ast.FuncLit); ok {
					walk(lit.Body.List, cond, true)
				}
			case *ast.GoStmt:
				if lit, ok := s.Call.Fun.(*ast.FuncLit); ok {
					old := gor
					gor = true
					walk(lit.Body.List, cond, false)
					gor = old
				}
			case *ast.BlockStmt:
				walk(s.List, cond, deferred)
			case *ast.ForStmt:
				walk(s.Body.List, cond, deferred)
			case *ast.SwitchStmt:
				for _, cl := range s.Body.List {
					walk(cl.(*ast.CaseClause).Body, cond, deferred)
				}
			case *ast.SelectStmt:
				for _, cl := range s.Body.List {
					walk(cl.(*ast.CommClause).Body, cond, deferred)
				}
			}
		}
	}
	walk(fd.Body.List, "true", false)
	return out
}

func genSkelErrTell(s *src) string {
	g := &etGen{s: s}
	var b strings.Builder
	b.WriteString("(* GENERATED by /verif/go/cmd/gen (errtell.go) from transfer.go, comm.go. Do not edit. *)\n")
	b.WriteString("From Coq Require Import List.\nImport ListNotations.\nFrom Trzsz Require Import Model.ErrTell.\n\n")
	var preds []string
	for _, n := range []string{"isTraceBack", "isRemoteExit", "isRemoteFail", "isStopAndDelete"} {
		preds = append(preds, "  "+g.pred(n))
	}
	b.WriteString("Definition errtell_preds : list et_pred := [\n" + strings.Join(preds, ";\n") + "\n].\n\n")
	for _, n := range []string{"clientError", "serverError"} {
		fd := s.fn("trzszTransfer." + n)
		if len(fd.Type.Params.List) != 1 || len(fd.Type.Params.List[0].Names) != 1 || fd.Type.Params.List[0].Names[0].Name != "err" {
			die("errtell: %s no longer takes one parameter err", n)
		}
		var parts []string
		for _, st := range fd.Body.List {
			parts = append(parts, "  "+g.stmt(st))
		}
		fmt.Fprintf(&b, "Definition errtell_%s : list et_stmt := [\n%s\n].\n\n", n, strings.Join(parts, ";\n"))
	}
	return b.String()
}

func genSkelErrCallers(s *src) string {
	g := &etGen{s: s}
	var b strings.Builder
	b.WriteString("(* GENERATED by /verif/go/cmd/gen (errtell.go) from filter.go, trz.go, tsz.go. Do not edit. *)\n")
	b.WriteString("From Coq Require Import List String.\nImport ListNotations.\nOpen Scope string_scope.\n\n")
	b.WriteString("(* where the callers hand an error to clientError / serverError:\n   position | enclosing condition | call | next statement *)\n")
	b.WriteString("Definition errtell_callers : list (string * list string) := [\n")
	callers := [][2]string{{"TrzszFilter.handleTrzsz", "clientError"}, {"TrzMain", "serverError"}, {"TszMain", "serverError"}}
	for i, c := range callers {
		var items []string
		for _, x := range g.callers(c[0], c[1]) {
			items = append(items, "     "+etQuote(x))
		}
		sep := ";"
		if i == len(callers)-1 {
			sep = ""
		}
		fmt.Fprintf(&b, "  (%s, [\n%s])%s\n", etQuote(c[0]), strings.Join(items, ";\n"), sep)
	}
	b.WriteString("].\n")
	return b.String()
}
