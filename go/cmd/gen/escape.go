package main

import (
	"bytes"
	"go/ast"
	"go/printer"
	"go/token"
	"strings"
)

func (s *src) text(n ast.Node) string {
	var b bytes.Buffer
	_ = printer.Fprint(&b, s.fset, n)
	return strings.Join(strings.Fields(b.String()), " ")
}

func init() { constGens["escape"] = genEscape }

// genEscape reads escape.go: the leader byte, the base pairs and the
// escape-all character string of getEscapeChars.
func genEscape(s *src, o *out) {
	leader := s.evalInt(s.consts["escapeLeaderByte"], nil, 0)
	o.defN("escape_leader", leader)

	f := s.fn("getEscapeChars")
	var base [][2]string
	var chars string
	haveChars := false
	first := int64(-1)
	loopOK := false
	ast.Inspect(f.Body, func(n ast.Node) bool {
		switch n := n.(type) {
		case *ast.CompositeLit:
			if len(base) == 0 && len(n.Elts) > 0 {
				ok := true
				var ps [][2]string
				for _, e := range n.Elts {
					c, isC := e.(*ast.CompositeLit)
					if !isC || len(c.Elts) != 2 {
						ok = false
						break
					}
					ps = append(ps, [2]string{s.evalString(c.Elts[0]), s.evalString(c.Elts[1])})
				}
				if ok {
					base = ps
					return false
				}
			}
		case *ast.GenDecl:
			if n.Tok == token.CONST {
				for _, sp := range n.Specs {
					vs := sp.(*ast.ValueSpec)
					if len(vs.Names) == 1 && vs.Names[0].Name == "chars" && len(vs.Values) == 1 {
						chars = s.evalString(vs.Values[0])
						haveChars = true
					}
				}
			}
		case *ast.AssignStmt:
			if n.Tok == token.DEFINE && len(n.Lhs) == 1 && len(n.Rhs) == 1 {
				if id, ok := n.Lhs[0].(*ast.Ident); ok && id.Name == "e" {
					first = s.evalInt(n.Rhs[0], nil, 0)
				}
			}
		case *ast.RangeStmt:
			want := "for _, c := range chars { escapeChars = append(escapeChars, []unicode{unicode(c), unicode(escapeLeaderByte) + unicode(e)}) e += 1 }"
			if s.text(n) == want {
				loopOK = true
			}
		}
		return true
	})
	if len(base) == 0 || !haveChars || first < 0 || !loopOK {
		die("getEscapeChars has an unexpected shape (base=%d chars=%v first=%d loop=%v)", len(base), haveChars, first, loopOK)
	}
	// each pair: source is one rune, code is two runes (leader, code); emitted as
	// code points, exactly as they go into the JSON the server announces.
	o.raw("Definition escape_base_json : list (list N * list N) := [")
	for i, p := range base {
		if i > 0 {
			o.raw("; ")
		}
		o.raw("(%s, %s)", runes(p[0]), runes(p[1]))
	}
	o.raw("].\n")
	o.defRunes("escape_all_chars", chars)
	o.defN("escape_all_first_code", first)
	o.raw("\n")
}

func runes(v string) string {
	var bs []int64
	for _, r := range v {
		bs = append(bs, int64(r))
	}
	return nlist(bs)
}
