package main

// C20: constants and the layout ladder of progress.go.
//
// getProgressText's `for { ... }` ladder is emitted as DATA (progress_ladder), statement
// by statement in source order, so that re-ordering, dropping or adding a fall-back step
// changes the term the theorems are proved about.  The small leaf functions whose control
// flow the model transcribes by hand (getEllipsisString, getProgressBar, getDisplayStep,
// onStep, onDone, ...) are pinned by their normalised text with the literals cut out.

import (
	"fmt"
	"go/ast"
	"go/token"
	"regexp"
	"strconv"
	"strings"
)

func init() { constGens["progress"] = genProgress }

func c20Match(s *src, what string, node ast.Node, pattern string) []string {
	txt := s.text(node)
	re := regexp.MustCompile("^" + pattern + "$")
	m := re.FindStringSubmatch(txt)
	if m == nil {
		die("progress.go: %s has an unexpected shape:\n  have: %s\n  want: %s", what, txt, pattern)
	}
	return m
}

func c20Q(lit string) string { return regexp.QuoteMeta(lit) }

func c20Int(v string) int64 {
	n, err := strconv.ParseInt(v, 0, 64)
	if err != nil {
		die("progress.go: integer literal %q", v)
	}
	return n
}

func c20Str(lit string) string {
	v, err := strconv.Unquote(lit)
	if err != nil {
		die("progress.go: string literal %s", lit)
	}
	return v
}

const c20StrLit = "(\"(?:[^\"\\\\]|\\\\.)*\")"

func genProgress(s *src, o *out) {
	// ---- getEllipsisString
	m := c20Match(s, "getEllipsisString", s.fn("getEllipsisString").Body,
		c20Q("{ var b strings.Builder b.Grow(max) max -= ")+`(\d+)`+
			c20Q(" length := 0 for _, r := range []rune(str) { rlen := runewidth.RuneWidth(r) if length+rlen > max { b.WriteString(")+c20StrLit+
			c20Q(") return b.String(), length + ")+`(\d+)`+c20Q(" } length += rlen b.WriteRune(r) } b.WriteString(")+c20StrLit+
			c20Q(") return b.String(), length + ")+`(\d+)`+c20Q(" }"))
	if m[2] != m[4] || m[3] != m[5] {
		die("progress.go: getEllipsisString's two exits differ (%s/%s, %s/%s)", m[2], m[4], m[3], m[5])
	}
	o.defZ("progress_ellipsis_reserve", c20Int(m[1]))
	o.defRunes("progress_ellipsis_dots", c20Str(m[2]))
	o.defZ("progress_ellipsis_added", c20Int(m[3]))

	// ---- newTextProgressBar: the tmux pane rule
	var tmuxIf *ast.IfStmt
	for _, st := range s.fn("newTextProgressBar").Body.List {
		if is, ok := st.(*ast.IfStmt); ok && tmuxIf == nil {
			tmuxIf = is
		}
	}
	if tmuxIf == nil {
		die("progress.go: newTextProgressBar: no if statement")
	}
	m = c20Match(s, "newTextProgressBar pane rule", tmuxIf,
		c20Q("if tmuxPaneColumns > ")+`(\d+)`+c20Q(" { columns = tmuxPaneColumns - ")+`(\d+)`+c20Q(" }"))
	o.defZ("progress_tmux_min", c20Int(m[1]))
	o.defZ("progress_tmux_margin", c20Int(m[2]))
	c20Match(s, "setTerminalColumns", s.fn("textProgressBar.setTerminalColumns").Body,
		c20Q("{ if p == nil { return } p.columns.Store(columns) if p.tmuxPaneColumns.Load() > 0 { p.tmuxPaneColumns.Store(0) } }"))

	// ---- the state machine (pinned; the model transcribes these by hand)
	m = c20Match(s, "onName", s.fn("textProgressBar.onName").Body,
		c20Q("{ if p == nil { return } p.fileName = name p.fileIdx++ now := timeNowFunc() p.startTime = &now p.recentSpeed.initFirstStep(&now) p.preSize = 0 p.fileStep = ")+`(-?\d+)`+c20Q(" }"))
	o.defZ("progress_initial_step", c20Int(m[1]))
	c20Match(s, "onNum", s.fn("textProgressBar.onNum").Body, c20Q("{ if p == nil { return } p.fileCount = int(num) p.hideCursor() }"))
	c20Match(s, "onSize", s.fn("textProgressBar.onSize").Body, c20Q("{ if p == nil { return } p.fileSize = p.preSize + size }"))
	c20Match(s, "onStep", s.fn("textProgressBar.onStep").Body,
		c20Q("{ if p == nil { return } step += p.preSize if step <= p.fileStep { return } p.fileStep = step if !p.pausing.Load() { p.showProgress() } }"))
	c20Match(s, "onDone", s.fn("textProgressBar.onDone").Body,
		c20Q("{ if p == nil { return } if p.fileSize == 0 { return } p.fileStep = p.fileSize p.lastUpdateTime = nil p.showProgress() }"))
	c20Match(s, "setPreSize", s.fn("textProgressBar.setPreSize").Body, c20Q("{ if p == nil { return } p.preSize = size }"))
	c20Match(s, "setPause", s.fn("textProgressBar.setPause").Body,
		c20Q("{ if p == nil { return } if !pausing { p.hideCursor() } p.pausing.Store(pausing) }"))
	m = c20Match(s, "hideCursor", s.fn("textProgressBar.hideCursor").Body, c20Q("{ p.writeProgress(")+c20StrLit+c20Q(") }"))
	o.defRunes("progress_hide_cursor", c20Str(m[1]))

	// ---- the displayed position: clamped (fixed code) or the raw step (code before the fix)
	stepExpr := ""
	if f, ok := s.funcs["textProgressBar.getDisplayStep"]; ok {
		c20Match(s, "getDisplayStep", f.Body,
			c20Q("{ step := p.fileStep if step < 0 { step = 0 } if step > p.fileSize { step = p.fileSize } return step }"))
		stepExpr = "p.getDisplayStep()"
		o.raw("Definition progress_clamped : bool := true.\n")
	} else {
		stepExpr = "p.fileStep"
		o.raw("Definition progress_clamped : bool := false.\n")
	}

	// ---- showProgress
	m = c20Match(s, "showProgress", s.fn("textProgressBar.showProgress").Body,
		c20Q("{ now := timeNowFunc() if p.lastUpdateTime != nil && now.Sub(*p.lastUpdateTime) < ")+`(\d+)`+c20Q("*time.Millisecond { return } p.lastUpdateTime = &now percentage := ")+c20StrLit+
			c20Q(" if p.fileSize != 0 { percentage = fmt.Sprintf(")+c20StrLit+c20Q(", math.Round(float64("+stepExpr+")*")+`(\d+)(?:\.0)?`+c20Q("/float64(p.fileSize))) }")+
			" total := .* progressText := "+c20Q("p.getProgressText(percentage, total, speedStr, etaStr) if p.firstWrite { p.firstWrite = false p.writeProgress(progressText) return }")+
			c20Q(" if p.tmuxPaneColumns.Load() > 0 { p.writeProgress(fmt.Sprintf(")+c20StrLit+c20Q(", p.columns.Load(), progressText)) } else { p.writeProgress(fmt.Sprintf(")+c20StrLit+c20Q(", progressText)) } }"))
	o.defZ("progress_throttle_ms", c20Int(m[1]))
	o.defRunes("progress_pct_default", c20Str(m[2]))
	o.defRunes("progress_pct_fmt", c20Str(m[3]))
	o.defZ("progress_pct_scale", c20Int(m[4]))
	o.defRunes("progress_redraw_tmux_fmt", c20Str(m[5]))
	o.defRunes("progress_redraw_cr_fmt", c20Str(m[6]))

	// ---- getProgressBar
	m = c20Match(s, "getProgressBar", s.fn("textProgressBar.getProgressBar").Body,
		c20Q("{ if length < ")+`(\d+)`+c20Q(" { return \"\" } totalSize := length - ")+`(\d+)`+
			c20Q(" fullSize := totalSize if p.fileSize != 0 { fullSize = int(math.Round((float64(totalSize) * float64("+stepExpr+")) / float64(p.fileSize))) } emptySize := totalSize - fullSize if p.colorA == nil || p.colorB == nil { return fmt.Sprintf(")+
			c20StrLit+c20Q(", strings.Repeat(")+c20StrLit+c20Q(", fullSize), strings.Repeat(")+c20StrLit+c20Q(", emptySize)) } var buf strings.Builder buf.WriteString(")+c20StrLit+
			c20Q(") for i := 0; i < fullSize; i++ { color := p.colorA.BlendLuv(*p.colorB, float64(i)/float64(totalSize)) render := lipgloss.NewStyle().Foreground(lipgloss.Color(color.Hex())) buf.WriteString(render.Render(")+c20StrLit+
			c20Q(")) } buf.WriteString(strings.Repeat(")+c20StrLit+c20Q(", emptySize)) buf.WriteString(")+c20StrLit+c20Q(") return buf.String() }"))
	if m[4] != m[7] || m[5] != m[8] {
		die("progress.go: getProgressBar: plain and coloured bars use different cells")
	}
	full, empty := []rune(c20Str(m[4])), []rune(c20Str(m[5]))
	if len(full) != 1 || len(empty) != 1 {
		die("progress.go: getProgressBar: a bar cell is not a single rune")
	}
	o.defZ("progress_bar_min", c20Int(m[1]))
	o.defZ("progress_bar_brackets", c20Int(m[2]))
	o.defRunes("progress_bar_fmt", c20Str(m[3]))
	o.defN("progress_bar_full_rune", int64(full[0]))
	o.defN("progress_bar_empty_rune", int64(empty[0]))
	o.defRunes("progress_bar_open", c20Str(m[6]))
	o.defRunes("progress_bar_close", c20Str(m[9]))

	// ---- the session around the bar (filter.go): pinned, the model transcribes them by hand
	c20Match(s, "TrzszFilter.SetTerminalColumns", s.fn("TrzszFilter.SetTerminalColumns").Body,
		c20Q("{ filter.options.TerminalColumns = columns if progress := filter.progress.Load(); progress != nil { progress.setTerminalColumns(columns) } }"))
	m = c20Match(s, "TrzszFilter.createProgressBar", s.fn("TrzszFilter.createProgressBar").Body,
		c20Q("{ if quiet { filter.progress.Store(nil) return } colorPair := \"\" if color := filter.progressColorPair.Load(); color != nil { colorPair = *color } if tmuxPaneColumns > filter.options.TerminalColumns { tmuxPaneColumns = ")+`(\d+)`+
			c20Q(" } filter.progress.Store(newTextProgressBar(filter.clientOut, filter.options.TerminalColumns, tmuxPaneColumns, filter.trigger.tmuxPrefix, colorPair)) }"))
	o.defZ("progress_pane_ignored", c20Int(m[1]))
	c20Match(s, "TrzszFilter.resetProgressBar", s.fn("TrzszFilter.resetProgressBar").Body,
		c20Q("{ if progress := filter.progress.Load(); progress != nil { progress.showCursor() } filter.progress.Store(nil) }"))
	m = c20Match(s, "showCursor", s.fn("textProgressBar.showCursor").Body, c20Q("{ p.writeProgress(")+c20StrLit+c20Q(") }"))
	o.defRunes("progress_show_cursor", c20Str(m[1]))
	stopTxt := s.text(s.fn("TrzszFilter.confirmStopTransfer").Body)
	if !strings.Contains(stopTxt, "if progress := filter.progress.Load(); progress != nil { progress.setPause(true) defer func() { progress.setTerminalColumns(filter.options.TerminalColumns) progress.setPause(false) }() ") {
		die("filter.go: confirmStopTransfer no longer pauses the bar and restores the session width afterwards as expected:\n  have: %s", stopTxt)
	}
	for _, fn := range []string{"TrzszFilter.downloadFiles", "TrzszFilter.uploadFiles"} {
		txt := s.text(s.fn(fn).Body)
		if !strings.Contains(txt, "filter.createProgressBar(config.Quiet, config.TmuxPaneColumns) defer filter.resetProgressBar() ") ||
			!strings.Contains(txt, ", filter.progress.Load())") {
			die("filter.go: %s no longer creates/resets the progress bar around the transfer as expected:\n  have: %s", fn, txt)
		}
	}

	// ---- getProgressText
	body := s.fn("textProgressBar.getProgressText").Body.List
	if len(body) != 9 {
		die("progress.go: getProgressText: %d top-level statements, expected 9", len(body))
	}
	m = c20Match(s, "barMinLength", body[0], c20Q("const barMinLength = ")+`(\d+)`)
	o.defZ("progress_bar_min_length", c20Int(m[1]))
	c20Match(s, "left", body[1], c20Q("left := p.fileName"))
	m = c20Match(s, "multi-file prefix", body[2], c20Q("if p.fileCount > ")+`(\d+)`+c20Q(" { left = fmt.Sprintf(")+c20StrLit+c20Q(", p.fileIdx, p.fileCount, p.fileName) }"))
	o.defZ("progress_multi_threshold", c20Int(m[1]))
	o.defRunes("progress_multi_fmt", c20Str(m[2]))
	c20Match(s, "leftLength", body[3], c20Q("leftLength := runewidth.StringWidth(left)"))
	argIdx := map[string]int{"percentage": 0, "total": 1, "speed": 2, "eta": 3}
	type lstep struct {
		tag  int
		a, b int64
		f    string
		args []int64
	}
	var ladder []lstep
	setRight := func(what string, node ast.Node, define bool) {
		op := " = "
		if define {
			op = " := "
		}
		m := c20Match(s, what, node, c20Q("right"+op+"fmt.Sprintf(")+c20StrLit+`((?:, \w+)*)`+c20Q(")"))
		var args []int64
		for _, a := range strings.Split(m[2], ", ")[1:] {
			i, ok := argIdx[a]
			if !ok {
				die("progress.go: getProgressText: unknown field %s in %s", a, what)
			}
			args = append(args, int64(i))
		}
		ladder = append(ladder, lstep{tag: 2, f: c20Str(m[1]), args: args})
	}
	setRight("initial right", body[4], true)
	loop, ok := body[5].(*ast.ForStmt)
	if !ok || loop.Init != nil || loop.Cond != nil || loop.Post != nil {
		die("progress.go: getProgressText: statement 6 is not `for { ... }`")
	}
	checkTxt := "if int(p.columns.Load())-leftLength-len(right) >= barMinLength { break }"
	st := loop.Body.List
	for i := 0; i < len(st); i++ {
		txt := s.text(st[i])
		switch {
		case txt == checkTxt:
			ladder = append(ladder, lstep{tag: 0})
		case strings.HasPrefix(txt, "if leftLength > "):
			m := c20Match(s, "ellipsis step", st[i], c20Q("if leftLength > ")+`(\d+)`+c20Q(" { left, leftLength = getEllipsisString(left, ")+`(\d+)`+c20Q(") }"))
			ladder = append(ladder, lstep{tag: 1, a: c20Int(m[1]), b: c20Int(m[2])})
		case strings.HasPrefix(txt, "right = "):
			setRight("right step", st[i], false)
		case txt == `left = ""`:
			if i+1 >= len(st) || s.text(st[i+1]) != "leftLength = 0" {
				die("progress.go: getProgressText: `left = \"\"` not followed by `leftLength = 0`")
			}
			i++
			ladder = append(ladder, lstep{tag: 3})
		case txt == "break":
			if i != len(st)-1 {
				die("progress.go: getProgressText: unconditional break before the end of the ladder")
			}
		default:
			die("progress.go: getProgressText: unexpected ladder statement: %s", txt)
		}
	}
	if len(st) == 0 || s.text(st[len(st)-1]) != "break" {
		die("progress.go: getProgressText: the ladder does not end in `break`")
	}
	if b, ok := st[len(st)-1].(*ast.BranchStmt); !ok || b.Tok != token.BREAK || b.Label != nil {
		die("progress.go: getProgressText: last ladder statement")
	}
	c20Match(s, "barLength", body[6], c20Q("barLength := int(p.columns.Load()) - len(right)"))
	m = c20Match(s, "left separator", body[7], c20Q("if leftLength > 0 { barLength -= (leftLength + ")+`(\d+)`+c20Q(") left += ")+c20StrLit+c20Q(" }"))
	sep := c20Str(m[2])
	if int64(len(sep)) != c20Int(m[1]) {
		die("progress.go: getProgressText: separator %q but %s columns reserved", sep, m[1])
	}
	o.defRunes("progress_left_sep", sep)
	c20Match(s, "result", body[8], c20Q("return strings.TrimSpace(left + p.getProgressBar(barLength) + right)"))
	// steps: (tag, (a, b), (format, args)); tag 0 = width check (break), 1 = ellipsis if
	// leftLength > a to max b, 2 = right := Sprintf(format, fields...), 3 = drop the name
	o.raw("Definition progress_ladder : list (N * (Z * Z) * (list N * list N)) := [\n")
	for i, l := range ladder {
		sepr := ";"
		if i == len(ladder)-1 {
			sepr = ""
		}
		o.raw("  (%d, (%d, %d)%%Z, (%s, %s))%s\n", l.tag, l.a, l.b, runes(l.f), nlist(l.args), sepr)
	}
	o.raw("].\n")
	_ = fmt.Sprint
}
