package main

// C18 (pause/resume), second part: the goroutines around the pause machinery.
//
// Gen/Consts.v section "pause2": how many acknowledgements pipelineRecvAck ignores for the
// chunk-time statistics after an acknowledgement marked `pause` (kAckChanBufferSize + 2), the
// capacity of the receiver's ackChan.
// Gen/Skel_pause2.v: structural skeletons (same shape as Skel_pause.v, its own keep-words) of
//   pipelineRecvAck        one recvCheckV2 per ackChan entry; the release of the encoder during the
//                          buffer-size probing phase (`ignoreChunkTimeCount <= 0 || t.bufInitPhase.Load()`)
//   pipelineRecvFinalAck   the loop of recvCheckV2("SUCC") until step == size
//   pipelineRecvData       our data reader: recvCheckV2 via pipelineRecv*Data, length to ackChan
//   pipelineSendAck        checkStopAndPause("SUCC") in front of EVERY acknowledgement, the final loop
//                          with its 200 ms poll and ackImmediately
//   sendDataWriter.Write   the encoder waiting for bufInitCh while probing
//   sendFileMD5 / recvFileMD5   plain timed reads and ungated writes after the data phase

import (
	"fmt"
	"go/ast"
	"strings"
)

func init() {
	constGens["pause2"] = genPause2Consts
	fileGens["Skel_pause2.v"] = genPause2Skel
}

func genPause2Consts(s *src, o *out) {
	// ignoreChunkTimeCount = kAckChanBufferSize + 2
	var val int64 = -1
	n := 0
	ast.Inspect(s.fn("trzszTransfer.pipelineRecvAck").Body, func(x ast.Node) bool {
		if a, ok := x.(*ast.AssignStmt); ok && len(a.Lhs) == 1 && len(a.Rhs) == 1 && s.text(a.Lhs[0]) == "ignoreChunkTimeCount" && a.Tok.String() == "=" {
			val = s.evalInt(a.Rhs[0], nil, 0)
			n++
		}
		return true
	})
	if n != 1 || val < 0 {
		die("pause2: expected exactly one assignment `ignoreChunkTimeCount = <const>` in pipelineRecvAck, found %d", n)
	}
	o.defN("pause_ignore_chunk_count", val)
	// the receiver's ackChan: make(chan int, N)
	var capv int64 = -1
	ast.Inspect(s.fn("trzszTransfer.pipelineRecvData").Body, func(x ast.Node) bool {
		if a, ok := x.(*ast.AssignStmt); ok && len(a.Lhs) == 1 && len(a.Rhs) == 1 && s.text(a.Lhs[0]) == "ackChan" {
			if c, ok := a.Rhs[0].(*ast.CallExpr); ok && s.text(c.Fun) == "make" && len(c.Args) == 2 && s.text(c.Args[0]) == "chan int" {
				capv = s.evalInt(c.Args[1], nil, 0)
			}
		}
		return true
	})
	if capv < 0 {
		die("pause2: pipelineRecvData no longer makes ackChan as make(chan int, N)")
	}
	o.defN("pause_recv_ackchan_cap", capv)
}

var pause2SkelWords = []string{"pause", "ignoreChunkTimeCount", "bufInitPhase", "bufInitDone", "bufInitCh", "recvCheckV2",
	"pipelineRecvCurrentAck", "pipelineRecvFinalAck", "pipelineRecvBinaryData", "pipelineRecvBase64Data", "checkStopAndPause",
	"ackChan", "ackImmediatelyChan", "time.After", "savedSteps", "ctx.succ", "sendInteger", "writeAll", "recvBinary",
	"sendBinary", "checkBinary", "getNewTimeout", "step == size", "len(data) == 0", "ctx.Err()", "ctx.Done()", "deliver("}

func pause2Keep(txt string) bool {
	for _, w := range pause2SkelWords {
		if strings.Contains(txt, w) {
			return true
		}
	}
	return false
}

func (s *src) pause2SkelBlock(list []ast.Stmt) []string {
	var outl []string
	for _, st := range list {
		outl = append(outl, s.pause2SkelStmt(st)...)
	}
	return outl
}

func (s *src) pause2SkelStmt(st ast.Stmt) []string {
	switch n := st.(type) {
	case *ast.BlockStmt:
		return s.pause2SkelBlock(n.List)
	case *ast.ForStmt:
		cond := ""
		if n.Cond != nil {
			cond = s.text(n.Cond)
		}
		if n.Init != nil || n.Post != nil {
			cond = "<init/post> " + cond
		}
		return []string{fmt.Sprintf("SK %s %s", coqStr("for "+cond), skList(s.pause2SkelBlock(n.Body.List)))}
	case *ast.RangeStmt:
		return []string{fmt.Sprintf("SK %s %s", coqStr("range "+s.text(n.X)), skList(s.pause2SkelBlock(n.Body.List)))}
	case *ast.IfStmt:
		cond := s.text(n.Cond)
		if n.Init != nil {
			cond = s.text(n.Init) + "; " + cond
		}
		then := s.pause2SkelBlock(n.Body.List)
		var els []string
		if n.Else != nil {
			els = s.pause2SkelStmt(n.Else)
		}
		if !pause2Keep(cond) && len(then) == 0 && len(els) == 0 {
			return nil
		}
		if !pause2Keep(cond) {
			cond = "_"
		}
		kids := []string{fmt.Sprintf("SK \"then\" %s", skList(then))}
		if n.Else != nil {
			kids = append(kids, fmt.Sprintf("SK \"else\" %s", skList(els)))
		}
		return []string{fmt.Sprintf("SK %s %s", coqStr("if "+cond), skList(kids))}
	case *ast.SelectStmt:
		var arms []string
		for _, cl := range n.Body.List {
			cc := cl.(*ast.CommClause)
			comm := "default"
			if cc.Comm != nil {
				comm = s.text(cc.Comm)
			}
			arms = append(arms, fmt.Sprintf("SK %s %s", coqStr("case "+comm), skList(s.pause2SkelBlock(cc.Body))))
		}
		return []string{fmt.Sprintf("SK \"select\" %s", skList(arms))}
	case *ast.GoStmt:
		if fl, ok := n.Call.Fun.(*ast.FuncLit); ok {
			return []string{fmt.Sprintf("SK \"go func\" %s", skList(s.pause2SkelBlock(fl.Body.List)))}
		}
		return []string{fmt.Sprintf("SK %s []", coqStr(s.text(n)))}
	case *ast.ReturnStmt:
		if len(n.Results) == 0 {
			return []string{"SK \"return\" []"}
		}
		txt := s.text(n)
		if !pause2Keep(txt) {
			txt = "return _"
		}
		return []string{fmt.Sprintf("SK %s []", coqStr(txt))}
	case *ast.BranchStmt:
		return []string{fmt.Sprintf("SK %s []", coqStr(s.text(n)))}
	default:
		txt := s.text(st)
		if pause2Keep(txt) {
			return []string{fmt.Sprintf("SK %s []", coqStr(txt))}
		}
		return nil
	}
}

func genPause2Skel(s *src) string {
	var b strings.Builder
	b.WriteString("(* GENERATED by /verif/go/cmd/gen (pause2.go) from the current source of trzsz-go. Do not edit.\n")
	b.WriteString("   Structural skeleton of the goroutines around the pause machinery: who calls recvCheckV2 / the gate,\n")
	b.WriteString("   the release of the encoder in the probing phase, the final-ack loops, the plain reads after the data phase. *)\n")
	b.WriteString("From Coq Require Import List String.\nFrom Trzsz Require Import Gen.Skel_pause.\nImport ListNotations.\nOpen Scope string_scope.\n\n")
	for _, f := range []struct{ name, fn string }{
		{"skel_pipelineRecvAck", "trzszTransfer.pipelineRecvAck"},
		{"skel_pipelineRecvFinalAck", "trzszTransfer.pipelineRecvFinalAck"},
		{"skel_pipelineRecvData", "trzszTransfer.pipelineRecvData"},
		{"skel_pipelineSendAck", "trzszTransfer.pipelineSendAck"},
		{"skel_sendDataWriterWrite", "sendDataWriter.Write"},
		{"skel_sendFileMD5", "trzszTransfer.sendFileMD5"},
		{"skel_recvFileMD5", "trzszTransfer.recvFileMD5"},
	} {
		items := s.pause2SkelBlock(s.fn(f.fn).Body.List)
		fmt.Fprintf(&b, "Definition %s : list sk :=\n  [ %s ].\n\n", f.name, strings.Join(items, ";\n    "))
	}
	return b.String()
}
