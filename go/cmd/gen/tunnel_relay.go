package main

// C17 (relay part): constants of the relay's tunnel code in relay.go.

import (
	"go/ast"
	"go/token"
)

func init() { constGens["tunnelrelay"] = genTunnelRelay }

func c17rMakeSizes(s *src, body ast.Node, typ string) []int64 {
	var sizes []int64
	for _, c := range c17Calls(s, body, "make") {
		if len(c.Args) == 2 && s.text(c.Args[0]) == typ {
			sizes = append(sizes, s.evalInt(c.Args[1], nil, 0))
		}
	}
	return sizes
}

func genTunnelRelay(s *src, o *out) {
	// listenForTunnel: both arguments of the ReplaceAll are the same Sprintf format, applied to
	// (uniqueID, server port) and (uniqueID, relay port)
	lf := s.fn("TrzszRelay.listenForTunnel")
	ra := c17Calls(s, lf.Body, "bytes.ReplaceAll")
	if len(ra) != 1 || len(ra[0].Args) != 3 || s.text(ra[0].Args[0]) != "buf" {
		die("listenForTunnel: expected exactly one bytes.ReplaceAll(buf, old, new)")
	}
	var fmts []string
	wantArgs := [][2]string{{"r.trigger.uniqueID", "r.trigger.tunnelPort"}, {"r.trigger.uniqueID", "r.tunnelRelayPort"}}
	for i, a := range ra[0].Args[1:] {
		conv, ok := a.(*ast.CallExpr)
		if !ok || s.text(conv.Fun) != "[]byte" || len(conv.Args) != 1 {
			die("listenForTunnel: ReplaceAll argument %d is %q", i+1, s.text(a))
		}
		sp, ok := conv.Args[0].(*ast.CallExpr)
		if !ok || s.text(sp.Fun) != "fmt.Sprintf" || len(sp.Args) != 3 ||
			s.text(sp.Args[1]) != wantArgs[i][0] || s.text(sp.Args[2]) != wantArgs[i][1] {
			die("listenForTunnel: ReplaceAll argument %d is %q", i+1, s.text(a))
		}
		fmts = append(fmts, s.evalString(sp.Args[0]))
	}
	if fmts[0] != fmts[1] {
		die("listenForTunnel: the two formats differ: %q / %q", fmts[0], fmts[1])
	}
	o.defBytes("rtunnel_rewrite_fmt", fmts[0])

	// handleTunnelConn: one buffer for both single reads; which hello comes from which port
	h := s.fn("TrzszRelay.handleTunnelConn")
	sz := c17rMakeSizes(s, h.Body, "[]byte")
	if len(sz) != 1 {
		die("handleTunnelConn: expected exactly one make([]byte, n), found %v", sz)
	}
	o.defN("rtunnel_hello_read_size", sz[0])
	nHello := 0
	for _, st := range h.Body.List {
		as, ok := st.(*ast.AssignStmt)
		if !ok || as.Tok != token.DEFINE || len(as.Rhs) != 1 {
			continue
		}
		c, ok := as.Rhs[0].(*ast.CallExpr)
		if !ok || s.text(c.Fun) != "getHelloConstant" {
			continue
		}
		nHello++
		got := s.text(as.Lhs[0]) + "," + s.text(as.Lhs[1]) + "<-" + s.text(c.Args[0]) + "," + s.text(c.Args[1])
		switch got {
		case "clientHello1,serverHello4<-r.trigger.uniqueID,r.tunnelRelayPort",
			"clientHello2,serverHello3<-r.trigger.uniqueID,r.trigger.tunnelPort":
		default:
			die("handleTunnelConn: unexpected hello derivation %q", got)
		}
	}
	if nHello != 2 {
		die("handleTunnelConn: expected two getHelloConstant calls, found %d", nHello)
	}

	// newTunnelRelay: the two channel capacities
	caps := c17rMakeSizes(s, s.fn("newTunnelRelay").Body, "chan []byte")
	if len(caps) != 2 || caps[0] != caps[1] {
		die("newTunnelRelay: expected two make(chan []byte, n) of equal capacity, found %v", caps)
	}
	o.defN("rtunnel_chan_cap", caps[0])

	// the pumps: buffer size and the poll interval of the wait-for-reset loop
	var pump, wait int64 = -1, -1
	for _, fn := range []string{"tunnelRelay.wrapInput", "tunnelRelay.wrapOutput"} {
		f := s.fn(fn)
		ps := c17rMakeSizes(s, f.Body, "[]byte")
		if len(ps) != 1 || (pump >= 0 && ps[0] != pump) {
			die("%s: expected one make([]byte, n) equal in both pumps, found %v", fn, ps)
		}
		pump = ps[0]
		sl := c17Calls(s, f.Body, "time.Sleep")
		if len(sl) != 1 || len(sl[0].Args) != 1 {
			die("%s: expected exactly one time.Sleep", fn)
		}
		w := s.evalInt(sl[0].Args[0], nil, 0)
		if wait >= 0 && w != wait {
			die("%s: the two pumps sleep differently", fn)
		}
		wait = w
	}
	o.defN("rtunnel_pump_bufsize", pump)
	o.defN("rtunnel_wait_ms", wait)
}
