package main

import (
	"go/ast"
	"go/token"
)

func init() { constGens["archive"] = genArchive }

// genArchive reads archive.go:
//   - the byte the reader appends to every header        (archiveFileReader.Read)
//   - the byte the writer splits headers at              (archiveFileWriter.Write)
//   - the per-entry constant added to the announced size (newArchiveReader)
//   - what Write adds to the header index when it reports the consumed count
func genArchive(s *src, o *out) {
	// reader: f.buf = append([]byte(f.src.Header), '\n')
	nl := int64(-1)
	ast.Inspect(s.fn("archiveFileReader.Read").Body, func(n ast.Node) bool {
		as, ok := n.(*ast.AssignStmt)
		if !ok || len(as.Lhs) != 1 || len(as.Rhs) != 1 || s.text(as.Lhs[0]) != "f.buf" {
			return true
		}
		call, ok := as.Rhs[0].(*ast.CallExpr)
		if !ok || s.text(call.Fun) != "append" || len(call.Args) != 2 || s.text(call.Args[0]) != "[]byte(f.src.Header)" {
			return true
		}
		if nl >= 0 {
			die("archiveFileReader.Read: more than one header append")
		}
		nl = s.evalInt(call.Args[1], nil, 0)
		return true
	})
	if nl < 0 {
		die("archiveFileReader.Read: `f.buf = append([]byte(f.src.Header), <byte>)` not found")
	}
	o.defN("archive_newline", nl)

	// writer: idx := bytes.IndexByte(p, '\n')  ...  return idx + 1, nil
	split, extra := int64(-1), int64(-1)
	ast.Inspect(s.fn("archiveFileWriter.Write").Body, func(n ast.Node) bool {
		switch n := n.(type) {
		case *ast.CallExpr:
			if s.text(n.Fun) == "bytes.IndexByte" && len(n.Args) == 2 && s.text(n.Args[0]) == "p" {
				if split >= 0 {
					die("archiveFileWriter.Write: more than one bytes.IndexByte")
				}
				split = s.evalInt(n.Args[1], nil, 0)
			}
		case *ast.ReturnStmt:
			if len(n.Results) == 2 && s.text(n.Results[1]) == "nil" {
				if b, ok := n.Results[0].(*ast.BinaryExpr); ok && b.Op == token.ADD && s.text(b.X) == "idx" {
					extra = s.evalInt(b.Y, nil, 0)
				} else if s.text(n.Results[0]) == "idx" {
					extra = 0
				}
			}
		}
		return true
	})
	if split < 0 || extra < 0 {
		die("archiveFileWriter.Write has an unexpected shape (split=%d extra=%d)", split, extra)
	}
	o.defN("archive_split_byte", split)
	o.defN("archive_write_extra", extra)

	// newArchiveReader: size += int64(len(file.Header)) + 1
	hx := int64(-1)
	ast.Inspect(s.fn("trzszTransfer.newArchiveReader").Body, func(n ast.Node) bool {
		as, ok := n.(*ast.AssignStmt)
		if !ok || as.Tok != token.ADD_ASSIGN || len(as.Rhs) != 1 || s.text(as.Lhs[0]) != "size" {
			return true
		}
		if s.text(as.Rhs[0]) == "int64(len(file.Header))" {
			hx = 0
		} else if b, ok := as.Rhs[0].(*ast.BinaryExpr); ok && b.Op == token.ADD && s.text(b.X) == "int64(len(file.Header))" {
			hx = s.evalInt(b.Y, nil, 0)
		}
		return true
	})
	if hx < 0 {
		die("newArchiveReader: `size += int64(len(file.Header)) + <n>` not found")
	}
	o.defN("archive_header_extra", hx)
}
