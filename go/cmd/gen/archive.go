package main

import (
	"go/ast"
	"go/token"
	"strings"
)

func init() { constGens["archive"] = genArchive }

// genArchive reads archive.go:
//   - the byte the reader appends to every header        (archiveFileReader.Read)
//   - the byte the writer splits headers at              (archiveFileWriter.Write)
//   - the per-entry constant added to the announced size (newArchiveReader)
//   - what Write adds to the header index when it reports the consumed count
func genArchive(s *src, o *out) {
	// reader: f.buf = append([]byte(f.src.Header), '\n')
	nl := int64(-1)
	ast.Inspect(s.fn("archiveFileReader.Read").Body, func(n ast.Node) bool {
		as, ok := n.(*ast.AssignStmt)
		if !ok || len(as.Lhs) != 1 || len(as.Rhs) != 1 || s.text(as.Lhs[0]) != "f.buf" {
			return true
		}
		call, ok := as.Rhs[0].(*ast.CallExpr)
		if !ok || s.text(call.Fun) != "append" || len(call.Args) != 2 || s.text(call.Args[0]) != "[]byte(f.src.Header)" {
			return true
		}
		if nl >= 0 {
			die("archiveFileReader.Read: more than one header append")
		}
		nl = s.evalInt(call.Args[1], nil, 0)
		return true
	})
	if nl < 0 {
		die("archiveFileReader.Read: `f.buf = append([]byte(f.src.Header), <byte>)` not found")
	}
	o.defN("archive_newline", nl)

	// writer: idx := bytes.IndexByte(p, '\n')  ...  return idx + 1, nil
	split, extra := int64(-1), int64(-1)
	ast.Inspect(s.fn("archiveFileWriter.Write").Body, func(n ast.Node) bool {
		switch n := n.(type) {
		case *ast.CallExpr:
			if s.text(n.Fun) == "bytes.IndexByte" && len(n.Args) == 2 && s.text(n.Args[0]) == "p" {
				if split >= 0 {
					die("archiveFileWriter.Write: more than one bytes.IndexByte")
				}
				split = s.evalInt(n.Args[1], nil, 0)
			}
		case *ast.ReturnStmt:
			if len(n.Results) == 2 && s.text(n.Results[1]) == "nil" {
				if b, ok := n.Results[0].(*ast.BinaryExpr); ok && b.Op == token.ADD && s.text(b.X) == "idx" {
					extra = s.evalInt(b.Y, nil, 0)
				} else if s.text(n.Results[0]) == "idx" {
					extra = 0
				}
			}
		}
		return true
	})
	if split < 0 || extra < 0 {
		die("archiveFileWriter.Write has an unexpected shape (split=%d extra=%d)", split, extra)
	}
	o.defN("archive_split_byte", split)
	o.defN("archive_write_extra", extra)

	// newArchiveReader: size += int64(len(file.Header)) + 1
	hx := int64(-1)
	ast.Inspect(s.fn("trzszTransfer.newArchiveReader").Body, func(n ast.Node) bool {
		as, ok := n.(*ast.AssignStmt)
		if !ok || as.Tok != token.ADD_ASSIGN || len(as.Rhs) != 1 || s.text(as.Lhs[0]) != "size" {
			return true
		}
		if s.text(as.Rhs[0]) == "int64(len(file.Header))" {
			hx = 0
		} else if b, ok := as.Rhs[0].(*ast.BinaryExpr); ok && b.Op == token.ADD && s.text(b.X) == "int64(len(file.Header))" {
			hx = s.evalInt(b.Y, nil, 0)
		}
		return true
	})
	if hx < 0 {
		die("newArchiveReader: `size += int64(len(file.Header)) + <n>` not found")
	}
	o.defN("archive_header_extra", hx)
}

func init() { constGens["archive_mode"] = genArchiveMode }

// c15LenGt reads a comparison `len(<x>) > N` (also `>= N`, `!= 0`) and returns the value K
// such that the comparison means len > K.
func c15LenGt(s *src, e ast.Expr, lenOf string, where string) int64 {
	b, ok := e.(*ast.BinaryExpr)
	if !ok || s.text(b.X) != "len("+lenOf+")" {
		die("%s: expected a comparison of len(%s), found `%s`", where, lenOf, s.text(e))
	}
	n := s.evalInt(b.Y, nil, 0)
	switch b.Op {
	case token.GTR:
		return n
	case token.GEQ:
		if n >= 1 {
			return n - 1
		}
	case token.NEQ:
		if n == 0 {
			return 0
		}
	}
	die("%s: comparison `%s` is not of the form len > K", where, s.text(e))
	return 0
}

// genArchiveMode reads who decides that a root travels as an archive stream:
//   - archiveSourceFiles (archive.go): when the scan list is grouped at all
//   - marshalSourceFile (comm.go): the `archive` flag of the NAME record
//   - sendFileNameV3 (append.go): when the sender creates the archive reader
//   - createDirOrFile / newArchiveWriter (transfer.go, archive.go): what the receiver does with the flag
func genArchiveMode(s *src, o *out) {
	// archiveSourceFiles: if t.transferConfig.Overwrite || t.transferConfig.Protocol < kProtocolVersion4 || len(sourceFiles) == 0 { return sourceFiles }
	minProto := int64(-1)
	f := s.fn("trzszTransfer.archiveSourceFiles")
	if len(f.Body.List) > 0 {
		if is, ok := f.Body.List[0].(*ast.IfStmt); ok {
			want := "t.transferConfig.Overwrite || t.transferConfig.Protocol < kProtocolVersion4 || len(sourceFiles) == 0"
			if s.text(is.Cond) == want && len(is.Body.List) == 1 && s.text(is.Body.List[0]) == "return sourceFiles" {
				minProto = s.evalInt(s.consts["kProtocolVersion4"], nil, 0)
			}
		}
	}
	if minProto < 0 {
		die("archiveSourceFiles: the guard `Overwrite || Protocol < kProtocolVersion4 || len == 0 -> unchanged` has changed")
	}
	o.defN("archive_min_protocol", minProto)

	// marshalSourceFile: f.Archive = len(f.SubFiles) > K
	flagGt := int64(-1)
	ast.Inspect(s.fn("sourceFile.marshalSourceFile").Body, func(n ast.Node) bool {
		as, ok := n.(*ast.AssignStmt)
		if ok && len(as.Lhs) == 1 && len(as.Rhs) == 1 && s.text(as.Lhs[0]) == "f.Archive" {
			if flagGt >= 0 {
				die("marshalSourceFile: f.Archive assigned twice")
			}
			flagGt = c15LenGt(s, as.Rhs[0], "f.SubFiles", "marshalSourceFile")
		}
		return true
	})
	if flagGt < 0 {
		die("marshalSourceFile: `f.Archive = len(f.SubFiles) > K` not found")
	}
	o.defN("archive_flag_gt", flagGt)

	// sendFileNameV3: if len(srcFile.SubFiles) > K { file, err := t.newArchiveReader(srcFile) ... }  before  if srcFile.IsDir
	sendGt, sendOrder := int64(-1), false
	seenArchive := false
	for _, st := range s.fn("trzszTransfer.sendFileNameV3").Body.List {
		is, ok := st.(*ast.IfStmt)
		if !ok || is.Init != nil {
			continue
		}
		if b, ok := is.Cond.(*ast.BinaryExpr); ok && s.text(b.X) == "len(srcFile.SubFiles)" {
			if len(is.Body.List) == 0 || s.text(is.Body.List[0]) != "file, err := t.newArchiveReader(srcFile)" {
				die("sendFileNameV3: the branch on len(srcFile.SubFiles) no longer opens the archive reader")
			}
			sendGt = c15LenGt(s, is.Cond, "srcFile.SubFiles", "sendFileNameV3")
			seenArchive = true
		} else if s.text(is.Cond) == "srcFile.IsDir" {
			sendOrder = seenArchive
		}
	}
	if sendGt < 0 || !sendOrder {
		die("sendFileNameV3: expected `if len(srcFile.SubFiles) > K {archive reader}` followed by `if srcFile.IsDir {no data}`")
	}
	o.defN("archive_send_gt", sendGt)

	// sendFiles: if t.transferConfig.Protocol >= kProtocolVersion3 { ... t.sendFileNameV3(...) } else { ... t.sendFileName(...) }
	v3 := int64(-1)
	ast.Inspect(s.fn("trzszTransfer.sendFiles").Body, func(n ast.Node) bool {
		is, ok := n.(*ast.IfStmt)
		if ok && s.text(is.Cond) == "t.transferConfig.Protocol >= kProtocolVersion3" && len(is.Body.List) == 1 &&
			s.text(is.Body.List[0]) == "file, remoteName, err = t.sendFileNameV3(srcFile, progress)" {
			if eb, ok := is.Else.(*ast.BlockStmt); ok && len(eb.List) == 1 && s.text(eb.List[0]) == "file, remoteName, err = t.sendFileName(srcFile, progress)" {
				v3 = s.evalInt(s.consts["kProtocolVersion3"], nil, 0)
			}
		}
		return true
	})
	if v3 < 0 {
		die("sendFiles: the choice between sendFileNameV3 (protocol >= 3) and sendFileName has changed")
	}
	o.defN("archive_v3_protocol", v3)

	// legacy sendFileName (protocol < 3) never streams an archive: it must not mention SubFiles
	if f := s.fn("trzszTransfer.sendFileName"); f != nil {
		ast.Inspect(f.Body, func(n ast.Node) bool {
			if id, ok := n.(*ast.Ident); ok && id.Name == "SubFiles" {
				die("sendFileName (legacy) now looks at SubFiles: the archive-mode model no longer covers it")
			}
			return true
		})
	}

	// createDirOrFile: `if srcFile.Archive { newArchiveWriter }` comes before `if srcFile.IsDir { directory, no file }`
	flagFirst := false
	seenFlag := false
	for _, st := range s.fn("trzszTransfer.createDirOrFile").Body.List {
		is, ok := st.(*ast.IfStmt)
		if !ok {
			continue
		}
		switch s.text(is.Cond) {
		case "srcFile.Archive":
			if len(is.Body.List) == 0 || s.text(is.Body.List[0]) != "file, err := t.newArchiveWriter(path, srcFile, fullPath)" {
				die("createDirOrFile: the Archive branch no longer opens the archive writer")
			}
			seenFlag = true
		case "srcFile.IsDir":
			flagFirst = seenFlag
		}
	}
	if !flagFirst {
		die("createDirOrFile: expected `if srcFile.Archive {...}` before `if srcFile.IsDir {...}`")
	}
	// newArchiveWriter refuses a record that is flagged archive but is not a directory
	needDir := int64(0)
	if l := s.fn("trzszTransfer.newArchiveWriter").Body.List; len(l) > 0 {
		if is, ok := l[0].(*ast.IfStmt); ok && s.text(is.Cond) == "!srcFile.IsDir" {
			needDir = 1
		}
	}
	o.defN("archive_writer_needs_dir", needDir)
}

func init() { constGens["archive_stream"] = genArchiveStream }

// c15IfaceMethodResult returns the text of the single result type of method m of interface iface.
func c15IfaceMethodResult(s *src, iface, m string) string {
	res := ""
	for _, f := range s.files {
		ast.Inspect(f, func(n ast.Node) bool {
			ts, ok := n.(*ast.TypeSpec)
			if !ok || ts.Name.Name != iface {
				return true
			}
			it, ok := ts.Type.(*ast.InterfaceType)
			if !ok {
				return false
			}
			for _, fld := range it.Methods.List {
				if len(fld.Names) == 1 && fld.Names[0].Name == m {
					if ft, ok := fld.Type.(*ast.FuncType); ok && ft.Results != nil && len(ft.Results.List) == 1 {
						res = s.text(ft.Results.List[0].Type)
					}
				}
			}
			return false
		})
	}
	return res
}

// genArchiveStream reads what the layers above see of an archive stream as a source file:
//   - archiveFileReader.getFile: there is no underlying file (`return nil`)
//   - isCompressionProfitable: `file := reader.getFile(); if file == nil { return <b>, nil }` -
//     the guard fires for the archive reader's nil *os.File only if the compared variable has
//     the pointer type; a variable of an interface type holding that nil pointer is != nil
func genArchiveStream(s *src, o *out) {
	gf := s.fn("archiveFileReader.getFile")
	if len(gf.Body.List) != 1 || s.text(gf.Body.List[0]) != "return nil" {
		die("archiveFileReader.getFile no longer is `return nil`: the archive reader has an underlying file and the compression probe would read it (not modelled)")
	}
	if gf.Type.Results == nil || len(gf.Type.Results.List) != 1 {
		die("archiveFileReader.getFile: unexpected result list")
	}
	concrete := s.text(gf.Type.Results.List[0].Type)
	o.raw("Definition archive_reader_file_nil : bool := true.\n")

	body := s.fn("isCompressionProfitable").Body.List
	if len(body) < 2 {
		die("isCompressionProfitable: too short")
	}
	varType := ""
	switch st := body[0].(type) {
	case *ast.AssignStmt:
		if st.Tok == token.DEFINE && len(st.Lhs) == 1 && s.text(st.Lhs[0]) == "file" && len(st.Rhs) == 1 && s.text(st.Rhs[0]) == "reader.getFile()" {
			varType = c15IfaceMethodResult(s, "fileReader", "getFile")
		}
	case *ast.DeclStmt:
		if gd, ok := st.Decl.(*ast.GenDecl); ok && gd.Tok == token.VAR && len(gd.Specs) == 1 {
			vs := gd.Specs[0].(*ast.ValueSpec)
			if len(vs.Names) == 1 && vs.Names[0].Name == "file" && len(vs.Values) == 1 && s.text(vs.Values[0]) == "reader.getFile()" {
				if vs.Type != nil {
					varType = s.text(vs.Type)
				} else {
					varType = c15IfaceMethodResult(s, "fileReader", "getFile")
				}
			}
		}
	}
	if varType == "" {
		die("isCompressionProfitable: expected `file := reader.getFile()` (or a var declaration of it) as the first statement, found `%s`", s.text(body[0]))
	}
	is, ok := body[1].(*ast.IfStmt)
	if !ok || s.text(is.Cond) != "file == nil" || len(is.Body.List) != 1 {
		die("isCompressionProfitable: expected `if file == nil { return <bool>, nil }` as the second statement, found `%s`", s.text(body[1]))
	}
	ret, ok := is.Body.List[0].(*ast.ReturnStmt)
	if !ok || len(ret.Results) != 2 || s.text(ret.Results[1]) != "nil" || (s.text(ret.Results[0]) != "true" && s.text(ret.Results[0]) != "false") {
		die("isCompressionProfitable: the no-file guard returns `%s`", s.text(is.Body.List[0]))
	}
	// `file == nil` is true for the archive reader's nil pointer iff `file` has that pointer type
	fires := varType == concrete && strings.HasPrefix(concrete, "*")
	o.raw("Definition archive_probe_guard_fires : bool := %v.\n", fires)
	o.raw("Definition archive_probe_nofile_compress : bool := %s.\n", s.text(ret.Results[0]))
}
