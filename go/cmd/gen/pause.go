package main

// C18 (pause/resume): constants of the pause machinery and the structural skeleton of
// recvCheckV2, checkStopAndPause, sendDataV2 (its gate), nextBuffer, readLine's timer set-up,
// pauseTransferringFiles, resumeTransferringFiles and getNewTimeout.
//
// Gen/Consts.v section "pause": sleeps, the final-ack poll, the ack window, the protocol
// threshold, the keep-alive payload as written and as tested, the timeout unit.
// Gen/Skel_pause.v: one term per function, keeping control structure (for / if / select /
// return / continue) and the statements that touch the pause state, the timers, the stop
// check, sleeping, reading and writing; everything else (parsing, logging, arithmetic on
// other variables) is dropped, so a harmless rewrite leaves the file byte-identical.

import (
	"fmt"
	"go/ast"
	"go/token"
	"strings"
)

func init() {
	constGens["pause"] = genPauseConsts
	fileGens["Skel_pause.v"] = genPauseSkel
}

// pauseSleepIn returns the argument (in ms) of the single time.Sleep / time.After call in n.
func (s *src) pauseSleepIn(n ast.Node, fn string, what string) int64 {
	var vals []int64
	ast.Inspect(n, func(x ast.Node) bool {
		if c, ok := x.(*ast.CallExpr); ok {
			if sel, ok := c.Fun.(*ast.SelectorExpr); ok {
				if id, ok := sel.X.(*ast.Ident); ok && id.Name == "time" && sel.Sel.Name == fn && len(c.Args) == 1 {
					vals = append(vals, s.evalInt(c.Args[0], nil, 0))
				}
			}
		}
		return true
	})
	if len(vals) != 1 {
		die("pause: expected exactly one time.%s in %s, found %d", fn, what, len(vals))
	}
	return vals[0]
}

func genPauseConsts(s *src, o *out) {
	gate := s.fn("trzszTransfer.checkStopAndPause")
	rd := s.fn("trzszTransfer.recvCheckV2")
	o.defN("pause_gate_sleep_ms", s.pauseSleepIn(gate.Body, "Sleep", "checkStopAndPause"))
	o.defN("pause_reader_sleep_ms", s.pauseSleepIn(rd.Body, "Sleep", "recvCheckV2"))
	o.defN("pause_final_ack_poll_ms", s.pauseSleepIn(s.fn("trzszTransfer.pipelineSendAck").Body, "After", "pipelineSendAck"))
	o.defN("pause_ack_window", s.evalInt(s.consts["kAckChanBufferSize"], nil, 0))
	o.defN("pause_protocol3", s.evalInt(s.consts["kProtocolVersion3"], nil, 0))

	// the ack channel of pipelineSendData really has that capacity
	found := false
	ast.Inspect(s.fn("trzszTransfer.pipelineSendData").Body, func(x ast.Node) bool {
		if a, ok := x.(*ast.AssignStmt); ok && len(a.Lhs) == 1 && len(a.Rhs) == 1 && s.text(a.Lhs[0]) == "ackChan" {
			if s.text(a.Rhs[0]) == "make(chan trzszAck, kAckChanBufferSize)" {
				found = true
			}
		}
		return true
	})
	if !found {
		die("pause: pipelineSendData no longer makes ackChan with capacity kAckChanBufferSize")
	}

	// keep-alive as WRITTEN: the format string of the gate, "#%s:" + payload + "%s"
	var fmts []string
	ast.Inspect(gate.Body, func(x ast.Node) bool {
		if c, ok := x.(*ast.CallExpr); ok && s.text(c.Fun) == "fmt.Sprintf" && len(c.Args) >= 1 {
			fmts = append(fmts, s.evalString(c.Args[0]))
			if len(c.Args) != 3 || s.text(c.Args[1]) != "typ" || s.text(c.Args[2]) != "t.transferConfig.Newline" {
				die("pause: keep-alive Sprintf has unexpected arguments: %s", s.text(c))
			}
		}
		return true
	})
	if len(fmts) != 1 || !strings.HasPrefix(fmts[0], "#%s:") || !strings.HasSuffix(fmts[0], "%s") || len(fmts[0]) < 6 {
		die("pause: keep-alive format string has an unexpected shape: %q", fmts)
	}
	o.defBytes("pause_keepalive_written", fmts[0][4:len(fmts[0])-2])

	// keep-alive as TESTED by the reader: `len(buf) == N && buf[0] == 'c'`, and the colon it splits at
	var kaLen, kaChar, colon int64 = -1, -1, -1
	ast.Inspect(rd.Body, func(x ast.Node) bool {
		switch n := x.(type) {
		case *ast.BinaryExpr:
			if n.Op == token.EQL && s.text(n.X) == "len(buf)" {
				kaLen = s.evalInt(n.Y, nil, 0)
			}
			if n.Op == token.EQL && s.text(n.X) == "buf[0]" {
				kaChar = s.evalInt(n.Y, nil, 0)
			}
		case *ast.CallExpr:
			if s.text(n.Fun) == "bytes.IndexByte" && len(n.Args) == 2 && s.text(n.Args[0]) == "line" {
				colon = s.evalInt(n.Args[1], nil, 0)
			}
		}
		return true
	})
	if kaLen != 1 || kaChar < 0 || colon < 0 {
		die("pause: recvCheckV2 keep-alive test has an unexpected shape (len=%d char=%d colon=%d)", kaLen, kaChar, colon)
	}
	o.raw("Definition pause_keepalive_tested : list N := %s.\n", nlist([]int64{kaChar}))
	o.defN("pause_colon", colon)

	// getNewTimeout: Timeout (an int) times this many ms; <= 0 means a nil channel
	gt := s.fn("trzszTransfer.getNewTimeout")
	want := "if t.transferConfig.Timeout > 0 { return time.NewTimer(time.Duration(t.transferConfig.Timeout) * time.Second).C }"
	if len(gt.Body.List) != 2 || s.text(gt.Body.List[0]) != want || s.text(gt.Body.List[1]) != "return nil" {
		die("pause: getNewTimeout has an unexpected shape: %s", s.text(gt.Body))
	}
	o.defN("pause_timeout_unit_ms", 1000)
}

// ---- skeleton ----

var pauseSkelWords = []string{"pauseIdx", "pausing", "pause ", "pause=", "checkStop", "Sleep", "recvLine", "getNewTimeout",
	"setNewTimeout", "writeAll", "timeout", "newTimeout", "Timeout", "resumeBeginTime", "pauseBeginTime", "beginTime",
	"bufCh", "stopCh", "nextBuf ", "nextBuffer", "checkStopAndPause", "errReceiveDataTimeout", "errStopped",
	"Protocol", "buf[0]", "err != nil", "expectType"}

func pauseKeep(txt string) bool {
	for _, w := range pauseSkelWords {
		if strings.Contains(txt, w) {
			return true
		}
	}
	return false
}

func coqStr(t string) string { return "\"" + strings.ReplaceAll(t, "\"", "\"\"") + "\"" }

func skList(items []string) string { return "[" + strings.Join(items, "; ") + "]" }

func (s *src) pauseSkelBlock(list []ast.Stmt) []string {
	var outl []string
	for _, st := range list {
		outl = append(outl, s.pauseSkelStmt(st)...)
	}
	return outl
}

func (s *src) pauseSkelStmt(st ast.Stmt) []string {
	switch n := st.(type) {
	case *ast.BlockStmt:
		return s.pauseSkelBlock(n.List)
	case *ast.ForStmt:
		cond := ""
		if n.Cond != nil {
			cond = s.text(n.Cond)
		}
		if n.Init != nil || n.Post != nil {
			cond = "<init/post> " + cond
		}
		return []string{fmt.Sprintf("SK %s %s", coqStr("for "+cond), skList(s.pauseSkelBlock(n.Body.List)))}
	case *ast.RangeStmt:
		return []string{fmt.Sprintf("SK %s %s", coqStr("range "+s.text(n.X)), skList(s.pauseSkelBlock(n.Body.List)))}
	case *ast.IfStmt:
		cond := s.text(n.Cond)
		if n.Init != nil {
			cond = s.text(n.Init) + "; " + cond
		}
		then := s.pauseSkelBlock(n.Body.List)
		var els []string
		if n.Else != nil {
			els = s.pauseSkelStmt(n.Else)
		}
		if !pauseKeep(cond) && len(then) == 0 && len(els) == 0 {
			return nil
		}
		if !pauseKeep(cond) {
			cond = "_"
		}
		kids := []string{fmt.Sprintf("SK \"then\" %s", skList(then))}
		if n.Else != nil {
			kids = append(kids, fmt.Sprintf("SK \"else\" %s", skList(els)))
		}
		return []string{fmt.Sprintf("SK %s %s", coqStr("if "+cond), skList(kids))}
	case *ast.SelectStmt:
		var arms []string
		for _, cl := range n.Body.List {
			cc := cl.(*ast.CommClause)
			comm := "default"
			if cc.Comm != nil {
				comm = s.text(cc.Comm)
			}
			arms = append(arms, fmt.Sprintf("SK %s %s", coqStr("case "+comm), skList(s.pauseSkelBlock(cc.Body))))
		}
		return []string{fmt.Sprintf("SK \"select\" %s", skList(arms))}
	case *ast.ReturnStmt:
		return []string{fmt.Sprintf("SK %s []", coqStr(s.text(n)))}
	case *ast.BranchStmt:
		return []string{fmt.Sprintf("SK %s []", coqStr(s.text(n)))}
	default:
		txt := s.text(st)
		if pauseKeep(txt) {
			return []string{fmt.Sprintf("SK %s []", coqStr(txt))}
		}
		return nil
	}
}

func genPauseSkel(s *src) string {
	var b strings.Builder
	b.WriteString("(* GENERATED by /verif/go/cmd/gen (pause.go) from the current source of trzsz-go. Do not edit.\n")
	b.WriteString("   Structural skeleton of the pause/resume machinery: control structure plus the statements that touch the\n")
	b.WriteString("   pause state, the read timers, the stop check, sleeping, reading and writing. *)\n")
	b.WriteString("From Coq Require Import List String.\nImport ListNotations.\nOpen Scope string_scope.\n\n")
	b.WriteString("Inductive sk := SK (what : string) (kids : list sk).\n\n")
	for _, f := range []struct{ name, fn string }{
		{"skel_recvCheckV2", "trzszTransfer.recvCheckV2"},
		{"skel_checkStopAndPause", "trzszTransfer.checkStopAndPause"},
		{"skel_sendDataV2", "trzszTransfer.sendDataV2"},
		{"skel_nextBuffer", "trzszBuffer.nextBuffer"},
		{"skel_readLine", "trzszBuffer.readLine"},
		{"skel_pause", "trzszTransfer.pauseTransferringFiles"},
		{"skel_resume", "trzszTransfer.resumeTransferringFiles"},
		{"skel_recvLine", "trzszTransfer.recvLine"},
	} {
		items := s.pauseSkelBlock(s.fn(f.fn).Body.List)
		fmt.Fprintf(&b, "Definition %s : list sk :=\n  [ %s ].\n\n", f.name, strings.Join(items, ";\n    "))
	}
	return b.String()
}
