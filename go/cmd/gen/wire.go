package main

import (
	"go/ast"
	"go/token"
)

func init() { constGens["wire"] = genWire }

// wireSprintfFormats returns the format strings of every fmt.Sprintf call in fn, in source order.
func wireSprintfFormats(s *src, fn string) []string {
	var out []string
	ast.Inspect(s.fn(fn).Body, func(n ast.Node) bool {
		if c, ok := n.(*ast.CallExpr); ok {
			if sel, ok := c.Fun.(*ast.SelectorExpr); ok && sel.Sel.Name == "Sprintf" && len(c.Args) >= 1 {
				if x, ok := sel.X.(*ast.Ident); ok && x.Name == "fmt" {
					out = append(out, s.evalString(c.Args[0]))
				}
			}
		}
		return true
	})
	return out
}

// wireByteLiterals returns the strings of every []byte("...") conversion of a literal in fn.
func wireByteLiterals(s *src, fn string) []string {
	var out []string
	ast.Inspect(s.fn(fn).Body, func(n ast.Node) bool {
		if c, ok := n.(*ast.CallExpr); ok && len(c.Args) == 1 {
			if at, ok := c.Fun.(*ast.ArrayType); ok && at.Len == nil {
				if id, ok := at.Elt.(*ast.Ident); ok && id.Name == "byte" {
					if lit, ok := c.Args[0].(*ast.BasicLit); ok && lit.Kind == token.STRING {
						out = append(out, s.evalString(lit))
					}
				}
			}
		}
		return true
	})
	return out
}

// wireMakeSizes returns the length argument of every make([]byte, n) with a constant n in fn.
func wireMakeSizes(s *src, fn string) []int64 {
	var out []int64
	ast.Inspect(s.fn(fn).Body, func(n ast.Node) bool {
		if c, ok := n.(*ast.CallExpr); ok && len(c.Args) == 2 {
			if id, ok := c.Fun.(*ast.Ident); ok && id.Name == "make" {
				if at, ok := c.Args[0].(*ast.ArrayType); ok && at.Len == nil {
					if el, ok := at.Elt.(*ast.Ident); ok && el.Name == "byte" {
						if _, isBin := c.Args[1].(*ast.BinaryExpr); isBin {
							out = append(out, s.evalInt(c.Args[1], nil, 0))
						} else if _, isLit := c.Args[1].(*ast.BasicLit); isLit {
							out = append(out, s.evalInt(c.Args[1], nil, 0))
						}
					}
				}
			}
		}
		return true
	})
	return out
}

func wireOne(what string, xs []string, n int) string {
	if len(xs) != n {
		die("%s: expected %d literal(s), found %d: %q", what, n, len(xs), xs)
	}
	return xs[0]
}

// genWire reads the character classes of isTrzszLetter, the line formats of
// sendLine / sendDataWriter.deliver / sendDataV2 / sendData / checkStopAndPause /
// pipelineSendAck, the client's newline and the reader buffer sizes of the codec stages.
func genWire(s *src, o *out) {
	// ---- isTrzszLetter: a sequence of `if <cond> { return true }` and a final `return false`;
	// cond is `lo <= b && b <= hi` (a range) or `b == c || b == c ...` (single characters)
	f := s.fn("isTrzszLetter")
	if f.Type.Params == nil || len(f.Type.Params.List) != 1 || len(f.Type.Params.List[0].Names) != 1 {
		die("isTrzszLetter: unexpected signature")
	}
	arg := f.Type.Params.List[0].Names[0].Name
	isArg := func(e ast.Expr) bool { id, ok := e.(*ast.Ident); return ok && id.Name == arg }
	var ranges [][2]int64
	var chars []int64
	var eqs func(e ast.Expr)
	eqs = func(e ast.Expr) {
		switch e := e.(type) {
		case *ast.ParenExpr:
			eqs(e.X)
			return
		case *ast.BinaryExpr:
			if e.Op == token.LOR {
				eqs(e.X)
				eqs(e.Y)
				return
			}
			if e.Op == token.EQL && isArg(e.X) {
				chars = append(chars, s.evalInt(e.Y, nil, 0))
				return
			}
			if e.Op == token.LAND {
				l, lok := e.X.(*ast.BinaryExpr)
				r, rok := e.Y.(*ast.BinaryExpr)
				if lok && rok && l.Op == token.LEQ && r.Op == token.LEQ && isArg(l.Y) && isArg(r.X) {
					ranges = append(ranges, [2]int64{s.evalInt(l.X, nil, 0), s.evalInt(r.Y, nil, 0)})
					return
				}
			}
		}
		die("isTrzszLetter: condition of unexpected shape: %s", s.text(e))
	}
	stmts := f.Body.List
	if len(stmts) < 2 {
		die("isTrzszLetter: unexpected body")
	}
	for i, st := range stmts {
		if i == len(stmts)-1 {
			if s.text(st) != "return false" {
				die("isTrzszLetter: last statement is %q", s.text(st))
			}
			break
		}
		is, ok := st.(*ast.IfStmt)
		if !ok || is.Init != nil || is.Else != nil || s.text(is.Body) != "{ return true }" {
			die("isTrzszLetter: statement of unexpected shape: %s", s.text(st))
		}
		eqs(is.Cond)
	}
	o.raw("Definition trzsz_letter_ranges : list (N * N) := [")
	for i, r := range ranges {
		if i > 0 {
			o.raw("; ")
		}
		o.raw("(%d, %d)", r[0], r[1])
	}
	o.raw("].\n")
	o.raw("Definition trzsz_letter_chars : list N := %s.\n", nlist(chars))

	// ---- line formats
	o.defBytes("send_line_format", wireOne("sendLine Sprintf", wireSprintfFormats(s, "trzszTransfer.sendLine"), 1))
	// sendDataWriter.deliver: prefix, then <len><newline><data> (binary) or <data><newline>
	o.defBytes("deliver_data_prefix", wireOne("deliver []byte literal", wireByteLiterals(s, "sendDataWriter.deliver"), 1))
	wantDeliver := "if b.transfer.transferConfig.Binary { buffer.Write([]byte(strconv.Itoa(len(data)))) buffer.Write([]byte(b.transfer.transferConfig.Newline)) buffer.Write(data) } else { buffer.Write(data) buffer.Write([]byte(b.transfer.transferConfig.Newline)) }"
	okDeliver := false
	ast.Inspect(s.fn("sendDataWriter.deliver").Body, func(n ast.Node) bool {
		if is, ok := n.(*ast.IfStmt); ok && s.text(is) == wantDeliver {
			okDeliver = true
		}
		return true
	})
	if !okDeliver {
		die("sendDataWriter.deliver no longer assembles the frame as prefix + (len newline data | data newline)")
	}
	o.defBytes("data_v2_binary_format", wireOne("sendDataV2 Sprintf", wireSprintfFormats(s, "trzszTransfer.sendDataV2"), 1))
	// sendDataV2, data not pre-assembled (the pieces pipelineSendData cuts): the binary header must be
	// formatted with the NEGOTIATED newline; the base64 branch writes prefix, piece, terminator - the
	// terminator is either the negotiated newline or (a slip the model then follows) a literal
	v2 := s.fn("trzszTransfer.sendDataV2")
	v2ok := false
	ast.Inspect(v2.Body, func(n ast.Node) bool {
		if c, ok := n.(*ast.CallExpr); ok {
			if sel, ok := c.Fun.(*ast.SelectorExpr); ok && sel.Sel.Name == "Sprintf" && len(c.Args) == 3 {
				if s.text(c.Args[1]) == "length" && s.text(c.Args[2]) == "t.transferConfig.Newline" {
					v2ok = true
				}
			}
		}
		return true
	})
	if !v2ok {
		die("sendDataV2: the binary header is no longer Sprintf(format, length, t.transferConfig.Newline)")
	}
	var v2writes []ast.Expr // arguments of the t.writeAll calls of the last else branch
	ast.Inspect(v2.Body, func(n ast.Node) bool {
		if is, ok := n.(*ast.IfStmt); ok && s.text(is.Cond) == "t.transferConfig.Binary" {
			if eb, ok := is.Else.(*ast.BlockStmt); ok {
				ast.Inspect(eb, func(m ast.Node) bool {
					if c, ok := m.(*ast.CallExpr); ok && s.text(c.Fun) == "t.writeAll" && len(c.Args) == 1 {
						v2writes = append(v2writes, c.Args[0])
					}
					return true
				})
			}
			return false
		}
		return true
	})
	if len(v2writes) != 3 || s.text(v2writes[1]) != "buffer" {
		die("sendDataV2: the base64 branch no longer writes prefix, buffer, terminator (%d writes)", len(v2writes))
	}
	v2lit := func(e ast.Expr) (string, bool) {
		if c, ok := e.(*ast.CallExpr); ok && len(c.Args) == 1 {
			if lit, ok := c.Args[0].(*ast.BasicLit); ok && lit.Kind == token.STRING {
				return s.evalString(lit), true
			}
		}
		return "", false
	}
	pre, ok := v2lit(v2writes[0])
	if !ok {
		die("sendDataV2: base64 prefix is not a literal: %s", s.text(v2writes[0]))
	}
	o.defBytes("data_v2_base64_prefix", pre)
	if s.text(v2writes[2]) == "[]byte(t.transferConfig.Newline)" {
		o.raw("Definition data_v2_piece_terminator : option (list N) := None. (* the negotiated newline *)\n")
	} else if lit, ok := v2lit(v2writes[2]); ok {
		bs := make([]int64, len(lit))
		for i := 0; i < len(lit); i++ {
			bs[i] = int64(lit[i])
		}
		o.raw("Definition data_v2_piece_terminator : option (list N) := Some %s. (* a literal, NOT the negotiated newline *)\n", nlist(bs))
	} else {
		die("sendDataV2: terminator of the base64 branch is neither the negotiated newline nor a literal: %s", s.text(v2writes[2]))
	}
	o.defBytes("data_v1_binary_format", wireOne("sendData Sprintf", wireSprintfFormats(s, "trzszTransfer.sendData"), 1))
	o.defBytes("pause_line_format", wireOne("checkStopAndPause Sprintf", wireSprintfFormats(s, "trzszTransfer.checkStopAndPause"), 1))
	o.defBytes("ack_line_format", wireOne("pipelineSendAck Sprintf", wireSprintfFormats(s, "trzszTransfer.pipelineSendAck"), 1))

	// ---- the newline a freshly created transfer (the client) uses, and the initial frame size
	nl := ""
	haveNl := false
	initBuf := int64(-1)
	ast.Inspect(s.fn("newTransfer").Body, func(n ast.Node) bool {
		switch n := n.(type) {
		case *ast.KeyValueExpr:
			if k, ok := n.Key.(*ast.Ident); ok && k.Name == "Newline" {
				nl = s.evalString(n.Value)
				haveNl = true
			}
		case *ast.CallExpr:
			if s.text(n.Fun) == "t.bufferSize.Store" && len(n.Args) == 1 {
				initBuf = s.evalInt(n.Args[0], nil, 0)
			}
		}
		return true
	})
	if !haveNl || initBuf < 0 {
		die("newTransfer: Newline / bufferSize.Store not found")
	}
	o.defBytes("client_newline", nl)
	o.defN("initial_buffer_size", initBuf)

	// ---- the Windows-console framing: sendAction announces it (action.Newline = "!\n") and, for a
	// Windows server, adopts it (t.transferConfig.Newline = "!\n"); both literals must agree
	var winNls []string
	ast.Inspect(s.fn("trzszTransfer.sendAction").Body, func(n ast.Node) bool {
		if as, ok := n.(*ast.AssignStmt); ok && as.Tok == token.ASSIGN && len(as.Lhs) == 1 && len(as.Rhs) == 1 {
			l := s.text(as.Lhs[0])
			if l == "action.Newline" || l == "t.transferConfig.Newline" {
				if lit, ok := as.Rhs[0].(*ast.BasicLit); ok && lit.Kind == token.STRING {
					v := s.evalString(lit)
					if v != nl {
						winNls = append(winNls, v)
					}
				}
			}
		}
		return true
	})
	if len(winNls) < 2 {
		die("sendAction: expected the Windows newline to be announced and adopted, found %q", winNls)
	}
	for _, v := range winNls {
		if v != winNls[0] {
			die("sendAction: different Windows newlines %q", winNls)
		}
	}
	o.defBytes("windows_newline", winNls[0])

	// ---- reader buffers of the codec stages
	dec := wireMakeSizes(s, "trzszTransfer.pipelineDecodeData")
	if len(dec) != 1 {
		die("pipelineDecodeData: expected one make([]byte, n), found %v", dec)
	}
	o.defN("decode_read_buffer", dec[0])
	esc := wireMakeSizes(s, "escapeReader.Read")
	if len(esc) < 1 {
		die("escapeReader.Read: no make([]byte, n)")
	}
	for _, e := range esc {
		if e != esc[0] {
			die("escapeReader.Read: internal buffers of different sizes %v", esc)
		}
	}
	o.defN("escape_reader_buffer", esc[0])
	rd := int64(-1)
	ast.Inspect(s.fn("trzszTransfer.pipelineReadData").Body, func(n ast.Node) bool {
		if as, ok := n.(*ast.AssignStmt); ok && as.Tok == token.DEFINE && len(as.Lhs) == 1 && len(as.Rhs) == 1 {
			if id, ok := as.Lhs[0].(*ast.Ident); ok && id.Name == "bufSize" {
				rd = s.evalInt(as.Rhs[0], nil, 0)
			}
		}
		return true
	})
	if rd < 0 {
		die("pipelineReadData: bufSize := ... not found")
	}
	o.defN("file_read_buffer", rd)
}
