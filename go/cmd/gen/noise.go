package main

import (
	"go/ast"
	"go/token"
	"strings"
)

func init() { constGens["noise"] = c16GenNoise }

func c16StringLits(s *src, f *ast.FuncDecl) []string {
	var out []string
	ast.Inspect(f.Body, func(n ast.Node) bool {
		if l, ok := n.(*ast.BasicLit); ok && l.Kind == token.STRING {
			out = append(out, s.evalString(l))
		}
		return true
	})
	return out
}

func c16IntLits(s *src, f *ast.FuncDecl) []int64 {
	var out []int64
	ast.Inspect(f.Body, func(n ast.Node) bool {
		if l, ok := n.(*ast.BasicLit); ok && l.Kind == token.INT {
			out = append(out, s.evalInt(l, nil, 0))
		}
		return true
	})
	return out
}

func c16Ranges(o *out, name string, v []int64) {
	o.raw("Definition %s : list (N * N) := [", name)
	for i := 0; i+1 < len(v); i += 2 {
		if i > 0 {
			o.raw("; ")
		}
		o.raw("(%d, %d)", v[i], v[i+1])
	}
	o.raw("].\n")
}

// c16GenNoise reads the literals of readLineOnWindows, isTrzszLetter (buffer.go),
// isVT100End (comm.go), recvLine and stripTmuxStatusLine (transfer.go).  Roles are fixed
// by position; a change in number or order is a hard error.
func c16GenNoise(s *src, o *out) {
	w := c03CharLits(s, s.fn("trzszBuffer.readLineOnWindows"))
	if len(w) != 11 {
		die("readLineOnWindows has %d character literals, expected 11", len(w))
	}
	names := []string{"win_init_last", "win_terminator", "win_after_terminator", "win_interrupt", "win_newline",
		"win_move_final", "win_digit_lo", "win_digit_hi", "win_home_prev", "win_home_final", "win_esc"}
	for i, n := range names {
		o.defN(n, w[i])
	}
	// the duplicate test reads bytes[len(bytes)-1]: is it guarded by `len(bytes) > 0` in an
	// earlier conjunct of the same condition?  A VALUE, pinned in Proofs/NoiseWin.v.
	{
		var flat func(e ast.Expr) []ast.Expr
		flat = func(e ast.Expr) []ast.Expr {
			if p, ok := e.(*ast.ParenExpr); ok {
				return flat(p.X)
			}
			if b, ok := e.(*ast.BinaryExpr); ok && b.Op == token.LAND {
				return append(flat(b.X), flat(b.Y)...)
			}
			return []ast.Expr{e}
		}
		found, guarded := false, false
		ast.Inspect(s.fn("trzszBuffer.readLineOnWindows").Body, func(n ast.Node) bool {
			st, ok := n.(*ast.IfStmt)
			if !ok || !strings.Contains(s.text(st.Cond), "bytes[len(bytes)-1]") || found {
				return true
			}
			found = true
			seenGuard := false
			for _, cj := range flat(st.Cond) {
				t := s.text(cj)
				if t == "len(bytes) > 0" || t == "len(bytes) != 0" || t == "len(bytes) >= 1" {
					seenGuard = true
				}
				if strings.Contains(t, "bytes[len(bytes)-1]") {
					guarded = seenGuard
					break
				}
			}
			return true
		})
		if !found {
			die("readLineOnWindows: no condition reads bytes[len(bytes)-1] any more")
		}
		o.raw("Definition win_dup_guard_nonempty : bool := %v.\n", guarded)
	}
	l := c03CharLits(s, s.fn("isTrzszLetter"))
	if len(l) != 11 {
		die("isTrzszLetter has %d character literals, expected 11", len(l))
	}
	c16Ranges(o, "noise_letter_ranges", l[:6])
	o.raw("Definition trzsz_letter_singles : list N := %s.\n", nlist(l[6:]))
	v := c03CharLits(s, s.fn("isVT100End"))
	if len(v) != 4 {
		die("isVT100End has %d character literals, expected 4", len(v))
	}
	c16Ranges(o, "noise_vt100_end_ranges", v)

	r := s.fn("trzszTransfer.recvLine")
	rs, rc := c16StringLits(s, r), c03CharLits(s, r)
	if len(rs) != 4 || rs[0] != rs[2] || rs[1] != rs[3] || len(rc) != 2 || rc[0] != rc[1] {
		die("recvLine has an unexpected shape: strings %q chars %v", rs, rc)
	}
	if n := len(c03Calls(s, r, "bytes.LastIndex(")); n != 2 {
		die("recvLine: %d bytes.LastIndex calls, expected 2", n)
	}
	o.defBytes("recv_marker_open", rs[0])
	o.defBytes("recv_marker_close", rs[1])
	o.defN("recv_fallback_byte", rc[0])

	t := s.fn("trzszTransfer.stripTmuxStatusLine")
	ts, ti := c16StringLits(s, t), c16IntLits(s, t)
	if len(ts) != 3 || len(ti) != 7 || ti[0] != 0 || ti[2] != 0 || ti[4] != 0 || ti[6] != 0 {
		die("stripTmuxStatusLine has an unexpected shape: strings %q ints %v", ts, ti)
	}
	o.defBytes("tmux_status_begin", ts[0])
	o.defN("tmux_status_begin_skip", ti[1])
	o.defBytes("tmux_status_mid", ts[1])
	o.defN("tmux_status_mid_skip", ti[3])
	o.defBytes("tmux_status_end", ts[2])
	o.defN("tmux_status_end_skip", ti[5])
}
