package main

import (
	"go/ast"
	"strings"
)

func init() { constGens["protocol"] = genProtocolGuards }

// genProtocolGuards reads the two guards property C02 rests on (both were missing on the pinned
// tree: DESIGN 10.3) and emits their presence as booleans; the models interpret them, and
// Proofs/Protocol.v / Proofs/FaultResume.v pin them to true.
//
//   c02_succ_waits_saver   recvFileDataV2: the `case <-ctx.succ:` branch waits for the saver
//                          (`<-saveDone`) and returns the cancellation cause if the saver's own check
//                          (pipelineSaveData: `step != size` at the end of the stream) failed, before it
//                          returns the digest
//   c02_resume_rest_check  recvPrefixHash remembers `size - matchStep`, recvFiles resets it per file
//                          and refuses any other announced size
func genProtocolGuards(s *src, o *out) {
	waits := false
	rf := s.fn("trzszTransfer.recvFileDataV2")
	ast.Inspect(rf.Body, func(n ast.Node) bool {
		cc, ok := n.(*ast.CommClause)
		if !ok || cc.Comm == nil {
			return true
		}
		if s.text(cc.Comm) != "<-ctx.succ" {
			return true
		}
		var body []string
		for _, st := range cc.Body {
			body = append(body, s.text(st))
		}
		txt := strings.Join(body, " ; ")
		i := strings.Index(txt, "<-saveDone")
		j := strings.Index(txt, "if ctx.Err() != nil { return nil, context.Cause(ctx) }")
		k := strings.Index(txt, "return <-md5DigestChan, nil")
		if k < 0 {
			die("recvFileDataV2: the ctx.succ branch no longer returns <-md5DigestChan")
		}
		waits = i >= 0 && j > i && k > j
		return true
	})
	saver := s.text(s.fn("trzszTransfer.pipelineSaveData").Body)
	if !strings.Contains(saver, "if step != size { ctx.cancel(") {
		waits = false // the check the branch waits for is gone
	}
	if waits && (!strings.Contains(saver, "defer close(saveDone)") || !strings.Contains(s.text(rf.Body), "saveDone := t.pipelineSaveData(")) {
		waits = false
	}
	o.raw("Definition c02_succ_waits_saver : bool := %v.\n", waits)

	rp := s.text(s.fn("trzszTransfer.recvPrefixHash").Body)
	rfs := s.text(s.fn("trzszTransfer.recvFiles").Body)
	reset := strings.Index(rfs, "t.resumeRestSize = -1")
	name := strings.Index(rfs, "t.recvFileNameV3(path, progress)")
	size := strings.Index(rfs, "size, err := t.recvFileSize(progress)")
	chk := strings.Index(rfs, "if t.resumeRestSize >= 0 && size != t.resumeRestSize { return nil, simpleTrzszError(")
	data := strings.Index(rfs, "t.recvFileDataV2(file, size, progress)")
	if name < 0 || size < 0 || data < 0 {
		die("recvFiles no longer has the shape recvFileNameV3 / recvFileSize / recvFileDataV2")
	}
	rest := strings.Contains(rp, "t.resumeRestSize = size - matchStep") &&
		reset >= 0 && reset < name && chk > size && chk < data
	o.raw("Definition c02_resume_rest_check : bool := %v.\n", rest)

	// the same check as a value the model of the fault exchange interprets (Model/FaultResume.v):
	//   c02_resume_rest_guard  2: refused whenever the remembered rest is >= 0 and differs (rest 0 =
	//                             the receiver keeps the whole destination - included); 1: only when
	//                             it is > 0; 0: no such check at that place
	guard := 0
	plumbing := strings.Contains(rp, "t.resumeRestSize = size - matchStep") && reset >= 0 && reset < name
	for g, op := range map[int]string{2: ">=", 1: ">"} {
		k := strings.Index(rfs, "if t.resumeRestSize "+op+" 0 && size != t.resumeRestSize { return nil, simpleTrzszError(")
		if plumbing && k > size && k < data {
			guard = g
		}
	}
	o.defN("c02_resume_rest_guard", int64(guard))
	//   c02_resume_truncates   1: recvPrefixHash cuts the destination at its own offset unconditionally
	//                             (Seek, then Truncate, each returning its error); 2: only when the
	//                             existing file is longer than the announced size; 0: anything else
	trunc := 0
	if strings.Contains(rp, "if _, err := file.Seek(matchStep, io.SeekStart); err != nil { return err } if err := file.Truncate(matchStep); err != nil { return err }") {
		trunc = 1
	} else if strings.Contains(rp, "if tgtFile.Size > size { if err := file.Truncate(matchStep); err != nil { return err } }") {
		trunc = 2
	}
	o.defN("c02_resume_truncates", int64(trunc))
	// where the receiver takes the source size from: protocol < 4 reads the hash-phase SIZE line
	//   c02_resume_size_guard  0: the number is used as delivered; 1: it is compared with the size in the
	//                             NAME record (when that is > 0) and a size below the receiver's own offset
	//                             is refused before the rest is remembered
	const plain = "if t.transferConfig.Protocol < kProtocolVersion4 { var err error size, err = t.recvInteger(\"SIZE\", false, t.getNewTimeout()) if err != nil { return err } } else { size = srcFile.Size }"
	const guarded = "if t.transferConfig.Protocol < kProtocolVersion4 { var err error size, err = t.recvInteger(\"SIZE\", false, t.getNewTimeout()) if err != nil { return err } if srcFile.Size > 0 && size != srcFile.Size { return simpleTrzszError("
	sizeGuard := 0
	switch {
	case strings.Contains(rp, plain):
	case strings.Contains(rp, guarded) && strings.Contains(rp, "} else { size = srcFile.Size }") &&
		strings.Contains(rp, "if size < matchStep { return simpleTrzszError(") &&
		strings.Index(rp, "if size < matchStep { return simpleTrzszError(") < strings.Index(rp, "t.resumeRestSize = size - matchStep"):
		sizeGuard = 1
	default:
		die("recvPrefixHash no longer takes the source size from the SIZE line (protocol < 4) / the NAME record (protocol >= 4) in one of the two known ways")
	}
	o.defN("c02_resume_size_guard", int64(sizeGuard))
}
