package main

import (
	"go/ast"
	"strings"
)

func init() { constGens["protocol"] = genProtocolGuards }

// genProtocolGuards reads the two guards property C02 rests on (both were missing on the pinned
// tree: DESIGN 10.3) and emits their presence as booleans; the models interpret them, and
// Proofs/Protocol.v / Proofs/FaultResume.v pin them to true.
//
//   c02_succ_waits_saver   recvFileDataV2: the `case <-ctx.succ:` branch waits for the saver
//                          (`<-saveDone`) and returns the cancellation cause if the saver's own check
//                          (pipelineSaveData: `step != size` at the end of the stream) failed, before it
//                          returns the digest
//   c02_resume_rest_check  recvPrefixHash remembers `size - matchStep`, recvFiles resets it per file
//                          and refuses any other announced size
func genProtocolGuards(s *src, o *out) {
	waits := false
	rf := s.fn("trzszTransfer.recvFileDataV2")
	ast.Inspect(rf.Body, func(n ast.Node) bool {
		cc, ok := n.(*ast.CommClause)
		if !ok || cc.Comm == nil {
			return true
		}
		if s.text(cc.Comm) != "<-ctx.succ" {
			return true
		}
		var body []string
		for _, st := range cc.Body {
			body = append(body, s.text(st))
		}
		txt := strings.Join(body, " ; ")
		i := strings.Index(txt, "<-saveDone")
		j := strings.Index(txt, "if ctx.Err() != nil { return nil, context.Cause(ctx) }")
		k := strings.Index(txt, "return <-md5DigestChan, nil")
		if k < 0 {
			die("recvFileDataV2: the ctx.succ branch no longer returns <-md5DigestChan")
		}
		waits = i >= 0 && j > i && k > j
		return true
	})
	saver := s.text(s.fn("trzszTransfer.pipelineSaveData").Body)
	if !strings.Contains(saver, "if step != size { ctx.cancel(") {
		waits = false // the check the branch waits for is gone
	}
	if waits && (!strings.Contains(saver, "defer close(saveDone)") || !strings.Contains(s.text(rf.Body), "saveDone := t.pipelineSaveData(")) {
		waits = false
	}
	o.raw("Definition c02_succ_waits_saver : bool := %v.\n", waits)

	rp := s.text(s.fn("trzszTransfer.recvPrefixHash").Body)
	rfs := s.text(s.fn("trzszTransfer.recvFiles").Body)
	reset := strings.Index(rfs, "t.resumeRestSize = -1")
	name := strings.Index(rfs, "t.recvFileNameV3(path, progress)")
	size := strings.Index(rfs, "size, err := t.recvFileSize(progress)")
	chk := strings.Index(rfs, "if t.resumeRestSize >= 0 && size != t.resumeRestSize { return nil, simpleTrzszError(")
	data := strings.Index(rfs, "t.recvFileDataV2(file, size, progress)")
	if name < 0 || size < 0 || data < 0 {
		die("recvFiles no longer has the shape recvFileNameV3 / recvFileSize / recvFileDataV2")
	}
	rest := strings.Contains(rp, "t.resumeRestSize = size - matchStep") &&
		reset >= 0 && reset < name && chk > size && chk < data
	o.raw("Definition c02_resume_rest_check : bool := %v.\n", rest)
}
