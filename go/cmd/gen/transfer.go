package main

import (
	"go/ast"
	"go/token"
	"strconv"
	"strings"
)

func init() { constGens["transfer"] = genTransfer }

// c01tCalls lists the methods called on the receiver variable `t` inside fn, in source
// order, restricted to names with one of the given prefixes.
func c01tCalls(s *src, fn string, prefixes ...string) []string {
	var out []string
	ast.Inspect(s.fn(fn).Body, func(n ast.Node) bool {
		c, ok := n.(*ast.CallExpr)
		if !ok {
			return true
		}
		sel, ok := c.Fun.(*ast.SelectorExpr)
		if !ok {
			return true
		}
		if x, ok := sel.X.(*ast.Ident); !ok || x.Name != "t" {
			return true
		}
		for _, p := range prefixes {
			if strings.HasPrefix(sel.Sel.Name, p) {
				out = append(out, sel.Sel.Name)
				break
			}
		}
		return true
	})
	return out
}

func c01tStrList(xs []string) string {
	parts := make([]string, len(xs))
	for i, x := range xs {
		bs := make([]int64, len(x))
		for j := 0; j < len(x); j++ {
			bs[j] = int64(x[j])
		}
		parts[i] = nlist(bs)
	}
	return "[" + strings.Join(parts, "; ") + "]"
}

// genTransfer reads the whole-transfer layer (C01, Model/Transfer.v):
//   - isCompressFixed as a decision list: every `if <cond> { return <fixed>, <compress> }`
//     in order and the final return.  A rule is (kind, value, fixed, compress) with
//     kind 0 = `Protocol < value`, 1 = `CompressType == value`, 2 = `size < value` and
//     compress 0 = false, 1 = true, 2 = `!Binary`.  The model INTERPRETS this list.
//   - the protocol versions at which sendFiles/recvFiles switch the name exchange and the
//     data exchange, and archiveSourceFiles' guard;
//   - the order of the per-file calls in sendFiles / recvFiles and the first call of
//     sendFileDataV2 / recvFileDataV2 (the compress flag precedes the data).
func genTransfer(s *src, o *out) {
	f := s.fn("trzszTransfer.isCompressFixed")
	if f.Type.Params == nil || len(f.Type.Params.List) != 1 || len(f.Type.Params.List[0].Names) != 1 {
		die("isCompressFixed: unexpected signature")
	}
	sizeArg := f.Type.Params.List[0].Names[0].Name
	boolLit := func(e ast.Expr) (bool, bool) {
		id, ok := e.(*ast.Ident)
		if !ok {
			return false, false
		}
		switch id.Name {
		case "true":
			return true, true
		case "false":
			return false, true
		}
		return false, false
	}
	compExpr := func(e ast.Expr) int {
		if b, ok := boolLit(e); ok {
			if b {
				return 1
			}
			return 0
		}
		if s.text(e) == "!t.transferConfig.Binary" {
			return 2
		}
		die("isCompressFixed: compress result of unexpected shape: %s", s.text(e))
		return 0
	}
	ret := func(st ast.Stmt) (bool, int) {
		r, ok := st.(*ast.ReturnStmt)
		if !ok || len(r.Results) != 2 {
			die("isCompressFixed: expected `return fixed, compress`, found %s", s.text(st))
		}
		fixed, ok := boolLit(r.Results[0])
		if !ok {
			die("isCompressFixed: `fixed` is not a boolean literal: %s", s.text(r.Results[0]))
		}
		return fixed, compExpr(r.Results[1])
	}
	b2s := func(b bool) string {
		if b {
			return "true"
		}
		return "false"
	}
	var rules []string
	stmts := f.Body.List
	if len(stmts) < 1 {
		die("isCompressFixed: empty body")
	}
	for i, st := range stmts {
		if i == len(stmts)-1 {
			fixed, comp := ret(st)
			o.raw("Definition tr_compress_default : bool * N := (%s, %d).\n", b2s(fixed), comp)
			break
		}
		is, ok := st.(*ast.IfStmt)
		if !ok || is.Init != nil || is.Else != nil || len(is.Body.List) != 1 {
			die("isCompressFixed: statement %d is not a plain `if cond { return … }`: %s", i, s.text(st))
		}
		be, ok := is.Cond.(*ast.BinaryExpr)
		if !ok {
			die("isCompressFixed: condition of unexpected shape: %s", s.text(is.Cond))
		}
		lhs := s.text(be.X)
		var kind int
		switch {
		case lhs == "t.transferConfig.Protocol" && be.Op == token.LSS:
			kind = 0
		case lhs == "t.transferConfig.CompressType" && be.Op == token.EQL:
			kind = 1
		case lhs == sizeArg && be.Op == token.LSS:
			kind = 2
		default:
			die("isCompressFixed: condition of unexpected shape: %s", s.text(is.Cond))
		}
		val := s.evalInt(be.Y, nil, 0)
		if val < 0 {
			die("isCompressFixed: negative bound in %s", s.text(is.Cond))
		}
		fixed, comp := ret(is.Body.List[0])
		rules = append(rules, "("+strings.Join([]string{c01tItoa(int64(kind)), c01tItoa(val), b2s(fixed), c01tItoa(int64(comp))}, ", ")+")")
	}
	o.raw("Definition tr_compress_rules : list (N * N * bool * N) := [%s].\n", strings.Join(rules, "; "))

	// compress types as the configuration carries them
	for _, kv := range [][2]string{{"tr_compress_auto", "kCompressAuto"}, {"tr_compress_yes", "kCompressYes"}, {"tr_compress_no", "kCompressNo"}} {
		c, ok := s.consts[kv[1]]
		if !ok {
			die("%s not found", kv[1])
		}
		o.defN(kv[0], s.evalInt(c, nil, 0))
	}

	// protocol switches of sendFiles / recvFiles
	protoOf := func(fn, pattern string) int64 {
		txt := s.text(s.fn(fn).Body)
		i := strings.Index(txt, pattern)
		if i < 0 {
			die("%s: `%s…` not found", fn, pattern)
		}
		rest := txt[i+len(pattern):]
		j := strings.IndexAny(rest, " {|)")
		if j < 0 {
			die("%s: cannot read the constant after `%s`", fn, pattern)
		}
		c, ok := s.consts[rest[:j]]
		if !ok {
			die("%s: unknown constant %s", fn, rest[:j])
		}
		return s.evalInt(c, nil, 0)
	}
	for _, fn := range []string{"trzszTransfer.sendFiles", "trzszTransfer.recvFiles"} {
		txt := s.text(s.fn(fn).Body)
		if strings.Count(txt, "t.transferConfig.Protocol >= ") != 2 {
			die("%s: expected exactly two protocol switches", fn)
		}
	}
	v3s := protoOf("trzszTransfer.sendFiles", "if t.transferConfig.Protocol >= ")
	v3r := protoOf("trzszTransfer.recvFiles", "if t.transferConfig.Protocol >= ")
	if v3s != v3r {
		die("sendFiles and recvFiles switch the name exchange at different protocol versions (%d, %d)", v3s, v3r)
	}
	o.defN("tr_proto_json_names", v3s)
	second := func(fn string) int64 {
		txt := s.text(s.fn(fn).Body)
		i := strings.Index(txt, "t.transferConfig.Protocol >= ")
		rest := txt[i+10:]
		j := strings.Index(rest, "t.transferConfig.Protocol >= ")
		rest = rest[j+len("t.transferConfig.Protocol >= "):]
		k := strings.IndexAny(rest, " {|)")
		c, ok := s.consts[rest[:k]]
		if !ok {
			die("%s: unknown constant %s", fn, rest[:k])
		}
		return s.evalInt(c, nil, 0)
	}
	v2s, v2r := second("trzszTransfer.sendFiles"), second("trzszTransfer.recvFiles")
	if v2s != v2r {
		die("sendFiles and recvFiles switch the data exchange at different protocol versions (%d, %d)", v2s, v2r)
	}
	o.defN("tr_proto_pipeline", v2s)
	// archiveSourceFiles: `if Overwrite || Protocol < kProtocolVersion4 || len(sourceFiles) == 0 { return sourceFiles }`
	at := s.text(s.fn("trzszTransfer.archiveSourceFiles").Body)
	if !strings.Contains(at, "if t.transferConfig.Overwrite || t.transferConfig.Protocol < ") {
		die("archiveSourceFiles: guard of unexpected shape")
	}
	o.defN("tr_proto_archive", protoOf("trzszTransfer.archiveSourceFiles", "t.transferConfig.Protocol < "))
	// sendPrefixHash: the resume exchange starts only for `tgtFile.Size <= 0 || file == nil` false
	sp := s.text(s.fn("trzszTransfer.sendPrefixHash").Body)
	rp := s.text(s.fn("trzszTransfer.recvPrefixHash").Body)
	if !strings.Contains(sp, "if tgtFile.Size <= 0 || file == nil {") || !strings.Contains(rp, "if tgtFile.Size <= 0 || writer == nil || writer.getFile() == nil {") {
		die("sendPrefixHash / recvPrefixHash: the guard that skips the resume exchange changed")
	}
	o.raw("Definition tr_resume_skipped_for_empty_target : bool := true.\n")
	// below this protocol sendPrefixHash announces the source size (a SIZE that is not echoed) and
	// recvPrefixHash reads it; both ends must switch at the same version
	ns, nr := protoOf("trzszTransfer.sendPrefixHash", "if t.transferConfig.Protocol < "), protoOf("trzszTransfer.recvPrefixHash", "if t.transferConfig.Protocol < ")
	if ns != nr {
		die("sendPrefixHash and recvPrefixHash switch the SIZE announcement at different protocol versions (%d, %d)", ns, nr)
	}
	if strings.Count(sp, "t.transferConfig.Protocol < ") != 1 || strings.Count(rp, "t.transferConfig.Protocol < ") != 1 ||
		!strings.Contains(sp, `t.sendInteger("SIZE", srcFile.Size)`) || !strings.Contains(rp, `t.recvInteger("SIZE", false, t.getNewTimeout())`) {
		die("sendPrefixHash / recvPrefixHash: the SIZE announcement below protocol %d changed shape", ns)
	}
	o.defN("tr_proto_resume_nosize", ns)
	// the receiver's check of the announced rest of a resumed file against the source size minus its own
	// offset (recvPrefixHash remembers it, recvFiles compares after recvFileSize): present or not
	rf := s.text(s.fn("trzszTransfer.recvFiles").Body)
	setRest := strings.Contains(rp, "t.resumeRestSize = size - matchStep")
	chkRest := strings.Contains(rf, "if t.resumeRestSize >= 0 && size != t.resumeRestSize {") && strings.Contains(rf, "t.resumeRestSize = -1")
	if setRest != chkRest {
		die("resume rest-size check: recvPrefixHash and recvFiles disagree about it (set=%v, checked=%v)", setRest, chkRest)
	}
	if chkRest {
		// it must come after recvFileSize (the size has been echoed by then) and before the data
		i, j, k := strings.Index(rf, "t.recvFileSize("), strings.Index(rf, "if t.resumeRestSize >= 0"), strings.Index(rf, "t.recvFileDataV2(")
		if !(i >= 0 && i < j && j < k) {
			die("resume rest-size check: not between recvFileSize and recvFileDataV2")
		}
	}
	o.raw("Definition tr_resume_rest_check : bool := %s.\n", b2s(chkRest))

	// call order
	o.raw("Definition tr_send_files_calls : list (list N) := %s.\n",
		c01tStrList(c01tCalls(s, "trzszTransfer.sendFiles", "send", "recv", "archive")))
	o.raw("Definition tr_recv_files_calls : list (list N) := %s.\n",
		c01tStrList(c01tCalls(s, "trzszTransfer.recvFiles", "send", "recv", "archive")))
	first := func(fn string) string {
		cs := c01tCalls(s, fn, "send", "recv", "pipeline")
		if len(cs) == 0 {
			die("%s: no calls found", fn)
		}
		return cs[0]
	}
	o.raw("Definition tr_send_data_first_call : list (list N) := %s.\n", c01tStrList([]string{first("trzszTransfer.sendFileDataV2")}))
	o.raw("Definition tr_recv_data_first_call : list (list N) := %s.\n", c01tStrList([]string{first("trzszTransfer.recvFileDataV2")}))
	// the exchanges themselves: calls of each per-file function, in order
	for _, kv := range [][2]string{
		{"tr_calls_send_num", "trzszTransfer.sendFileNum"}, {"tr_calls_recv_num", "trzszTransfer.recvFileNum"},
		{"tr_calls_send_name", "trzszTransfer.sendFileName"}, {"tr_calls_recv_name", "trzszTransfer.recvFileName"},
		{"tr_calls_send_name_v3", "trzszTransfer.sendFileNameV3"}, {"tr_calls_recv_name_v3", "trzszTransfer.recvFileNameV3"},
		{"tr_calls_send_size", "trzszTransfer.sendFileSize"}, {"tr_calls_recv_size", "trzszTransfer.recvFileSize"},
		{"tr_calls_send_md5", "trzszTransfer.sendFileMD5"}, {"tr_calls_recv_md5", "trzszTransfer.recvFileMD5"},
		{"tr_calls_send_data_v1", "trzszTransfer.sendFileData"}, {"tr_calls_recv_data_v1", "trzszTransfer.recvFileData"},
	} {
		o.raw("Definition %s : list (list N) := %s.\n", kv[0],
			c01tStrList(c01tCalls(s, kv[1], "send", "recv", "check", "create", "newArchive")))
	}
}

func c01tItoa(v int64) string { return strconv.FormatInt(v, 10) }
