package main

// C05: constants of filter.go / drag.go / comm.go the filter model depends on, and the
// control skeleton of wrapOutput, sendInput, handleTrzsz, uploadDragFiles (Gen/Skel_filter.v).

import (
	"fmt"
	"go/ast"
	"go/token"
	"strconv"
	"strings"
)

func init() {
	constGens["filter"] = genFilterConsts
	fileGens["Skel_filter.v"] = genSkelFilter
}

// c05Lits collects, in source order, the string, char and int literals below n.
func c05Lits(s *src, n ast.Node) (strs []string, chars []int64, intsv []int64) {
	ast.Inspect(n, func(x ast.Node) bool {
		if b, ok := x.(*ast.BasicLit); ok {
			switch b.Kind {
			case token.STRING:
				strs = append(strs, s.evalString(b))
			case token.CHAR:
				chars = append(chars, s.evalInt(b, nil, 0))
			case token.INT:
				intsv = append(intsv, s.evalInt(b, nil, 0))
			}
		}
		return true
	})
	return
}

func c05WantStrs(where string, got []string, n int) {
	if len(got) != n {
		die("%s: expected %d string literals, found %d (%q)", where, n, len(got), got)
	}
}

// c05Ranges turns  (b >= 'A' && b <= 'Z') || ... || b == '+' ...  into a list of closed ranges.
func c05Ranges(s *src, e ast.Expr, out *[][2]int64) {
	switch e := e.(type) {
	case *ast.ParenExpr:
		c05Ranges(s, e.X, out)
		return
	case *ast.BinaryExpr:
		switch e.Op {
		case token.LOR:
			c05Ranges(s, e.X, out)
			c05Ranges(s, e.Y, out)
			return
		case token.EQL:
			v := s.evalInt(e.Y, nil, 0)
			*out = append(*out, [2]int64{v, v})
			return
		case token.LAND:
			l, lok := e.X.(*ast.BinaryExpr)
			r, rok := e.Y.(*ast.BinaryExpr)
			if lok && rok {
				// b >= lo && b <= hi   or   lo <= b && b <= hi
				var lo, hi int64
				ok := true
				switch {
				case l.Op == token.GEQ && r.Op == token.LEQ:
					lo, hi = s.evalInt(l.Y, nil, 0), s.evalInt(r.Y, nil, 0)
				case l.Op == token.LEQ && r.Op == token.LEQ:
					lo, hi = s.evalInt(l.X, nil, 0), s.evalInt(r.Y, nil, 0)
				default:
					ok = false
				}
				if ok {
					*out = append(*out, [2]int64{lo, hi})
					return
				}
			}
		}
	}
	die("character-class condition has an unexpected shape: %s", s.text(e))
}

func c05RangeList(rs [][2]int64) string {
	parts := make([]string, len(rs))
	for i, r := range rs {
		parts[i] = fmt.Sprintf("(%d, %d)", r[0], r[1])
	}
	return "[" + strings.Join(parts, "; ") + "]"
}

func genFilterConsts(s *src, o *out) {
	// ---- detectOSC52 ----
	f := s.fn("TrzszFilter.detectOSC52")
	strs, chars, intsv := c05Lits(s, f.Body)
	c05WantStrs("detectOSC52", strs, 3)
	if strs[1] != strs[2] {
		die("detectOSC52: the two terminator sets differ")
	}
	o.defBytes("osc52_prefix", strs[0])
	o.defBytes("osc52_terms", strs[1])
	if len(chars) < 3 {
		die("detectOSC52: char literals")
	}
	o.defN("osc52_kind_c", chars[0])
	o.defN("osc52_kind_p", chars[1])
	o.defN("osc52_sep", chars[2])
	// ints in order: 0 0 5 2 0 0 1 2 2 0 1 0 100000 1   -- take the distinctive ones by value/position
	var limit int64 = -1
	for _, v := range intsv {
		if v > 1000 {
			limit = v
		}
	}
	if limit < 0 {
		die("detectOSC52: no length limit found")
	}
	o.defN("osc52_limit", limit)
	// buf = buf[pos+5:] ; len(buf) < 2 ; buf = buf[2:]
	var hdr, klen int64 = -1, -1
	ast.Inspect(f.Body, func(x ast.Node) bool {
		switch x := x.(type) {
		case *ast.SliceExpr:
			if b, ok := x.Low.(*ast.BinaryExpr); ok && b.Op == token.ADD && s.text(b.X) == "pos" && hdr < 0 {
				hdr = s.evalInt(b.Y, nil, 0)
			}
		case *ast.BinaryExpr:
			if x.Op == token.LSS && s.text(x.X) == "len(buf)" && klen < 0 {
				klen = s.evalInt(x.Y, nil, 0)
			}
		}
		return true
	})
	if hdr < 0 || klen < 0 {
		die("detectOSC52: header skip / kind length not found")
	}
	o.defN("osc52_hdr_skip", hdr)
	o.defN("osc52_kind_len", klen)
	// the base64 class:  if !( ... ) inside the range loop
	var rs [][2]int64
	ast.Inspect(f.Body, func(x ast.Node) bool {
		if u, ok := x.(*ast.UnaryExpr); ok && u.Op == token.NOT && rs == nil {
			c05Ranges(s, u.X, &rs)
			return false
		}
		return true
	})
	if len(rs) == 0 {
		die("detectOSC52: base64 character class not found")
	}
	o.raw("Definition osc52_b64_ranges : list (N * N) := %s.\n", c05RangeList(rs))

	// ---- detectDragFiles (bracketed paste stripping) ----
	f = s.fn("detectDragFiles")
	strs, _, intsv = c05Lits(s, f.Body)
	if len(strs) < 5 {
		die("detectDragFiles: string literals %q", strs)
	}
	o.defBytes("drag_paste_probe", strs[0])
	o.defBytes("drag_paste_begin", strs[1])
	if strs[2] != "" {
		die("detectDragFiles: paste marker is not replaced by the empty string")
	}
	o.defBytes("drag_paste_end", strs[3])
	if strs[4] != "" {
		die("detectDragFiles: paste marker is not replaced by the empty string")
	}
	if len(intsv) < 1 {
		die("detectDragFiles: ints")
	}
	o.defN("drag_paste_minlen", intsv[0])

	// ---- detectDragFilesOnLinux / nextLinuxPath ----
	f = s.fn("detectDragFilesOnLinux")
	_, chars, intsv = c05Lits(s, f.Body)
	if len(chars) != 4 || chars[1] != chars[2] || len(intsv) < 1 {
		die("detectDragFilesOnLinux: unexpected literals %v %v", chars, intsv)
	}
	o.defN("drag_quote", chars[0])
	o.defN("drag_slash", chars[1])
	o.defN("drag_space", chars[3])
	o.defN("drag_min_len", intsv[0])
	f = s.fn("nextLinuxPath")
	_, c2, i2 := c05Lits(s, f.Body)
	want := []int64{chars[0], chars[1], chars[0], chars[3], chars[1], chars[3]}
	if fmt.Sprint(c2) != fmt.Sprint(want) || len(i2) < 1 || i2[0] != intsv[0] {
		die("nextLinuxPath: literals %v %v differ from detectDragFilesOnLinux's", c2, i2)
	}

	// ---- trace-log markers (comm.go writeTraceLog) ----
	f = s.fn("traceLogger.writeTraceLog")
	strs, _, _ = c05Lits(s, f.Body)
	var en, dis string
	for _, x := range strs {
		if strings.HasPrefix(x, "<ENABLE") {
			if en != "" && en != x {
				die("writeTraceLog: two different enable markers")
			}
			en = x
		}
		if strings.HasPrefix(x, "<DISABLE") {
			if dis != "" && dis != x {
				die("writeTraceLog: two different disable markers")
			}
			dis = x
		}
	}
	if en == "" || dis == "" {
		die("writeTraceLog: markers not found")
	}
	o.defBytes("trace_enable_marker", en)
	o.defBytes("trace_disable_marker", dis)

	// ---- cursor sequences ----
	strs, _, _ = c05Lits(s, s.fn("showCursor").Body)
	c05WantStrs("showCursor", strs, 1)
	o.defBytes("show_cursor_seq", strs[0])
	strs, _, _ = c05Lits(s, s.fn("hideCursor").Body)
	c05WantStrs("hideCursor", strs, 1)
	o.defBytes("hide_cursor_seq", strs[0])

	// ---- uploadDragFiles ----
	f = s.fn("TrzszFilter.uploadDragFiles")
	strs, _, intsv = c05Lits(s, f.Body)
	// "" "trz" " -d" "\r"
	if len(strs) != 5 || strs[0] != "" || strs[1] != "" {
		die("uploadDragFiles: string literals %q", strs)
	}
	o.defBytes("drag_default_cmd", strs[2])
	o.defBytes("drag_dir_flag", strs[3])
	o.defBytes("drag_cmd_end", strs[4])
	if len(intsv) < 1 {
		die("uploadDragFiles: interrupt byte")
	}
	o.defN("drag_interrupt_byte", intsv[0])

	// ---- skipUploadCommand block of wrapOutput ----
	f = s.fn("TrzszFilter.wrapOutput")
	strs, _, _ = c05Lits(s, f.Body)
	c05WantStrs("wrapOutput", strs, 3)
	o.defBytes("skip_trim_cutset", strs[1])
	o.defBytes("skip_echo_repl", strs[2])

	// ---- trimVT100 ----
	_, chars, _ = c05Lits(s, s.fn("trimVT100").Body)
	if len(chars) != 1 {
		die("trimVT100: expected one char literal")
	}
	o.defN("vt100_esc", chars[0])
	var vr [][2]int64
	ast.Inspect(s.fn("isVT100End").Body, func(x ast.Node) bool {
		if i, ok := x.(*ast.IfStmt); ok {
			c05Ranges(s, i.Cond, &vr)
		}
		return true
	})
	o.raw("Definition vt100_end_ranges : list (N * N) := %s.\n", c05RangeList(vr))
}

// ---------------------------------------------------------------------------------------
// control skeleton

var c05Calls = map[string]bool{
	"Load": true, "Store": true, "CompareAndSwap": true, "Lock": true, "Unlock": true,
	"writeAll": true, "addReceivedData": true, "writeTraceLog": true, "handleServerOutput": true,
	"detectOSC52": true, "detectTrzsz": true, "detectZmodem": true, "showCursor": true, "hideCursor": true,
	"handleTrzsz": true, "handleZmodemEvent": true, "transformPromptInput": true, "addDragFiles": true,
	"resetDragFiles": true, "detectDragFiles": true, "Sleep": true, "Write": true, "Bytes": true,
	"stopTransferringFiles": true, "confirmStopTransfer": true, "isTransferringFiles": true,
	"trimVT100": true, "uploadDragFiles": true, "downloadFiles": true, "uploadFiles": true,
	"clientError": true, "cleanup": true, "background": true, "connectToTunnel": true, "newTransfer": true,
	"setOneTimeUploadResult": true, "close": true, "recover": true, "Close": true,
	"IsTransferringFiles": true, "checkPathsReadable": true,
}

type c05Sk struct{ b strings.Builder }

func c05q(x string) string { return `"` + strings.ReplaceAll(x, `"`, `""`) + `"` }

// calls in an expression, innermost first (evaluation order), as Coq terms
func (k *c05Sk) calls(s *src, n ast.Node, acc *[]string) {
	if n == nil {
		return
	}
	ast.Inspect(n, func(x ast.Node) bool {
		switch x := x.(type) {
		case *ast.FuncLit:
			return false
		case *ast.CallExpr:
			for _, a := range x.Args {
				k.calls(s, a, acc)
			}
			name, recv := "", ""
			switch fn := x.Fun.(type) {
			case *ast.Ident:
				name = fn.Name
			case *ast.SelectorExpr:
				name = fn.Sel.Name
				k.calls(s, fn.X, acc)
				recv = s.text(fn.X)
			}
			if c05Calls[name] {
				arg := recv
				if name == "writeAll" && len(x.Args) > 0 {
					arg = s.text(x.Args[0])
				}
				if name == "CompareAndSwap" || name == "Store" {
					var as []string
					for _, a := range x.Args {
						as = append(as, s.text(a))
					}
					arg = recv + "(" + strings.Join(as, ",") + ")"
				}
				*acc = append(*acc, fmt.Sprintf("Call %s %s", c05q(name), c05q(arg)))
			}
			return false
		}
		return true
	})
}

func (k *c05Sk) block(s *src, stmts []ast.Stmt) []string {
	var out []string
	for _, st := range stmts {
		out = append(out, k.stmt(s, st)...)
	}
	return out
}

func c05List(items []string) string { return "[" + strings.Join(items, "; ") + "]" }

// the closure started by `go func() {...}()` / `defer func() {...}()`, nil for `go f(x)`
func (k *c05Sk) funcLit(s *src, c *ast.CallExpr) *ast.FuncLit {
	if f, ok := c.Fun.(*ast.FuncLit); ok {
		return f
	}
	return nil
}

func (k *c05Sk) stmt(s *src, st ast.Stmt) []string {
	var out []string
	switch st := st.(type) {
	case *ast.IfStmt:
		var cond []string
		if st.Init != nil {
			k.calls(s, st.Init, &cond)
		}
		k.calls(s, st.Cond, &cond)
		thenB := k.block(s, st.Body.List)
		var elseB []string
		if st.Else != nil {
			switch e := st.Else.(type) {
			case *ast.BlockStmt:
				elseB = k.block(s, e.List)
			default:
				elseB = k.stmt(s, e.(ast.Stmt))
			}
		}
		if len(cond) == 0 && len(thenB) == 0 && len(elseB) == 0 {
			return nil
		}
		out = append(out, fmt.Sprintf("If %s %s %s %s", c05q(s.text(st.Cond)), c05List(cond), c05List(thenB), c05List(elseB)))
	case *ast.ForStmt:
		body := k.block(s, st.Body.List)
		var cond []string
		if st.Cond != nil {
			k.calls(s, st.Cond, &cond)
		}
		if len(body) > 0 || len(cond) > 0 {
			out = append(out, fmt.Sprintf("Loop %s", c05List(append(cond, body...))))
		}
	case *ast.RangeStmt:
		body := k.block(s, st.Body.List)
		if len(body) > 0 {
			out = append(out, fmt.Sprintf("Loop %s", c05List(body)))
		}
	case *ast.BlockStmt:
		out = append(out, k.block(s, st.List)...)
	case *ast.BranchStmt:
		if st.Tok == token.CONTINUE {
			out = append(out, "Continue")
		} else if st.Tok == token.BREAK {
			out = append(out, "Break")
		}
	case *ast.ReturnStmt:
		for _, r := range st.Results {
			k.calls(s, r, &out)
		}
		out = append(out, "Return")
	case *ast.GoStmt:
		if fl := k.funcLit(s, st.Call); fl != nil {
			out = append(out, fmt.Sprintf("Go %s", c05List(k.block(s, fl.Body.List))))
		} else {
			var cs []string
			k.calls(s, st.Call, &cs)
			out = append(out, fmt.Sprintf("Go %s", c05List(cs)))
		}
	case *ast.DeferStmt:
		if fl := k.funcLit(s, st.Call); fl != nil {
			out = append(out, fmt.Sprintf("Defer %s", c05List(k.block(s, fl.Body.List))))
		} else {
			var cs []string
			k.calls(s, st.Call, &cs)
			out = append(out, fmt.Sprintf("Defer %s", c05List(cs)))
		}
	case *ast.SelectStmt:
		var alts []string
		for _, c := range st.Body.List {
			cc := c.(*ast.CommClause)
			var a []string
			if cc.Comm != nil {
				k.calls(s, cc.Comm, &a)
				a = append([]string{fmt.Sprintf("Call \"comm\" %s", c05q(s.text(cc.Comm)))}, a...)
			}
			a = append(a, k.block(s, cc.Body)...)
			alts = append(alts, fmt.Sprintf("Loop %s", c05List(a))) // one alternative = one group
		}
		out = append(out, fmt.Sprintf("Select %s", c05List(alts)))
	case *ast.SwitchStmt:
		var alts []string
		for _, c := range st.Body.List {
			cc := c.(*ast.CaseClause)
			var labels []string
			for _, e := range cc.List {
				labels = append(labels, s.text(e))
			}
			alts = append(alts, fmt.Sprintf("If %s [] %s []", c05q(strings.Join(labels, ",")), c05List(k.block(s, cc.Body))))
		}
		out = append(out, fmt.Sprintf("Select %s", c05List(alts)))
	default:
		// assignments, expression statements, declarations: only the calls matter
		k.calls(s, st, &out)
		// a goroutine / closure created inline in an expression (e.g. callbacks) is ignored
	}
	return out
}

func genSkelFilter(s *src) string {
	var b strings.Builder
	b.WriteString("(* GENERATED by /verif/go/cmd/gen from filter.go. Do not edit.\n")
	b.WriteString("   Control skeleton: the whitelisted calls (atomics, locks, writes, detectors, session handling)\n")
	b.WriteString("   in program order with the branch structure and the branch conditions. *)\n")
	b.WriteString("From Coq Require Import List String.\nImport ListNotations.\nOpen Scope string_scope.\n\n")
	b.WriteString("Inductive sk :=\n| Call (name arg : string)\n| If (cond : string) (c : list sk) (t e : list sk)\n| Loop (body : list sk)\n| Select (alts : list sk)\n| Go (body : list sk)\n| Defer (body : list sk)\n| Continue | Break | Return.\n\n")
	k := &c05Sk{}
	for _, fn := range []struct{ coq, name string }{
		{"wrap_output", "TrzszFilter.wrapOutput"},
		{"send_input", "TrzszFilter.sendInput"},
		{"handle_trzsz", "TrzszFilter.handleTrzsz"},
		{"upload_drag_files", "TrzszFilter.uploadDragFiles"},
		{"add_drag_files", "TrzszFilter.addDragFiles"},
		{"reset_drag_files", "TrzszFilter.resetDragFiles"},
		{"upload_files_api", "TrzszFilter.UploadFiles"},
	} {
		items := k.block(s, s.fn(fn.name).Body.List)
		b.WriteString("Definition " + fn.coq + " : list sk :=\n  " + c05List(items) + ".\n\n")
	}
	_ = strconv.Itoa
	return b.String()
}
