package main

// C17: constants of the tunnel code in transfer.go / comm.go / trz.go / tsz.go.

import (
	"go/ast"
	"go/token"
)

func init() { constGens["tunnel"] = genTunnel }

// c17Calls collects, in source order, the calls of fun (printed as text, e.g. "fmt.Sprintf") below n.
func c17Calls(s *src, n ast.Node, fun string) []*ast.CallExpr {
	var out []*ast.CallExpr
	ast.Inspect(n, func(x ast.Node) bool {
		if c, ok := x.(*ast.CallExpr); ok && s.text(c.Fun) == fun {
			out = append(out, c)
		}
		return true
	})
	return out
}

func genTunnel(s *src, o *out) {
	// getHelloConstant: the cut of the unique id and the two format strings
	f := s.fn("getHelloConstant")
	var cutIf, cut int64 = -1, -1
	ast.Inspect(f.Body, func(n ast.Node) bool {
		if st, ok := n.(*ast.IfStmt); ok {
			if be, ok := st.Cond.(*ast.BinaryExpr); ok && be.Op == token.GTR && s.text(be.X) == "len(uid)" {
				cutIf = s.evalInt(be.Y, nil, 0)
				if len(st.Body.List) == 1 {
					if as, ok := st.Body.List[0].(*ast.AssignStmt); ok && len(as.Rhs) == 1 {
						if sl, ok := as.Rhs[0].(*ast.SliceExpr); ok && sl.Low == nil && sl.High != nil {
							if hb, ok := sl.High.(*ast.BinaryExpr); ok && hb.Op == token.SUB && s.text(hb.X) == "len(uid)" && s.text(sl.X) == "uid" {
								cut = s.evalInt(hb.Y, nil, 0)
							}
						}
					}
				}
			}
		}
		return true
	})
	if cutIf < 0 || cut < 0 {
		die("getHelloConstant: the `if len(uid) > N { uid = uid[:len(uid)-M] }` shape was not found")
	}
	if s.text(f.Body.List[0]) != "uid := uniqueID" {
		die("getHelloConstant: first statement is %q", s.text(f.Body.List[0]))
	}
	o.defN("tunnel_uid_cut_if_longer", cutIf)
	o.defN("tunnel_uid_cut", cut)
	sp := c17Calls(s, f.Body, "fmt.Sprintf")
	if len(sp) != 2 {
		die("getHelloConstant: expected two fmt.Sprintf calls, found %d", len(sp))
	}
	names := []string{"clientHello", "serverHello"}
	for i, c := range sp {
		if len(c.Args) != 3 || s.text(c.Args[1]) != "uid" || s.text(c.Args[2]) != "port" {
			die("getHelloConstant: Sprintf #%d has arguments %q", i, s.text(c))
		}
	}
	// which variable receives which format, and the order in which they are returned
	for i, st := range f.Body.List {
		if as, ok := st.(*ast.AssignStmt); ok && len(as.Rhs) == 1 {
			if c, ok := as.Rhs[0].(*ast.CallExpr); ok && s.text(c.Fun) == "fmt.Sprintf" {
				lhs := s.text(as.Lhs[0])
				if lhs != names[0] && lhs != names[1] {
					die("getHelloConstant: statement %d assigns %s", i, lhs)
				}
				o.defBytes("tunnel_"+map[string]string{"clientHello": "client", "serverHello": "server"}[lhs]+"_hello_fmt", s.evalString(c.Args[0]))
			}
		}
	}
	last := f.Body.List[len(f.Body.List)-1]
	if s.text(last) != "return clientHello, serverHello" {
		die("getHelloConstant: returns %q", s.text(last))
	}

	// acceptOnTunnel / connectToTunnel: the sizes of the single reads, the timer
	for _, fn := range []struct{ name, def string }{{"trzszTransfer.acceptOnTunnel", "tunnel_hello_read_size"}, {"trzszTransfer.connectToTunnel", "tunnel_reply_read_size"}} {
		mk := c17Calls(s, s.fn(fn.name).Body, "make")
		var sizes []int64
		for _, c := range mk {
			if len(c.Args) == 2 && s.text(c.Args[0]) == "[]byte" {
				sizes = append(sizes, s.evalInt(c.Args[1], nil, 0))
			}
		}
		if len(sizes) != 1 {
			die("%s: expected exactly one make([]byte, n), found %v", fn.name, sizes)
		}
		o.defN(fn.def, sizes[0])
	}
	ta := c17Calls(s, s.fn("trzszTransfer.connectToTunnel").Body, "time.After")
	if len(ta) != 1 || len(ta[0].Args) != 1 {
		die("connectToTunnel: expected exactly one time.After")
	}
	o.defN("tunnel_connect_timeout_ms", s.evalInt(ta[0].Args[0], nil, 0))

	// wrapTransferInput: the pump's buffer size
	w := s.fn("wrapTransferInput")
	var pump int64 = -1
	ast.Inspect(w.Body, func(n ast.Node) bool {
		if gd, ok := n.(*ast.GenDecl); ok && gd.Tok == token.CONST {
			for _, sp := range gd.Specs {
				vs := sp.(*ast.ValueSpec)
				if len(vs.Names) == 1 && vs.Names[0].Name == "bufSize" && len(vs.Values) == 1 {
					pump = s.evalInt(vs.Values[0], nil, 0)
				}
			}
		}
		return true
	})
	if pump < 0 {
		die("wrapTransferInput: const bufSize not found")
	}
	o.defN("tunnel_pump_bufsize", pump)

	// trz.go / tsz.go: the format of the id handed to acceptOnTunnel
	for _, fn := range []string{"TrzMain", "TszMain"} {
		fd, ok := s.funcs[fn]
		if !ok {
			die("%s not found", fn)
		}
		calls := c17Calls(s, fd.Body, "transfer.acceptOnTunnel")
		if len(calls) != 1 || len(calls[0].Args) != 3 {
			die("%s: expected one transfer.acceptOnTunnel(listener, id, port)", fn)
		}
		id, ok := calls[0].Args[1].(*ast.CallExpr)
		if !ok || s.text(id.Fun) != "fmt.Sprintf" || len(id.Args) != 2 || s.text(id.Args[1]) != "uniqueID" || s.text(calls[0].Args[2]) != "port" {
			die("%s: acceptOnTunnel is called with %q", fn, s.text(calls[0]))
		}
		o.defBytes("tunnel_id_fmt_"+map[string]string{"TrzMain": "trz", "TszMain": "tsz"}[fn], s.evalString(id.Args[0]))
	}
}
