package main

import (
	"go/ast"
	"go/token"
)

func init() { constGens["pump"] = c03GenPump }

// c03LocalConst evaluates `const <name> = <expr>` declared inside the function body.
func c03LocalConst(s *src, f *ast.FuncDecl, name string) (int64, bool) {
	var v int64
	found := false
	ast.Inspect(f.Body, func(n ast.Node) bool {
		if d, ok := n.(*ast.GenDecl); ok && d.Tok == token.CONST {
			for _, sp := range d.Specs {
				vs := sp.(*ast.ValueSpec)
				for i, id := range vs.Names {
					if id.Name == name && i < len(vs.Values) {
						v = s.evalInt(vs.Values[i], nil, 0)
						found = true
					}
				}
			}
		}
		return true
	})
	return v, found
}

// c03MakeSizes returns the size argument of every `make([]byte, n)` of the body; a size
// given by a local constant is resolved.
func c03MakeSizes(s *src, f *ast.FuncDecl) []int64 {
	var out []int64
	ast.Inspect(f.Body, func(n ast.Node) bool {
		c, ok := n.(*ast.CallExpr)
		if !ok || len(c.Args) != 2 {
			return true
		}
		if id, ok := c.Fun.(*ast.Ident); !ok || id.Name != "make" {
			return true
		}
		if s.text(c.Args[0]) != "[]byte" {
			return true
		}
		if id, ok := c.Args[1].(*ast.Ident); ok {
			if v, found := c03LocalConst(s, f, id.Name); found {
				out = append(out, v)
				return true
			}
		}
		out = append(out, s.evalInt(c.Args[1], nil, 0))
		return true
	})
	return out
}

// c03GenPump reads the size of the read buffer of every goroutine that pumps a byte
// source into a trzszBuffer: wrapTransferInput (comm.go), TrzszFilter.wrapOutput
// (filter.go), and the four relay pumps (relay.go).  Every pump must read into a []byte
// made with one size; the number of `make` calls is not constrained (whether a fresh
// array is used per read is a matter for the correspondence check, not for this table).
func c03GenPump(s *src, o *out) {
	one := func(name, fn string) {
		sizes := c03MakeSizes(s, s.fn(fn))
		if len(sizes) == 0 {
			die("%s: no make([]byte, n) found", fn)
		}
		for _, v := range sizes {
			if v != sizes[0] {
				die("%s: read buffers of different sizes %v", fn, sizes)
			}
		}
		if n := len(c03Calls(s, s.fn(fn), "")); n == 0 {
			die("%s: empty body", fn)
		}
		o.defN(name, sizes[0])
	}
	one("pump_transfer_buf_size", "wrapTransferInput")
	one("pump_filter_buf_size", "TrzszFilter.wrapOutput")
	one("pump_relay_stdin_buf_size", "TrzszRelay.wrapInput")
	one("pump_relay_stdout_buf_size", "TrzszRelay.wrapOutput")
	one("pump_tunnel_in_buf_size", "tunnelRelay.wrapInput")
	one("pump_tunnel_out_buf_size", "tunnelRelay.wrapOutput")
}
