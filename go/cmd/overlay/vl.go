package main

// Trace logging pass of the overlay (C13 trace validation).
//
// Every synchronisation operation in relay.go, and every consumption step of
// trzszBuffer.readLine in buffer.go, is rewritten into a call of a `__vl…` wrapper that
// performs the operation and, when $VERIF_VL=1 and the calling goroutine is one of the three
// relay threads (wrapInput = I, wrapOutput = O, handshake = H; registered by goroutine id at
// function entry), appends one event to the relay's in-memory log:
//
//	<role><code>[:<value>…]@<point>          point = r<line in relay.go> | b<line in buffer.go>
//
// Real order: a per-relay mutex makes "operation + append" indivisible for the atomics, the
// channel sends (the consumer goroutines never take that mutex), addBuffer and popBuffer;
// Lock is logged right after it was acquired, Unlock right before it is released; a
// readLine consumption is logged after the bytes were taken.  The position in the log is
// the sequence number.
//
// vlCodeOf is the event <-> label table: program point (function : operation : variable, as
// in Gen/Skel_relay.v) -> event code; Model/Relay.v (rv_labels) maps code + role + model
// state to the label of step_fn.  A synchronisation operation at a point that is not in the
// table is logged with code "?" and rejected by the replay (the execution left the model).
//
//	code  event (Model/Relay.v)   logged value
//	R     RvRead                  the chunk read from clientIn / serverOut
//	L     RvLoad                  status loaded in wrapInput / wrapOutput
//	V     RvReload                status loaded under the lock in addHandshakeBuffer
//	K     RvLock                  (flushHandshakeBuffer: its confirm argument)
//	U     RvUnlock
//	A     RvAdd                   the chunk parked
//	S:c   RvSend on channel c     the chunk sent (sendStringToServer: + action.Confirm)
//	C     RvCas                   expected old status, result
//	T     RvStore                 status stored
//	D     RvDetect                detector output chunk, trigger found
//	G     RvGo
//	E     RvEat                   buffer side, bytes consumed by one readLine iteration
//	Q     RvRes                   buffer side, recvAction / recvConfig succeeded
//	P     RvPop                   buffer side, chunk popped or nil
//	X     RvScope                 tunnel state loaded / stored (must be false / nil)
//	W     (none)                  Swap on relayStatus: new value, old value
//
// Scripted schedules (C13 reset guard): VerifVlSchedule(relay, tokens) makes the wrappers
// wait in front of their operation until the head of the token list is <role><code> of that
// operation (codes X, E, Q, ? are not gated; W counts as C; "*" matches any code); the
// operation and its log entry then happen and the head advances.  So a label sequence of the
// model (a schedule found by the search on the model) is replayed operation by operation on
// the real relay; when the list is exhausted the relay runs free.  A wrapper that waits longer
// than the given timeout, or a role that arrives with another operation than the one listed
// for it, ends the schedule (reported by VerifVlSchedState as diverged at that token).
//
// Deliberately not logged: the bufCh operations inside addBuffer / popBuffer / nextBuffer
// (they ARE the logged A / P / E steps), close(chan) at EOF, the writer goroutines of
// NewTrzszRelay, the tunnel relay goroutines, r.trigger / r.clientIsWindows (racy plain
// fields outside the model), tmuxRefreshClient and the trace logger.

import (
	"fmt"
	"go/ast"
	"go/token"
	"strings"
)

type vlPoint struct {
	Func, Op, Var string
	File          string
	Line          int
	Code          string
}

var vlPoints []vlPoint
var vlGen []string // generated per-site pass-through wrappers

// program point -> event code
var vlCodeOf = map[string]string{
	"TrzszRelay.wrapInput:Read:clientIn":              "R",
	"TrzszRelay.wrapInput:Load:relayStatus":           "L",
	"TrzszRelay.wrapInput:send:osStdinChan":           "S:srv",
	"TrzszRelay.wrapOutput:Read:serverOut":            "R",
	"TrzszRelay.wrapOutput:Load:relayStatus":          "L",
	"TrzszRelay.wrapOutput:send:bypassTmuxChan":       "S:byp",
	"TrzszRelay.wrapOutput:call:detectTrzsz":          "D",
	"TrzszRelay.wrapOutput:Load:tunnelConnector":      "X",
	"TrzszRelay.wrapOutput:Store:relayStatus":         "T",
	"TrzszRelay.listenForTunnel:Load:tunnelConnector": "X",
	"TrzszRelay.wrapOutput:go:handshake":              "G",
	"TrzszRelay.wrapOutput:send:osStdoutChan":         "S:cli",

	"TrzszRelay.addHandshakeBuffer:Lock:bufferLock":      "K",
	"TrzszRelay.addHandshakeBuffer:Load:relayStatus":     "V",
	"TrzszRelay.addHandshakeBuffer:Load:tunnelConnected": "X",
	"TrzszRelay.addHandshakeBuffer:call:addBuffer":       "A",
	"TrzszRelay.addHandshakeBuffer:Unlock:bufferLock":    "U",

	"TrzszRelay.flushHandshakeBuffer:Lock:bufferLock":      "K",
	"TrzszRelay.flushHandshakeBuffer:Unlock:bufferLock":    "U",
	"TrzszRelay.flushHandshakeBuffer:call:popBuffer":       "P",
	"TrzszRelay.flushHandshakeBuffer:Load:tunnelRelay":     "X",
	"TrzszRelay.flushHandshakeBuffer:Load:tunnelConnected": "X",
	"TrzszRelay.flushHandshakeBuffer:send:osStdinChan":     "S:srv",
	"TrzszRelay.flushHandshakeBuffer:send:bypassTmuxChan":  "S:byp",
	"TrzszRelay.flushHandshakeBuffer:send:osStdoutChan":    "S:cli",
	"TrzszRelay.flushHandshakeBuffer:Store:relayStatus":    "T",

	"TrzszRelay.resetToStandby:CompareAndSwap:relayStatus": "C",
	// an unconditional exchange is no step of the model (its reset is guarded): logged as W
	// (new value, old value), rejected by the replay, same gate class as C for a schedule
	"TrzszRelay.resetToStandby:Swap:relayStatus":      "W",
	"TrzszRelay.resetToStandby:Load:tunnelListener":   "X",
	"TrzszRelay.resetToStandby:Store:tunnelListener":  "X",
	"TrzszRelay.resetToStandby:Load:tunnelRelay":      "X",
	"TrzszRelay.resetToStandby:Store:relay":           "X",
	"TrzszRelay.resetToStandby:Store:tunnelRelay":     "X",
	"TrzszRelay.resetToStandby:Store:tunnelConnected": "X",

	// "handshaking" stored by the worker is no step of the model (the output reader publishes it
	// in front of the forward of the trigger): logged as a store of role H, which the replay
	// rejects at H0; gated like any store, so that a schedule can place it
	"TrzszRelay.handshake:Store:relayStatus":               "T",
	"TrzszRelay.handshake:call:recvAction":                 "Q",
	"TrzszRelay.handshake:call:recvConfig":                 "Q",
	"TrzszRelay.handshake:Store:tunnelConnected":           "X",
	"TrzszRelay.recvConfig:Load:tunnelConnected":           "X",
	"TrzszRelay.recvStringFromClient:Load:tunnelConnected": "X",
	"TrzszRelay.recvStringFromServer:Load:tunnelConnected": "X",

	"TrzszRelay.sendStringToServer:Load:tunnelConnected": "X",
	"TrzszRelay.sendStringToServer:Load:tunnelRelay":     "X",
	"TrzszRelay.sendStringToServer:send:osStdinChan":     "S:srv",
	"TrzszRelay.sendStringToClient:Load:tunnelConnected": "X",
	"TrzszRelay.sendStringToClient:Load:tunnelRelay":     "X",
	"TrzszRelay.sendStringToClient:send:bypassTmuxChan":  "S:byp",

	"trzszBuffer.readLine:eat:nextIdx": "E",
}

func vlPt(fn, op, v, file string, line int) ast.Expr {
	code, ok := vlCodeOf[fn+":"+op+":"+v]
	if !ok {
		code = "?"
	}
	vlPoints = append(vlPoints, vlPoint{fn, op, v, file, line, code})
	return &ast.BasicLit{Kind: token.INT, Value: fmt.Sprint(len(vlPoints) - 1)}
}

func vlPointTable() string {
	var b strings.Builder
	for i, p := range vlPoints {
		fmt.Fprintf(&b, "%d\t%s:%d\t%s:%s:%s\t%s\n", i, p.File, p.Line, p.Func, p.Op, p.Var, p.Code)
	}
	return b.String()
}

func vlGenerated() string {
	var b strings.Builder
	b.WriteString("\nvar vlCodes = []string{")
	for _, p := range vlPoints {
		fmt.Fprintf(&b, "%q, ", p.Code)
	}
	b.WriteString("}\nvar vlAt = []string{")
	for _, p := range vlPoints {
		fmt.Fprintf(&b, "%q, ", fmt.Sprintf("%c%d", p.File[0], p.Line))
	}
	b.WriteString("}\nvar vlDescr = []string{")
	for _, p := range vlPoints {
		fmt.Fprintf(&b, "%q, ", fmt.Sprintf("%s:%d %s:%s:%s", p.File, p.Line, p.Func, p.Op, p.Var))
	}
	b.WriteString("}\n")
	for _, g := range vlGen {
		b.WriteString(g)
	}
	return b.String()
}

func vlLastName(e ast.Expr) string {
	switch v := e.(type) {
	case *ast.SelectorExpr:
		return v.Sel.Name
	case *ast.Ident:
		return v.Name
	case *ast.ParenExpr:
		return vlLastName(v.X)
	case *ast.StarExpr:
		return vlLastName(v.X)
	}
	return "?"
}

func vlAddr(e ast.Expr) ast.Expr { return &ast.UnaryExpr{Op: token.AND, X: e} }
func vlID(s string) *ast.Ident   { return ast.NewIdent(s) }

type vlCtx struct {
	fset    *token.FileSet
	file    string
	fn      string   // Recv.name
	recv    string   // receiver identifier
	confirm ast.Expr // the enclosing function's bool parameter "confirm", or the literal false
}

func (x *vlCtx) pt(op, v string, pos token.Pos) ast.Expr {
	return vlPt(x.fn, op, v, x.file, x.fset.Position(pos).Line)
}

// in-place rewriting of call expressions (atomics, lock, buffer calls, pass-through wrappers)
func (x *vlCtx) calls(n ast.Node) {
	ast.Inspect(n, func(nd ast.Node) bool {
		call, ok := nd.(*ast.CallExpr)
		if !ok {
			return true
		}
		se, ok := call.Fun.(*ast.SelectorExpr)
		if !ok {
			return true
		}
		switch se.Sel.Name {
		case "Load":
			if len(call.Args) == 0 {
				v := vlLastName(se.X)
				call.Fun, call.Args = vlID("__vlLoad"), []ast.Expr{vlAddr(se.X), x.pt("Load", v, call.Pos())}
			}
		case "Store":
			if len(call.Args) == 1 {
				v := vlLastName(se.X)
				call.Fun, call.Args = vlID("__vlStore"), []ast.Expr{vlAddr(se.X), call.Args[0], x.pt("Store", v, call.Pos())}
			}
		case "CompareAndSwap":
			if len(call.Args) == 2 {
				v := vlLastName(se.X)
				call.Fun, call.Args = vlID("__vlCas"), []ast.Expr{vlAddr(se.X), call.Args[0], call.Args[1], x.pt("CompareAndSwap", v, call.Pos())}
			}
		case "Swap":
			if len(call.Args) == 1 {
				v := vlLastName(se.X)
				call.Fun, call.Args = vlID("__vlSwap"), []ast.Expr{vlAddr(se.X), call.Args[0], x.pt("Swap", v, call.Pos())}
			}
		case "Lock":
			if len(call.Args) == 0 {
				v := vlLastName(se.X)
				call.Fun, call.Args = vlID("__vlLock"), []ast.Expr{vlAddr(se.X), x.confirm, x.pt("Lock", v, call.Pos())}
			}
		case "Unlock":
			if len(call.Args) == 0 {
				v := vlLastName(se.X)
				call.Fun, call.Args = vlID("__vlUnlock"), []ast.Expr{vlAddr(se.X), x.pt("Unlock", v, call.Pos())}
			}
		case "addBuffer":
			if len(call.Args) == 1 {
				call.Fun, call.Args = vlID("__vlAdd"), []ast.Expr{se.X, call.Args[0], x.pt("call", "addBuffer", call.Pos())}
			}
		case "popBuffer":
			if len(call.Args) == 0 {
				call.Fun, call.Args = vlID("__vlPop"), []ast.Expr{se.X, x.pt("call", "popBuffer", call.Pos())}
			}
		case "recvAction", "recvConfig":
			if x.fn == "TrzszRelay.handshake" {
				id := x.pt("call", se.Sel.Name, call.Pos()).(*ast.BasicLit).Value
				side := map[string]string{"recvAction": "I", "recvConfig": "O"}[se.Sel.Name]
				orig := *call
				name := "__vlRes_" + id
				vlGen = append(vlGen, fmt.Sprintf("func %s[T any](v T, err error) (T, error) { vlRes(%s, %q, err == nil); return v, err }\n", name, id, side))
				call.Fun, call.Args = vlID(name), []ast.Expr{&orig}
				x.calls(orig.Fun) // nothing to do inside, but keep the walk uniform
				for _, a := range orig.Args {
					x.calls(a)
				}
				return false
			}
		case "detectTrzsz":
			id := x.pt("call", "detectTrzsz", call.Pos()).(*ast.BasicLit).Value
			orig := *call
			name := "__vlDet_" + id
			vlGen = append(vlGen, fmt.Sprintf("func %s[T any](b []byte, t *T) ([]byte, *T) { vlDet(%s, b, t != nil); return b, t }\n", name, id))
			call.Fun, call.Args = vlID(name), []ast.Expr{&orig}
			for _, a := range orig.Args {
				x.calls(a)
			}
			return false
		case "sendAction":
			if x.fn == "TrzszRelay.handshake" && len(call.Args) == 1 {
				call.Args[0] = &ast.CallExpr{Fun: vlID("__vlAuxAction"), Args: []ast.Expr{call.Args[0]}}
			}
		}
		return true
	})
}

// statement lists: sends, reads, go statements, readLine consumption
func (x *vlCtx) list(list []ast.Stmt) []ast.Stmt {
	var out []ast.Stmt
	for _, st := range list {
		ast.Inspect(st, func(n ast.Node) bool {
			switch b := n.(type) {
			case *ast.SelectStmt:
				for _, c := range b.Body.List {
					cc := c.(*ast.CommClause)
					cc.Body = x.list(cc.Body)
				}
				return false
			case *ast.SwitchStmt:
				for _, c := range b.Body.List {
					cc := c.(*ast.CaseClause)
					cc.Body = x.list(cc.Body)
				}
				return false
			case *ast.TypeSwitchStmt:
				for _, c := range b.Body.List {
					cc := c.(*ast.CaseClause)
					cc.Body = x.list(cc.Body)
				}
				return false
			case *ast.FuncLit:
				b.Body.List = x.list(b.Body.List)
				return false
			case *ast.BlockStmt:
				b.List = x.list(b.List)
				return false
			}
			return true
		})
		switch s := st.(type) {
		case *ast.SendStmt:
			v := vlLastName(s.Chan)
			out = append(out, &ast.ExprStmt{X: &ast.CallExpr{Fun: vlID("__vlSend"),
				Args: []ast.Expr{s.Chan, s.Value, x.pt("send", v, s.Pos())}}})
			continue
		case *ast.GoStmt:
			if se, ok := s.Call.Fun.(*ast.SelectorExpr); ok {
				out = append(out, &ast.ExprStmt{X: &ast.CallExpr{Fun: vlID("__vlGo"),
					Args: []ast.Expr{x.pt("go", se.Sel.Name, s.Pos())}}})
			}
		case *ast.AssignStmt:
			// n, err := r.clientIn.Read(buffer)
			if len(s.Rhs) == 1 && len(s.Lhs) == 2 {
				if call, ok := s.Rhs[0].(*ast.CallExpr); ok && len(call.Args) == 1 {
					if se, ok := call.Fun.(*ast.SelectorExpr); ok && se.Sel.Name == "Read" && x.recv != "" {
						if in, ok := se.X.(*ast.SelectorExpr); ok && (in.Sel.Name == "clientIn" || in.Sel.Name == "serverOut") {
							out = append(out, st)
							out = append(out, &ast.ExprStmt{X: &ast.CallExpr{Fun: vlID("__vlRead"),
								Args: []ast.Expr{call.Args[0], s.Lhs[0], x.pt("Read", in.Sel.Name, s.Pos())}}})
							continue
						}
					}
				}
			}
			// b.nextIdx += e   (readLine only)
			if x.fn == "trzszBuffer.readLine" && s.Tok == token.ADD_ASSIGN && len(s.Lhs) == 1 && vlLastName(s.Lhs[0]) == "nextIdx" {
				out = append(out, st)
				out = append(out, &ast.ExprStmt{X: &ast.CallExpr{Fun: vlID("__vlEat"),
					Args: []ast.Expr{vlID(x.recv), s.Rhs[0], x.pt("eat", "nextIdx", s.Pos())}}})
				continue
			}
		}
		out = append(out, st)
	}
	return out
}

func vlFunc(fset *token.FileSet, fd *ast.FuncDecl, file string) {
	x := &vlCtx{fset: fset, file: file, fn: fd.Name.Name, confirm: vlID("false")}
	if fd.Recv != nil && len(fd.Recv.List) == 1 {
		t := fd.Recv.List[0].Type
		if s, ok := t.(*ast.StarExpr); ok {
			t = s.X
		}
		if id, ok := t.(*ast.Ident); ok {
			x.fn = id.Name + "." + fd.Name.Name
		}
		if len(fd.Recv.List[0].Names) == 1 {
			x.recv = fd.Recv.List[0].Names[0].Name
		}
	}
	if file == "buffer.go" {
		switch x.fn {
		case "trzszBuffer.readLine":
		case "trzszBuffer.readLineOnWindows":
			// outside the model: a relay thread that gets here is logged as an unknown event
			fd.Body.List = append([]ast.Stmt{&ast.ExprStmt{X: &ast.CallExpr{Fun: vlID("__vlUnknown"),
				Args: []ast.Expr{x.pt("call", "readLineOnWindows", fd.Pos())}}}}, fd.Body.List...)
			return
		default:
			return
		}
	} else if file != "relay.go" {
		return
	}
	if strings.HasPrefix(x.fn, "tunnelRelay.") {
		return // the tunnel relay threads are a different (unmodelled) component
	}
	for _, p := range fd.Type.Params.List {
		if id, ok := p.Type.(*ast.Ident); ok && id.Name == "bool" {
			for _, n := range p.Names {
				if n.Name == "confirm" {
					x.confirm = vlID("confirm")
				}
			}
		}
	}
	x.calls(fd.Body)
	fd.Body.List = x.list(fd.Body.List)
	role := map[string]string{"TrzszRelay.wrapInput": "'I'", "TrzszRelay.wrapOutput": "'O'", "TrzszRelay.handshake": "'H'"}[x.fn]
	if role != "" && x.recv != "" {
		enter := &ast.DeferStmt{Call: &ast.CallExpr{Fun: &ast.CallExpr{Fun: vlID("__vlEnter"),
			Args: []ast.Expr{vlID(x.recv), &ast.BasicLit{Kind: token.CHAR, Value: role}}}}}
		fd.Body.List = append([]ast.Stmt{enter}, fd.Body.List...)
	}
}

// the run-time part, appended to zz_vp.go
const vlHelper = `
var vlOn = os.Getenv("VERIF_VL") == "1"

type vlLog struct {
	mu   sync.Mutex
	ev   []string
	over bool
	r    *TrzszRelay
	// scripted schedule
	smu      sync.Mutex
	sched    []string
	spos     int
	sch      chan struct{}
	stimeout time.Duration
	sdiv     int // token at which the schedule was given up, -1 if it was followed
}

type vlG struct {
	log  *vlLog
	role byte
	aux  bool
	mine bool // the head of the schedule is this goroutine's pending operation
}

// turn waits until the operation at point pt is the head of the relay's schedule
func (g *vlG) turn(pt int) {
	l := g.log
	c := vlCodes[pt][0]
	if c == 'X' || c == 'E' || c == 'Q' || c == '?' {
		return
	}
	if c == 'W' {
		c = 'C'
	}
	for {
		l.smu.Lock()
		if l.spos >= len(l.sched) {
			l.smu.Unlock()
			return
		}
		t := l.sched[l.spos]
		if t[0] == g.role {
			if t[1] == '*' || t[1] == c {
				g.mine = true
				l.smu.Unlock()
				return
			}
			l.giveUp() // this role will not perform the listed operation next
			l.smu.Unlock()
			return
		}
		ch := l.sch
		l.smu.Unlock()
		select {
		case <-ch:
		case <-time.After(l.stimeout):
			l.smu.Lock()
			l.giveUp()
			l.smu.Unlock()
		}
	}
}

// caller holds l.smu
func (l *vlLog) giveUp() {
	if l.spos < len(l.sched) {
		l.sdiv = l.spos
		l.spos = len(l.sched)
		close(l.sch)
		l.sch = make(chan struct{})
	}
}

func (g *vlG) advance() {
	if !g.mine {
		return
	}
	g.mine = false
	l := g.log
	l.smu.Lock()
	if l.spos < len(l.sched) {
		l.spos++
		close(l.sch)
		l.sch = make(chan struct{})
	}
	l.smu.Unlock()
}

func vlNewLog(r *TrzszRelay) *vlLog {
	return &vlLog{r: r, sch: make(chan struct{}), sdiv: -1, stimeout: time.Second}
}

var vlLogs sync.Map // *TrzszRelay -> *vlLog
var vlGs sync.Map   // goroutine id -> *vlG

func vlGoid() uint64 {
	var b [64]byte
	n := runtime.Stack(b[:], false)
	var id uint64
	for _, c := range b[len("goroutine "):n] {
		if c < '0' || c > '9' {
			break
		}
		id = id*10 + uint64(c-'0')
	}
	return id
}

func vlCur() *vlG {
	if !vlOn {
		return nil
	}
	if v, ok := vlGs.Load(vlGoid()); ok {
		return v.(*vlG)
	}
	return nil
}

func __vlEnter(r *TrzszRelay, role byte) func() {
	if !vlOn {
		return func() {}
	}
	l, _ := vlLogs.LoadOrStore(r, vlNewLog(r))
	id := vlGoid()
	vlGs.Store(id, &vlG{log: l.(*vlLog), role: role})
	return func() { vlGs.Delete(id) }
}

// caller holds g.log.mu
func (g *vlG) put(pt int, args string) {
	if len(g.log.ev) >= 1<<16 {
		g.log.over = true
		return
	}
	g.log.ev = append(g.log.ev, string(rune(g.role))+vlCodes[pt]+args+"@"+vlAt[pt])
	g.advance()
}

func vlHex(b []byte) string {
	if len(b) == 0 {
		return "-"
	}
	return hex.EncodeToString(b)
}

func vlVal(v any) string {
	switch s := fmt.Sprintf("%v", v); s {
	case "<nil>", "false":
		return "0"
	case "true":
		return "1"
	default:
		if len(s) > 1 && s[0] == '0' && s[1] == 'x' {
			return "1" // a non-nil pointer
		}
		return s
	}
}

func vlBit(b bool) string {
	if b {
		return "1"
	}
	return "0"
}

func __vlLoad[T any, A interface{ Load() T }](a A, pt int) T {
	g := vlCur()
	if g == nil {
		return a.Load()
	}
	g.turn(pt)
	g.log.mu.Lock()
	v := a.Load()
	g.put(pt, ":"+vlVal(v))
	g.log.mu.Unlock()
	return v
}

func __vlStore[T any, A interface{ Store(T) }](a A, v T, pt int) {
	g := vlCur()
	if g == nil {
		a.Store(v)
		return
	}
	g.turn(pt)
	g.log.mu.Lock()
	a.Store(v)
	g.put(pt, ":"+vlVal(v))
	g.log.mu.Unlock()
}

func __vlCas[T any, A interface{ CompareAndSwap(T, T) bool }](a A, o, n T, pt int) bool {
	g := vlCur()
	if g == nil {
		return a.CompareAndSwap(o, n)
	}
	g.turn(pt)
	g.log.mu.Lock()
	ok := a.CompareAndSwap(o, n)
	g.put(pt, ":"+vlVal(o)+":"+vlBit(ok))
	g.log.mu.Unlock()
	return ok
}

func __vlSwap[T any, A interface{ Swap(T) T }](a A, n T, pt int) T {
	g := vlCur()
	if g == nil {
		return a.Swap(n)
	}
	g.turn(pt)
	g.log.mu.Lock()
	o := a.Swap(n)
	g.put(pt, ":"+vlVal(n)+":"+vlVal(o))
	g.log.mu.Unlock()
	return o
}

func __vlLock(l sync.Locker, aux bool, pt int) {
	g := vlCur()
	if g != nil {
		g.turn(pt)
	}
	l.Lock()
	if g != nil {
		g.log.mu.Lock()
		g.put(pt, ":"+vlBit(aux))
		g.log.mu.Unlock()
	}
}

func __vlUnlock(l sync.Locker, pt int) {
	if g := vlCur(); g != nil {
		g.turn(pt)
		g.log.mu.Lock()
		g.put(pt, "")
		g.log.mu.Unlock()
	}
	l.Unlock()
}

func __vlSend(ch chan []byte, b []byte, pt int) {
	g := vlCur()
	if g == nil {
		ch <- b
		return
	}
	g.turn(pt)
	g.log.mu.Lock()
	defer g.log.mu.Unlock()
	ch <- b
	g.put(pt, ":"+vlHex(b)+":"+vlBit(g.aux))
	g.aux = false
}

func (g *vlG) side(b *trzszBuffer) string {
	switch b {
	case g.log.r.stdinBuffer:
		return "I"
	case g.log.r.stdoutBuffer:
		return "O"
	}
	return "?"
}

func __vlAdd(buf *trzszBuffer, data []byte, pt int) {
	g := vlCur()
	if g == nil {
		buf.addBuffer(data)
		return
	}
	g.turn(pt)
	g.log.mu.Lock()
	g.put(pt, ":"+g.side(buf)+":"+vlHex(data))
	buf.addBuffer(data)
	g.log.mu.Unlock()
}

func __vlPop(buf *trzszBuffer, pt int) []byte {
	g := vlCur()
	if g == nil {
		return buf.popBuffer()
	}
	g.turn(pt)
	g.log.mu.Lock()
	b := buf.popBuffer()
	if b == nil {
		g.put(pt, ":"+g.side(buf)+":nil")
	} else {
		g.put(pt, ":"+g.side(buf)+":"+vlHex(b))
	}
	g.log.mu.Unlock()
	return b
}

func __vlEat(buf *trzszBuffer, n int, pt int) {
	if g := vlCur(); g != nil {
		g.turn(pt)
		g.log.mu.Lock()
		g.put(pt, ":"+g.side(buf)+":"+strconv.Itoa(n))
		g.log.mu.Unlock()
	}
}

func __vlRead(buf []byte, n int, pt int) {
	if n <= 0 {
		return
	}
	if g := vlCur(); g != nil {
		g.turn(pt)
		g.log.mu.Lock()
		g.put(pt, ":"+vlHex(buf[:n]))
		g.log.mu.Unlock()
	}
}

func __vlGo(pt int) {
	if g := vlCur(); g != nil {
		g.turn(pt)
		g.log.mu.Lock()
		g.put(pt, "")
		g.log.mu.Unlock()
	}
}

func __vlUnknown(pt int) { __vlGo(pt) }

func vlRes(pt int, side string, ok bool) {
	if g := vlCur(); g != nil {
		g.turn(pt)
		g.log.mu.Lock()
		g.put(pt, ":"+side+":"+vlBit(ok))
		g.log.mu.Unlock()
	}
}

func vlDet(pt int, b []byte, trig bool) {
	if g := vlCur(); g != nil {
		g.turn(pt)
		g.log.mu.Lock()
		g.put(pt, ":"+vlHex(b)+":"+vlBit(trig))
		g.log.mu.Unlock()
	}
}

// action.Confirm travels with the next send of this goroutine (the rewritten ACT line)
func __vlAuxAction(a *transferAction) *transferAction {
	if g := vlCur(); g != nil && a != nil {
		g.aux = a.Confirm
	}
	return a
}

// VerifVlDump returns the events logged for the relay so far, in real order, and whether
// the log overflowed.
func VerifVlDump(r *TrzszRelay) ([]string, bool) {
	v, ok := vlLogs.Load(r)
	if !ok {
		return nil, false
	}
	l := v.(*vlLog)
	l.mu.Lock()
	defer l.mu.Unlock()
	return append([]string(nil), l.ev...), l.over
}

// VerifVlSchedule installs a scripted schedule for the relay (see the header of vl.go): tokens
// <role><code>, the time a wrapper may wait for its turn.  To be called before the relay is fed.
func VerifVlSchedule(r *TrzszRelay, toks []string, wait time.Duration) {
	if !vlOn {
		return
	}
	v, _ := vlLogs.LoadOrStore(r, vlNewLog(r))
	l := v.(*vlLog)
	l.smu.Lock()
	l.sched, l.spos, l.sdiv, l.stimeout = append([]string(nil), toks...), 0, -1, wait
	l.smu.Unlock()
}

// VerifVlSchedState: tokens consumed, tokens in all, and the index at which the schedule was
// given up (-1: followed so far).
func VerifVlSchedState(r *TrzszRelay) (int, int, int) {
	v, ok := vlLogs.Load(r)
	if !ok {
		return 0, 0, -1
	}
	l := v.(*vlLog)
	l.smu.Lock()
	defer l.smu.Unlock()
	return l.spos, len(l.sched), l.sdiv
}

// VerifVlRelease forgets the relay's log.
func VerifVlRelease(r *TrzszRelay) { vlLogs.Delete(r) }

// VerifVlPoints lists the logged program points: "file:line func:op:var -> code".
func VerifVlPoints() []string {
	out := make([]string, len(vlDescr))
	for i := range vlDescr {
		out[i] = vlDescr[i] + " -> " + vlCodes[i]
	}
	return out
}

// VerifVlEnabled reports whether this build logs (overlay build with VERIF_VL=1).
func VerifVlEnabled() bool { return vlOn }
`
