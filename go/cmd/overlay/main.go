// overlay: schedule-perturbation instrumenter for `go build -overlay`.
//
//	overlay <repo/trzsz dir> <out dir> <file.go>...
//
// Rewrites the named files of the package (in memory; the repository is not touched):
// in front of every statement that contains a channel send/receive, a select, a
// Lock/Unlock, an atomic Load/Store/CompareAndSwap or an addBuffer/popBuffer/readLine call
// it inserts `__vp("<file>:<line>:<kind>")`.  The helper zz_vp.go (added to the package
// through the overlay's Replace map) yields or sleeps briefly there, driven by the seed in
// $VERIF_VP_SEED, and counts the calls into $VERIF_VP_COUNT_FILE.  Writes <out>/overlay.json.
//
// Second pass (trace logging, see vl.go): every synchronisation operation of relay.go and the
// consumption steps of trzszBuffer.readLine are routed through `__vl…` wrappers that, when
// $VERIF_VL=1, append one event (goroutine role, program point, operation, observed value) to
// an in-memory per-relay log in real order.  Writes <out>/points.txt (the point table).
package main

import (
	"bytes"
	"encoding/json"
	"fmt"
	"go/ast"
	"go/parser"
	"go/printer"
	"go/token"
	"os"
	"path/filepath"
	"strings"
)

func kindOf(n ast.Node) string {
	kind := ""
	ast.Inspect(n, func(x ast.Node) bool {
		switch v := x.(type) {
		case *ast.FuncLit:
			return false
		case *ast.BlockStmt:
			if x != n {
				return false
			}
		case *ast.SendStmt:
			kind = "send"
		case *ast.UnaryExpr:
			if v.Op == token.ARROW {
				kind = "recv"
			}
		case *ast.SelectStmt:
			kind = "select"
			return false
		case *ast.CallExpr:
			if se, ok := v.Fun.(*ast.SelectorExpr); ok {
				switch se.Sel.Name {
				case "Lock", "Unlock", "Load", "Store", "CompareAndSwap", "Swap", "addBuffer", "popBuffer", "readLine", "readLineOnWindows":
					kind = se.Sel.Name
				}
			}
		}
		return true
	})
	return kind
}

func instrument(fset *token.FileSet, list []ast.Stmt, file string, count *int) []ast.Stmt {
	var out []ast.Stmt
	for _, st := range list {
		ast.Inspect(st, func(x ast.Node) bool {
			switch b := x.(type) {
			case *ast.SelectStmt:
				for _, c := range b.Body.List {
					cc := c.(*ast.CommClause)
					cc.Body = instrument(fset, cc.Body, file, count)
				}
				return false
			case *ast.SwitchStmt:
				for _, c := range b.Body.List {
					cc := c.(*ast.CaseClause)
					cc.Body = instrument(fset, cc.Body, file, count)
				}
				return false
			case *ast.TypeSwitchStmt:
				for _, c := range b.Body.List {
					cc := c.(*ast.CaseClause)
					cc.Body = instrument(fset, cc.Body, file, count)
				}
				return false
			case *ast.FuncLit:
				b.Body.List = instrument(fset, b.Body.List, file, count)
				return false
			case *ast.BlockStmt:
				b.List = instrument(fset, b.List, file, count)
				return false
			}
			return true
		})
		var k string
		switch s := st.(type) {
		case *ast.IfStmt:
			if s.Init != nil {
				k = kindOf(s.Init)
			}
			if k == "" {
				k = kindOf(s.Cond)
			}
		case *ast.ForStmt, *ast.RangeStmt, *ast.BlockStmt, *ast.SwitchStmt, *ast.TypeSwitchStmt, *ast.LabeledStmt:
		case *ast.DeferStmt, *ast.GoStmt:
		default:
			k = kindOf(st)
		}
		if k != "" {
			*count++
			pos := fset.Position(st.Pos())
			out = append(out, &ast.ExprStmt{X: &ast.CallExpr{Fun: ast.NewIdent("__vp"),
				Args: []ast.Expr{&ast.BasicLit{Kind: token.STRING, Value: fmt.Sprintf("%q", fmt.Sprintf("%s:%d:%s", file, pos.Line, k))}}}})
		}
		out = append(out, st)
	}
	return out
}

const helper = `package trzsz

import (
	"encoding/hex"
	"fmt"
	"os"
	"runtime"
	"strconv"
	"sync"
	"sync/atomic"
	"time"
)

var vpState atomic.Uint64
var vpCalls atomic.Uint64
var vpCountFile = os.Getenv("VERIF_VP_COUNT_FILE")

func init() {
	s, _ := strconv.ParseUint(os.Getenv("VERIF_VP_SEED"), 10, 64)
	vpState.Store(s*2 + 1)
}

func __vp(id string) {
	x := vpState.Add(0x9E3779B97F4A7C15)
	x ^= x >> 30
	x *= 0xBF58476D1CE4E5B9
	x ^= x >> 27
	x *= 0x94D049BB133111EB
	x ^= x >> 31
	switch {
	case x%16 == 0:
		time.Sleep(time.Duration(20+(x>>8)%300) * time.Microsecond)
	case x%4 == 1:
		runtime.Gosched()
	}
	if n := vpCalls.Add(1); n%64 == 1 && vpCountFile != "" {
		_ = os.WriteFile(vpCountFile, []byte(strconv.FormatUint(n, 10)), 0644)
	}
}
`

func main() {
	if len(os.Args) < 4 {
		fmt.Fprintln(os.Stderr, "usage: overlay <repo/trzsz dir> <out dir> <file.go>...")
		os.Exit(2)
	}
	srcDir, outDir := os.Args[1], os.Args[2]
	overlay := map[string]map[string]string{"Replace": {}}
	for _, name := range os.Args[3:] {
		fset := token.NewFileSet()
		path := filepath.Join(srcDir, name)
		f, err := parser.ParseFile(fset, path, nil, parser.ParseComments)
		if err != nil {
			fmt.Fprintln(os.Stderr, "overlay:", err)
			os.Exit(1)
		}
		n := 0
		for _, d := range f.Decls {
			if fd, ok := d.(*ast.FuncDecl); ok && fd.Body != nil {
				fd.Body.List = instrument(fset, fd.Body.List, name, &n)
			}
		}
		nl := len(vlPoints)
		for _, d := range f.Decls {
			if fd, ok := d.(*ast.FuncDecl); ok && fd.Body != nil {
				vlFunc(fset, fd, name)
			}
		}
		fmt.Fprintf(os.Stderr, "overlay: %s: %d logged points\n", name, len(vlPoints)-nl)
		var buf bytes.Buffer
		if err := printer.Fprint(&buf, fset, f); err != nil {
			fmt.Fprintln(os.Stderr, "overlay:", err)
			os.Exit(1)
		}
		dst := filepath.Join(outDir, "vp_"+name)
		if err := os.WriteFile(dst, buf.Bytes(), 0644); err != nil {
			fmt.Fprintln(os.Stderr, "overlay:", err)
			os.Exit(1)
		}
		overlay["Replace"][path] = dst
		fmt.Fprintf(os.Stderr, "overlay: %s: %d points\n", name, n)
		if n == 0 && strings.HasPrefix(name, "relay") {
			fmt.Fprintln(os.Stderr, "overlay: no synchronisation point found in", name)
			os.Exit(1)
		}
	}
	hp := filepath.Join(outDir, "zz_vp.go")
	if err := os.WriteFile(filepath.Join(outDir, "points.txt"), []byte(vlPointTable()), 0644); err != nil {
		fmt.Fprintln(os.Stderr, "overlay:", err)
		os.Exit(1)
	}
	if err := os.WriteFile(hp, []byte(helper+vlHelper+vlGenerated()), 0644); err != nil {
		fmt.Fprintln(os.Stderr, "overlay:", err)
		os.Exit(1)
	}
	overlay["Replace"][filepath.Join(srcDir, "zz_vp.go")] = hp
	js, _ := json.MarshalIndent(overlay, "", " ")
	if err := os.WriteFile(filepath.Join(outDir, "overlay.json"), js, 0644); err != nil {
		fmt.Fprintln(os.Stderr, "overlay:", err)
		os.Exit(1)
	}
}
