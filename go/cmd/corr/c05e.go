package main

// C05/C06, strata added for "what happens to server output while the client is hiding the
// output of a command it interrupted" (group filter-history): after the client has sent ctrl-C
// on behalf of a drag-and-drop upload or of the UploadFiles() API, wrapOutput drops server
// output for 200 ms - but trigger detection comes FIRST: a fresh trigger inside the window
// starts exactly one transfer and its chunk is shown disarmed (TRZSZ -> TRZSZGO); ordinary
// output of the window is dropped; a trigger line split over two reads is, like everywhere,
// no trigger; after the window everything passes.  The scripted server answers the ctrl-C
// byte itself.  Where no trigger fires the history is also evaluated by the model (c05_run,
// token u = UploadFiles API).

import (
	"bytes"
	"encoding/hex"
	"fmt"
	"math/rand"
	"strings"
	"time"

	"github.com/trzsz/trzsz-go/trzsz"
)

type c05WinKind struct {
	name  string
	fires bool
}

var c05WinKinds = []c05WinKind{
	{"ordinary-only", false},
	{"trigger-split-over-two-chunks", false},
	{"trigger-alone", true},
	{"ordinary-and-trigger-in-one-chunk", true},
	{"trigger-and-ordinary-in-one-chunk", true},
	{"ordinary-then-trigger", true},
	{"trigger-after-the-window", true},
}

func c05WindowHistories() []c05Hist {
	var hs []c05Hist
	for _, api := range []bool{false, true} {
		for _, k := range c05WinKinds {
			api, k := api, k
			how := "drag"
			if api {
				how = "api"
			}
			hs = append(hs, c05Hist{name: "window:" + how + ":" + k.name, drag: true, model: !k.fires,
				run: func(x *c05F, work string, rng *rand.Rand) string {
					return c05WindowRun(x, work, rng, api, k)
				}})
		}
	}
	// the API is refused while a transfer runs and while a drop is pending: nothing may start
	hs = append(hs,
		c05Hist{name: "window:api:refused-while-transfer-runs", drag: true,
			run: func(x *c05F, work string, rng *rand.Rand) string {
				x.f.SetDefaultDownloadPath(work)
				if e := c05Handshake(x, 'S', "1.1.6", true); e != "" {
					return e
				}
				x.svrOut.Write(c05EncLine("CFG", c05CFG))
				if !c05WaitBusy(x, 2*time.Second) {
					return "never entered the transfer state"
				}
				from := x.rec.length()
				if err := x.f.UploadFiles([]string{x.paths.exist[0]}); err == nil {
					return "WINDOW: UploadFiles during a transfer was accepted"
				}
				time.Sleep(500 * time.Millisecond)
				if sv := x.rec.bytesSince(from, 's'); bytes.Contains(sv, []byte{3}) {
					return fmt.Sprintf("WINDOW: UploadFiles during a transfer sent ctrl-C into the transfer: %q", sv)
				}
				x.svrOut.Write(c05EncLine("fail", "server side failure"))
				if !c05WaitIdle(x, 5*time.Second) {
					return "the transfer did not end"
				}
				return ""
			}},
		c05Hist{name: "window:api:refused-while-drop-pending", drag: true,
			run: func(x *c05F, work string, rng *rand.Rand) string {
				from := x.rec.length()
				hd, e := x.drop(rng)
				if e != "" {
					return e
				}
				if err := x.f.UploadFiles([]string{x.paths.exist[0]}); err == nil {
					return "WINDOW: UploadFiles while a dropped list is pending was accepted"
				}
				if e := x.uploadRuns(from, x.dragCommand(hd)); e != "" {
					return e
				}
				if e := x.toutMust([]byte("-bash: trz: command not found\r\n$ ")); e != "" {
					return e
				}
				x.bookkeepingEnds()
				if n := bytes.Count(x.rec.bytesSince(from, 's'), []byte{3}); n != 1 {
					return fmt.Sprintf("WINDOW: a drop plus a refused API call sent ctrl-C %d times", n)
				}
				return ""
			}})
	return hs
}

func c05WindowRun(x *c05F, work string, rng *rand.Rand, api bool, k c05WinKind) string {
	x.f.SetDefaultDownloadPath(work)
	from := x.rec.length()
	full := "trz"
	if api {
		if err := x.f.UploadFiles([]string{x.paths.exist[0]}); err != nil {
			return "UploadFiles: " + err.Error()
		}
		x.toks = append(x.toks, "u0")
	} else {
		hd, e := x.drop(rng)
		if e != "" {
			return e
		}
		full = x.dragCommand(hd)
	}
	if !x.waitFor('s', []byte{3}, from, 3*time.Second) {
		return "the upload never sent ctrl-C"
	}
	t0 := time.Now()
	x.tg(0)
	line := []byte(fmt.Sprintf("\x1b7\x07::TRZSZ:TRANSFER:S:1.1.6:%s:0\r\n", c05NextID()))
	shown := func(b []byte) []byte { return bytes.ReplaceAll(b, []byte("TRZSZ"), []byte("TRZSZGO")) }
	type step struct {
		chunk []byte
		want  []byte // nil = nothing may be shown
	}
	var window, after []step
	switch k.name {
	case "ordinary-only":
		window = []step{{[]byte("^C\r\n$ "), nil}, {[]byte("\x1b[?2004hstill printing"), nil}}
	case "trigger-split-over-two-chunks":
		// cut inside the marker or the version: neither half is a trigger on its own (a cut behind
		// the version would leave a complete, shorter trigger in the first half)
		cut := 6 + rng.Intn(bytes.Index(line, []byte(":S:"))+7-6)
		for trzsz.VerifFreshDetectorFires(line[:cut]) || trzsz.VerifFreshDetectorFires(line[cut:]) {
			cut--
		}
		window = []step{{line[:cut], nil}, {line[cut:], nil}}
	case "trigger-alone":
		window = []step{{line, shown(line)}}
	case "ordinary-and-trigger-in-one-chunk":
		b := append([]byte("^C\r\n$ tsz file\r\n"), line...)
		window = []step{{b, shown(b)}}
	case "trigger-and-ordinary-in-one-chunk":
		b := append(append([]byte(nil), line...), []byte("\x1b[?25l")...)
		window = []step{{b, shown(b)}}
	case "ordinary-then-trigger":
		window = []step{{[]byte("^C\r\n"), nil}, {line, shown(line)}}
	case "trigger-after-the-window":
		window = []step{{[]byte("^C\r\n$ "), nil}}
		after = []step{{line, shown(line)}}
	}
	feed := func(st step, where string) string {
		at := x.rec.length()
		x.tout(st.chunk)
		var got []string
		x.winChunks = append(x.winChunks, st.chunk)
		for _, it := range x.rec.snapshot()[at:] {
			if it[0] == 't' {
				got = append(got, it)
				b, _ := hex.DecodeString(strings.TrimPrefix(it[1:], "-"))
				x.winShown = append(x.winShown, b)
			}
		}
		if st.want == nil && len(got) != 0 {
			return fmt.Sprintf("WINDOW: %s: the server output %q should have been hidden, the terminal got %v", where, st.chunk, got)
		}
		if st.want != nil && !(len(got) == 1 && got[0] == "t"+hx(st.want)) {
			return fmt.Sprintf("WINDOW: %s: the chunk %q carries a fresh trigger: it has to be shown as %q (and start a transfer), the terminal got %v",
				where, st.chunk, st.want, got)
		}
		return ""
	}
	res := ""
	for _, st := range window {
		if e := feed(st, "inside the 200 ms after the client's ctrl-C"); e != "" && res == "" {
			res = e
		}
	}
	if time.Since(t0) > 140*time.Millisecond {
		return "LATE" // the machine was too slow to stay inside the window: says nothing
	}
	if !x.waitFor('s', []byte(full+"\r"), from, 3*time.Second) {
		return "the upload never typed " + full
	}
	x.tg(0)
	time.Sleep(20 * time.Millisecond)
	for _, st := range after {
		if e := feed(st, "after the window"); e != "" && res == "" {
			res = e
		}
	}
	if k.fires {
		// DIRECT ORACLE: exactly one transfer per fresh trigger
		x.waitFor('s', []byte("#ACT:"), from, 2*time.Second)
		time.Sleep(200 * time.Millisecond)
		x.winActs = bytes.Count(x.rec.bytesSince(from, 's'), []byte("#ACT:"))
		x.winOK = true
		if n := x.winActs; n != 1 && res == "" {
			res = fmt.Sprintf("WINDOW: a fresh trigger (%s) started %d transfers, exactly 1 expected; the server got %q", k.name, n, x.rec.bytesSince(from, 's'))
		}
		if res != "" {
			return res
		}
		x.svrOut.Write(c05EncLine("CFG", c05CFG))
		if !c05WaitBusy(x, 2*time.Second) {
			return "never entered the transfer state"
		}
		x.svrOut.Write(c05EncLine("fail", "server side failure"))
		if !c05WaitIdle(x, 5*time.Second) {
			return "the transfer did not end"
		}
		time.Sleep(3300 * time.Millisecond)
		return ""
	}
	x.winOK = true
	if res != "" {
		return res
	}
	// no trigger: the episode goes on as usual (echo, a shell that does not know the command)
	at := x.rec.length()
	x.tout([]byte(full + "\r\n"))
	if got := x.rec.snapshot()[at:]; !c05Only(got, 't', []byte("\r\n")) {
		return fmt.Sprintf("the echo of the upload command %q was shown as %v", full, got)
	}
	if e := x.toutMust([]byte("-bash: " + strings.Fields(full)[0] + ": command not found\r\n$ ")); e != "" {
		return e
	}
	x.bookkeepingEnds()
	return ""
}
