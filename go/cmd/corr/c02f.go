package main

// C02 transcript-level tie of the end-to-end fault runs (group "e2e-faults", c02.go).
//
// For every run the driver records each direction twice: AS SENT (what the real process wrote,
// before the fault) and AS DELIVERED (after the fault).  The delivered stream of the direction
// that carries the files is cut and typed with the tolerant parser of c02t.go and handed to the
// model's receiver machine (tr_receiver through FaultTie.ft_receive); the model must write
// exactly what the real receiver wrote (its stream as sent, typed), save exactly the files the
// real receiver answered with SUCC:<digest> - with the content found on disk -, and end the way
// the real receiver ended (names reported / failure).  Likewise the delivered answers are handed
// to the model's sender machine (tr_sender), which must write what the real sender wrote and end
// the way it ended.

import (
	"bytes"
	"crypto/md5"
	"encoding/base64"
	"encoding/hex"
	"fmt"
	"os"
	"path/filepath"
	"strings"

	"github.com/trzsz/trzsz-go/trzsz"
)

type c02fRun struct {
	cfg      e2eCfg
	tops     []string
	pre      []c01tPre
	dest     string
	sent     [2][]byte
	deliv    [2][]byte
	res      e2eResult
	desc     string
	staleCut bool // bytes that arrived after a silence longer than the receive timeout were cut off
	kind     string
}

type c02fOut struct {
	emits  []c02sEmit
	counts []string
	viols  []c01tViol
	skip   string
}

func c02fHexNames(names []string) string {
	parts := make([]string, len(names))
	for i, s := range names {
		parts[i] = hx([]byte(s))
	}
	return strings.Join(parts, "+")
}

// the line that starts at the first occurrence of marker: (text, offset behind its newline)
func c02fMarkedLine(w []byte, marker string) ([]byte, int) {
	i := bytes.Index(w, []byte(marker))
	if i < 0 {
		return nil, -1
	}
	j := bytes.IndexByte(w[i:], '\n')
	if j < 0 {
		return nil, -1
	}
	return w[:i+j+1], i + j + 1
}

// canonical tokens of the answering direction (see ocaml/m_faulttie.ml: ft_canon_r)
func c02fCanonR(toks []string) []string {
	var a []string
	prevAck := false
	for i := 0; i < len(toks); i++ {
		t := toks[i]
		if prevAck && t[0] == 'I' && i+1 < len(toks) && toks[i+1][0] == 'I' {
			continue
		}
		a = append(a, t)
		prevAck = t[0] == 'A' || (prevAck && t[0] == 'I')
	}
	last := -1
	for i, t := range a {
		if t[0] == 'D' || t[0] == 'X' {
			last = i
		}
	}
	var out []string
	saw := false
	for i, t := range a {
		if i > last {
			if t[0] == 'A' {
				saw = true
				continue
			}
			if t[0] == 'I' && saw {
				continue
			}
		}
		out = append(out, t)
	}
	return out
}

func c02fEvaluate(r *c02fRun) (o c02fOut) {
	viol := func(key, what, detail string) {
		o.viols = append(o.viols, c01tViol{key, what, r.desc + " :: " + detail})
	}
	if !r.res.started {
		o.skip = "not-started"
		return
	}
	if r.staleCut {
		o.counts = append(o.counts, "tie-late-bytes-cut")
	}
	// ---- the handshake must have been delivered as sent (both ends then hold the announced configuration)
	actS, offS0 := c02fMarkedLine(r.sent[dirC2S], "#ACT:")
	actD, offD0 := c02fMarkedLine(r.deliv[dirC2S], "#ACT:")
	cfgS, offS1 := c02fMarkedLine(r.sent[dirS2C], "#CFG:")
	cfgD, offD1 := c02fMarkedLine(r.deliv[dirS2C], "#CFG:")
	if offS0 < 0 || offS1 < 0 {
		o.skip = "no-handshake"
		return
	}
	if !bytes.Equal(actS, actD) || !bytes.Equal(cfgS, cfgD) {
		o.skip = "handshake-damaged"
		return
	}
	cg, bad := c01tParseCfg(c01tLines(cfgS, false))
	if bad != "" {
		o.skip = "cfg-unparsable"
		return
	}
	g := &c02tCfg{proto: cg.Protocol, binary: cg.Binary, dir: cg.Directory, table: cg.table, pairs: cg.pairs, compress: cg.Compress}
	bs := cg.Bufsize
	if bs < 10240 {
		bs = 10240
	}
	g.maxData = bs * 2
	sentOff := [2]int{offS0, offS1}
	delivOff := [2]int{offD0, offD1}
	sdir, rdir := dirS2C, dirC2S
	if r.cfg.upload {
		sdir, rdir = dirC2S, dirS2C
	}
	recvIn := c02tTypeData(c02tLex(r.deliv[sdir][delivOff[sdir]:], g.binary, g.v3(), g.maxData), g)
	sendOut := c02tTypeData(c02tLex(r.sent[sdir][sentOff[sdir]:], g.binary, g.v3(), g.maxData), g)
	recvOut := c02tTypeAck(c02tLex(r.sent[rdir][sentOff[rdir]:], false, g.v3(), 0), g)
	sendIn := c02tTypeAck(c02tLex(r.deliv[rdir][delivOff[rdir]:], false, g.v3(), 0), g)

	// ---- exchanges the model does not cover (archive stream, resume): direct oracles only
	for _, ms := range [][]c02tMsg{recvIn, sendOut} {
		for _, m := range ms {
			if m.kind == "NAME" && m.name.archive {
				o.skip = "unmodelled-archive"
				return
			}
		}
	}
	for _, ms := range [][]c02tMsg{recvOut, sendIn} {
		for _, m := range ms {
			if m.kind == "SUCCS" && m.jsOK && m.jsSize > 0 {
				o.skip = "unmodelled-resume"
				return
			}
		}
	}
	up := "0"
	if r.cfg.upload {
		up = "1"
	}
	cfgArg := fmt.Sprintf("%d:%s:%s:%s:%d:%s", cg.Protocol, c01tB(cg.Binary), c01tB(cg.Directory), c01tB(cg.Overwrite), cg.Compress, up)
	shown := r.res.serverOut
	serverNames, serverSaved := parseSaved(shown)
	serverOK := serverSaved && r.res.serverExited && r.res.serverCode == 0

	// =============================== receiver ===============================
	{
		var toks []string
		var zdec, unzl []string
		seenZ := map[string]bool{}
		var frames [][]byte
		for _, m := range recvIn {
			switch m.kind {
			case "NUM":
				toks = append(toks, fmt.Sprintf("U:%d", m.n))
			case "NAME":
				if m.name.json {
					toks = append(toks, fmt.Sprintf("J:%d:%s:%s:%d:%s", m.name.id, c01tB(m.name.isDir), c01tB(m.name.archive), m.name.size, c01tHexRel(m.name.rel)))
				} else {
					toks = append(toks, "P:"+hx([]byte(m.name.plain)))
				}
			case "SIZE":
				toks = append(toks, fmt.Sprintf("Z:%d", m.n))
			case "COMP":
				toks = append(toks, "C:"+c01tB(m.b))
			case "DATA":
				toks = append(toks, "D:"+hx(m.frame))
				if g.pipeline() {
					if len(m.frame) > 0 {
						frames = append(frames, m.frame)
						continue
					}
					// the finish flag: what the real codecs make of the frames
					if mid, ok := c02tDecodeFrames(g, false, frames); ok {
						if content, ok := c02tDecodeFrames(g, true, frames); ok && !seenZ[string(mid)] {
							seenZ[string(mid)] = true
							zdec = append(zdec, hx(mid)+">"+hx(content))
						}
					}
				} else if !g.binary && m.chunkOK {
					if raw, err := base64.StdEncoding.DecodeString(string(m.frame)); err == nil && !seenZ[string(raw)] {
						seenZ[string(raw)] = true
						unzl = append(unzl, hx(raw)+">"+hx(m.chunk))
					}
				}
			case "MD5":
				toks = append(toks, "M:"+hx(m.raw))
			case "EXIT":
				if ns, ok := parseSaved(string(m.raw)); ok {
					toks = append(toks, "X:"+c02fHexNames(ns))
				} else {
					toks = append(toks, "X:!")
				}
			case "KEEP":
				toks = append(toks, "K")
				continue
			case "FAIL":
				toks = append(toks, "F")
			default:
				toks = append(toks, "O")
			}
			if m.kind != "DATA" {
				frames = nil
			}
			if m.kind == "DATA" && g.pipeline() && len(m.frame) == 0 {
				frames = nil
			}
		}
		// what the real receiver wrote
		var names []c01tName
		for _, m := range recvIn {
			if m.kind == "NAME" {
				names = append(names, m.name)
			}
		}
		var rt []string
		type reply struct {
			name  string
			saved bool
			dig   []byte
		}
		var replies []*reply
		var exitNames []string
		exited := false
		for _, m := range recvOut {
			switch m.kind {
			case "SUCCI":
				rt = append(rt, fmt.Sprintf("I%d", m.n))
			case "ACK":
				rt = append(rt, fmt.Sprintf("A%d", m.n))
			case "SUCCS":
				switch {
				case g.v3() && m.jsOK:
					rt = append(rt, fmt.Sprintf("T%s:%d", hx([]byte(m.jsName)), m.jsSize))
					replies = append(replies, &reply{name: m.jsName})
				case len(m.raw) == 16 && len(replies) > 0 && !replies[len(replies)-1].saved:
					rt = append(rt, "D"+hx(m.raw))
					replies[len(replies)-1].saved = true
					replies[len(replies)-1].dig = m.raw
				default:
					rt = append(rt, "N"+hx(m.raw))
					replies = append(replies, &reply{name: string(m.raw)})
				}
			case "EXIT":
				ns, _ := parseSaved(string(m.raw))
				exitNames, exited = ns, true
				rt = append(rt, "X"+c02fHexNames(ns))
			}
		}
		rt = c02fCanonR(rt)
		// the j-th SUCC:<digest> answers the j-th MD5 message delivered: the values must be equal
		{
			var handed [][]byte
			for _, m := range recvIn {
				if m.kind == "MD5" {
					handed = append(handed, m.raw)
				}
			}
			j := 0
			for _, rp := range replies {
				if !rp.saved {
					continue
				}
				if j >= len(handed) || !bytes.Equal(handed[j], rp.dig) {
					h := []byte(nil)
					if j < len(handed) {
						h = handed[j]
					}
					viol("fault-tie:answered-other-digest", "the receiver answered SUCC:<digest> although the MD5 value delivered to it is a different one",
						fmt.Sprintf("file %q: answered %s, delivered %s", rp.name, hx(rp.dig), hx(h)))
				}
				j++
			}
		}
		var saved []string
		for k, rp := range replies {
			if !rp.saved || k >= len(names) {
				continue
			}
			comps := []string{rp.name}
			if names[k].json {
				comps = append(comps, names[k].rel[1:]...)
			}
			b, err := os.ReadFile(filepath.Join(append([]string{r.dest}, comps...)...))
			sum := md5.Sum(b)
			hc := make([]string, len(comps))
			for i, c := range comps {
				hc[i] = hx([]byte(c))
			}
			saved = append(saved, strings.Join(hc, "/")+":"+hex.EncodeToString(sum[:]))
			if err != nil || !bytes.Equal(sum[:], rp.dig) {
				viol("fault-tie:saved-content", "the receiver answered an MD5 line with SUCC, but the file on disk does not have the digest it echoed",
					fmt.Sprintf("%s: err=%v md5(disk)=%s echoed=%s", strings.Join(comps, "/"), err, hex.EncodeToString(sum[:]), hx(rp.dig)))
			}
		}
		end := "F"
		if r.cfg.upload {
			if serverOK {
				end = "D:" + c02fHexNames(serverNames)
			}
		} else if exited {
			end = "D:" + c02fHexNames(exitNames)
		}
		nSaved := 0
		for _, rp := range replies {
			if rp.saved {
				nSaved++
			}
		}
		impl := fmt.Sprintf("OUT=%s|SAVED=%s|END=%s|V=1", strings.Join(rt, " "), strings.Join(saved, ","), end)
		join := func(l []string, sep string) string {
			if len(l) == 0 {
				return "-"
			}
			return strings.Join(l, sep)
		}
		o.emits = append(o.emits, c02sEmit{end == "F", "fault_receiver", impl,
			[]string{cfgArg, tableArg(g.pairs), hx([]byte("d")), c01tFsArg(r.pre), join(toks, ","), join(zdec, ";"), join(unzl, ";")}})
		o.counts = append(o.counts, fmt.Sprintf("tie-receiver-files-saved:%d", nSaved), "tie-receiver-end:"+end[:1])
	}

	// =============================== sender ===============================
	{
		type ent struct {
			name    c01tName
			content []byte
			frames  [][]byte
			chunks  [][]byte
			comp    *bool
			hasMD5  bool
		}
		var es []*ent
		var cur *ent
		plainIdx := 0
		okEntries := true
		for _, m := range sendOut {
			switch m.kind {
			case "NAME":
				cur = &ent{name: m.name}
				es = append(es, cur)
				var src string
				if m.name.json {
					if m.name.id < 0 || m.name.id >= len(r.tops) {
						okEntries = false
						continue
					}
					src = filepath.Join(append([]string{filepath.Dir(r.tops[m.name.id])}, m.name.rel...)...)
				} else {
					if plainIdx >= len(r.tops) {
						okEntries = false
						continue
					}
					src = r.tops[plainIdx]
					plainIdx++
				}
				if !m.name.isDir {
					b, err := os.ReadFile(src)
					if err != nil {
						okEntries = false
					}
					cur.content = b
				}
			case "COMP":
				if cur != nil {
					b := m.b
					cur.comp = &b
				}
			case "DATA":
				if cur != nil {
					if g.pipeline() {
						if len(m.frame) > 0 {
							cur.frames = append(cur.frames, m.frame)
						}
					} else {
						cur.frames = append(cur.frames, m.frame)
						cur.chunks = append(cur.chunks, m.chunk)
					}
				}
			case "MD5":
				if cur != nil {
					cur.hasMD5 = true
				}
			}
		}
		if !okEntries {
			o.counts = append(o.counts, "tie-sender-skipped:entries")
		} else {
			var entArgs []string
			for _, e := range es {
				rel, id := e.name.rel, e.name.id
				if !e.name.json {
					rel, id = []string{e.name.plain}, 0
				}
				if e.name.isDir {
					entArgs = append(entArgs, fmt.Sprintf("%d;1;%s;-;-;-;-;0;-;-", id, c01tHexRel(rel)))
					continue
				}
				sum := md5.Sum(e.content)
				var sizes []int64
				var z []byte
				if g.pipeline() {
					for _, f := range e.frames {
						sizes = append(sizes, int64(len(f)))
					}
					if e.hasMD5 {
						if mid, ok := c02tDecodeFrames(g, false, e.frames); ok && !bytes.Equal(mid, e.content) {
							z = mid
						}
					}
				} else {
					for _, c := range e.chunks {
						sizes = append(sizes, int64(len(c)))
					}
				}
				profit := false
				if e.comp != nil {
					profit = *e.comp
				}
				entArgs = append(entArgs, fmt.Sprintf("%d;0;%s;%s;%s;%s;%s;%s;-;-", id, c01tHexRel(rel), hx(e.content), hx(sum[:]), hx(z),
					c01tInts(sizes, "."), c01tB(profit)))
			}
			// NUM announces the entries; when the sender failed before it named them all, the model still
			// needs them: the remaining sources, in order (flat sources only: what the fault bases use)
			num := -1
			for _, m := range sendOut {
				if m.kind == "NUM" {
					num = int(m.n)
					break
				}
			}
			complete := num == len(es)
			if num > len(es) && !cg.Directory {
				complete = true
				for k := len(es); k < num && k < len(r.tops); k++ {
					b, err := os.ReadFile(r.tops[k])
					if err != nil {
						complete = false
						break
					}
					sum := md5.Sum(b)
					nm := filepath.Base(r.tops[k])
					id := 0
					if g.v3() {
						id = k
					}
					entArgs = append(entArgs, fmt.Sprintf("%d;0;%s;%s;%s;-;-;0;-;-", id, hx([]byte(nm)), hx(b), hx(sum[:])))
				}
				complete = complete && num == len(entArgs)
			}
			if !complete {
				o.counts = append(o.counts, "tie-sender-skipped:entries-unknown")
			} else {
				var acks []string
				for _, m := range sendIn {
					switch m.kind {
					case "SUCCI":
						acks = append(acks, fmt.Sprintf("I:%d", m.n))
					case "ACK":
						acks = append(acks, fmt.Sprintf("A:%d:%d", m.n, m.step))
					case "SUCCS":
						jn := "!"
						if m.jsOK {
							jn = hx([]byte(m.jsName))
						}
						acks = append(acks, fmt.Sprintf("S:%s:%s:%d", hx(m.raw), jn, m.jsSize))
					case "EXIT":
						// "!" = the text is not a "Saved ..." message (damaged): what the server then shows is no success
						if ns, ok := parseSaved(string(m.raw)); ok {
							acks = append(acks, "X:"+c02fHexNames(ns))
						} else {
							acks = append(acks, "X:!")
						}
					case "KEEP":
						acks = append(acks, "K")
					case "FAIL":
						acks = append(acks, "F")
					default:
						acks = append(acks, "O")
					}
				}
				// what the real sender wrote
				var st []string
				cnt, sum := 0, 0
				var exitNames []string
				exited := false
				for _, m := range sendOut {
					switch m.kind {
					case "NUM":
						st = append(st, fmt.Sprintf("U%d", m.n))
					case "NAME":
						if m.name.json {
							st = append(st, fmt.Sprintf("J%d:%s:%s:%d:%s", m.name.id, c01tB(m.name.isDir), c01tB(m.name.archive), m.name.size, c01tHexRel(m.name.rel)))
						} else {
							st = append(st, "P"+hx([]byte(m.name.plain)))
						}
					case "SIZE":
						cnt, sum = 0, 0
						st = append(st, fmt.Sprintf("Z%d", m.n))
					case "COMP":
						st = append(st, "C"+c01tB(m.b))
					case "DATA":
						cnt++
						if g.pipeline() || g.binary {
							sum += len(m.frame)
						} else {
							sum += len(m.chunk)
						}
					case "MD5":
						st = append(st, fmt.Sprintf("F%d:%d", cnt, sum), "M"+hx(m.raw))
						cnt, sum = 0, 0
					case "EXIT":
						ns, _ := parseSaved(string(m.raw))
						exitNames, exited = ns, true
						st = append(st, "X"+c02fHexNames(ns))
					}
				}
				end := "F"
				if r.cfg.upload {
					if exited && r.res.uploadErr == nil {
						end = "D:" + c02fHexNames(exitNames)
					}
				} else if serverOK {
					end = "D:" + c02fHexNames(serverNames)
				}
				join := func(l []string, sep string) string {
					if len(l) == 0 {
						return "-"
					}
					return strings.Join(l, sep)
				}
				o.emits = append(o.emits, c02sEmit{end == "F", "fault_sender", fmt.Sprintf("OUT=%s|END=%s", strings.Join(st, " "), end),
					[]string{cfgArg, tableArg(g.pairs), fmt.Sprint(c01tDflt), join(entArgs, ","), join(acks, ",")}})
				o.counts = append(o.counts, "tie-sender-end:"+end[:1])
			}
		}
	}
	_ = trzsz.VerifEncodeBytes
	return
}
