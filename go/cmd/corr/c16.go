package main

import (
	"bytes"
	"fmt"
	"os"
	"runtime"
	"sort"
	"strings"
	"sync/atomic"
	"time"

	"github.com/trzsz/trzsz-go/trzsz"
)

func init() { groups["noise"] = c16GenNoise }

// ---- the real recvLine ----

type c16Real struct {
	t         *trzsz.VerifLineTransfer
	panicText string // text of the last panic of the real reader
}

// recv issues one recvLine with every chunk queued beforehand; the timeout fires exactly
// when the queue has been emptied (see c03Real.read), so "B" is observed deterministically.
func (r *c16Real) recv(ty string, junk bool) (kind string, line []byte) {
	var done atomic.Bool
	// a panic of the real reader is an observation ("P" + the panic text), not the end of the run
	defer func() {
		if p := recover(); p != nil {
			done.Store(true)
			kind, line = "P", []byte(fmt.Sprint(p))
		}
	}()
	ch := make(chan time.Time, 1)
	if r.t.QueueLen() == 0 {
		ch <- time.Time{}
	} else {
		go func() {
			for r.t.QueueLen() > 0 && !done.Load() {
				runtime.Gosched()
			}
			ch <- time.Time{}
		}()
	}
	data, err := r.t.RecvLine(ty, junk, ch)
	done.Store(true)
	switch trzsz.VerifReadErrClass(err) {
	case "ok":
		return "d", append([]byte(nil), data...)
	case "timeout":
		return "B", nil
	case "interrupted":
		return "I", nil
	default:
		return "E", nil
	}
}

// run queues the chunks, calls recvLine once per expected type, reads on after an
// interrupt and stops at the first Blocked; then empties the buffer.
func (r *c16Real) run(chunks [][]byte, tys []string, junk bool) []string {
	for _, c := range chunks {
		r.t.AddReceivedData(c)
	}
	var res []string
	for _, ty := range tys {
		k, d := r.recv(ty, junk)
		if k == "d" {
			res = append(res, "d"+hx(d))
			continue
		}
		res = append(res, k)
		if k == "P" {
			r.panicText = string(d)
		}
		if k != "I" {
			break
		}
	}
	r.t.Reset()
	return res
}

// c16PanicKey makes a stable key of a panic text (numbers kept: "index out of range [-1]")
func c16PanicKey(text string) string {
	var sb strings.Builder
	for _, r := range text {
		switch {
		case r >= 'a' && r <= 'z', r >= 'A' && r <= 'Z', r >= '0' && r <= '9', r == '-':
			sb.WriteRune(r)
		default:
			sb.WriteByte('_')
		}
	}
	k := sb.String()
	if len(k) > 60 {
		k = k[:60]
	}
	return k
}

func c16TysStr(tys []string) string {
	if len(tys) == 0 {
		return "."
	}
	parts := make([]string, len(tys))
	for i, t := range tys {
		parts[i] = hx([]byte(t))
	}
	return strings.Join(parts, ",")
}

var c16Types = []string{"ACT", "CFG", "NUM", "NAME", "SIZE", "DATA", "MD5", "SUCC", "FAIL", "fail", "EXIT", "A"}

const c16PayloadAlphabet = "ABCDEFGHIJKLMNOPQRSTUVWXYZabcdefghijklmnopqrstuvwxyz0123456789+/="

func (c *ctx) c16Payload(max int) []byte {
	n := c.rng.Intn(max + 1)
	b := make([]byte, n)
	for i := range b {
		b[i] = c16PayloadAlphabet[c.rng.Intn(len(c16PayloadAlphabet))]
	}
	return b
}

// ---- tmux noise, mirroring Model/Noise.v: with_status, wrapped, tmux_noisy ----

var c16StatusBegin = []byte("\x1bP=")
var c16StatusEnd = []byte("\x1b\\")

// status text: no LF CR Ctrl-C '#'; t1 must not produce an early "ESC P =", t2 no early "ESC \"
func (c *ctx) c16StatusText(first bool) []byte {
	if c.rng.Intn(3) == 0 { // what tmux really sends
		if first {
			return []byte("1s\x1b\\\x1b[?25l\x1b[?12l\x1b[?25h\x1b[5 q")
		}
		return []byte("2s")
	}
	for {
		n := c.rng.Intn(12)
		t := make([]byte, n)
		for i := range t {
			t[i] = c.c16Pick("12s \x1b\\[?;lhqP=:a")
		}
		if first && bytes.Contains(append(append([]byte(nil), t...), c16StatusBegin[:2]...), c16StatusBegin) {
			continue
		}
		if !first && bytes.Contains(append(append([]byte(nil), t...), c16StatusEnd[:1]...), c16StatusEnd) {
			continue
		}
		return t
	}
}

func (c *ctx) c16StatusPair() []byte {
	var b []byte
	b = append(b, c16StatusBegin...)
	b = append(b, c.c16StatusText(true)...)
	b = append(b, c16StatusBegin...)
	b = append(b, c.c16StatusText(false)...)
	b = append(b, c16StatusEnd...)
	return b
}

// a truncated status for the very end of the line: the first "ESC P =" is complete, the
// cut is anywhere behind it (also inside the second "ESC P =" or inside "ESC \")
func (c *ctx) c16StatusTruncated() []byte {
	full := c.c16StatusPair()
	return full[:3+c.rng.Intn(len(full)-2)]
}

type c16Tmux struct {
	rendering []byte
	kinds     map[string]bool
}

// a tmux-noisy rendering of "#ty:pl" (without the final LF)
func (c *ctx) c16TmuxNoisy(ty string, pl []byte, wantJunk, wantStatus, wantWrap, wantTrunc int) c16Tmux {
	kinds := map[string]bool{}
	marker := "#" + ty + ":"
	inner := append([]byte(ty+":"), pl...)
	// the text in front may echo an earlier line with the same marker, provided no status
	// string splits this line's marker
	echo := wantJunk > 0 && c.rng.Intn(3) == 0
	// status pairs anywhere in ty:pl (positions 0..len), also several at one place
	var s []byte
	for i := 0; i <= len(inner); i++ {
		for wantStatus > 0 && c.rng.Intn(len(inner)+1) == 0 && !(echo && i <= len(ty)) {
			s = append(s, c.c16StatusPair()...)
			kinds["status"] = true
			if i <= len(ty) {
				kinds["status-in-marker"] = true
			}
			wantStatus--
		}
		if i < len(inner) {
			s = append(s, inner[i])
		}
	}
	if wantTrunc > 0 {
		s = append(s, c.c16StatusTruncated()...)
		kinds["status-truncated"] = true
	}
	var junk []byte
	if wantJunk > 0 {
		for {
			n := c.rng.Intn(30)
			junk = make([]byte, n)
			for i := range junk {
				switch c.rng.Intn(6) {
				case 0:
					junk[i] = '#'
				case 1:
					junk[i] = (ty + ":\r")[c.rng.Intn(len(ty)+2)]
				case 2:
					junk[i] = c.c16Pick("\x1bP=\\$ ")
				default:
					junk[i] = byte(c.rng.Intn(256))
				}
				if junk[i] == '\n' || junk[i] == 3 {
					junk[i] = ' '
				}
			}
			if c.rng.Intn(3) == 0 { // another line's marker in front
				other := c16Types[c.rng.Intn(len(c16Types))]
				if other != ty {
					junk = append(junk, []byte("#"+other+":abc")...)
				}
			}
			if echo {
				pos := c.rng.Intn(len(junk) + 1)
				old := append([]byte(marker), c.c16Payload(6)...)
				if c.rng.Intn(2) == 0 {
					old = append(old, '\r', '\n')
				}
				junk = append(junk[:pos], append(old, junk[pos:]...)...)
				kinds["junk-with-marker"] = true
				break
			}
			if !bytes.Contains(junk, []byte(marker)) {
				break
			}
		}
		if len(junk) > 0 {
			kinds["junk"] = true
		}
	}
	l := append(append(junk, '#'), s...)
	// CR LF wraps anywhere, any multiplicity
	var out []byte
	for i := 0; i <= len(l); i++ {
		for wantWrap > 0 && c.rng.Intn(len(l)/2+2) == 0 {
			out = append(out, '\r', '\n')
			kinds["wrap"] = true
			if i > len(junk) && i <= len(junk)+len(marker) {
				kinds["wrap-in-marker"] = true
			}
			if i == len(l) {
				kinds["wrap-before-terminator"] = true
			}
			wantWrap--
		}
		if i < len(l) {
			out = append(out, l[i])
		}
	}
	return c16Tmux{out, kinds}
}

func c16Kinds(k map[string]bool) string {
	var ks []string
	for x := range k {
		ks = append(ks, x)
	}
	sort.Strings(ks)
	if len(ks) == 0 {
		return "none"
	}
	return strings.Join(ks, "+")
}

// ---- Windows console noise, mirroring Model/Noise.v: atom, win_noisy ----

type c16Atom struct {
	kind  byte // 'p' pad, 'n' newline, 'v' vt100, 'm' cursor move, 'h' cursor home
	body  []byte
	final byte
}

func (a c16Atom) render() []byte {
	switch a.kind {
	case 'p':
		return []byte{a.final}
	case 'n':
		return []byte{'\n'}
	case 'v':
		return append(append([]byte{0x1b}, a.body...), a.final)
	case 'm':
		return append(append([]byte{0x1b}, a.body...), 'H')
	default:
		return append(append([]byte{0x1b}, a.body...), '[', 'H')
	}
}

func c16Render(n []c16Atom) []byte {
	var b []byte
	for _, a := range n {
		b = append(b, a.render()...)
	}
	return b
}

func (c *ctx) c16Body() []byte {
	switch c.rng.Intn(4) {
	case 0:
		return []byte("[")
	case 1:
		return []byte(fmt.Sprintf("[%d", c.rng.Intn(300)))
	case 2:
		return []byte("[?25")
	}
	n := c.rng.Intn(6)
	b := make([]byte, n)
	for i := range b {
		b[i] = c.c16Pick("[0123456789;?= \x1b\r@")
	}
	return b
}

const c16Pads = " \t\b\r.,-_*()\x00\x7f\x80\xff\"'<>|~`^&%$@\\[]{}"

func (c *ctx) c16AtomOf(kind byte) c16Atom {
	switch kind {
	case 'p':
		return c16Atom{kind: 'p', final: c16Pads[c.rng.Intn(len(c16Pads))]}
	case 'n':
		return c16Atom{kind: 'n'}
	case 'v':
		f := byte('H')
		for f == 'H' {
			f = c.c16Pick("ABCDJKXmhlpqrstuvGSTfin")
		}
		return c16Atom{kind: 'v', body: c.c16Body(), final: f}
	case 'm':
		b := c.c16Body()
		if c.rng.Intn(2) == 0 {
			b = []byte(fmt.Sprintf("[%d;%d", 1+c.rng.Intn(60), 1+c.rng.Intn(240)))
		}
		b = append(b, byte('0'+c.rng.Intn(10)))
		return c16Atom{kind: 'm', body: b}
	default:
		b := []byte(nil)
		if c.rng.Intn(4) == 0 {
			b = c.c16Body()
		}
		return c16Atom{kind: 'h', body: b}
	}
}

// noise with the given atom kinds allowed ("pnvmh" subset) and required
func (c *ctx) c16Noise(allowed, required string, maxLen int) []c16Atom {
	var n []c16Atom
	k := c.rng.Intn(maxLen + 1)
	for i := 0; i < k; i++ {
		n = append(n, c.c16AtomOf(allowed[c.rng.Intn(len(allowed))]))
	}
	for _, r := range []byte(required) {
		pos := c.rng.Intn(len(n) + 1)
		n = append(n[:pos], append([]c16Atom{c.c16AtomOf(r)}, n[pos:]...)...)
	}
	if c.rng.Intn(3) == 0 { // CR LF as a pair, as consoles send it
		if strings.ContainsRune(allowed, 'n') {
			pos := c.rng.Intn(len(n) + 1)
			n = append(n[:pos], append([]c16Atom{{kind: 'p', final: '\r'}, {kind: 'n'}}, n[pos:]...)...)
		}
	}
	return n
}

func c16Has(n []c16Atom, kind byte) bool {
	for _, a := range n {
		if a.kind == kind {
			return true
		}
	}
	return false
}

type c16Win struct {
	rendering []byte
	kinds     map[string]bool
	homeAtEnd bool // uses the known-unrecoverable shape win-home-before-terminator
	staleMove bool // uses the known-unrecoverable shape win-stale-flags-after-home
}

// a console rendering of the letters e (without the terminator).  full = also the two
// documented shapes that are known not to be recovered.
func (c *ctx) c16WinNoisy(e []byte, level int, full bool) c16Win {
	w := c16Win{kinds: map[string]bool{}}
	var out, acc []byte
	stale := false
	letter := func() byte { return c16PayloadAlphabet[c.rng.Intn(len(c16PayloadAlphabet))] }
	for _, ch := range e {
		r := c.rng.Intn(100)
		switch {
		case level >= 3 && r < 8: // wn_home
			n1 := c.c16Noise("pnv", "h", 3)
			x := letter()
			n2 := c.c16Noise("pnvm", "mn", 3)
			out = append(out, c16Render(n1)...)
			out = append(out, x)
			out = append(out, c16Render(n2)...)
			out = append(out, ch)
			acc = append(acc, ch)
			stale = true
			w.kinds["home"] = true
		default: // wn_char
			allowed := "p"
			if level >= 1 {
				allowed = "pnv"
			}
			if level >= 2 {
				allowed = "pnvm"
			}
			var n []c16Atom
			if r < 60 || level == 0 && r < 90 {
				n = nil
			} else {
				n = c.c16Noise(allowed, "", 4)
			}
			if stale && c16Has(n, 'm') {
				if full && c.rng.Intn(2) == 0 {
					w.staleMove = true
				} else {
					n = c.c16Noise("pnv", "", 3)
				}
			}
			if !stale && c16Has(n, 'm') && c16Has(n, 'n') && len(acc) > 0 && acc[len(acc)-1] == ch {
				n = c.c16Noise("pv", "", 3) // newline + move + same letter: not a documented kind
			}
			for _, a := range n {
				w.kinds[map[byte]string{'p': "pad", 'n': "newline", 'v': "vt100", 'm': "move"}[a.kind]] = true
			}
			out = append(out, c16Render(n)...)
			out = append(out, ch)
			acc = append(acc, ch)
			stale = false
		}
		for level >= 2 && c.rng.Intn(12) == 0 { // wn_reprint
			req := "mn"
			if stale && c.rng.Intn(2) == 0 {
				req = "m"
			}
			n := c.c16Noise("pnvm", req, 3)
			out = append(out, c16Render(n)...)
			out = append(out, ch)
			stale = true
			w.kinds["reprint"] = true
		}
	}
	// wn_end: trailing noise of any kind
	if level >= 1 && c.rng.Intn(3) == 0 {
		out = append(out, c16Render(c.c16Noise("pnvmh", "", 3))...)
		w.kinds["trailing"] = true
	}
	if full && level >= 3 && c.rng.Intn(4) == 0 {
		n1 := c.c16Noise("pnv", "h", 3)
		n2 := c.c16Noise("pnvm", "mn", 3)
		out = append(out, c16Render(n1)...)
		out = append(out, letter())
		out = append(out, c16Render(n2)...)
		w.homeAtEnd = true
	}
	w.rendering = out
	return w
}

// ---- a real function that does not return ----
//
// Every call into the real readers runs under a guard: the caller publishes what it is about
// to call with, a watchdog goroutine looks every 250 ms whether the same call is still in
// flight.  A call that has not returned after c16GuardLimit is reported with its input
// (key <fn>-hang), the cases and findings collected so far are written out, and the process
// exits: the stuck goroutine cannot be stopped, and a loop that grows its buffer would take
// the whole run down with it (which is how a mutant once produced an empty run).
const c16GuardLimit = 6 * time.Second

type c16Call struct {
	fn     string // "strip", "recvLine-junk", "recvLine-windows"
	input  []byte
	chunks [][]byte
	tys    []string
}

type c16Guard struct {
	cur  atomic.Pointer[c16Call]
	beat atomic.Int64
}

func c16NewGuard(c *ctx) *c16Guard {
	g := &c16Guard{}
	go func() {
		last, since := int64(-1), time.Now()
		for {
			time.Sleep(250 * time.Millisecond)
			b := g.beat.Load()
			call := g.cur.Load()
			if call == nil || b != last {
				last, since = b, time.Now()
				continue
			}
			if time.Since(since) < c16GuardLimit {
				continue
			}
			detail := fmt.Sprintf("fn=%s input=%s", call.fn, hx(call.input))
			if call.chunks != nil {
				detail = fmt.Sprintf("fn=%s expect=%s chunks=%s", call.fn, c16TysStr(call.tys), c03ChunksStr(call.chunks))
			}
			// always on record, even when the list of findings is full
			c.violations = append(c.violations, map[string]string{"key": "tmux-" + call.fn + "-hang",
				"what": "the real " + call.fn + " did not return within " + c16GuardLimit.String() + " on this input (the run was cut short here)", "detail": detail})
			c.count("guard:gave-up")
			c.finish()
			os.Exit(0)
		}
	}()
	return g
}

func (g *c16Guard) enter(call *c16Call) { g.cur.Store(call); g.beat.Add(1) }
func (g *c16Guard) leave()              { g.cur.Store(nil); g.beat.Add(1) }

func c16GenNoise(c *ctx) {
	junkT := &c16Real{t: trzsz.VerifNewLineTransfer(true, false)}   // TmuxOutputJunk
	plainT := &c16Real{t: trzsz.VerifNewLineTransfer(false, false)} // mayHasJunk argument decides
	winT := &c16Real{t: trzsz.VerifNewLineTransfer(false, true)}    // windowsProtocol

	guard := c16NewGuard(c)
	strip := func(b []byte) []byte {
		guard.enter(&c16Call{fn: "strip", input: b})
		defer guard.leave()
		defer func() {
			if p := recover(); p != nil {
				c.violate("tmux-strip-panic:"+c16PanicKey(fmt.Sprint(p)), "the real stripTmuxStatusLine panicked on this input: "+fmt.Sprint(p), "input="+hx(b))
			}
		}()
		return junkT.t.StripTmuxStatusLine(append([]byte(nil), b...))
	}
	emitStrip := func(nontrivial bool, b []byte) []byte {
		got := strip(b)
		c.emit(nontrivial, "strip_tmux", hx(got), hx(b))
		return got
	}
	emitJunk := func(nontrivial bool, chunks [][]byte, tys []string, junkArg bool, viaConfig bool) []string {
		t := plainT
		if viaConfig {
			t = junkT
		}
		guard.enter(&c16Call{fn: "recvLine-junk", chunks: chunks, tys: tys})
		res := t.run(chunks, tys, junkArg)
		guard.leave()
		modelJunk := junkArg || viaConfig
		c.emit(nontrivial, "junk_run", c03ResStr(res), c16TysStr(tys), str01(modelJunk), c03ChunksStr(chunks))
		if len(res) > 0 && res[len(res)-1] == "P" {
			c.violate("tmux-reader-panic:"+c16PanicKey(t.panicText), "the real recvLine (junk-tolerant path) panicked on this input: "+t.panicText,
				fmt.Sprintf("read#%d expect=%s stream=%s chunks=%s results=%s", len(res), c16TysStr(tys), hx(bytes.Join(chunks, nil)), c03ChunksStr(chunks), c03ResStr(res)))
		}
		return res
	}
	emitWin := func(nontrivial bool, chunks [][]byte, tys []string) []string {
		guard.enter(&c16Call{fn: "recvLine-windows", chunks: chunks, tys: tys})
		res := winT.run(chunks, tys, false)
		guard.leave()
		c.emit(nontrivial, "win_run", c03ResStr(res), c16TysStr(tys), c03ChunksStr(chunks))
		if len(res) > 0 && res[len(res)-1] == "P" {
			c.count("win:panic")
			c.violate("win-reader-panic:"+c16PanicKey(winT.panicText), "the real recvLine (Windows framing) panicked on this input: "+winT.panicText,
				fmt.Sprintf("read#%d expect=%s stream=%s chunks=%s results=%s", len(res), c16TysStr(tys), hx(bytes.Join(chunks, nil)), c03ChunksStr(chunks), c03ResStr(res)))
		}
		return res
	}

	// ---- 0. character classes ----
	{
		var sb strings.Builder
		for b := 0; b < 256; b++ {
			sb.WriteString(str01(trzsz.VerifIsTrzszLetter(byte(b))))
			sb.WriteString(str01(trzsz.VerifIsVT100End(byte(b))))
		}
		c.emit(true, "letters", sb.String(), "-")
	}

	// ---- 1. stripTmuxStatusLine: corpus of transfer_test.go ----
	c16P := "\x1bP=1s\x1b\\\x1b[?25l\x1b[?12l\x1b[?25h\x1b[5 q\x1bP=2s\x1b\\" // what tmux really sends
	{
		P := c16P
		corpus := []string{"ABC123", "ABC" + P + "123", "ABC" + P + "123" + P + "XYZ", "ABC" + P + "123" + P + P + P + "XYZ"}
		for i := 0; i < len(P); i++ {
			corpus = append(corpus, "ABC"+P+"123"+P[:len(P)-i])
		}
		for _, s := range corpus {
			emitStrip(true, []byte(s))
			c.count("strip:corpus")
		}
	}
	// dense random input for stripTmuxStatusLine: no promise, correspondence only.  It runs
	// AFTER the systematic strata (it is the stratum most likely to drive a broken strip
	// loop into not returning, and what the others find should be on record by then).
	stripSoup := func() {
		for i := 0; i < c.pick(4000, 80000); i++ {
			n := c.rng.Intn(24)
			if c.rng.Intn(4) == 0 {
				n = c.rng.Intn(160)
			}
			b := make([]byte, n)
			for j := range b {
				b[j] = c.c16Pick("\x1bP=\\ab")
				if n > 24 && c.rng.Intn(3) != 0 {
					b[j] = 'a'
				}
			}
			if c.rng.Intn(2) == 0 {
				b = append(b, c.c16StatusPair()...)
				b = append(b, byte('a'+c.rng.Intn(3)))
			}
			emitStrip(bytes.Contains(b, c16StatusBegin), b)
			c.count("strip:random")
		}
	}

	// ---- 1b. status redraws at EVERY offset of lines of realistic length (DATA lines are
	// long): one and several redraws per line, every family stripTmuxStatusLine handles,
	// directly through stripTmuxStatusLine and through the real recvLine junk path in every
	// chunking class; direct oracle: what comes back is the original line ----
	{
		exact := func(n int) []byte {
			b := make([]byte, n)
			for i := range b {
				b[i] = c16PayloadAlphabet[c.rng.Intn(len(c16PayloadAlphabet))]
			}
			return b
		}
		type fam struct {
			name string
			mk   func() []byte
		}
		fams := []fam{
			{"tmux", func() []byte { return []byte(c16P) }},
			{"minimal", func() []byte { return []byte("\x1bP=\x1bP=\x1b\\") }},
			{"long", func() []byte {
				return []byte("\x1bP=1s\x1b\\\x1b[?25l\x1b[1;1H\x1b[30m\x1b[42m[0] 0:bash* 1:vim- \"host\" 04:29 01-Oct\x1b[m\x1b[?12l\x1b[?25h\x1bP=2s\x1b\\")
			}},
			{"random", func() []byte { return c.c16StatusPair() }},
			{"double", func() []byte { return []byte(c16P + c16P) }},
		}
		lens := []int{0, 19, 25, 64, 120}
		if c.thorough() {
			lens = []int{0, 1, 19, 24, 25, 40, 64, 96, 120, 160, 250}
		}
		// text in front of the line: none, a prompt, and the two halves of a redraw the reader
		// came in on (an incomplete status string in front of the marker is just unrelated text)
		pres := []string{"", "user@host:~/work/dir$ tsz a.bin\r\n", "25h\x1b[5 q\x1bP=2s\x1b\\", "\x1bP=1s\x1b\\\x1b[?25l\x1b[?12l"}
		ins := func(line []byte, o int, x []byte) []byte {
			return append(append(append([]byte(nil), line[:o]...), x...), line[o:]...)
		}
		for _, n := range lens {
			line := append([]byte("#DATA:"), exact(n)...)
			for o := 0; o <= len(line); o++ {
				for fi, f := range fams {
					st := f.mk()
					s := ins(line, o, st)
					variant := f.name
					// several redraws per line: a second one at a later offset
					if fi == 0 && o%2 == 1 {
						o2 := o + c.rng.Intn(len(line)-o+1)
						s = ins(s, len(st)+o2, []byte(c16P))
						variant = "two"
					}
					// a truncated redraw at the very end of the line as well
					if fi == 3 && o%3 == 0 {
						s = append(s, c.c16StatusTruncated()...)
						variant = "random+truncated"
					}
					// directly through stripTmuxStatusLine
					got := emitStrip(true, s)
					c.count("status-offset:strip")
					if !bytes.Equal(got, line) {
						c.violate("strip-unrecovered:"+variant, "stripTmuxStatusLine does not give back the line into which status redraws were inserted",
							fmt.Sprintf("offset=%d payload-bytes=%d line=%q input=%s got=%s", o, n, line, hx(s), hx(got)))
					}
					// through recvLine, with and without text in front, in every chunking class
					for pi, pre := range pres {
						if pi == 1 && (o+fi)%2 == 1 || pi >= 2 && (o+fi)%4 != pi-2 {
							continue
						}
						stream := append(append([]byte(pre), s...), '\n')
						if n >= 100 && fi == 0 && o%5 == 0 { // tmux wraps long lines as well
							var w []byte
							for i, b := range stream[:len(stream)-1] {
								if i > 0 && i%80 == 0 {
									w = append(w, '\r', '\n')
								}
								w = append(w, b)
							}
							stream = append(w, '\n')
						}
						at := len(pre) + o
						chunkings := [][][]byte{{stream}}
						if at+1 < len(stream) { // boundary inside the first control string
							chunkings = append(chunkings, [][]byte{stream[:at+1], stream[at+1:]})
						}
						if at+4 < len(stream) && (o+fi)%2 == 0 { // and right behind it
							chunkings = append(chunkings, [][]byte{stream[:at], stream[at : at+4], stream[at+4:]})
						}
						if n <= 64 || o%4 == 0 {
							chunkings = append(chunkings, c.split(stream, 1))
						}
						chunkings = append(chunkings, c.split(stream, 1+c.rng.Intn(16)))
						for ci, cs := range chunkings {
							res := emitJunk(true, cs, []string{"DATA", "DATA"}, ci%2 == 0, ci%2 == 1)
							c.count("status-offset:recvLine")
							if len(res) < 1 || res[0] != "d"+hx(line) {
								c.violate("tmux-unrecovered:status-offset:"+variant, "a protocol line with a tmux status redraw inserted at this offset is not recovered by recvLine",
									fmt.Sprintf("offset=%d payload-bytes=%d want=%q stream=%s chunks=%s results=%s", o, n, line, hx(stream), c03ChunksStr(cs), c03ResStr(res)))
							}
						}
					}
				}
			}
		}
		// plain text in front of a redraw, every length up to 130: the offsets inside
		// stripTmuxStatusLine are absolute
		for k := 0; k <= 130; k++ {
			for _, f := range fams {
				pre := bytes.Repeat([]byte("A"), k)
				s := append(append(append([]byte(nil), pre...), f.mk()...), []byte("xyz")...)
				got := emitStrip(true, s)
				c.count("status-offset:strip-prefix")
				if want := append(pre, []byte("xyz")...); !bytes.Equal(got, want) {
					c.violate("strip-unrecovered:prefix:"+f.name, "stripTmuxStatusLine does not remove a complete status redraw behind plain text",
						fmt.Sprintf("prefix-bytes=%d input=%s got=%s", k, hx(s), hx(got)))
				}
			}
		}
	}

	// ---- 2. corpus: the captured strings of buffer_test.go ----
	{
		emitJunk(true, [][]byte{[]byte("test\nmessage\n")}, []string{"x", "x", "x"}, true, false)
		emitJunk(true, [][]byte{[]byte("test\r\n message\n")}, []string{"x", "x"}, true, false)
		emitJunk(true, [][]byte{[]byte("test\r\n"), []byte(" test\r\n"), []byte(" test\r\n"), []byte(" message\n")}, []string{"x", "x"}, false, true)
		winCorpus := []struct {
			chunks []string
			tys    []string
		}{
			{[]string{"#DATA:test message\t1+/=!"}, []string{"DATA", "DATA"}},
			{[]string{"\x1b[01;32mABC\x1b[01;34mdef!\x1b[00m"}, []string{"X", "X"}},
			{[]string{"\x1b[29CAAA\x1b[KBBB" + strings.Repeat("C", 200) + "!"}, []string{"X"}},
			{[]string{"\r\n\x1b[90C", "#SUCC:eJzy8XR29Qt21TMCBAAA//8", "\r\n\x1b[25;119H8MnwJk!"}, []string{"SUCC", "SUCC"}},
			{[]string{"\x1b[238X\x1b[238C\x1b[60;198H\x1b[?25h\x1b[H!\x1b[60;198H", "\x1b[?25l#SUCC:65536! \x08\x1b[?25h\x1b[?25lSoft\x1b[!pReset!"}, []string{"SUCC", "X", "X"}},
			{[]string{"U4bz/o\x08\x1b[?25h\x1b[?25l\x1b[Hp\x1b[60;238H\x1b[?25h\x1b[?25l\r\np7bu8!"}, []string{"X", "X"}},
			{[]string{"hnWwqzbHU\x1b[199X\x1b[199C\x1b[60;40H\x1b[?25h\x1b[?25lUUcczgV!"}, []string{"X"}},
			{[]string{"8yOf8lh\x08\x1b[?25h\x1b[?25l\x1b[Hb\x1b[60;238H\x1b[?25h\x1b[?25l\r\ni2Czew!"}, []string{"X"}},
			{[]string{"BFjn6\x1b[30;1H\x1b[?25l\n\x1b[29;120H6jEF8aG!"}, []string{"X"}},
			{[]string{"test1!\ntest2!\n"}, []string{"X", "X", "X"}},
			{[]string{"test\x03message", "atestmessage!\n"}, []string{"X", "X", "X"}},
			// the LF after '!' is looked for at buf[nextIdx] with the absolute cursor:
			{[]string{"a!b!cd\nef!"}, []string{"X", "X", "X", "X"}},
			{[]string{"#A:1!\n#A:2!\n#A:3!\n"}, []string{"A", "A", "A", "A"}},
		}
		for _, e := range winCorpus {
			var cs [][]byte
			for _, s := range e.chunks {
				cs = append(cs, []byte(s))
			}
			emitWin(true, cs, e.tys)
			flat := bytes.Join(cs, nil)
			for k := 0; k < 6; k++ {
				emitWin(true, c.split(flat, 1+c.rng.Intn(8)), e.tys)
			}
			c.count("win:corpus")
		}
	}

	// ---- 3. tmux: documented noise => "#ty:payload" recovered (direct oracle) ----
	tmuxCase := func(ty string, pl []byte, wJ, wS, wW, wT int, tag string) {
		nz := c.c16TmuxNoisy(ty, pl, wJ, wS, wW, wT)
		stream := append(append([]byte(nil), nz.rendering...), '\n')
		want := "#" + ty + ":" + string(pl)
		// a second, clean line behind it
		ty2 := c16Types[c.rng.Intn(len(c16Types))]
		pl2 := c.c16Payload(8)
		stream = append(stream, []byte("#"+ty2+":"+string(pl2)+"\n")...)
		var chunkings [][][]byte
		chunkings = append(chunkings, [][]byte{stream}, c.split(stream, 1), c.split(stream, 1+c.rng.Intn(12)))
		for ci, cs := range chunkings {
			res := emitJunk(true, cs, []string{ty, ty2, ty2}, ci%2 == 0, ci%2 == 1)
			c.count("tmux:" + tag)
			for k := range nz.kinds {
				c.count("tmux-kind:" + k)
			}
			ok := len(res) >= 2 && res[0] == "d"+hx([]byte(want)) && res[1] == "d"+hx([]byte("#"+ty2+":"+string(pl2)))
			if !ok {
				c.violate("tmux-unrecovered:"+c16Kinds(nz.kinds), "a protocol line with documented tmux noise is not recovered by recvLine",
					fmt.Sprintf("want=%q rendering=%s chunks=%s results=%s", want, hx(nz.rendering), c03ChunksStr(cs), c03ResStr(res)))
			}
		}
	}
	// every insertion position of one wrap / one status pair on a fixed line
	{
		ty, pl := "SUCC", []byte("eJzy8XR29Qt21TMCBAAA//8=")
		line := []byte("#" + ty + ":" + string(pl))
		for pos := 0; pos <= len(line); pos++ {
			for kind := 0; kind < 3; kind++ {
				var ins []byte
				switch kind {
				case 0:
					ins = []byte("\r\n")
				case 1:
					ins = []byte("\r\n\r\n\r\n")
				default:
					if pos == 0 {
						continue
					}
					ins = c.c16StatusPair()
				}
				r := append(append(append([]byte(nil), line[:pos]...), ins...), line[pos:]...)
				for _, pre := range []string{"", "$ trz\r\n", "#ACT:x #SUCC #SUC:"} {
					stream := append(append([]byte(pre), r...), '\n')
					for _, cs := range [][][]byte{{stream}, c.split(stream, 1), c.split(stream, 3)} {
						res := emitJunk(true, cs, []string{ty, ty}, true, false)
						c.count("tmux:every-position")
						if len(res) < 1 || res[0] != "d"+hx(line) {
							c.violate(fmt.Sprintf("tmux-unrecovered:position:kind%d", kind), "a protocol line with one documented tmux insertion is not recovered",
								fmt.Sprintf("want=%q stream=%s chunks=%s results=%s", line, hx(stream), c03ChunksStr(cs), c03ResStr(res)))
						}
					}
				}
			}
		}
	}
	// shapes RECORDED from a real tmux 3.3a (group e2e-tmux, raw stream at the client's pty while trz/tsz wrote
	// to the client tty): whole redraws in front of a line, a redraw bracketed by the synchronized-update
	// strings at every position inside a line; the shapes the reader is NOT built for (a redraw without the
	// brackets inside a line, a redraw that scrolls another pane with a bare LF) are correspondence cases only
	{
		statusRedraw := "\x1b[?25l\x1b[30m\x1b[42m\x1b[30d[main] 0:trz*" + strings.Repeat(" ", 67) + "\"vm\" 03:37 01-Oct-26\x1b(B\x1b[m\x1b[?12l\x1b[?25h\x1b[19;1H"
		var border strings.Builder
		border.WriteString("\x1b[?25l")
		for r := 1; r <= 29; r++ {
			fmt.Fprintf(&border, "\x1b[%d;70H\xe2\x94\x82", r)
		}
		border.WriteString("\x1b(B\x1b[m\x1b[?12l\x1b[?25h\x1b[29;71H")
		shapes := []struct {
			name   string
			text   string
			inside bool // recoverable at any position behind the '#'
			front  bool // recoverable in front of the line
		}{
			{"status-redraw", statusRedraw, false, true},
			{"status-redraw-sync", "\x1bP=1s\x1b\\" + statusRedraw + "\x1bP=2s\x1b\\", true, true},
			{"two-redraws-sync", "\x1bP=1s\x1b\\" + statusRedraw + "\x1bP=2s\x1b\\\x1bP=1s\x1b\\\x1b[?25l\x1b[30m\x1b[42m\x1b[30d[main]\x1b[5;1H\x1bP=2s\x1b\\", true, true},
			{"pane-border-redraw", border.String(), false, true},
			{"other-pane-scroll-batch", "\x1b[1;7r\x1b[1;1H\x1b[2S\x1b[5;6Hecho one line from the other pane\r\none line from the other pane\x1b[K\r\ntmx$ \x1b[K\x1b[1;30r\x1b[13;1H", false, true},
			{"other-pane-scroll-bare-lf", "\x1b[1;7r\x1b[7;1H\n\x1b[Abusy line 1392 of the other pane\r\n\x1b[K\x1b[1;30r\x1b[13;6H", false, false},
		}
		for _, sh := range shapes {
			for rep := 0; rep < c.pick(4, 40); rep++ {
				ty := c16Types[c.rng.Intn(len(c16Types))]
				line := []byte("#" + ty + ":" + string(c.c16Payload(60)))
				next := []byte("#" + ty + ":" + string(c.c16Payload(8)))
				var positions []int
				positions = append(positions, 0)
				for pos := 1; pos <= len(line); pos++ {
					if rep == 0 || c.rng.Intn(8) == 0 {
						positions = append(positions, pos)
					}
				}
				for _, pos := range positions {
					r := append(append(append([]byte(nil), line[:pos]...), sh.text...), line[pos:]...)
					stream := append(append(append(r, '\n'), next...), '\n')
					cs := c.split(stream, 1+c.rng.Intn(40))
					res := emitJunk(true, cs, []string{ty, ty, ty}, true, pos%2 == 0)
					promised := (pos == 0 && sh.front) || (pos > 0 && sh.inside)
					if !promised {
						c.count("tmux:recorded-shape:no-promise:" + sh.name)
						continue
					}
					c.count("tmux:recorded-shape:" + sh.name)
					if len(res) < 2 || res[0] != "d"+hx(line) || res[1] != "d"+hx(next) {
						c.violate("tmux-unrecovered:recorded:"+sh.name, "a protocol line with a redraw recorded from a real tmux is not recovered by recvLine",
							fmt.Sprintf("want=%q position=%d chunks=%s results=%s", line, pos, c03ChunksStr(cs), c03ResStr(res)))
					}
				}
			}
		}
	}
	for i := 0; i < c.pick(6000, 60000); i++ {
		ty := c16Types[c.rng.Intn(len(c16Types))]
		tmuxCase(ty, c.c16Payload(40), c.rng.Intn(2), c.rng.Intn(4), c.rng.Intn(6), c.rng.Intn(5)/4, "random")
	}
	// malformed: no promise, correspondence only
	for i := 0; i < c.pick(1500, 30000); i++ {
		n := c.rng.Intn(40)
		b := make([]byte, n)
		for j := range b {
			b[j] = c.c16Pick("#A:a\r\n\n\x1bP=\\\x03b#")
		}
		for k := c.rng.Intn(4); k > 0; k-- { // several markers in one line
			pos := c.rng.Intn(len(b) + 1)
			b = append(b[:pos], append([]byte("#A:"), b[pos:]...)...)
		}
		b = append(b, '\n')
		emitJunk(true, c.split(b, 1+c.rng.Intn(5)), []string{"A", "A", "A", "A"}, c.rng.Intn(2) == 0, c.rng.Intn(2) == 0)
		c.count("tmux:malformed")
	}
	// Ctrl-C anywhere in a noisy line interrupts (direct oracle)
	for i := 0; i < c.pick(300, 6000); i++ {
		ty := c16Types[c.rng.Intn(len(c16Types))]
		nz := c.c16TmuxNoisy(ty, c.c16Payload(20), 1, 2, 3, 0)
		pos := c.rng.Intn(len(nz.rendering) + 1)
		stream := append(append(append([]byte(nil), nz.rendering[:pos]...), 3), nz.rendering[pos:]...)
		stream = append(stream, '\n')
		cs := c.split(stream, 1+c.rng.Intn(6))
		res := emitJunk(true, cs, []string{ty}, true, false)
		c.count("tmux:ctrl-c")
		if len(res) != 1 || res[0] != "I" {
			c.violate("tmux-ctrl-c-not-interrupting", "Ctrl-C inside a noisy line does not interrupt the junk-tolerant reader",
				fmt.Sprintf("stream=%s chunks=%s results=%s", hx(stream), c03ChunksStr(cs), c03ResStr(res)))
		}
	}

	stripSoup()

	// ---- 4. Windows console: documented noise => payload recovered (direct oracle) ----
	winCase := func(level int, full bool) {
		nLines := 1 + c.rng.Intn(3)
		var stream []byte
		var tys, wants []string
		var ws []c16Win
		for i := 0; i < nLines; i++ {
			ty := c16Types[c.rng.Intn(len(c16Types))]
			pl := c.c16Payload(30)
			var pre []byte
			if c.rng.Intn(4) == 0 { // letters of unrelated output in front
				pre = c.c16Payload(6)
			}
			e := append(append(pre, []byte("#"+ty+":")...), pl...)
			w := c.c16WinNoisy(e, level, full)
			stream = append(stream, w.rendering...)
			stream = append(stream, '!')
			// the protocol's newline on Windows is "!\n"; after the last line the LF may
			// not have arrived yet
			if i < nLines-1 || c.rng.Intn(2) == 0 {
				stream = append(stream, '\n')
			}
			tys = append(tys, ty)
			wants = append(wants, "#"+ty+":"+string(pl))
			ws = append(ws, w)
		}
		tys = append(tys, "X")
		var cs [][]byte
		switch c.rng.Intn(4) {
		case 0:
			cs = [][]byte{stream}
		case 1:
			cs = c.split(stream, 1)
		default:
			cs = c.split(stream, 1+c.rng.Intn(20))
		}
		res := emitWin(true, cs, tys)
		c.count(fmt.Sprintf("win:level%d", level))
		for i, w := range ws {
			for k := range w.kinds {
				c.count("win-kind:" + k)
			}
			if i < len(res) && res[i] == "d"+hx([]byte(wants[i])) {
				continue
			}
			detail := fmt.Sprintf("line#%d want=%q rendering=%s stream=%s chunks=%s results=%s", i, wants[i], hx(w.rendering), hx(stream), c03ChunksStr(cs), c03ResStr(res))
			switch {
			case w.homeAtEnd:
				c.violate("win-home-before-terminator", "cursor-home noise immediately before '!': the character redrawn at home stays in the line", detail)
			case w.staleMove:
				c.violate("win-stale-flags-after-home", "cursor move right after a re-printed/replaced character: hasNewline/preHasCursorHome are stale and a payload character is lost", detail)
			default:
				c.violate("win-unrecovered:"+c16Kinds(w.kinds), "a protocol line with documented Windows-console noise is not recovered by recvLine", detail)
			}
			break // later lines of a broken stream are not informative
		}
	}
	// noise in front of the FIRST character of a line, with nothing collected yet: every noise
	// kind (and the pairs of kinds) at offset 0 of the first line and of a line that follows a
	// terminator, in every chunking class; direct oracle: both payloads come back
	{
		kinds := []struct {
			name  string
			noise string
		}{
			{"pad", " \x08"}, {"cr", "\r"}, {"newline", "\n"}, {"crlf", "\r\n"}, {"vt100", "\x1b[01;32m"}, {"erase", "\x1b[238X\x1b[238C"},
			{"move", "\x1b[25;119H"}, {"home", "\x1b[H"}, {"crlf+move", "\r\n\x1b[25;119H"}, {"move+crlf", "\x1b[60;238H\x1b[?25h\r\n"},
			{"newline+move+vt100", "\n\x1b[29;120H\x1b[?25l"}, {"crlf+move+move", "\r\n\x1b[1;1H\x1b[2;7H"}, {"move+move+newline", "\x1b[3;4H\x1b[5;60H\n"},
			{"crlf+home", "\r\n\x1b[H"}, {"vt100+crlf+move+pad", "\x1b[?25h\r\n\x1b[30;1H "},
		}
		l1, l2 := "#SUCC:eJzy8XR29Qt2", "#DATA:1TMCBAAA//8="
		for _, ka := range kinds {
			for _, kb := range kinds {
				if ka.name != kb.name && ka.name != "pad" && kb.name != "pad" && ka.name != "crlf+move" && kb.name != "crlf+move" {
					continue // every kind in front of each line, alone and paired with the plain / the critical one
				}
				for _, lf := range []string{"\n", ""} {
					stream := []byte(ka.noise + l1 + "!" + lf + kb.noise + l2 + "!\n")
					cut := len(ka.noise) + len(l1) + 1 + len(lf)
					chunkings := [][][]byte{{stream}, c.split(stream, 1), {stream[:cut], stream[cut:]},
						{stream[:cut+len(kb.noise)], stream[cut+len(kb.noise):]}, c.split(stream, 1+c.rng.Intn(9))}
					if len(ka.noise) > 1 {
						chunkings = append(chunkings, [][]byte{stream[:len(ka.noise)-1], stream[len(ka.noise)-1:]})
					}
					for _, cs := range chunkings {
						res := emitWin(true, cs, []string{"SUCC", "DATA", "X"})
						c.count("win:line-start")
						if len(res) < 2 || res[0] != "d"+hx([]byte(l1)) || res[1] != "d"+hx([]byte(l2)) {
							c.violate("win-unrecovered:line-start:"+ka.name+"|"+kb.name, "console noise in front of the first character of a line: the lines are not recovered",
								fmt.Sprintf("noise-before-line1=%q noise-before-line2=%q stream=%s chunks=%s results=%s", ka.noise, kb.noise, hx(stream), c03ChunksStr(cs), c03ResStr(res)))
						}
					}
				}
			}
		}
	}
	// the two known findings, deliberately, every run
	{
		for _, k := range []struct{ key, what, stream, want string }{
			{"win-home-before-terminator", "cursor-home noise immediately before '!': payload \"2\" comes back as \"2Y\"",
				"2\x08\x1b[?25h\x1b[?25l\x1b[HY\x1b[49;83H\x1b[?25h\x1b[?25l\r\n!", "2"},
			{"win-stale-flags-after-home", "home noise then a cursor move in one line: ...k7r4<home k>r<move>0... loses the r",
				"k7r4\x1b[Hk\x1b[9;9H\r\nr\x1b[30;46H0a!", "k7r4r0a"},
		} {
			for _, cs := range [][][]byte{{[]byte(k.stream)}, c.split([]byte(k.stream), 1), c.split([]byte(k.stream), 4)} {
				res := emitWin(true, cs, []string{"X"})
				if len(res) < 1 || res[0] != "d"+hx([]byte(k.want)) {
					c.violate(k.key, k.what, fmt.Sprintf("want=%q stream=%s chunks=%s results=%s", k.want, hx([]byte(k.stream)), c03ChunksStr(cs), c03ResStr(res)))
				}
			}
			c.count("win:known-" + k.key)
		}
	}
	for i := 0; i < c.pick(20000, 200000); i++ {
		winCase(i%4, false)
	}
	for i := 0; i < c.pick(3000, 30000); i++ {
		winCase(3, true)
	}
	// every insertion position of each single documented kind on a fixed line
	{
		line := []byte("#SUCC:eJzy88XR29Qt21TMCBAAA//8=")
		for pos := 0; pos <= len(line); pos++ {
			var prev byte
			if pos > 0 {
				prev = line[pos-1]
			}
			ins := map[string][]byte{
				"vt100":   []byte("\x1b[01;32m"),
				"pad":     []byte(" \x08"),
				"newline": []byte("\r\n"),
				"move":    []byte("\x1b[60;40H"),
				"erase":   []byte("\x1b[238X\x1b[238C"),
			}
			if pos > 0 {
				ins["reprint"] = append([]byte("\r\n\x1b[25;119H"), prev)
				ins["reprint2"] = append([]byte("\x1b[30;1H\x1b[?25l\n\x1b[29;120H"), prev)
			}
			if pos < len(line) {
				ins["home"] = []byte("\x08\x1b[?25h\x1b[?25l\x1b[Hb\x1b[60;238H\x1b[?25h\x1b[?25l\r\n")
				ins["home-same"] = append(append([]byte("\x1b[H"), line[pos]), []byte("\x1b[60;238H\r\n")...)
			}
			var names []string
			for k := range ins {
				names = append(names, k)
			}
			sort.Strings(names)
			for _, name := range names {
				r := append(append(append([]byte(nil), line[:pos]...), ins[name]...), line[pos:]...)
				stream := append(r, '!', '\n')
				for _, cs := range [][][]byte{{stream}, c.split(stream, 1), c.split(stream, 5)} {
					res := emitWin(true, cs, []string{"SUCC", "SUCC"})
					c.count("win:every-position")
					if len(res) < 1 || res[0] != "d"+hx(line) {
						// newline + move with no re-print in front of an equal letter is inherently ambiguous
						c.violate("win-unrecovered:position:"+name, "a protocol line with one documented console insertion is not recovered",
							fmt.Sprintf("want=%q stream=%s chunks=%s results=%s", line, hx(stream), c03ChunksStr(cs), c03ResStr(res)))
					}
				}
			}
		}
	}
	// Ctrl-C anywhere before the terminator interrupts
	for i := 0; i < c.pick(300, 6000); i++ {
		w := c.c16WinNoisy(append([]byte("#A:"), c.c16Payload(12)...), 3, false)
		pos := c.rng.Intn(len(w.rendering) + 1)
		stream := append(append(append([]byte(nil), w.rendering[:pos]...), 3), w.rendering[pos:]...)
		stream = append(stream, '!', '\n')
		cs := c.split(stream, 1+c.rng.Intn(6))
		res := emitWin(true, cs, []string{"A"})
		c.count("win:ctrl-c")
		if len(res) != 1 || res[0] != "I" {
			c.violate("win-ctrl-c-not-interrupting", "Ctrl-C before the terminator does not interrupt the Windows reader",
				fmt.Sprintf("stream=%s chunks=%s results=%s", hx(stream), c03ChunksStr(cs), c03ResStr(res)))
		}
	}
	// byte soup over the bytes the state machine distinguishes: correspondence only
	for i := 0; i < c.pick(30000, 300000); i++ {
		n := c.rng.Intn(30)
		b := make([]byte, n)
		for j := range b {
			b[j] = c.c16Pick("ab1#:\x1b[H;9\n\r!!\x03 A")
		}
		nr := 1 + c.rng.Intn(4)
		tys := make([]string, nr)
		for j := range tys {
			tys[j] = "A"
		}
		emitWin(true, c.split(b, 1+c.rng.Intn(6)), tys)
		c.count("win:soup")
	}
	// exhaustive over tokens: every sequence of up to 5 (quick) / 6 tokens, two chunkings
	{
		tokens := [][]byte{[]byte("a"), []byte("b"), []byte("\n"), []byte("\x1b[5;7H"), []byte("\x1b[H"), []byte("\x1b[1m"), []byte("!"), []byte("!\n")}
		maxTok := c.pick(5, 6)
		var rec func(prefix []byte, depth int)
		rec = func(prefix []byte, depth int) {
			if depth > 0 {
				emitWin(true, [][]byte{prefix}, []string{"A", "A", "A"})
				emitWin(true, c.split(prefix, 2), []string{"A", "A", "A"})
				c.count("win:token-exhaustive")
			}
			if depth == maxTok {
				return
			}
			for _, t := range tokens {
				rec(append(append([]byte(nil), prefix...), t...), depth+1)
			}
		}
		rec(nil, 0)
	}
}

func (c *ctx) c16Pick(s string) byte { return s[c.rng.Intn(len(s))] }

func str01(b bool) string {
	if b {
		return "1"
	}
	return "0"
}
