package main

// End-to-end driver: the REAL client (trzsz.NewTrzszFilter, public API, in this
// process) against the REAL server (the trz / tsz binaries built from /repo, as child
// processes), connected through harness-owned pumps that can re-chunk, record,
// rewrite the handshake (to force older protocol versions) and inject faults, stops
// and pauses at message boundaries.

import (
	"bytes"
	"compress/zlib"
	"crypto/sha256"
	"encoding/base64"
	"encoding/hex"
	"encoding/json"
	"fmt"
	"io"
	"net"
	"os"
	"os/exec"
	"path/filepath"
	"runtime"
	"sort"
	"strings"
	"sync"
	"sync/atomic"
	"syscall"
	"time"

	"github.com/trzsz/trzsz-go/trzsz"
)

const (
	dirC2S = 0 // client -> server
	dirS2C = 1 // server -> client
)

// what a hook may do with one write of the transport
type e2eAction struct {
	data    [][]byte // deliver these chunks instead (nil = deliver the original as one chunk)
	drop    bool     // deliver nothing
	silence bool     // from now on this direction delivers nothing (but keeps reading)
	closeIt bool     // close this direction after delivering
}

type e2eHook func(dir int, idx int, b []byte) e2eAction

type e2eCfg struct {
	upload    bool
	binary    bool
	escape    bool
	directory bool
	overwrite bool
	compress  string // "", "yes", "no", "auto"
	bufsize   string // e.g. "1k", "10M"; "" = default
	timeout   int    // server -t; 0 = default 20
	proto     int    // -1 leave the handshake alone; 0 remove the protocol field (v1); 2, 3, 4, 9 force
	quiet     bool
	relays    int  // number of trzsz relays (jump hosts) between the client and the server
	tunnel    bool // give the client (and the relays) a tunnel connector (TCP on 127.0.0.1)
	hookTunnel bool // the client's tunnel connection goes through the hook as well (same direction counters)
	hook      e2eHook
	// events triggered by the harness while the transfer runs
	onStart func(r *e2eRun)
	// C20: called with every write of the client to its terminal, in the goroutine that writes, before the
	// write is recorded; nil = none
	termHook func(p []byte)
	// maximum wall time before the harness gives up (hang detection)
	deadline time.Duration
	// how long to wait for the client to recognise the trigger (default 10 s)
	startWait time.Duration
	// C17: a scripted tunnel connector for the client (overrides the one `tunnel` installs); nil = none
	connector func(port int) net.Conn
	// C17 (relay): a scripted tunnel connector for the relays (overrides the one `tunnel` installs); nil = none
	relayConnector func(port int) net.Conn
	// C17 (relay): called, synchronously, with every chunk the relay chain hands to the client before the
	// client sees it (blocking in it holds the chunk back); nil = none
	relayTap func(b []byte)
	// C17 (relay): handed the in-band input of the relay next to the client (what the client's terminal side writes
	// into it), so that the harness can type bytes there itself; nil = none
	onRelayIn func(w io.Writer)
}

// e2eTapReader lets the harness see (and hold back) what the client is about to read
type e2eTapReader struct {
	r   io.Reader
	tap func(b []byte)
}

func (t *e2eTapReader) Read(p []byte) (int, error) {
	n, err := t.r.Read(p)
	if n > 0 {
		t.tap(append([]byte(nil), p[:n]...))
	}
	return n, err
}

type e2eRun struct {
	cfg     e2eCfg
	filter  *trzsz.TrzszFilter
	cmd     *exec.Cmd
	stdin   io.WriteCloser // child's stdin
	cliIn   *io.PipeWriter // what the user types
	started atomic.Bool    // trigger seen by the client (transfer object exists)
	count   [2]atomic.Int64
	bytes   [2]atomic.Int64
	mu      sync.Mutex
	wire    [2]bytes.Buffer // everything that crossed (after hooks)
	term    bytes.Buffer    // what the client showed on the terminal
	silent  [2]atomic.Bool
}

type e2eResult struct {
	uploadErr    error  // result of OneTimeUpload's channel (uploads)
	clientDone   bool   // client left the transferring state before the deadline
	serverExited bool   // child exited before the deadline
	serverCode   int    // exit code
	serverOut    string // everything the server wrote (trigger, protocol lines, final message)
	termOut      string // what the client wrote to the local terminal
	wire         [2][]byte
	hung         bool
	dur          time.Duration
	clientDur    time.Duration
	serverDur    time.Duration
	leaked       []string // goroutines of this transfer still alive after a grace period
	started      bool     // the client recognised the trigger
}

var e2eBinDir = func() string {
	exe, _ := os.Executable()
	return filepath.Dir(exe)
}()

func encodeLine(typ string, payload []byte) []byte {
	var zb bytes.Buffer
	zw := zlib.NewWriter(&zb)
	zw.Write(payload)
	zw.Close()
	return []byte("#" + typ + ":" + base64.StdEncoding.EncodeToString(zb.Bytes()))
}

func decodeLinePayload(b64 string) ([]byte, error) {
	raw, err := base64.StdEncoding.DecodeString(b64)
	if err != nil {
		return nil, err
	}
	zr, err := zlib.NewReader(bytes.NewReader(raw))
	if err != nil {
		return nil, err
	}
	return io.ReadAll(zr)
}

// rewriteACT forces the protocol field of the client's ACT line
func rewriteACT(b []byte, proto int) []byte {
	if proto < 0 || !bytes.HasPrefix(b, []byte("#ACT:")) {
		return b
	}
	nl := bytes.IndexByte(b, '\n')
	if nl < 0 {
		return b
	}
	js, err := decodeLinePayload(string(b[5:nl]))
	if err != nil {
		return b
	}
	var m map[string]any
	if json.Unmarshal(js, &m) != nil {
		return b
	}
	if proto == 0 {
		delete(m, "protocol")
	} else {
		m["protocol"] = proto
	}
	js2, _ := json.Marshal(m)
	out := append(encodeLine("ACT", js2), b[nl:]...)
	return out
}

type serverInWriter struct{ r *e2eRun }

func (w serverInWriter) Write(p []byte) (int, error) {
	r := w.r
	b := append([]byte(nil), p...)
	b = rewriteACT(b, r.cfg.proto)
	r.deliver(dirC2S, b, func(c []byte) error { _, err := r.stdin.Write(c); return err }, func() { r.stdin.Close() })
	return len(p), nil
}
func (w serverInWriter) Close() error { return nil }

func (r *e2eRun) deliver(dir int, b []byte, out func([]byte) error, closeFn func()) {
	idx := int(r.count[dir].Add(1)) - 1
	if r.silent[dir].Load() {
		return
	}
	act := e2eAction{}
	if r.cfg.hook != nil {
		act = r.cfg.hook(dir, idx, b)
	}
	if act.silence {
		r.silent[dir].Store(true)
	}
	if act.drop {
		return
	}
	chunks := act.data
	if chunks == nil {
		chunks = [][]byte{b}
	}
	for _, c := range chunks {
		if len(c) == 0 {
			continue
		}
		r.mu.Lock()
		r.wire[dir].Write(c)
		r.mu.Unlock()
		r.bytes[dir].Add(int64(len(c)))
		if err := out(c); err != nil {
			break
		}
	}
	if act.closeIt {
		closeFn()
	}
}

type termWriter struct{ r *e2eRun }

func (w termWriter) Write(p []byte) (int, error) {
	if w.r.cfg.termHook != nil {
		w.r.cfg.termHook(p) // C20: a slow terminal (the hook may block), seen in the writing goroutine
	}
	w.r.mu.Lock()
	w.r.term.Write(p)
	w.r.mu.Unlock()
	return len(p), nil
}
func (w termWriter) Close() error { return nil }

func goroutinesOf(marker string) []string {
	buf := make([]byte, 4<<20)
	n := runtime.Stack(buf, true)
	var out []string
	for _, g := range strings.Split(string(buf[:n]), "\n\n") {
		if strings.Contains(g, marker) {
			out = append(out, g)
		}
	}
	return out
}

// runTransfer performs one transfer. For uploads src are local (client-side) paths and
// dest is the server's directory; for downloads src are server-side paths and dest the
// client's download directory.
func runTransfer(cfg e2eCfg, src []string, dest string) e2eResult {
	if cfg.deadline == 0 {
		cfg.deadline = 60 * time.Second
	}
	r := &e2eRun{cfg: cfg}
	var args []string
	if cfg.binary {
		args = append(args, "-b")
	}
	if cfg.escape {
		args = append(args, "-e")
	}
	if cfg.directory {
		args = append(args, "-d")
	}
	if cfg.overwrite {
		args = append(args, "-y")
	}
	if cfg.quiet {
		args = append(args, "-q")
	}
	if cfg.compress != "" {
		args = append(args, "-c", cfg.compress)
	}
	if cfg.bufsize != "" {
		args = append(args, "-B", cfg.bufsize)
	}
	if cfg.timeout != 0 {
		args = append(args, "-t", fmt.Sprint(cfg.timeout))
	}
	bin := "tsz"
	if cfg.upload {
		bin = "trz"
		args = append(args, dest)
	} else {
		args = append(args, src...)
	}
	cmd := exec.Command(filepath.Join(e2eBinDir, bin), args...)
	cmd.Env = append(os.Environ(), "TMUX=")
	env := cmd.Env[:0]
	for _, e := range os.Environ() {
		if !strings.HasPrefix(e, "TMUX=") && !strings.HasPrefix(e, "TMUX_PANE=") {
			env = append(env, e)
		}
	}
	cmd.Env = env
	stdin, _ := cmd.StdinPipe()
	stdout, _ := cmd.StdoutPipe()
	var stderr bytes.Buffer
	cmd.Stderr = &stderr
	r.cmd = cmd
	r.stdin = stdin
	res := e2eResult{}
	t0 := time.Now()
	if err := cmd.Start(); err != nil {
		res.serverOut = "start failed: " + err.Error()
		return res
	}

	cliInR, cliInW := io.Pipe()
	r.cliIn = cliInW
	svrOutR, svrOutW := io.Pipe()
	// optional chain of relays between the client and the (hooked) link to the server
	var upIn io.WriteCloser = serverInWriter{r}
	var upOut io.Reader = svrOutR
	connector := func(port int) net.Conn {
		conn, err := net.DialTimeout("tcp", fmt.Sprintf("127.0.0.1:%d", port), time.Second)
		if err != nil {
			return nil
		}
		return conn
	}
	for i := 0; i < cfg.relays; i++ {
		aR, aW := io.Pipe()
		bR, bW := io.Pipe()
		relay := trzsz.NewTrzszRelay(aR, bW, upIn, upOut, trzsz.TrzszOptions{})
		if cfg.tunnel {
			relay.SetTunnelConnector(connector)
		}
		if cfg.relayConnector != nil {
			relay.SetTunnelConnector(cfg.relayConnector)
		}
		upIn, upOut = aW, bR
	}
	if cfg.relayTap != nil {
		upOut = &e2eTapReader{upOut, cfg.relayTap}
	}
	if cfg.onRelayIn != nil && cfg.relays > 0 {
		cfg.onRelayIn(upIn)
	}
	filter := trzsz.NewTrzszFilter(cliInR, termWriter{r}, upIn, upOut, trzsz.TrzszOptions{TerminalColumns: 100})
	if cfg.tunnel {
		if cfg.hookTunnel {
			filter.SetTunnelConnector(func(port int) net.Conn {
				conn := connector(port)
				if conn == nil {
					return nil
				}
				return newHookedConn(r, conn)
			})
		} else {
			filter.SetTunnelConnector(connector)
		}
	}
	r.filter = filter
	if cfg.connector != nil {
		filter.SetTunnelConnector(cfg.connector)
	}
	var upCh <-chan error
	if cfg.upload {
		var err error
		upCh, err = filter.OneTimeUpload(src)
		if err != nil {
			res.uploadErr = err
			cmd.Process.Kill()
			cmd.Wait()
			return res
		}
	} else {
		filter.SetDefaultDownloadPath(dest)
	}

	var svrAll bytes.Buffer
	var svrMu sync.Mutex
	pumpDone := make(chan struct{})
	go func() {
		defer close(pumpDone)
		buf := make([]byte, 32*1024)
		for {
			n, err := stdout.Read(buf)
			if n > 0 {
				b := append([]byte(nil), buf[:n]...)
				svrMu.Lock()
				svrAll.Write(b)
				svrMu.Unlock()
				r.deliver(dirS2C, b, func(c []byte) error { _, e := svrOutW.Write(c); return e }, func() {})
			}
			if err != nil {
				return
			}
		}
	}()

	exited := make(chan struct{})
	go func() {
		<-pumpDone
		cmd.Wait()
		res.serverDur = time.Since(t0)
		close(exited)
	}()

	// wait for the client to enter the transferring state
	if cfg.startWait == 0 {
		cfg.startWait = 10 * time.Second
	}
	startDeadline := time.Now().Add(cfg.startWait)
	for !filter.IsTransferringFiles() && time.Now().Before(startDeadline) {
		select {
		case <-exited:
			startDeadline = time.Now()
		default:
			time.Sleep(200 * time.Microsecond)
		}
	}
	if filter.IsTransferringFiles() {
		r.started.Store(true)
	} else if !filter.IsTransferringFiles() {
		// the client never recognised a trigger (or the transfer is already over): if the
		// server is still there after a moment it is waiting for a handshake that will not come
		select {
		case <-exited:
		case <-time.After(700 * time.Millisecond):
			if !filter.IsTransferringFiles() {
				cmd.Process.Kill()
			}
		}
	}
	res.started = r.started.Load()
	if cfg.onStart != nil {
		go cfg.onStart(r)
	}

	// wait for both sides
	clientDone := make(chan struct{})
	go func() {
		if cfg.upload && !res.started {
			res.uploadErr = fmt.Errorf("harness: the client never started a transfer")
		} else if cfg.upload {
			select {
			case err := <-upCh:
				res.uploadErr = err
			case <-time.After(cfg.deadline):
				res.uploadErr = fmt.Errorf("harness: upload result never arrived")
			}
		}
		for filter.IsTransferringFiles() {
			time.Sleep(time.Millisecond)
			if time.Since(t0) > cfg.deadline {
				return
			}
		}
		res.clientDur = time.Since(t0)
		res.clientDone = true
		close(clientDone)
	}()
	timer := time.NewTimer(cfg.deadline)
	defer timer.Stop()
	gotClient, gotServer := false, false
	for !(gotClient && gotServer) {
		select {
		case <-clientDone:
			gotClient = true
			clientDone = nil
		case <-exited:
			gotServer = true
			exited = nil
		case <-timer.C:
			res.hung = true
			gotClient, gotServer = true, true
		}
	}
	res.serverExited = exited == nil
	if !res.serverExited {
		cmd.Process.Signal(syscall.SIGQUIT)
		time.Sleep(200 * time.Millisecond)
		cmd.Process.Kill()
		<-pumpDone
	}
	if cmd.ProcessState != nil {
		res.serverCode = cmd.ProcessState.ExitCode()
	}
	res.dur = time.Since(t0)
	time.Sleep(20 * time.Millisecond) // let the last terminal output through
	svrMu.Lock()
	res.serverOut = svrAll.String() + stderr.String()
	svrMu.Unlock()
	r.mu.Lock()
	res.termOut = r.term.String()
	res.wire[0] = append([]byte(nil), r.wire[0].Bytes()...)
	res.wire[1] = append([]byte(nil), r.wire[1].Bytes()...)
	r.mu.Unlock()
	cliInW.Close()
	return res
}

// ---- helpers for trees ----

type treeEntry struct {
	rel   string
	isDir bool
	sum   string
	size  int64
}

func snapshotTree(root string) (map[string]treeEntry, error) {
	out := map[string]treeEntry{}
	err := filepath.Walk(root, func(p string, info os.FileInfo, err error) error {
		if err != nil {
			return err
		}
		rel, _ := filepath.Rel(root, p)
		if rel == "." {
			return nil
		}
		e := treeEntry{rel: rel, isDir: info.IsDir()}
		if !info.IsDir() {
			b, err := os.ReadFile(p)
			if err != nil {
				return err
			}
			h := sha256.Sum256(b)
			e.sum = hex.EncodeToString(h[:8])
			e.size = int64(len(b))
		}
		out[rel] = e
		return nil
	})
	return out, err
}

func diffTrees(a, b map[string]treeEntry) []string {
	var d []string
	for k, x := range a {
		y, ok := b[k]
		if !ok {
			d = append(d, "missing:"+k)
		} else if x.isDir != y.isDir || x.sum != y.sum || x.size != y.size {
			d = append(d, fmt.Sprintf("differs:%s(%d/%s vs %d/%s)", k, x.size, x.sum, y.size, y.sum))
		}
	}
	for k := range b {
		if _, ok := a[k]; !ok {
			d = append(d, "extra:"+k)
		}
	}
	sort.Strings(d)
	return d
}

// typed transcript: the sequence of protocol line types seen in one direction
func lineTypes(wire []byte) []string {
	var out []string
	for _, l := range bytes.Split(wire, []byte("\n")) {
		if len(l) > 1 && l[0] == '#' {
			if i := bytes.IndexByte(l, ':'); i > 0 && i < 8 {
				out = append(out, string(l[1:i]))
			}
		}
	}
	return out
}

// hookedConn is the client's end of a tunnel connection whose two directions pass through the
// run's hook (and its counters) exactly like the in-band link does.
type hookedConn struct {
	net.Conn
	r  *e2eRun
	pr *io.PipeReader
	pw *io.PipeWriter
}

func newHookedConn(r *e2eRun, conn net.Conn) *hookedConn {
	pr, pw := io.Pipe()
	h := &hookedConn{Conn: conn, r: r, pr: pr, pw: pw}
	go func() {
		buf := make([]byte, 32*1024)
		for {
			n, err := conn.Read(buf)
			if n > 0 {
				b := append([]byte(nil), buf[:n]...)
				r.deliver(dirS2C, b, func(c []byte) error { _, e := pw.Write(c); return e }, func() { pw.Close() })
			}
			if err != nil {
				pw.CloseWithError(err)
				return
			}
		}
	}()
	return h
}

func (h *hookedConn) Read(p []byte) (int, error) { return h.pr.Read(p) }
func (h *hookedConn) Write(p []byte) (int, error) {
	b := rewriteACT(append([]byte(nil), p...), h.r.cfg.proto)
	var werr error
	h.r.deliver(dirC2S, b, func(c []byte) error { _, werr = h.Conn.Write(c); return werr }, func() { h.Conn.Close() })
	if werr != nil {
		return 0, werr
	}
	return len(p), nil
}
func (h *hookedConn) Close() error { h.pr.Close(); return h.Conn.Close() }
