package main

// C14 — group "relayneg": the REAL relay (trzsz.NewTrzszRelay over io.Pipes with a
// scripted client and server; the real handshake() on a relay with chosen tmux facts
// through export_verif_relayneg.go; the real server prefix of trz) against the
// extracted model Model/RelayNeg.v.

import (
	"bytes"
	"encoding/json"
	"fmt"
	"io"
	"math/rand"
	"net"
	"os"
	"path/filepath"
	"regexp"
	"strconv"
	"strings"
	"sync/atomic"
	"time"

	"github.com/trzsz/trzsz-go/trzsz"
)

func init() { groups["relayneg"] = genRelayNeg }

// ---------------------------------------------------------------------------------
// wire objects: a field is absent (nil), or present with a value

type c14WA struct {
	lang, version, newline             *string
	confirm, binary, dir, tunnel, fork *bool
	protocol                           *int64
}

type c14WC struct {
	quiet, binary, directory, overwrite, junk, fork *bool
	timeout, protocol, bufsize, pane, compress      *int64
	newline                                         *string
	escape                                          *string // nil absent; "o" = {}; "t"+hex pairs = table
}

func c14s(s string) *string { return &s }
func c14b(b bool) *bool     { return &b }
func c14i(i int64) *int64   { return &i }

func c14cs(p *string) string {
	if p == nil {
		return "~"
	}
	return "s" + strings.TrimPrefix(hx([]byte(*p)), "-")
}
func c14cb(p *bool) string {
	if p == nil {
		return "~"
	}
	if *p {
		return "1"
	}
	return "0"
}
func c14ci(p *int64) string {
	if p == nil {
		return "~"
	}
	return strconv.FormatInt(*p, 10)
}
func c14ce(p *string) string {
	if p == nil {
		return "~"
	}
	return *p
}

func (w *c14WA) canon() string {
	return strings.Join([]string{c14cs(w.lang), c14cs(w.version), c14cb(w.confirm), c14cs(w.newline), c14ci(w.protocol),
		c14cb(w.binary), c14cb(w.dir), c14cb(w.tunnel), c14cb(w.fork)}, ",")
}

func (w *c14WC) canon() string {
	return strings.Join([]string{c14cb(w.quiet), c14cb(w.binary), c14cb(w.directory), c14cb(w.overwrite), c14ci(w.timeout),
		c14cs(w.newline), c14ci(w.protocol), c14ci(w.bufsize), c14ce(w.escape), c14ci(w.pane), c14cb(w.junk),
		c14ci(w.compress), c14cb(w.fork)}, ",")
}

// JSON text of a wire object.  nulls: keys (by name) that are written as null instead
// of being left out (json.Unmarshal treats both alike for these field types);
// extra: an unknown key the structs do not have.
type c14kv struct {
	k string
	v any
}

func c14json(kvs []c14kv, nulls map[string]bool, extra bool, rng *rand.Rand) []byte {
	var parts []string
	for _, e := range kvs {
		var txt string
		switch v := e.v.(type) {
		case *string:
			if v != nil {
				b, _ := json.Marshal(*v)
				txt = string(b)
			}
		case *bool:
			if v != nil {
				txt = strconv.FormatBool(*v)
			}
		case *int64:
			if v != nil {
				txt = strconv.FormatInt(*v, 10)
			}
		case json.RawMessage:
			if v != nil {
				txt = string(v)
			}
		}
		if txt == "" {
			if nulls[e.k] {
				txt = "null"
			} else {
				continue
			}
		}
		parts = append(parts, fmt.Sprintf("%q:%s", e.k, txt))
	}
	if extra {
		parts = append(parts, `"lang_x":"py"`, `"zz":[1,{"a":null}]`)
	}
	if rng != nil {
		rng.Shuffle(len(parts), func(i, j int) { parts[i], parts[j] = parts[j], parts[i] })
	}
	return []byte("{" + strings.Join(parts, ",") + "}")
}

func (w *c14WA) json(nulls map[string]bool, extra bool, rng *rand.Rand) []byte {
	return c14json([]c14kv{{"lang", w.lang}, {"version", w.version}, {"confirm", w.confirm}, {"newline", w.newline},
		{"protocol", w.protocol}, {"binary", w.binary}, {"support_dir", w.dir}, {"tunnel", w.tunnel}, {"fork", w.fork}}, nulls, extra, rng)
}

func c14escapeJSON(e *string) json.RawMessage {
	if e == nil {
		return nil
	}
	if *e == "o" {
		return json.RawMessage("{}")
	}
	raw := (*e)[1:]
	var ps []pair
	if raw != "" && raw != "-" {
		b := make([]byte, len(raw)/2)
		for i := range b {
			v, _ := strconv.ParseUint(raw[2*i:2*i+2], 16, 8)
			b[i] = byte(v)
		}
		for i := 0; i+1 < len(b); i += 2 {
			ps = append(ps, pair{b[i], b[i+1]})
		}
	}
	return json.RawMessage(tableJSON(ps))
}

func (w *c14WC) json(nulls map[string]bool, extra bool, rng *rand.Rand) []byte {
	return c14json([]c14kv{{"quiet", w.quiet}, {"binary", w.binary}, {"directory", w.directory}, {"overwrite", w.overwrite},
		{"timeout", w.timeout}, {"newline", w.newline}, {"protocol", w.protocol}, {"bufsize", w.bufsize},
		{"escape_chars", c14escapeJSON(w.escape)}, {"tmux_pane_width", w.pane}, {"tmux_output_junk", w.junk},
		{"compress", w.compress}, {"fork", w.fork}}, nulls, extra, rng)
}

// decode a JSON object into the wire form; unknown keys are reported in extra
func c14raw(js []byte) (map[string]json.RawMessage, error) {
	var m map[string]json.RawMessage
	if err := json.Unmarshal(js, &m); err != nil {
		return nil, err
	}
	for k, v := range m {
		if string(v) == "null" {
			delete(m, k)
			m["\x00null:"+k] = v
		}
	}
	return m, nil
}

func c14gs(m map[string]json.RawMessage, k string) *string {
	v, ok := m[k]
	if !ok {
		return nil
	}
	delete(m, k)
	var s string
	if json.Unmarshal(v, &s) != nil {
		return c14s("?" + string(v))
	}
	return &s
}
func c14gb(m map[string]json.RawMessage, k string) *bool {
	v, ok := m[k]
	if !ok {
		return nil
	}
	delete(m, k)
	var b bool
	if json.Unmarshal(v, &b) != nil {
		return nil
	}
	return &b
}
func c14gi(m map[string]json.RawMessage, k string) *int64 {
	v, ok := m[k]
	if !ok {
		return nil
	}
	delete(m, k)
	var i int64
	if json.Unmarshal(v, &i) != nil {
		return nil
	}
	return &i
}

func c14leftover(m map[string]json.RawMessage) string {
	var ks []string
	for k := range m {
		if !strings.HasPrefix(k, "\x00null:") {
			ks = append(ks, k)
		}
	}
	if len(ks) == 0 {
		return ""
	}
	return ",+" + strings.Join(ks, "+")
}

func c14parseWA(js []byte) (*c14WA, string) {
	m, err := c14raw(js)
	if err != nil {
		return nil, "?json"
	}
	w := &c14WA{lang: c14gs(m, "lang"), version: c14gs(m, "version"), confirm: c14gb(m, "confirm"), newline: c14gs(m, "newline"),
		protocol: c14gi(m, "protocol"), binary: c14gb(m, "binary"), dir: c14gb(m, "support_dir"), tunnel: c14gb(m, "tunnel"), fork: c14gb(m, "fork")}
	return w, c14leftover(m)
}

func c14parseWC(js []byte) (*c14WC, string) {
	m, err := c14raw(js)
	if err != nil {
		return nil, "?json"
	}
	w := &c14WC{quiet: c14gb(m, "quiet"), binary: c14gb(m, "binary"), directory: c14gb(m, "directory"), overwrite: c14gb(m, "overwrite"),
		timeout: c14gi(m, "timeout"), newline: c14gs(m, "newline"), protocol: c14gi(m, "protocol"), bufsize: c14gi(m, "bufsize"),
		pane: c14gi(m, "tmux_pane_width"), junk: c14gb(m, "tmux_output_junk"), compress: c14gi(m, "compress"), fork: c14gb(m, "fork")}
	if v, ok := m["escape_chars"]; ok {
		delete(m, "escape_chars")
		t := strings.TrimSpace(string(v))
		switch {
		case t == "{}":
			w.escape = c14s("o")
		case strings.HasPrefix(t, "["):
			var arr [][]string
			if json.Unmarshal(v, &arr) != nil {
				w.escape = c14s("?" + t)
				break
			}
			var b []byte
			for _, e := range arr {
				if len(e) != 2 || len([]rune(e[0])) != 1 || len([]rune(e[1])) != 2 {
					w.escape = c14s("?" + t)
					break
				}
				b = append(b, byte([]rune(e[0])[0]), byte([]rune(e[1])[1]))
			}
			if w.escape == nil {
				w.escape = c14s("t" + strings.TrimPrefix(hx(b), "-"))
			}
		default:
			w.escape = c14s("?" + t)
		}
	}
	return w, c14leftover(m)
}

// a protocol line "#TYP:base64(zlib(payload))" + terminator; returns type and payload
func c14decodeLine(b []byte) (typ string, payload []byte, ok bool) {
	s := strings.TrimRight(string(b), "\r\n")
	s = strings.TrimSuffix(s, "!")
	if !strings.HasPrefix(s, "#") {
		return "", nil, false
	}
	i := strings.IndexByte(s, ':')
	if i < 0 {
		return "", nil, false
	}
	p, err := decodeLinePayload(s[i+1:])
	if err != nil {
		return s[1:i], nil, false
	}
	return s[1:i], p, true
}

// ---------------------------------------------------------------------------------
// generators of wire objects

func c14pickS(rng *rand.Rand, opts ...string) *string {
	i := rng.Intn(len(opts) + 1)
	if i == len(opts) {
		return nil
	}
	return &opts[i]
}
func c14pickB(rng *rand.Rand) *bool {
	switch rng.Intn(3) {
	case 0:
		return nil
	case 1:
		return c14b(false)
	}
	return c14b(true)
}

func c14randWA(rng *rand.Rand) *c14WA {
	w := &c14WA{
		lang:    c14pickS(rng, "go", "py", "js", "", "日本<&>\"\\"),
		version: c14pickS(rng, "1.1.8", "1.1.3", "0.9", "x\ny"),
		newline: c14pickS(rng, "\n", "!\n", "\n", "!\n", "\r\n", ""),
		confirm: c14pickB(rng), binary: c14pickB(rng), dir: c14pickB(rng), tunnel: c14pickB(rng), fork: c14pickB(rng),
	}
	switch rng.Intn(12) {
	case 0:
	case 1:
		w.protocol = c14i(int64(rng.Intn(40) - 20))
	case 2:
		w.protocol = c14i([]int64{1 << 31, -(1 << 31), 1<<62 + 7, -(1 << 62), 1000000}[rng.Intn(5)])
	default:
		w.protocol = c14i(int64(rng.Intn(10)))
	}
	return w
}

func c14randTable(rng *rand.Rand) string {
	n := rng.Intn(5)
	b := make([]byte, 0, 2*n)
	for i := 0; i < n; i++ {
		b = append(b, byte(rng.Intn(256)), byte(0x30+rng.Intn(64)))
	}
	return "t" + strings.TrimPrefix(hx(b), "-")
}

func c14randWC(rng *rand.Rand, allowObj bool) *c14WC {
	w := &c14WC{quiet: c14pickB(rng), binary: c14pickB(rng), directory: c14pickB(rng), overwrite: c14pickB(rng),
		junk: c14pickB(rng), fork: c14pickB(rng), newline: c14pickS(rng, "\n", "!\n", "\r\n")}
	pi := func(opts ...int64) *int64 {
		i := rng.Intn(len(opts) + 1)
		if i == len(opts) {
			return nil
		}
		return &opts[i]
	}
	w.timeout = pi(20, 0, -1, 100, 1<<40)
	w.protocol = pi(0, 1, 2, 3, 4, 5, 9, -1)
	w.bufsize = pi(10<<20, 1024, 1<<30, 0, -5, 1<<50)
	w.pane = pi(0, -1, 80, 1, 200, 2147483647, -2147483648)
	w.compress = pi(0, 1, 2, 7, -1)
	switch rng.Intn(6) {
	case 0, 1:
		w.escape = c14s(c14randTable(rng))
	case 2:
		if allowObj {
			w.escape = c14s("o")
		}
	}
	return w
}

func c14randNulls(rng *rand.Rand, keys []string) map[string]bool {
	m := map[string]bool{}
	if rng.Intn(3) == 0 {
		for _, k := range keys {
			if rng.Intn(3) == 0 {
				m[k] = true
			}
		}
	}
	return m
}

var c14actKeys = []string{"lang", "version", "confirm", "newline", "protocol", "binary", "support_dir", "tunnel", "fork"}
var c14cfgKeys = []string{"quiet", "binary", "directory", "overwrite", "timeout", "newline", "protocol", "bufsize", "escape_chars",
	"tmux_pane_width", "tmux_output_junk", "compress", "fork"}

// ---------------------------------------------------------------------------------
// direct oracles on what a relay forwarded (independent of the model)

func c14eqS(a, b *string, d string) bool {
	x, y := d, d
	if a != nil {
		x = *a
	}
	if b != nil {
		y = *b
	}
	return x == y
}
func c14eqB(a, b *bool, d bool) bool {
	x, y := d, d
	if a != nil {
		x = *a
	}
	if b != nil {
		y = *b
	}
	return x == y
}
func c14eqI(a, b *int64, d int64) bool {
	x, y := d, d
	if a != nil {
		x = *a
	}
	if b != nil {
		y = *b
	}
	return x == y
}
func c14val(p *bool, d bool) bool {
	if p == nil {
		return d
	}
	return *p
}
func c14ival(p *int64, d int64) int64 {
	if p == nil {
		return d
	}
	return *p
}

// in: what the client sent; out: what reached the server
func (c *ctx) c14oracleAct(in, out *c14WA, how string) {
	id := in.canon()
	tunnel := c14val(in.tunnel, false)
	if c14val(out.binary, true) && !tunnel {
		c.violate("relay-binary-without-tunnel", "binary=true reached the server although the client reported no tunnel", how+" act="+id+" forwarded="+out.canon())
	}
	if c14val(out.binary, true) && !c14val(in.binary, true) {
		c.violate("relay-binary-invented", "binary=true reached the server although the client did not support it", how+" act="+id+" forwarded="+out.canon())
	}
	if c14ival(out.protocol, 0) > 4 {
		c.violate("relay-protocol-above-own", "protocol above the relay's own version reached the server", how+" act="+id+" forwarded="+out.canon())
	}
	if p := c14ival(in.protocol, 0); p <= 4 && c14ival(out.protocol, 0) != p {
		c.violate("relay-protocol-changed", "a protocol the relay understands was changed", how+" act="+id+" forwarded="+out.canon())
	}
	if tunnel && c14val(out.binary, true) != c14val(in.binary, true) {
		c.violate("relay-binary-lost-with-tunnel", "binary support was changed although the tunnel is connected", how+" act="+id+" forwarded="+out.canon())
	}
	if !(c14eqS(in.lang, out.lang, "") && c14eqS(in.version, out.version, "") && c14eqB(in.confirm, out.confirm, false) &&
		c14eqS(in.newline, out.newline, "\n") && c14eqB(in.dir, out.dir, false) && c14eqB(in.tunnel, out.tunnel, false) &&
		c14eqB(in.fork, out.fork, false)) {
		c.violate("relay-action-field-changed", "an ACT field other than binary/protocol was changed by the relay", how+" act="+id+" forwarded="+out.canon())
	}
}

// in: what the server sent; out: what reached the client.  dfltNL: the newline both
// the relay and the client assume when the server names none.
func (c *ctx) c14oracleCfg(in, out *c14WC, tmuxNormal bool, width int64, dfltNL string, how string) {
	id := in.canon()
	ok := c14eqB(in.quiet, out.quiet, false) && c14eqB(in.binary, out.binary, false) && c14eqB(in.directory, out.directory, false) &&
		c14eqB(in.overwrite, out.overwrite, false) && c14eqI(in.timeout, out.timeout, 20) && c14eqS(in.newline, out.newline, dfltNL) &&
		c14eqI(in.protocol, out.protocol, 0) && c14eqI(in.bufsize, out.bufsize, 10<<20) && c14eqI(in.compress, out.compress, 0) &&
		c14eqB(in.fork, out.fork, false)
	if !ok {
		c.violate("relay-config-field-changed", "a CFG field other than tmux_output_junk / tmux_pane_width was changed by the relay", how+" cfg="+id+" forwarded="+out.canon())
	}
	if c14val(in.junk, false) && !c14val(out.junk, false) {
		c.violate("relay-junk-flag-cleared", "tmux_output_junk announced by the server was cleared", how+" cfg="+id+" forwarded="+out.canon())
	}
	if c14val(out.junk, false) && !c14val(in.junk, false) && !tmuxNormal {
		c.violate("relay-junk-flag-invented", "tmux_output_junk set by a relay that is not in tmux normal mode", how+" cfg="+id+" forwarded="+out.canon())
	}
	if p := c14ival(in.pane, 0); p > 0 && c14ival(out.pane, 0) != p {
		c.violate("relay-pane-width-overwritten", "a pane width the server announced was overwritten", how+" cfg="+id+" forwarded="+out.canon())
	} else if p <= 0 && width > 0 && c14ival(out.pane, 0) != width {
		c.violate("relay-pane-width-not-filled", "the relay knows its pane width but did not fill it in", how+" cfg="+id+" forwarded="+out.canon())
	} else if p <= 0 && width <= 0 && c14ival(out.pane, 0) != p {
		c.violate("relay-pane-width-invented", "pane width changed by a relay that knows none", how+" cfg="+id+" forwarded="+out.canon())
	}
	if in.escape != nil && (out.escape == nil || *out.escape != *in.escape) {
		// a latent quirk, not reachable with trz/tsz as the server (they announce a table only
		// when binary was negotiated without a tunnel, which a relay rules out): counted, and
		// stated as C14_escape_table_refuted / C14_escape_never_through_relay
		c.count("cfg:escape-table-mangled")
	}
}

// ---------------------------------------------------------------------------------
// (A) the real handshake() on a relay with chosen tmux facts (export)

func c14line(typ string, js []byte, nl string) []byte {
	return append(encodeLine(typ, js), nl...)
}

type c14hsIn struct {
	mode   int
	width  int32
	win    bool
	act    *c14WA // nil: badAct is sent
	badAct []byte
	cfg    *c14WC // nil with badCfg == nil: no CFG line is supplied
	badCfg []byte
	anulls map[string]bool
	cnulls map[string]bool
	extra  bool
}

// classify what the relay queued towards the two sides
func c14classify(toServer, toClient [][]byte, status int32) (kind string, act *c14WA, cfg *c14WC, canon string) {
	var ts, tc []string
	var actJS, cfgJS []byte
	for _, b := range toServer {
		t, p, ok := c14decodeLine(b)
		if !ok {
			t = "?" + t
		}
		ts = append(ts, t)
		if t == "ACT" {
			actJS = p
		}
	}
	for _, b := range toClient {
		t, p, ok := c14decodeLine(b)
		if !ok {
			t = "?" + t
		}
		tc = append(tc, t)
		if t == "CFG" {
			cfgJS = p
		}
	}
	shape := strings.Join(ts, "+") + "/" + strings.Join(tc, "+")
	actC, cfgC := "", ""
	if actJS != nil {
		var x string
		act, x = c14parseWA(actJS)
		if act != nil {
			actC = act.canon() + x
		} else {
			actC = x
		}
	}
	if cfgJS != nil {
		var x string
		cfg, x = c14parseWC(cfgJS)
		if cfg != nil {
			cfgC = cfg.canon() + x
		} else {
			cfgC = x
		}
	}
	switch shape {
	case "FAIL/FAIL":
		kind = "badact"
	case "ACT/":
		kind = "refused"
	case "ACT+FAIL/FAIL":
		kind = "badcfg"
	case "ACT/CFG":
		kind = "done"
	default:
		kind = "?" + shape
	}
	return kind, act, cfg, fmt.Sprintf("%s:%s|%s:%d", kind, actC, cfgC, status)
}

func (in *c14hsIn) lines(rng *rand.Rand) (fromClient, fromServer [][]byte) {
	tunnel := in.act != nil && c14val(in.act.tunnel, false)
	cliWin := in.act != nil && in.act.newline != nil && *in.act.newline == "!\n"
	actNL := "\n"
	if in.win {
		actNL = "!\n"
	}
	cfgNL := "\n"
	if (in.win || cliWin) && !tunnel {
		cfgNL = "!\n"
	}
	if in.act != nil {
		fromClient = [][]byte{c14line("ACT", in.act.json(in.anulls, in.extra, rng), actNL)}
	} else {
		fromClient = [][]byte{in.badAct}
	}
	// a server line is parked only when the handshake will read it: what is left in the
	// buffers is flushed to the other side afterwards (conservation, C13), which would
	// blur the classification here
	if in.act == nil || !c14val(in.act.confirm, false) {
		return
	}
	if in.cfg != nil {
		fromServer = [][]byte{c14line("CFG", in.cfg.json(in.cnulls, in.extra, rng), cfgNL)}
	} else if in.badCfg != nil {
		fromServer = [][]byte{in.badCfg}
	}
	return
}

func (in *c14hsIn) args() []string {
	a, g := "bad", "none"
	if in.act != nil {
		a = in.act.canon()
	}
	if in.act == nil || !c14val(in.act.confirm, false) {
	} else if in.cfg != nil {
		g = in.cfg.canon()
	} else if in.badCfg != nil {
		g = "bad"
	}
	w := "0"
	if in.win {
		w = "1"
	}
	return []string{strconv.Itoa(in.mode), strconv.Itoa(int(in.width)), w, a, g}
}

func (c *ctx) c14checkHs(in *c14hsIn, kind string, act *c14WA, cfg *c14WC, how string) {
	if in.act != nil && act != nil {
		c.c14oracleAct(in.act, act, how)
	}
	if in.act != nil && in.cfg != nil && cfg != nil {
		tunnel := c14val(in.act.tunnel, false)
		nl := "\n"
		if in.win && !tunnel {
			nl = "!\n"
		}
		c.c14oracleCfg(in.cfg, cfg, in.mode == 1, int64(in.width), nl, how)
	}
	c.count("hs:" + kind)
}

func (c *ctx) c14randHsIn(rng *rand.Rand) *c14hsIn {
	in := &c14hsIn{mode: rng.Intn(3), win: rng.Intn(5) == 0, extra: rng.Intn(4) == 0}
	in.width = []int32{-1, -1, 0, 80, 120, 1, 2147483647}[rng.Intn(7)]
	in.act = c14randWA(rng)
	if rng.Intn(3) > 0 {
		in.act.confirm = c14b(true)
	}
	in.anulls = c14randNulls(rng, c14actKeys)
	in.cnulls = c14randNulls(rng, c14cfgKeys)
	in.cfg = c14randWC(rng, true)
	switch rng.Intn(40) {
	case 0:
		in.act, in.badAct = nil, []byte("#ACT:@@@notbase64\n")
	case 1:
		in.act, in.badAct = nil, c14line("ACT", []byte(`{"protocol":"four"}`), "\n")
	case 2:
		in.act, in.badAct = nil, c14line("CFG", []byte(`{}`), "\n")
	case 3:
		in.act, in.badAct = nil, []byte("#ACT:eJyrVkrLz1eyUkpKLFKqBQAdegQ0\x03\n")
	case 4:
		in.cfg, in.badCfg = nil, c14line("CFG", []byte(`{"timeout":"soon"}`), "\n")
	case 5:
		in.cfg, in.badCfg = nil, c14line("CFG", []byte(`{"escape_chars":[["a","b"]]}`), "\n")
	case 6:
		in.cfg, in.badCfg = nil, c14line("SUCC", []byte(`1`), "\n")
	}
	if in.win && in.badAct != nil {
		in.badAct = bytes.ReplaceAll(in.badAct, []byte("\n"), []byte("!\n"))
	}
	if in.badCfg != nil && in.act != nil && (in.win || (in.act.newline != nil && *in.act.newline == "!\n")) && !c14val(in.act.tunnel, false) {
		in.badCfg = bytes.ReplaceAll(in.badCfg, []byte("\n"), []byte("!\n"))
	}
	return in
}

func (c *ctx) c14exportHandshakes() {
	modes := trzsz.VerifTmuxModes()
	if modes != [3]int{0, 1, 2} {
		panic("tmux mode constants changed")
	}
	run := func(in *c14hsIn, rng *rand.Rand) {
		fc, fs := in.lines(rng)
		ts, tc, st := trzsz.VerifRelayHandshake(in.mode, in.width, in.win, fc, fs)
		kind, act, cfg, canon := c14classify(ts, tc, st)
		c.c14checkHs(in, kind, act, cfg, "export-handshake")
		c.emit(true, "handshake", canon, in.args()...)
	}
	// exhaustive capability sets: binary x dir x fork x tunnel x protocol 0..9 (+absent) x newline, confirm
	// true, against every single server option switched on
	t, f := true, false
	bools := []*bool{nil, &f, &t}
	nls := []*string{nil, c14s("\n"), c14s("!\n")}
	cfgs := c14cfgCorpus()
	i := 0
	for _, bin := range bools {
		for _, tun := range bools {
			for p := -1; p <= 9; p++ {
				for _, nl := range nls {
					for _, df := range []int{0, 1, 2, 3} {
						act := &c14WA{lang: c14s("go"), version: c14s("1.1.8"), confirm: &t, newline: nl, binary: bin, tunnel: tun,
							dir: c14b(df&1 != 0), fork: c14b(df&2 != 0)}
						if p >= 0 {
							act.protocol = c14i(int64(p))
						}
						in := &c14hsIn{mode: i % 3, width: []int32{-1, 80, 0}[(i/3)%3], win: i%7 == 0, act: act, cfg: cfgs[i%len(cfgs)]}
						if c.pick(1, 0) == 1 && i%3 != 0 {
							i++
							continue
						}
						run(in, nil)
						i++
					}
				}
			}
		}
	}
	// every CFG of the corpus x the three tmux modes x known/unknown width
	for _, cfg := range cfgs {
		for mode := 0; mode < 3; mode++ {
			for _, w := range []int32{-1, 0, 80} {
				for _, tun := range []bool{false, true} {
					run(&c14hsIn{mode: mode, width: w, win: false, cfg: cfg,
						act: &c14WA{lang: c14s("go"), confirm: &t, protocol: c14i(4), tunnel: c14b(tun), binary: &t}}, nil)
				}
			}
		}
	}
	n := c.pick(3000, 40000)
	for j := 0; j < n; j++ {
		run(c.c14randHsIn(c.rng), c.rng)
	}
}

// one CFG per server option (and combinations the Go servers really send)
func c14cfgCorpus() []*c14WC {
	t := true
	var out []*c14WC
	base := func() *c14WC { return &c14WC{bufsize: c14i(10 << 20), timeout: c14i(20)} }
	out = append(out, &c14WC{}, base())
	add := func(f func(w *c14WC)) {
		w := base()
		f(w)
		out = append(out, w)
	}
	add(func(w *c14WC) { w.quiet = &t })
	add(func(w *c14WC) { w.binary = &t })
	add(func(w *c14WC) { w.binary = &t; w.escape = c14s("tee" + "ee" + "7e31") })
	add(func(w *c14WC) { w.directory = &t })
	add(func(w *c14WC) { w.overwrite = &t })
	add(func(w *c14WC) { w.timeout = c14i(0) })
	add(func(w *c14WC) { w.timeout = c14i(300) })
	add(func(w *c14WC) { w.bufsize = c14i(1024) })
	add(func(w *c14WC) { w.bufsize = c14i(1 << 30) })
	add(func(w *c14WC) { w.junk = &t })
	add(func(w *c14WC) { w.pane = c14i(132) })
	add(func(w *c14WC) { w.pane = c14i(0) })
	add(func(w *c14WC) { w.pane = c14i(-1) })
	add(func(w *c14WC) { w.junk = &t; w.pane = c14i(77) })
	for p := int64(1); p <= 4; p++ {
		p := p
		add(func(w *c14WC) { w.protocol = &p })
	}
	add(func(w *c14WC) { w.compress = c14i(1) })
	add(func(w *c14WC) { w.compress = c14i(2) })
	add(func(w *c14WC) { w.fork = &t; w.quiet = &t; w.binary = &t })
	add(func(w *c14WC) { w.newline = c14s("!\n") })
	add(func(w *c14WC) {
		w.quiet, w.binary, w.directory, w.overwrite, w.junk = &t, &t, &t, &t, &t
		w.protocol, w.compress, w.pane = c14i(4), c14i(1), c14i(200)
	})
	return out
}

// ---------------------------------------------------------------------------------
// (A2) the FRAMING of the handshake: which reader the relay uses for the client's ACT and the
// server's CFG, and which terminator it puts on every line it sends itself, as a function of
// the Windows-server fact, of the ACT (newline, tunnel) and of what the relay remembers from
// earlier transfers (clientIsWindows).  fn "handshake2" vs RelayNeg.rn_handshake2.

type c14fhIn struct {
	mode    int
	width   int32
	win     bool
	cliWin0 bool
	actWin  bool   // the ACT line ends with "!\n"
	act     *c14WA // nil: a line whose payload is not an ACT
	cfgWin  bool
	cfg     *c14WC // nil: cfgBad or none
	cfgBad  bool
	desc    string
}

func c14nl(win bool) string {
	if win {
		return "!\n"
	}
	return "\n"
}

func c14terms(lines [][]byte) string {
	var b strings.Builder
	for _, l := range lines {
		switch {
		case bytes.HasSuffix(l, []byte("!\n")):
			b.WriteByte('W')
		case bytes.HasSuffix(l, []byte("\n")):
			b.WriteByte('U')
		default:
			b.WriteByte('?')
		}
	}
	return b.String()
}

// is the CFG line supplied?  Only when the handshake will get as far as reading it: an
// unread parked line is flushed to the client afterwards (C13), which is not this group's topic
func (in *c14fhIn) cfgSupplied() bool {
	return in.act != nil && c14val(in.act.confirm, false) && in.actWin == in.win && (in.cfg != nil || in.cfgBad)
}

func (in *c14fhIn) args() []string {
	b := func(x bool) string {
		if x {
			return "1"
		}
		return "0"
	}
	a, g := "bad", "none"
	if in.act != nil {
		a = in.act.canon()
	}
	if in.cfgSupplied() {
		if in.cfg != nil {
			g = in.cfg.canon()
		} else {
			g = "bad"
		}
	}
	return []string{strconv.Itoa(in.mode), strconv.Itoa(int(in.width)), b(in.win), b(in.cliWin0), b(in.actWin), a, b(in.cfgWin), g}
}

// the client as its ACT describes it, if the ACT is one a trzsz client can send: it frames for
// Windows ("newline":"!\n") only without a tunnel, and it does so whenever the server is Windows
func (in *c14fhIn) honestClient() (windows bool, ok bool) {
	if in.act == nil || in.actWin != in.win {
		return false, false
	}
	nl := "\n"
	if in.act.newline != nil {
		nl = *in.act.newline
	}
	tunnel := c14val(in.act.tunnel, false)
	windows = nl == "!\n"
	if nl != "\n" && nl != "!\n" || windows && tunnel || in.win && !tunnel && !windows {
		return false, false
	}
	return windows, true
}

func (in *c14fhIn) clientKind(windows bool) string {
	k := "unix-client"
	if windows {
		k = "windows-client"
	}
	if in.win {
		k += "/windows-server"
	}
	if in.act != nil && c14val(in.act.tunnel, false) {
		k += "/tunnel"
	}
	if in.mode == 1 {
		k += "/relay-in-tmux"
	}
	return k
}

// DIRECT ORACLES on the framing, independent of the model
func (c *ctx) c14oracleFraming(in *c14fhIn, kind string, toServer, toClient [][]byte, how string) {
	windows, ok := in.honestClient()
	if !ok {
		return
	}
	ck := in.clientKind(windows)
	detail := how + " " + in.desc + " args=" + strings.Join(in.args(), " ") + " to-client=" + hxs(toClient)
	want := c14nl(windows)
	for _, l := range toClient {
		if !bytes.HasSuffix(l, []byte(want)) || want == "\n" && bytes.HasSuffix(l, []byte("!\n")) {
			t, _, _ := c14decodeLine(l)
			c.violate("relay-client-terminator:"+t+":"+ck, "a line the relay itself sent to the client does not end with the terminator that client reads by "+
				"(it announced newline "+strconv.Quote(want)+")", detail)
		}
	}
	// the server reads the ACT before it knows anything about the client: with the Windows reader
	// exactly when it runs on Windows
	for _, l := range toServer {
		if t, _, _ := c14decodeLine(l); t == "ACT" && bytes.HasSuffix(l, []byte("!\n")) != in.win {
			c.violate("relay-server-terminator:ACT:"+ck, "the ACT the relay sent to the server does not end with the terminator that server reads by", detail+" to-server="+hxs(toServer))
		}
	}
	// the server is honest too: it frames its CFG with the newline of the ACT it received
	if c14val(in.act.confirm, false) && in.cfg != nil && in.cfgSupplied() && in.cfgWin == windows &&
		(in.cfg.escape == nil || *in.cfg.escape != "o") {
		if kind != "done" {
			c.violate("relay-handshake-failed:"+ck, "client and server would have completed this handshake directly; through the relay it ended as "+kind, detail)
		}
		c.count("framing:honest:" + ck)
	}
}

func (c *ctx) c14runFramed(in *c14fhIn) (string, string, [][]byte, [][]byte) {
	var fc, fs [][]byte
	if in.act != nil {
		fc = [][]byte{c14line("ACT", in.act.json(nil, false, nil), c14nl(in.actWin))}
	} else {
		fc = [][]byte{c14line("CFG", []byte(`{}`), c14nl(in.actWin))}
	}
	if in.cfgSupplied() {
		if in.cfg != nil {
			fs = [][]byte{c14line("CFG", in.cfg.json(nil, false, nil), c14nl(in.cfgWin))}
		} else {
			fs = [][]byte{c14line("SUCC", []byte(`1`), c14nl(in.cfgWin))}
		}
	}
	ts, tc, st, cw, hung := trzsz.VerifRelayHandshake2(in.mode, in.width, in.win, in.cliWin0, fc, fs, 700*time.Millisecond)
	kind, _, _, canon := c14classify(ts, tc, st)
	if hung {
		kind = "hung" + strconv.Itoa(len(ts))
		canon = kind + canon[strings.Index(canon, ":"):]
	}
	b := "0"
	if cw {
		b = "1"
	}
	return kind, canon + ":S=" + c14terms(ts) + ":C=" + c14terms(tc) + ":w" + b, ts, tc
}

func (c *ctx) c14framedHandshakes() {
	t, f := true, false
	var ins []*c14fhIn
	// every client a trzsz client can be (on Windows or not, Windows server or not, tunnel or not) x
	// every relay (outside tmux, tmux normal, tmux control) x what the relay remembers x the three
	// outcomes (confirmed / refused / server's line not a CFG), with honest framing of both ends
	for _, win := range []bool{false, true} {
		for _, envWin := range []bool{false, true} {
			for _, tun := range []bool{false, true} {
				cliWindows := !tun && (envWin || win)
				for mode := 0; mode < 3; mode++ {
					for _, cw0 := range []bool{false, true} {
						for out := 0; out < 3; out++ {
							act := &c14WA{lang: c14s("go"), version: c14s("1.1.8"), confirm: c14b(out != 1), newline: c14s(c14nl(cliWindows)),
								protocol: c14i(4), binary: c14b(!cliWindows), dir: &t, tunnel: c14b(tun), fork: c14b(tun)}
							in := &c14fhIn{mode: mode, width: []int32{-1, 132}[mode&1], win: win, cliWin0: cw0, actWin: win, act: act, cfgWin: cliWindows,
								desc: "go-client"}
							if out == 2 {
								in.cfgBad = true
							} else {
								in.cfg = &c14WC{bufsize: c14i(10 << 20), timeout: c14i(20), protocol: c14i(4), overwrite: &t, binary: c14b(tun)}
							}
							ins = append(ins, in)
						}
						// the ACT itself is not decodable: the relay frames its FAIL by what it remembers
						ins = append(ins, &c14fhIn{mode: mode, width: -1, win: win, cliWin0: cw0, actWin: win, desc: "undecodable-act"})
					}
				}
			}
		}
	}
	// framings that do NOT match (a reader that garbles the line, or never finds its terminator)
	for _, win := range []bool{false, true} {
		for _, cliNL := range []bool{false, true} {
			for _, actWin := range []bool{false, true} {
				for _, cfgWin := range []bool{false, true} {
					for _, tun := range []bool{false, true} {
						act := &c14WA{lang: c14s("go"), confirm: &t, newline: c14s(c14nl(cliNL)), protocol: c14i(4), tunnel: c14b(tun)}
						ins = append(ins, &c14fhIn{mode: 0, width: -1, win: win, cliWin0: c.rng.Intn(2) == 0, actWin: actWin, act: act, cfgWin: cfgWin,
							cfg: &c14WC{bufsize: c14i(1024), timeout: c14i(5)}, desc: "any-framing"})
					}
				}
			}
		}
	}
	// random ACT x CFG objects with random framings
	for i, n := 0, c.pick(400, 6000); i < n; i++ {
		in := &c14fhIn{mode: c.rng.Intn(3), width: []int32{-1, 0, 80}[c.rng.Intn(3)], win: c.rng.Intn(3) == 0, cliWin0: c.rng.Intn(2) == 0, desc: "random"}
		in.act = c14randWA(c.rng)
		if c.rng.Intn(4) > 0 {
			in.act.confirm = &t
		}
		if c.rng.Intn(3) > 0 {
			in.act.newline = c14s(c14nl(c.rng.Intn(2) == 0))
		}
		if c.rng.Intn(20) == 0 {
			in.act = nil
		}
		in.actWin = in.win
		if c.rng.Intn(12) == 0 {
			in.actWin = !in.win
		}
		in.cfg = c14randWC(c.rng, true)
		if c.rng.Intn(15) == 0 {
			in.cfg, in.cfgBad = nil, true
		}
		in.cfgWin = in.act != nil && in.act.newline != nil && *in.act.newline == "!\n"
		if c.rng.Intn(12) == 0 {
			in.cfgWin = !in.cfgWin
		}
		ins = append(ins, in)
	}
	_ = f
	type res struct {
		kind, canon string
		ts, tc      [][]byte
	}
	out := make([]res, len(ins))
	parallelDo(len(ins), 16, func(i int) {
		k, cn, ts, tc := c.c14runFramed(ins[i])
		out[i] = res{k, cn, ts, tc}
	})
	for i, in := range ins {
		c.c14oracleFraming(in, out[i].kind, out[i].ts, out[i].tc, "export-handshake2")
		c.count("hs2:" + out[i].kind)
		if in.act == nil && in.win == false && in.cliWin0 == false {
			c.count("hs2:undecodable-act-fresh-relay-unix-terminator") // C14_client_terminator_any_act_refuted
		}
		c.emit(true, "handshake2", out[i].canon, in.args()...)
	}
}

// ---------------------------------------------------------------------------------
// (B) the real relay over pipes

type c14Rig struct {
	relay      *trzsz.TrzszRelay
	cliW, srvW *io.PipeWriter
	atCli      chan []byte // chunks the relay wrote to the client
	atSrv      chan []byte // chunks the relay wrote to the server
}

func c14pump(r *io.PipeReader, ch chan []byte) {
	for {
		buf := make([]byte, 64*1024)
		n, err := r.Read(buf)
		if n > 0 {
			ch <- buf[:n]
		}
		if err != nil {
			close(ch)
			return
		}
	}
}

func c14newRig() *c14Rig {
	cliInR, cliInW := io.Pipe()
	cliOutR, cliOutW := io.Pipe()
	srvInR, srvInW := io.Pipe()
	srvOutR, srvOutW := io.Pipe()
	g := &c14Rig{cliW: cliInW, srvW: srvOutW, atCli: make(chan []byte, 4096), atSrv: make(chan []byte, 4096)}
	go c14pump(cliOutR, g.atCli)
	go c14pump(srvInR, g.atSrv)
	g.relay = trzsz.NewTrzszRelay(cliInR, cliOutW, srvInW, srvOutR, trzsz.TrzszOptions{})
	return g
}

func (g *c14Rig) close() {
	g.cliW.Close()
	g.srvW.Close()
	// the relay closes its channels on EOF; the writer goroutines then stop writing.
	go func() {
		for range g.atCli {
		}
	}()
	go func() {
		for range g.atSrv {
		}
	}()
}

func c14recv(ch chan []byte, d time.Duration) []byte {
	select {
	case b, ok := <-ch:
		if !ok {
			return nil
		}
		return b
	case <-time.After(d):
		return nil
	}
}

func (g *c14Rig) status() int32 { return trzsz.VerifRelayStatus(g.relay) }

// wait (bounded) until the status equals want; returns the status seen last
func (g *c14Rig) settle(want int32, d time.Duration) int32 {
	deadline := time.Now().Add(d)
	for {
		s := g.status()
		if s == want || time.Now().After(deadline) {
			return s
		}
		time.Sleep(200 * time.Microsecond)
	}
}

func (g *c14Rig) leaveHandshake(d time.Duration) int32 {
	deadline := time.Now().Add(d)
	for {
		s := g.status()
		if s != 1 || time.Now().After(deadline) {
			return s
		}
		time.Sleep(200 * time.Microsecond)
	}
}

var c14idCounter atomic.Int64

func c14trigger(mode byte) (sent []byte, retagged string) {
	n := c14idCounter.Add(1)
	id := fmt.Sprintf("%011d00", 31415926535+n)
	sent = []byte(fmt.Sprintf("\x1b7\x07::TRZSZ:TRANSFER:%c:1.1.8:%s:0\r\n", mode, id))
	return sent, id[:11] + "20"
}

var c14wait = 3 * time.Second // raised for the serial second look at cases that looked like time-outs

// handshake through a rig in standby: trigger, ACT, CFG.  Returns the classification in the
// same canonical form as the export path.
func (c *ctx) c14pipeHandshake(in *c14hsIn, rng *rand.Rand) (string, *c14WA, *c14WC, string, [][]byte) {
	g := c14newRig()
	defer g.close()
	trig, retag := c14trigger('R')
	g.srvW.Write(trig)
	got := c14recv(g.atCli, c14wait)
	if got == nil || !bytes.Contains(got, []byte("#R")) || !bytes.Contains(got, []byte(retag)) {
		return "?trigger-not-rewritten:" + hx(got), nil, nil, "?trigger", nil
	}
	fc, fs := in.lines(rng)
	var ts, tc [][]byte
	for _, b := range fc {
		g.cliW.Write(b)
	}
	first := c14recv(g.atSrv, c14wait)
	if first != nil {
		ts = append(ts, first)
	}
	if t, _, _ := c14decodeLine(first); t == "ACT" && in.act != nil && c14val(in.act.confirm, false) {
		for _, b := range fs {
			g.srvW.Write(b)
		}
		if b := c14recv(g.atCli, c14wait); b != nil {
			tc = append(tc, b)
		}
	}
	st := g.leaveHandshake(c14wait)
	// the relay's remaining lines were queued before the status changed; which ones to
	// expect follows from what has been seen so far
	if t, _, _ := c14decodeLine(first); t == "FAIL" {
		if b := c14recv(g.atCli, c14wait); b != nil {
			tc = append(tc, b)
		}
	} else if t == "ACT" && len(tc) == 1 && st == 0 {
		if b := c14recv(g.atSrv, c14wait); b != nil {
			ts = append(ts, b)
		}
	}
	for {
		b := c14recv(g.atSrv, 2*time.Millisecond)
		if b == nil {
			break
		}
		ts = append(ts, b)
	}
	for {
		b := c14recv(g.atCli, 2*time.Millisecond)
		if b == nil {
			break
		}
		tc = append(tc, b)
	}
	kind, fa, fc2, cn := c14classify(ts, tc, st)
	return kind, fa, fc2, cn, tc
}

func (c *ctx) c14pipeHandshakes() {
	n := c.pick(400, 4000)
	ins := make([]*c14hsIn, n)
	rngs := make([]*rand.Rand, n)
	for i := range ins {
		in := c.c14randHsIn(c.rng)
		in.mode, in.width, in.win = 0, -1, false
		if in.act != nil && c14val(in.act.tunnel, false) && c14val(in.act.confirm, false) {
			// a client that claims a tunnel the relay has no connection for: the relay waits for a
			// CFG on the tunnel; only the refused variant terminates on the main channel
			in.act.confirm = c14b(false)
		}
		if in.act != nil && in.act.newline != nil && *in.act.newline == "!\n" && in.badCfg != nil {
			in.badCfg = bytes.ReplaceAll(bytes.ReplaceAll(in.badCfg, []byte("!\n"), []byte("\n")), []byte("\n"), []byte("!\n"))
		}
		ins[i] = in
		rngs[i] = rand.New(rand.NewSource(c.rng.Int63()))
	}
	// the clients a trzsz client can be without a tunnel (on Windows / not), confirmed, refused, and with a
	// server line that is no CFG, through the relay as NewTrzszRelay builds it
	k := 0
	for _, cliWindows := range []bool{true, false} {
		for outc := 0; outc < 3 && k < n; outc++ {
			tr := true
			in := &c14hsIn{mode: 0, width: -1, act: &c14WA{lang: c14s("go"), version: c14s("1.1.8"), confirm: c14b(outc != 1),
				newline: c14s(c14nl(cliWindows)), protocol: c14i(4), binary: c14b(!cliWindows), dir: &tr, tunnel: c14b(false), fork: c14b(false)}}
			if outc == 2 {
				in.badCfg = c14line("SUCC", []byte(`1`), c14nl(cliWindows))
			} else {
				in.cfg = &c14WC{bufsize: c14i(2 << 20), timeout: c14i(33), protocol: c14i(4), overwrite: &tr, compress: c14i(2)}
			}
			ins[k] = in
			k++
		}
	}
	type res struct {
		kind, canon string
		act         *c14WA
		cfg         *c14WC
		tc          [][]byte
	}
	out := make([]res, n)
	parallelDo(n, 16, func(i int) {
		k, a, g, cn, tc := c.c14pipeHandshake(ins[i], rngs[i])
		out[i] = res{k, cn, a, g, tc}
	})
	// a case in which nothing at all reached the client although a confirmed handshake with a CFG was fed
	// may just have been starved (16 relays at once on a loaded machine): look again, alone, with
	// four times the patience, and judge that run
	retried := 0
	for i, in := range ins {
		if len(out[i].tc) == 0 && in.act != nil && c14val(in.act.confirm, false) && in.cfg != nil && retried < 40 {
			retried++
			c14wait = 12 * time.Second
			k, a, g, cn, tc := c.c14pipeHandshake(in, rand.New(rand.NewSource(int64(i))))
			c14wait = 3 * time.Second
			out[i] = res{k, cn, a, g, tc}
		}
	}
	c.stats["pipe-hs:looked-again-alone"] += retried
	for i, in := range ins {
		c.c14checkHs(in, out[i].kind, out[i].act, out[i].cfg, "pipe-handshake")
		if in.act != nil {
			cliWin := in.act.newline != nil && *in.act.newline == "!\n"
			c.c14oracleFraming(&c14fhIn{mode: 0, width: -1, act: in.act, cfg: in.cfg, cfgBad: in.badCfg != nil,
				cfgWin: cliWin && !c14val(in.act.tunnel, false), desc: "NewTrzszRelay over pipes"}, out[i].kind, nil, out[i].tc, "pipe-handshake")
		}
		c.count("pipe-hs:" + strings.SplitN(out[i].kind, ":", 2)[0])
		c.emit(true, "handshake", out[i].canon, in.args()...)
	}
}

// ---------------------------------------------------------------------------------
// (C) sequences of transfers through ONE relay instance

type c14ev struct {
	kind   byte   // 'I' client chunk, 'O' server chunk, 'T' server chunk that is a fresh trigger, 'E' handshake end,
	              // 'A' the handshake has decoded the ACT (no harness action), 'U' / 'V' chunk on the client's / server's tunnel connection
	data   []byte // I, O, T, U, V
	retag  string // T
	conf   bool   // E: confirm the model is told
	tun    bool   // A: the ACT's tunnel field; T: the trigger announces a real tunnel port (set up by the harness)
	noconn bool   // T with tun: the server listens and the relay offers its own port, but the client does not connect (in-band fallback)
}

func (e c14ev) arg() string {
	switch e.kind {
	case 'I':
		return "I" + hx(e.data)
	case 'O':
		return "O0" + hx(e.data)
	case 'T':
		return "O1" + hx(e.data)
	case 'U':
		return "U" + hx(e.data)
	case 'V':
		return "V" + hx(e.data)
	case 'A':
		if e.tun {
			return "A1"
		}
		return "A0"
	}
	if e.conf {
		return "E1"
	}
	return "E0"
}

func c14hasMarker(b []byte) bool {
	return bytes.Contains(b, []byte("#EXIT:")) || bytes.Contains(b, []byte("#FAIL:")) || bytes.Contains(b, []byte("#fail:"))
}

// the harness's own expectation of the next status; used ONLY to know how long to wait
// (a wrong hint costs time, it never changes what is recorded)
func c14hint(st int32, e c14ev) int32 {
	switch e.kind {
	case 'I':
		if st == 2 && (c14hasMarker(e.data) || (len(e.data) == 1 && e.data[0] == 3)) {
			return 0
		}
	case 'O', 'U', 'V':
		if st == 2 && c14hasMarker(e.data) {
			return 0
		}
	case 'T':
		if st == 0 {
			return 1
		}
		if st == 2 && c14hasMarker(e.data) {
			return 0
		}
	}
	return st
}

type c14transfer struct {
	evs     []c14ev
	endKind string // how this transfer ended at STREAM level ("" = it did not end)
	split   bool   // the end marker straddles two chunks
	tunnel  string // "" plain; "claim": the ACT claimed a tunnel on the main channel; "real": a loopback tunnel was used
}

func c14b64ish(rng *rand.Rand, n int) []byte {
	const al = "ABCDEFGHIJKLMNOPQRSTUVWXYZabcdefghijklmnopqrstuvwxyz0123456789+/"
	b := make([]byte, n)
	for i := range b {
		b[i] = al[rng.Intn(len(al))]
	}
	return b
}

// cut b so that the first occurrence of marker straddles a chunk boundary
func c14splitInside(rng *rand.Rand, b []byte, marker string) [][]byte {
	i := bytes.Index(b, []byte(marker))
	cut := i + 1 + rng.Intn(len(marker)-1)
	return [][]byte{append([]byte(nil), b[:cut]...), append([]byte(nil), b[cut:]...)}
}

// one transfer: trigger, handshake, body, end
func c14genTransfer(rng *rand.Rand, kind string, split bool) c14transfer {
	var t c14transfer
	trig, retag := c14trigger("RSD"[rng.Intn(3)])
	if rng.Intn(3) == 0 {
		trig = append([]byte("user@host:~$ trz\r\n"), trig...)
	}
	t.evs = append(t.evs, c14ev{kind: 'T', data: trig, retag: retag})
	tr := true
	act := &c14WA{lang: c14s("go"), version: c14s("1.1.8"), confirm: &tr, newline: c14s("\n"), protocol: c14i(4), binary: &tr, dir: &tr}
	cfg := &c14WC{bufsize: c14i(10 << 20), timeout: c14i(20), protocol: c14i(4)}
	switch kind {
	case "refused", "refused-tunnel-claim":
		act.confirm = c14b(false)
		if kind == "refused-tunnel-claim" { // a client that reports a tunnel and declines: the flag is set, then must be cleared
			act.tunnel = c14b(true)
			t.tunnel = "claim"
		}
		t.evs = append(t.evs, c14ev{kind: 'I', data: c14line("ACT", act.json(nil, false, nil), "\n")},
			c14ev{kind: 'A', tun: kind == "refused-tunnel-claim"}, c14ev{kind: 'E', conf: false})
		// the server then prints its "Cancelled" message
		t.evs = append(t.evs, c14ev{kind: 'O', data: []byte("\x1b8\x1b[0JCancelled\r\n")})
		t.endKind = kind
		return t
	case "badact":
		t.evs = append(t.evs, c14ev{kind: 'I', data: []byte("#ACT:@@@\n")}, c14ev{kind: 'E', conf: false})
		t.endKind = kind
		return t
	case "ctrlc-handshake":
		t.evs = append(t.evs, c14ev{kind: 'I', data: []byte{3}}, c14ev{kind: 'E', conf: false})
		t.endKind = kind
		return t
	case "badcfg":
		t.evs = append(t.evs, c14ev{kind: 'I', data: c14line("ACT", act.json(nil, false, nil), "\n")}, c14ev{kind: 'A'},
			c14ev{kind: 'O', data: c14line("CFG", []byte(`{"bufsize":"big"}`), "\n")}, c14ev{kind: 'E', conf: false})
		t.endKind = kind
		return t
	}
	t.evs = append(t.evs, c14ev{kind: 'I', data: c14line("ACT", act.json(nil, false, nil), "\n")}, c14ev{kind: 'A'},
		c14ev{kind: 'O', data: c14line("CFG", cfg.json(nil, false, nil), "\n")}, c14ev{kind: 'E', conf: true})
	// body: protocol lines in both directions, none with an end marker
	for i, n := 0, rng.Intn(6); i < n; i++ {
		typ := []string{"NUM", "NAME", "SIZE", "DATA", "SUCC", "MD5"}[rng.Intn(6)]
		line := append([]byte("#"+typ+":"), c14b64ish(rng, 1+rng.Intn(60))...)
		line = append(line, '\n')
		if rng.Intn(2) == 0 {
			t.evs = append(t.evs, c14ev{kind: 'I', data: line})
		} else {
			t.evs = append(t.evs, c14ev{kind: 'O', data: line})
		}
	}
	end := func(dir byte, marker string) {
		line := append([]byte(marker), c14b64ish(rng, 8+rng.Intn(40))...)
		line = append(line, '\n')
		if rng.Intn(2) == 0 { // the marker does not start the chunk
			line = append(append([]byte("#SUCC:"), c14b64ish(rng, 5)...), append([]byte{'\n'}, line...)...)
		}
		if split {
			for _, p := range c14splitInside(rng, line, marker) {
				t.evs = append(t.evs, c14ev{kind: dir, data: p})
			}
			t.split = true
		} else {
			t.evs = append(t.evs, c14ev{kind: dir, data: line})
		}
	}
	switch kind {
	case "success":
		end('I', "#EXIT:")
		if !split { // the server's closing message, in standby again
			t.evs = append(t.evs, c14ev{kind: 'O', data: []byte("\x1b8\x1b[0JSaved 1 file to /tmp\r\n- a.txt\r\n")})
		}
	case "server-exit":
		end('O', "#EXIT:")
	case "client-fail":
		end('I', "#fail:")
	case "client-FAIL":
		end('I', "#FAIL:")
	case "server-fail":
		end('O', "#fail:")
	case "server-FAIL":
		end('O', "#FAIL:")
	case "ctrlc":
		t.evs = append(t.evs, c14ev{kind: 'I', data: []byte{3}})
	case "ctrlc-twice": // two Ctrl-C in one read are not an end for the relay; the client's #fail: that follows is
		t.evs = append(t.evs, c14ev{kind: 'I', data: []byte{3, 3}})
		end('I', "#fail:")
	}
	t.endKind = kind
	return t
}

var c14endKinds = []string{"success", "server-exit", "client-fail", "client-FAIL", "server-fail", "server-FAIL", "ctrlc", "ctrlc-twice",
	"refused", "badact", "badcfg", "ctrlc-handshake", "refused-tunnel-claim"}

// ---- a real loopback tunnel through the relay ----

type c14tunnel struct {
	cli, srv     net.Conn
	atCli, atSrv chan []byte // complete lines read from the two tunnel connections
	listener     net.Listener
}

func c14linePump(conn net.Conn, ch chan []byte) {
	var acc []byte
	buf := make([]byte, 64*1024)
	for {
		n, err := conn.Read(buf)
		acc = append(acc, buf[:n]...)
		for {
			i := bytes.IndexByte(acc, '\n')
			if i < 0 {
				break
			}
			ch <- append([]byte(nil), acc[:i+1]...)
			acc = acc[i+1:]
		}
		if err != nil {
			close(ch)
			return
		}
	}
}

func (t *c14tunnel) close() {
	if t == nil {
		return
	}
	if t.listener != nil {
		t.listener.Close()
	}
	for _, c := range []net.Conn{t.cli, t.srv} {
		if c != nil {
			c.Close()
		}
	}
}

var c14portRe = regexp.MustCompile(`::TRZSZ:TRANSFER:[SRD]:\d+\.\d+\.\d+:(\d+):(\d+)#R`)

// the server side of a tunnel: listen, and answer the relay's hello
func c14tunnelListen() (*c14tunnel, int) {
	l, err := net.Listen("tcp", "127.0.0.1:0")
	if err != nil {
		return nil, 0
	}
	return &c14tunnel{listener: l}, l.Addr().(*net.TCPAddr).Port
}

// after the client has seen the relayed trigger: connect to the relay's port, hello both ways
func (t *c14tunnel) connect(seen []byte, svrPort int) bool {
	m := c14portRe.FindSubmatch(seen)
	if m == nil {
		return false
	}
	uid := string(m[1])
	relayPort, _ := strconv.Atoi(string(m[2]))
	if relayPort == 0 || relayPort == svrPort {
		return false
	}
	accepted := make(chan net.Conn, 1)
	go func() {
		conn, err := t.listener.Accept()
		if err != nil {
			accepted <- nil
			return
		}
		hello, reply := trzsz.VerifGetHelloConstant(uid, svrPort)
		buf := make([]byte, 100)
		conn.SetReadDeadline(time.Now().Add(c14wait))
		n, _ := conn.Read(buf)
		conn.SetReadDeadline(time.Time{})
		if string(buf[:n]) != hello {
			conn.Close()
			accepted <- nil
			return
		}
		conn.Write([]byte(reply))
		accepted <- conn
	}()
	cli, err := net.DialTimeout("tcp", fmt.Sprintf("127.0.0.1:%d", relayPort), time.Second)
	if err != nil {
		return false
	}
	t.cli = cli
	hello, reply := trzsz.VerifGetHelloConstant(uid, relayPort)
	cli.Write([]byte(hello))
	buf := make([]byte, 100)
	cli.SetReadDeadline(time.Now().Add(c14wait))
	n, _ := cli.Read(buf)
	cli.SetReadDeadline(time.Time{})
	if string(buf[:n]) != reply {
		return false
	}
	select {
	case t.srv = <-accepted:
	case <-time.After(c14wait):
	}
	if t.srv == nil {
		return false
	}
	t.atCli, t.atSrv = make(chan []byte, 1024), make(chan []byte, 1024)
	go c14linePump(t.cli, t.atCli)
	go c14linePump(t.srv, t.atSrv)
	return true
}

type c14seqResult struct {
	traj []string
	acts []c14seenAct // every ACT line that reached the server (either channel), with the index of the event it answered
	note string       // "" or why the sequence could not be run (no loopback)
}

type c14seenAct struct {
	at  int
	act *c14WA
	raw bool // the client's own line arrived unchanged
}

// runs the events on one real relay; records status, tunnelConnected flag and forwarding
// per event ("<status><flag><fwd>").  While the relay is handshaking and parks, its state
// changes asynchronously (the handshake goroutine), so "__p" is recorded there; the state is
// read again at the 'E' event, after the relay has left the handshake.
func c14runSeq(evs []c14ev) c14seqResult {
	g := c14newRig()
	defer g.close()
	var res c14seqResult
	var tun *c14tunnel
	defer func() { tun.close() }()
	for _, e := range evs {
		if e.kind == 'T' && e.tun {
			g.relay.SetTunnelConnector(func(port int) net.Conn {
				conn, err := net.DialTimeout("tcp", fmt.Sprintf("127.0.0.1:%d", port), time.Second)
				if err != nil {
					return nil
				}
				return conn
			})
			break
		}
	}
	st := g.status()
	fl := trzsz.VerifRelayTunnelConnected(g.relay)
	pendingTun := false
	idx := 0
	// next chunk at one side that is either the chunk itself (forwarded raw), the rewritten
	// trigger, or - while handshaking - the relay's own line; lines the relay produced
	// itself earlier (FAIL, CFG, ACT) are skipped
	next := func(ch chan []byte, e c14ev, parked bool, atServer bool) (string, []byte) {
		deadline := time.Now().Add(c14wait)
		for {
			b := c14recv(ch, time.Until(deadline))
			if atServer && b != nil {
				if t, p, ok := c14decodeLine(b); ok && t == "ACT" {
					if w, _ := c14parseWA(p); w != nil {
						res.acts = append(res.acts, c14seenAct{idx, w, bytes.Equal(b, e.data)})
					}
				}
			}
			switch {
			case b == nil:
				return "p", nil
			case bytes.Equal(b, e.data):
				return "w", b
			case e.kind == 'T' && bytes.Contains(b, []byte("#R")) && bytes.Contains(b, []byte(e.retag)):
				return "r", b
			case parked:
				return "p", b // the relay answered the parked line with a line of its own
			}
		}
	}
	settle := func(wantSt int32, wantFl bool, d time.Duration) {
		deadline := time.Now().Add(d)
		for {
			st, fl = g.status(), trzsz.VerifRelayTunnelConnected(g.relay)
			if (st == wantSt && fl == wantFl) || time.Now().After(deadline) {
				return
			}
			time.Sleep(200 * time.Microsecond)
		}
	}
	for i, e := range evs {
		idx = i
		f := "?"
		switch e.kind {
		case 'I':
			g.cliW.Write(e.data)
			f, _ = next(g.atSrv, e, st == 1, true)
		case 'O':
			g.srvW.Write(e.data)
			f, _ = next(g.atCli, e, st == 1, false)
		case 'T':
			svrPort := 0
			data := e.data
			if e.tun {
				tun.close()
				tun, svrPort = c14tunnelListen()
				if tun == nil {
					res.note = "no-loopback"
					return res
				}
				data = bytes.Replace(data, []byte(":0\r\n"), []byte(fmt.Sprintf(":%d\r\n", svrPort)), 1)
				evs[i].data = data
				e.data = data
			}
			g.srvW.Write(data)
			var seen []byte
			f, seen = next(g.atCli, e, st == 1, false)
			if e.tun && e.noconn {
				if f == "r" && c14portRe.FindSubmatch(seen) == nil {
					res.note = "relay-did-not-offer-a-port"
					return res
				}
			} else if e.tun && f == "r" && !tun.connect(seen, svrPort) {
				res.note = "tunnel-not-established"
				return res
			}
		case 'U':
			if tun == nil || tun.cli == nil {
				res.note = "no-tunnel-for-U"
				return res
			}
			tun.cli.Write(e.data)
			f, _ = next(tun.atSrv, e, st == 1, true)
		case 'V':
			if tun == nil || tun.srv == nil {
				res.note = "no-tunnel-for-V"
				return res
			}
			tun.srv.Write(e.data)
			f, _ = next(tun.atCli, e, st == 1, false)
		case 'A':
			pendingTun = e.tun
			res.traj = append(res.traj, "__n")
			continue
		case 'E':
			f = "n"
			if st == 1 {
				g.leaveHandshake(c14wait)
			}
			st = g.status()
			settle(st, st == 2 && pendingTun, 300*time.Millisecond)
			pendingTun = false
		}
		switch {
		case e.kind == 'E':
		case st == 1 && f == "p":
			res.traj = append(res.traj, "__p")
			continue
		default:
			want := c14hint(st, e)
			settle(want, fl && want != 0, 300*time.Millisecond)
		}
		res.traj = append(res.traj, fmt.Sprintf("%d%d%s", st, map[bool]int{false: 0, true: 1}[fl], f))
	}
	return res
}

func c14evArgs(evs []c14ev) string {
	parts := make([]string, len(evs))
	for i, e := range evs {
		parts[i] = e.arg()
	}
	return strings.Join(parts, ";")
}

// the exact chunks of the confirmed defect: the client's "#EXIT:" line delivered as "...#EX" + "IT:..."
func c14knownSplit() []c14ev {
	tr := true
	act := &c14WA{lang: c14s("go"), version: c14s("1.1.8"), confirm: &tr, newline: c14s("\n"), protocol: c14i(4), binary: &tr, dir: &tr}
	cfg := &c14WC{bufsize: c14i(10 << 20), timeout: c14i(20), protocol: c14i(4)}
	exit := c14line("EXIT", []byte("Saved 1 file to /tmp\r\n- a.txt"), "\n")
	return []c14ev{
		{kind: 'T', data: []byte("\x1b7\x07::TRZSZ:TRANSFER:R:1.1.8:0123456789000:0\r\n"), retag: "0123456789020"},
		{kind: 'I', data: c14line("ACT", act.json(nil, false, nil), "\n")},
		{kind: 'O', data: c14line("CFG", cfg.json(nil, false, nil), "\n")},
		{kind: 'E', conf: true},
		{kind: 'I', data: exit[:3]},
		{kind: 'I', data: exit[3:]},
		{kind: 'T', data: []byte("\x1b7\x07::TRZSZ:TRANSFER:R:1.1.8:0123456789100:0\r\n"), retag: "0123456789120"},
	}
}

func (c *ctx) c14sequences() {
	type job struct {
		evs  []c14ev
		trs  []c14transfer
		desc string
	}
	var jobs []job
	// the confirmed defect, every run
	jobs = append(jobs, job{evs: c14knownSplit(), desc: "known-split"})
	// every end kind alone (unsplit), then every marker kind split, followed by a probe
	mk := func(kinds []string, splitAt int) job {
		var j job
		for i, k := range kinds {
			t := c14genTransfer(c.rng, k, i == splitAt)
			j.trs = append(j.trs, t)
			j.evs = append(j.evs, t.evs...)
		}
		probe, retag := c14trigger('S')
		j.evs = append(j.evs, c14ev{kind: 'T', data: probe, retag: retag})
		j.trs = append(j.trs, c14transfer{evs: j.evs[len(j.evs)-1:]})
		j.desc = strings.Join(kinds, "+")
		return j
	}
	for _, k := range c14endKinds {
		jobs = append(jobs, mk([]string{k}, -1))
	}
	for _, k := range []string{"success", "server-exit", "client-fail", "client-FAIL", "server-fail", "server-FAIL"} {
		jobs = append(jobs, mk([]string{k}, 0))
	}
	for i, n := 0, c.pick(150, 2500); i < n; i++ {
		m := 1 + c.rng.Intn(5)
		kinds := make([]string, m)
		for j := range kinds {
			kinds[j] = c14endKinds[c.rng.Intn(len(c14endKinds))]
		}
		splitAt := -1
		if c.rng.Intn(6) == 0 {
			splitAt = c.rng.Intn(m)
		}
		jobs = append(jobs, mk(kinds, splitAt))
	}
	// tunnel transfers (a REAL loopback tunnel through the relay: trigger with the server's port,
	// the client connects to the port the relay announces, ACT / CFG / end over the tunnel), each
	// followed by plain transfers through the same relay instance
	tunnelTransfer := func(kind string) c14transfer {
		var t c14transfer
		t.tunnel = "real"
		trig, retag := c14trigger("RSD"[c.rng.Intn(3)])
		t.evs = append(t.evs, c14ev{kind: 'T', data: trig, retag: retag, tun: true})
		tr := true
		act := &c14WA{lang: c14s("go"), version: c14s("1.1.8"), confirm: &tr, newline: c14s("\n"), protocol: c14i(4), binary: &tr, dir: &tr,
			tunnel: &tr, fork: &tr}
		cfg := &c14WC{bufsize: c14i(10 << 20), timeout: c14i(20), protocol: c14i(4), binary: &tr}
		// (the ACT carries keys the relay does not know, so that its re-marshalled line differs from the
		// client's own even when nothing is narrowed)
		if kind == "tunnel-refused" {
			act.confirm = c14b(false)
			t.evs = append(t.evs, c14ev{kind: 'U', data: c14line("ACT", act.json(nil, true, nil), "\n")}, c14ev{kind: 'A', tun: true}, c14ev{kind: 'E'})
			t.endKind = kind
			return t
		}
		t.evs = append(t.evs, c14ev{kind: 'U', data: c14line("ACT", act.json(nil, true, nil), "\n")}, c14ev{kind: 'A', tun: true},
			c14ev{kind: 'V', data: c14line("CFG", cfg.json(nil, false, nil), "\n")}, c14ev{kind: 'E', conf: true})
		for i, n := 0, c.rng.Intn(4); i < n; i++ {
			line := append(append([]byte("#DATA:"), c14b64ish(c.rng, 1+c.rng.Intn(60))...), '\n')
			t.evs = append(t.evs, c14ev{kind: "UV"[c.rng.Intn(2)], data: line})
		}
		switch kind {
		case "tunnel-success":
			t.evs = append(t.evs, c14ev{kind: 'U', data: c14line("EXIT", []byte("Saved 1 file to /tmp"), "\n")})
		case "tunnel-server-fail":
			t.evs = append(t.evs, c14ev{kind: 'V', data: c14line("fail", []byte("disk full"), "\n")})
		case "tunnel-client-FAIL":
			t.evs = append(t.evs, c14ev{kind: 'U', data: c14line("FAIL", []byte("stopped"), "\n")})
		case "tunnel-ctrlc": // typed on the terminal: arrives on the main channel
			t.evs = append(t.evs, c14ev{kind: 'I', data: []byte{3}})
		}
		t.endKind = kind
		return t
	}
	tunnelKinds := []string{"tunnel-success", "tunnel-server-fail", "tunnel-client-FAIL", "tunnel-ctrlc", "tunnel-refused"}
	plainKinds := []string{"success", "server-exit", "client-fail", "ctrlc", "refused", "badcfg"}
	mkTunnel := func(shape []string) job {
		var j job
		for _, k := range shape {
			var t c14transfer
			if strings.HasPrefix(k, "tunnel-") {
				t = tunnelTransfer(k)
			} else {
				t = c14genTransfer(c.rng, k, false)
				if len(j.trs) > 0 && c.rng.Intn(2) == 0 {
					// a tunnel is offered again, but the client cannot connect this time: it falls back in-band
					t.evs[0].data = t.evs[0].data[bytes.Index(t.evs[0].data, []byte("\x1b7\x07")):]
					t.evs[0].tun, t.evs[0].noconn = true, true
					c.count("seq:inband-fallback-after-offer")
				}
			}
			j.trs = append(j.trs, t)
			j.evs = append(j.evs, t.evs...)
		}
		probe, retag := c14trigger('S')
		j.evs = append(j.evs, c14ev{kind: 'T', data: probe, retag: retag})
		j.trs = append(j.trs, c14transfer{evs: j.evs[len(j.evs)-1:]})
		j.desc = strings.Join(shape, "+")
		return j
	}
	for _, tk := range tunnelKinds {
		jobs = append(jobs, mkTunnel([]string{tk, "success"}))
	}
	for i, n := 0, c.pick(30, 400); i < n; i++ {
		var shape []string
		for k, m := 0, 2+c.rng.Intn(3); k < m; k++ {
			if k == 0 && c.rng.Intn(3) > 0 || c.rng.Intn(3) == 0 {
				shape = append(shape, tunnelKinds[c.rng.Intn(len(tunnelKinds))])
			} else {
				shape = append(shape, plainKinds[c.rng.Intn(len(plainKinds))])
			}
		}
		jobs = append(jobs, mkTunnel(shape))
	}
	results := make([]c14seqResult, len(jobs))
	parallelDo(len(jobs), 16, func(i int) { results[i] = c14runSeq(jobs[i].evs) })
	for ji, j := range jobs {
		if results[ji].note != "" {
			c.count("seq:skipped:" + results[ji].note)
			continue
		}
		traj := results[ji].traj
		c.emit(true, "run", strings.Join(traj, ","), c14evArgs(j.evs))
		c.count("seq:transfers=" + strconv.Itoa(len(j.trs)))
		if j.desc == "known-split" {
			last := traj[len(traj)-1]
			if last != "10r" {
				c.violate("relay-split-exit-marker", "the client's #EXIT: line was read by the relay in two pieces (\"#EX\" + \"IT:...\"): the relay stays in "+
					"transferring, and the next trigger from the server reaches the client raw (no #R suffix, no 00->20 re-tag) — the relay has stopped narrowing",
					"events="+c14evArgs(j.evs)+" trajectory="+strings.Join(traj, ","))
			} else {
				c.count("seq:known-split-not-reproduced")
			}
			continue
		}
		detail := "sequence=" + j.desc + " events=" + c14evArgs(j.evs) + " trajectory=" + strings.Join(traj, ",")
		// which transfers before event i used / claimed a tunnel
		startOf := make([]int, len(j.trs)+1)
		for ti, t := range j.trs {
			startOf[ti+1] = startOf[ti] + len(t.evs)
		}
		after := func(ti int) string { // suffix of the keys for what happens in / after transfer ti
			sfx := ""
			for k := 0; k < ti; k++ {
				if j.trs[k].tunnel == "real" {
					return ":after-tunnel-transfer"
				}
				if j.trs[k].tunnel == "claim" {
					sfx = ":after-tunnel-claim"
				}
			}
			return sfx
		}
		transferOf := func(ev int) int {
			for ti := range j.trs {
				if ev < startOf[ti+1] {
					return ti
				}
			}
			return len(j.trs) - 1
		}
		// DIRECT ORACLE: no ACT offering binary without the tunnel reaches the server, whatever went before
		stuckFrom := len(j.trs) // transfers after one whose end marker was split start from a stuck relay (the known finding)
		for ti, t := range j.trs {
			if t.split {
				stuckFrom = ti
				break
			}
		}
		for _, a := range results[ji].acts {
			ti := transferOf(a.at)
			if ti > stuckFrom {
				continue
			}
			if c14val(a.act.binary, true) && !c14val(a.act.tunnel, false) {
				c.violate("relay-binary-without-tunnel"+after(ti), "in a sequence of transfers through one relay an ACT offering binary mode without a tunnel reached the server"+
					map[bool]string{true: " (the client's own line, not parked by the relay)", false: ""}[a.raw], "act="+a.act.canon()+" "+detail)
			}
			if a.raw {
				c.violate("relay-act-not-parked"+after(ti), "the client's ACT reached the server as it was sent: the relay did not park and rewrite it", "act="+a.act.canon()+" "+detail)
			}
		}
		// DIRECT ORACLE: every transfer that ended (at stream level) leaves the relay in standby with the
		// tunnel flag cleared, and the next trigger is recognised
		for ti, t := range j.trs {
			if ti == 0 {
				continue
			}
			prev := j.trs[ti-1]
			c.count("seq:end=" + prev.endKind + map[bool]string{true: "/split", false: ""}[prev.split])
			lastOfPrev, first := traj[startOf[ti]-1], traj[startOf[ti]]
			_ = t
			if prev.endKind == "" {
				continue
			}
			if prev.split {
				if first != "10r" {
					c.violate("relay-split-exit-marker", "an end-of-transfer marker read by the relay in two pieces leaves it in transferring; the next trigger passes raw",
						"end="+prev.endKind+" "+detail)
					break
				}
				continue
			}
			if !strings.HasPrefix(lastOfPrev, "0") || !strings.HasPrefix(first, "1") || !strings.HasSuffix(first, "r") {
				c.violate("relay-not-recovered:"+prev.endKind+after(ti), "after a transfer that ended ("+prev.endKind+") the relay was not in standby or did not recognise the next trigger",
					detail)
				break // later transfers of this sequence start from a stuck relay
			}
			if lastOfPrev[1] != '0' || first[1] != '0' {
				c.violate("relay-tunnel-flag-stale:"+prev.endKind+after(ti), "after a transfer that ended ("+prev.endKind+") the relay is in standby but still believes the tunnel is connected",
					detail)
				break
			}
		}
	}
}

// ---------------------------------------------------------------------------------
// (D) chains of relays and the real server prefix

func (c *ctx) c14chains() {
	n := c.pick(300, 4000)
	for i := 0; i < n; i++ {
		k := 1 + c.rng.Intn(4)
		in := c.c14randHsIn(c.rng)
		if in.act == nil {
			in.act = c14randWA(c.rng)
		}
		in.act.confirm = c14b(true)
		in.badCfg = nil
		if in.cfg == nil {
			in.cfg = c14randWC(c.rng, false)
		}
		if in.cfg.escape != nil && *in.cfg.escape == "o" {
			in.cfg.escape = nil
		}
		type env struct {
			mode  int
			width int32
		}
		envs := make([]env, k)
		var envArgs []string
		for j := range envs {
			envs[j] = env{c.rng.Intn(3), []int32{-1, 0, 80, 120}[c.rng.Intn(4)]}
			envArgs = append(envArgs, fmt.Sprintf("%d:%d", envs[j].mode, envs[j].width))
		}
		// ACT hop by hop, client side first
		act := in.act
		first := true
		okChain := true
		for j := 0; j < k && okChain; j++ {
			h := &c14hsIn{mode: envs[j].mode, width: envs[j].width, win: in.win, act: act}
			if first {
				h.anulls, h.extra = in.anulls, in.extra
			}
			h.act = act
			conf := *act
			conf.confirm = c14b(false) // the ACT rewrite does not depend on confirm; refused handshakes need no CFG
			h.act = &conf
			fc, _ := h.lines(nil)
			ts, tc, st := trzsz.VerifRelayHandshake(h.mode, h.width, h.win, fc, nil)
			_, a, _, _ := c14classify(ts, tc, st)
			if a == nil {
				okChain = false
				break
			}
			a.confirm = in.act.confirm
			if in.act.confirm == nil {
				a.confirm = c14b(true)
			}
			act = a
			first = false
		}
		if !okChain {
			c.violate("relay-chain-broken", "a relay in a chain did not forward the ACT", "act="+in.act.canon())
			continue
		}
		orig := *in.act
		c.c14oracleAct(&orig, act, fmt.Sprintf("chain-of-%d", k))
		// CFG back, server side first
		cfg := in.cfg
		failed := false
		tunnelAct := *act
		for j := k - 1; j >= 0; j-- {
			h := &c14hsIn{mode: envs[j].mode, width: envs[j].width, win: in.win, act: &tunnelAct, cfg: cfg}
			fc, fs := h.lines(nil)
			ts, tc, st := trzsz.VerifRelayHandshake(h.mode, h.width, h.win, fc, fs)
			kind, _, g, _ := c14classify(ts, tc, st)
			if kind != "done" || g == nil {
				failed = true
				break
			}
			cfg = g
		}
		res := "err"
		if !failed {
			res = cfg.canon()
		}
		w := "0"
		if in.win {
			w = "1"
		}
		actRes := *act
		actRes.confirm = c14b(true)
		inAct := *in.act
		inAct.confirm = c14b(true)
		c.emit(true, "chain", actRes.canon()+"|"+res, strings.Join(envArgs, ","), w, inAct.canon(), in.cfg.canon())
		c.count("chain:k=" + strconv.Itoa(k))
	}
}

func (c *ctx) c14server() {
	n := c.pick(400, 5000)
	for i := 0; i < n; i++ {
		rb := func() bool { return c.rng.Intn(2) == 0 }
		a := trzsz.VerifServerArgs{Quiet: rb(), Overwrite: rb(), Binary: rb(), Escape: rb(), Directory: rb(), Fork: c.rng.Intn(4) == 0,
			Bufsize: []int64{10 << 20, 1024, 1 << 30}[c.rng.Intn(3)], Timeout: []int{20, 0, 5, -1}[c.rng.Intn(4)], Compress: c.rng.Intn(3)}
		mode := c.rng.Intn(3)
		width := []int32{-1, 0, 80, 132}[c.rng.Intn(4)]
		act := c14randWA(c.rng)
		act.confirm = c14b(true)
		if act.protocol != nil && (*act.protocol > 1<<40 || *act.protocol < -(1<<40)) {
			act.protocol = c14i(*act.protocol >> 30)
		}
		tunnel := c14val(act.tunnel, false)
		if tunnel && a.Fork {
			a.Fork = false // switchToBackground() closes the process's stdin and stderr
		}
		nl := "\n"
		written, own, errText := trzsz.VerifServerConfig(a, mode, width, c14line("ACT", act.json(nil, false, nil), nl), tunnel)
		res := ""
		switch {
		case strings.Contains(errText, "doesn't support fork"):
			res = "nofork"
		case strings.Contains(errText, "doesn't support transfer directory"):
			res = "nodir"
		default:
			t, p, ok := c14decodeLine(written)
			if !ok || t != "CFG" {
				res = "?" + t + ":" + errText
				break
			}
			m, _ := c14raw(p)
			delete(m, "lang")
			p2, _ := json.Marshal(m)
			w, x := c14parseWC(p2)
			o, _ := c14parseWC([]byte(own))
			res = "cfg:" + w.canon() + x + "|" + o.canon()
			if c14val(w.binary, false) && !tunnel && !c14val(act.binary, true) {
				c.violate("server-binary-unsupported", "the server configured binary mode although the ACT it received said binary=false and no tunnel",
					"args="+fmt.Sprint(a)+" act="+act.canon()+" cfg="+w.canon())
			}
		}
		esc := builtinPairs(a.Escape)
		c.emit(true, "server_config", res,
			strings.Join([]string{c14cb(&a.Quiet), c14cb(&a.Overwrite), c14cb(&a.Binary), c14cb(&a.Directory), c14cb(&a.Fork),
				strconv.FormatInt(a.Bufsize, 10), strconv.Itoa(a.Timeout), strconv.Itoa(a.Compress), tableArg(esc),
				strconv.Itoa(mode), strconv.Itoa(int(width))}, ","), act.canon())
		c.count("server:" + strings.SplitN(res, ":", 2)[0])
	}
}

// ---------------------------------------------------------------------------------
// (E) end to end: the REAL client (trzsz.NewTrzszFilter) as a client on Windows
// (trzsz.SetAffectedByWindows: it announces "newline":"!\n", offers no binary mode and reads
// with the Windows line reader) and as a Unix client, through 1-2 real relays, against the real
// trz / tsz child processes.  DIRECT ORACLE: the transfer completes and the destination equals
// the source, as it does without a relay.

type c14e2eCase struct {
	windows, upload bool
	relays          int
	diffs           []string
}

func (c *ctx) c14e2eWindows() {
	work, err := os.MkdirTemp("", "c14_e2e_")
	if err != nil {
		c.count("e2e:skipped:no-tempdir")
		return
	}
	defer os.RemoveAll(work)
	for _, windows := range []bool{true, false} {
		var cases []*c14e2eCase
		for _, relays := range []int{0, 1, 2} {
			for _, upload := range []bool{true, false} {
				if !windows && relays == 0 {
					continue // C01's ground
				}
				cases = append(cases, &c14e2eCase{windows: windows, upload: upload, relays: relays})
			}
		}
		seeds := make([]int64, len(cases))
		for i := range seeds {
			seeds[i] = c.rng.Int63()
		}
		trzsz.SetAffectedByWindows(windows)
		parallelDo(len(cases), 6, func(i int) {
			ec := cases[i]
			rng := rand.New(rand.NewSource(seeds[i]))
			root := filepath.Join(work, fmt.Sprintf("w%v_%d", windows, i))
			src, dest := filepath.Join(root, "src"), filepath.Join(root, "dest")
			os.MkdirAll(src, 0755)
			os.MkdirAll(dest, 0755)
			var tops []string
			for j, n := range []int{0, 1 + rng.Intn(2000), 30000 + rng.Intn(60000)} {
				p := filepath.Join(src, fmt.Sprintf("f%d.bin", j))
				os.WriteFile(p, fillBytes(rng, n, j), 0644)
				tops = append(tops, p)
			}
			r := runTransfer(e2eCfg{upload: ec.upload, relays: ec.relays, overwrite: rng.Intn(2) == 0, proto: -1, timeout: 10,
				deadline: 30 * time.Second}, tops, dest)
			shown := r.serverOut
			if !ec.upload {
				shown = r.termOut + r.serverOut
			}
			names, ok := parseSaved(shown)
			if !(ok && !r.hung && r.clientDone && r.serverExited && (!ec.upload || r.uploadErr == nil)) {
				ec.diffs = append(ec.diffs, fmt.Sprintf("no-success: hung=%v clientDone=%v serverExited=%v uploadErr=%v saved=%v tail=%q",
					r.hung, r.clientDone, r.serverExited, r.uploadErr, ok, tailStr(r.termOut+"|"+r.serverOut, 300)))
				return
			}
			if len(names) != len(tops) {
				ec.diffs = append(ec.diffs, fmt.Sprintf("names-count: shown %v for %d sources", names, len(tops)))
				return
			}
			for j, top := range tops {
				ec.diffs = append(ec.diffs, sameTree(top, filepath.Join(dest, names[j]))...)
			}
		})
		trzsz.SetAffectedByWindows(false)
		for _, ec := range cases {
			ck := map[bool]string{true: "windows-client", false: "unix-client"}[ec.windows]
			dir := map[bool]string{true: "upload", false: "download"}[ec.upload]
			desc := fmt.Sprintf("e2e %s relays=%d %s", ck, ec.relays, dir)
			c.note(true, desc)
			c.count(fmt.Sprintf("e2e:%s:relays=%d", ck, ec.relays))
			if len(ec.diffs) > 0 {
				key := fmt.Sprintf("relay-e2e-failed:%s:relays=%d:%s", ck, ec.relays, dir)
				if ec.relays == 0 {
					key = "e2e-failed-without-relay:" + ck + ":" + dir
				}
				c.violate(key, "a transfer between the real client ("+ck+") and the real "+map[bool]string{true: "trz", false: "tsz"}[ec.upload]+
					" through "+strconv.Itoa(ec.relays)+" relay(s) did not complete with the destination equal to the source", desc+": "+strings.Join(ec.diffs, "; "))
			}
		}
	}
}

// ---------------------------------------------------------------------------------
// (G) the relay's detector in stand-by: ONE read of server output through the REAL wrapOutput of
// trzsz.NewTrzszRelay, for every framing (none / `%output %N ` / `%extended-output %N A : `) x
// relay with / without a tunnel connector x trigger with a port / with ":0" / without a port
// field, with ids, versions and surrounding output that contain the port's digits.
// fn "stand_by_read" vs RelayNeg.rn_stand_by_read (C06's detector model with the arguments the
// relay passes, read from the source as values, plus listenForTunnel's exchange).

type c14trigCase struct {
	framing   int // 0 plain, 1 %output, 2 %extended-output
	connector bool
	portKind  int // 0 no port field, 1 ":0", 2 a port
	port      int
	mode      byte
	ver, id   string
	pre, tail string
	repeat    bool // the same read twice: the second must not be taken (dedup), unless the id is a plain one
	// results
	chunk, got []byte
	status     int32
	relayPort  int
	viol       [][3]string
	fwdOK      bool
}

var c14framings = []string{"plain", "%output", "%extended-output"}

func (tc *c14trigCase) tunnelLabel() string {
	switch {
	case tc.connector && tc.portKind > 0:
		return map[int]string{1: "connector+port0", 2: "connector+port"}[tc.portKind]
	case tc.connector:
		return "connector"
	case tc.portKind > 0:
		return "port"
	}
	return "none"
}

func c14retagID(id string) string {
	if len(id) >= 13 && strings.HasSuffix(id, "00") {
		return id[:len(id)-2] + "20"
	}
	return id
}

func (tc *c14trigCase) build() {
	fp := []string{"", "%output %1 ", "%extended-output %12 0 : "}[tc.framing]
	pf := ""
	switch tc.portKind {
	case 1:
		pf = ":0"
	case 2:
		pf = ":" + strconv.Itoa(tc.port)
	}
	tc.chunk = []byte(fp + tc.pre + "\x1b7\x07::TRZSZ:TRANSFER:" + string(tc.mode) + ":" + tc.ver + ":" + tc.id + pf + "\r\n" + tc.tail)
}

// what must reach the client, stated without the model: the server's bytes with the id re-tagged
// (13+ digits ending in 00 -> ..20), and - if the trigger is taken - "#R" behind the trigger's
// last field and, with connector and port, the relay's port in place of the server's IN THE
// TRIGGER ONLY; everything before and after is the server's
func (tc *c14trigCase) expected(taken bool) *regexp.Regexp {
	fp := []string{"", "%output %1 ", "%extended-output %12 0 : "}[tc.framing]
	q := regexp.QuoteMeta
	pf := ""
	switch tc.portKind {
	case 1:
		pf = ":0"
	case 2:
		pf = ":" + strconv.Itoa(tc.port)
		if taken && tc.connector {
			pf = `:(\d+)`
		} else {
			pf = q(pf)
		}
	}
	mark := ""
	if taken {
		mark = "#R"
	}
	return regexp.MustCompile(`^(?s)` + q(fp+tc.pre+"\x1b7\x07::TRZSZ:TRANSFER:"+string(tc.mode)+":"+tc.ver+":"+c14retagID(tc.id)) + pf + mark + q("\r\n"+tc.tail) + `$`)
}

func (tc *c14trigCase) run() {
	g := c14newRig()
	defer g.close()
	if tc.connector {
		g.relay.SetTunnelConnector(func(port int) net.Conn { return nil })
	}
	tc.build()
	g.srvW.Write(tc.chunk)
	tc.got = c14recv(g.atCli, c14wait)
	tc.status = g.status()
	expectTaken := tc.framing == 0 || (tc.connector && tc.portKind > 0)
	taken := tc.status == 1
	label := c14framings[tc.framing] + ":" + tc.tunnelLabel()
	detail := fmt.Sprintf("server-read=%s forwarded=%s status=%d", hx(tc.chunk), hx(tc.got), tc.status)
	if expectTaken && (!taken || !bytes.Contains(tc.got, []byte("#R"))) {
		tc.viol = append(tc.viol, [3]string{"relay-trigger-not-taken:" + label, "a well-formed, fresh trigger in this framing and tunnel configuration was not taken by the relay " +
			"(it stays in stand-by / does not mark the trigger as relayed / leaves the server's port): the client starts a transfer the relay takes no part in", detail})
	}
	if !expectTaken && taken {
		tc.viol = append(tc.viol, [3]string{"relay-trigger-taken:" + label, "a control-mode trigger was taken although the relay has no tunnel for it", detail})
	}
	if m := tc.expected(taken).FindSubmatch(tc.got); m == nil {
		tc.viol = append(tc.viol, [3]string{"relay-trigger-altered:" + label, "what the relay forwarded differs from the server's read in more than the id re-tag, the #R mark and the " +
			"port of the trigger: bytes before or after the trigger, or other fields of it, were changed", detail})
		if pm := c14portRe.FindSubmatch(tc.got); pm != nil {
			tc.relayPort, _ = strconv.Atoi(string(pm[2]))
		}
	} else {
		tc.fwdOK = true
		if len(m) > 1 {
			tc.relayPort, _ = strconv.Atoi(string(m[1]))
			if tc.relayPort == tc.port || tc.relayPort == 0 {
				tc.viol = append(tc.viol, [3]string{"relay-port-not-rewritten:" + c14framings[tc.framing], "the relay has a tunnel connector and the trigger carries a port, but the " +
					"forwarded trigger still names the server's port", detail})
			}
		}
	}
	if taken { // back to stand-by (closes the relay's tunnel listener)
		g.cliW.Write([]byte{3})
		g.leaveHandshake(c14wait)
	}
}

func (c *ctx) c14relayTriggers() {
	var cases []*c14trigCase
	n := 0
	freshID := func(suffix string) string {
		n++
		return fmt.Sprintf("%011d%s", 27182818284+int64(n)*7, suffix)
	}
	for framing := 0; framing < 3; framing++ {
		for _, conn := range []bool{false, true} {
			for pk := 0; pk < 3; pk++ {
				port := 8022 + c.rng.Intn(3)*1000
				ps := strconv.Itoa(port)
				// the port's digits in the version, in the id, before and after the trigger
				variants := []c14trigCase{
					{ver: "1.1.6", id: freshID("00"), pre: "", tail: ""},
					{ver: ps + ".1.6", id: freshID("00"), pre: "ssh -p " + ps + " host:" + ps + " ", tail: "forwarding :" + ps + " and " + ps + ":" + ps + "\r\n"},
					{ver: "1." + ps + ".0", id: freshID("20"), pre: "port:" + ps + " ", tail: ":" + ps},
					{ver: "1.1." + ps, id: ps + freshID("00")[4:], pre: "", tail: "$ "},
					{ver: "1.1.6", id: freshID("10"), pre: "x:" + ps + ":" + ps + " ", tail: ""},
				}
				for i := range variants {
					tc := variants[i]
					tc.framing, tc.connector, tc.portKind, tc.port, tc.mode = framing, conn, pk, port, "RSD"[c.rng.Intn(3)]
					cases = append(cases, &tc)
				}
			}
		}
	}
	for i, m := 0, c.pick(80, 1500); i < m; i++ {
		port := []int{1, 80, 8022, 65535, 12345, 2}[c.rng.Intn(6)]
		ps := strconv.Itoa(port)
		tc := &c14trigCase{framing: c.rng.Intn(3), connector: c.rng.Intn(2) == 0, portKind: c.rng.Intn(3), port: port, mode: "RSD"[c.rng.Intn(3)],
			ver: fmt.Sprintf("%d.%d.%d", c.rng.Intn(3), c.rng.Intn(30), c.rng.Intn(10)), id: freshID([]string{"00", "00", "20", "10", "37"}[c.rng.Intn(5)])}
		if c.rng.Intn(2) == 0 {
			tc.pre = []string{"user@host:~$ trz\r\n", "a:" + ps + " ", ps + ":" + ps + ":", "::TRZSZ:TRANSFER:X "}[c.rng.Intn(4)]
			if tc.framing != 0 {
				tc.pre = strings.ReplaceAll(tc.pre, "\r\n", " ")
			}
		}
		if c.rng.Intn(2) == 0 {
			tc.tail = []string{"\x1b[?25l", ":" + ps + "\r\n", "Last login :" + ps, "%output %1 x\r\n"}[c.rng.Intn(4)]
		}
		cases = append(cases, tc)
	}
	parallelDo(len(cases), 16, func(i int) { cases[i].run() })
	for _, tc := range cases {
		for _, v := range tc.viol {
			c.violate(v[0], v[1], v[2])
		}
		c.count("trig:" + c14framings[tc.framing] + ":" + tc.tunnelLabel() + map[bool]string{true: ":taken", false: ":passed"}[tc.status == 1])
		conn := "0"
		if tc.connector {
			conn = "1"
		}
		c.emit(true, "stand_by_read", hx(tc.got)+"|"+strconv.Itoa(int(tc.status)), conn, strconv.Itoa(tc.relayPort), hx(tc.chunk))
	}
}

func genRelayNeg(c *ctx) {
	os.Unsetenv("TMUX") // checkTmux: noTmuxMode for NewTrzszRelay
	sc := trzsz.VerifRelayStatusConsts()
	c.emit(false, "status_consts", fmt.Sprintf("%d,%d,%d", sc[0], sc[1], sc[2]))
	// what the client's json.Unmarshal makes of the "escape_chars":{} a relay hands it
	for _, js := range []string{"{}", `[["\u00ee","\u00ee\u00ee"],["~","\u00ee1"]]`} {
		res := "ok"
		if _, err := trzsz.VerifParseEscapeTable([]byte(js)); err != nil {
			res = "err"
		}
		c.emit(true, "client_decode_escape", res, map[bool]string{true: "o", false: "tee" + "ee" + "7e31"}[js == "{}"])
	}
	c.c14exportHandshakes()
	c.c14framedHandshakes()
	c.c14pipeHandshakes()
	c.c14sequences()
	c.c14chains()
	c.c14server()
	c.c14relayTriggers()
	c.c14e2eWindows()
}
