package main

// C01 end-to-end fidelity: real client (filter) against real trz/tsz children over a
// fault-free transport that re-chunks at random.  Direct oracles:
//   - the transfer completes successfully on both sides (cooperative, fault-free)
//   - every named file/directory exists at the destination with the source's bytes,
//     names and relative structure
//   - the names shown to the user are the names actually written

import (
	"bytes"
	"fmt"
	"math/rand"
	"os"
	"path/filepath"
	"regexp"
	"strings"
	"sync"
	"syscall"
	"time"
)

func init() {
	groups["e2e-fidelity"] = genFidelity
}

func parallelDo(n, workers int, f func(i int)) {
	var wg sync.WaitGroup
	ch := make(chan int)
	for w := 0; w < workers; w++ {
		wg.Add(1)
		go func() {
			defer wg.Done()
			for i := range ch {
				f(i)
			}
		}()
	}
	for i := 0; i < n; i++ {
		ch <- i
	}
	close(ch)
	wg.Wait()
}

func fillBytes(rng *rand.Rand, n int, kind int) []byte {
	b := make([]byte, n)
	switch kind % 4 {
	case 0: // incompressible
		rng.Read(b)
	case 1: // zeros
	case 2: // text-like, compressible
		words := []string{"trzsz ", "transfer ", "#DATA:", "\n", "~", "\x1b[0m", "\xee", "0123456789"}
		i := 0
		for i < n {
			w := words[rng.Intn(len(words))]
			i += copy(b[i:], w)
		}
	case 3: // bytes the escape table protects
		prot := []byte{0xee, 0x7e, 0x02, 0x0d, 0x10, 0x11, 0x13, 0x18, 0x1b, 0x1d, 0x8d, 0x90, 0x91, 0x93, 0x9d, 'A', '1'}
		for i := range b {
			b[i] = prot[rng.Intn(len(prot))]
		}
	}
	return b
}

// makeSourceTree creates a set of top-level source paths under root and returns them.
// shape: 0 = flat files, 1 = directory tree(s), 2 = mixed with equal base names
func makeSourceTree(rng *rand.Rand, root string, shape int, big bool) []string {
	sizes := []int{0, 1, 511, 512, 513, 4096, 70000}
	if big {
		sizes = append(sizes, 131071, 131072, 700000)
	}
	names := []string{"a.txt", "b b.bin", "üñí-文件.dat", ".hidden", "x.tar.gz", "emoji😀.txt", "name.0"}
	var tops []string
	mk := func(p string, n int, kind int) {
		os.MkdirAll(filepath.Dir(p), 0755)
		os.WriteFile(p, fillBytes(rng, n, kind), 0644)
	}
	switch shape {
	case 0:
		k := 1 + rng.Intn(4)
		perm := rng.Perm(len(names))
		for i := 0; i < k; i++ {
			p := filepath.Join(root, "s", names[perm[i]])
			if i == 0 && big {
				mk(p, 40000+rng.Intn(30000), 3) // several full-size legacy chunks of bytes the escape tables protect
			} else if i == 0 {
				mk(p, 513+rng.Intn(5000), 3) // always one file full of bytes the escape tables protect
			} else {
				mk(p, sizes[rng.Intn(len(sizes))], rng.Intn(4))
			}
			tops = append(tops, p)
		}
	case 1:
		d := filepath.Join(root, "s", "tree")
		os.MkdirAll(filepath.Join(d, "empty-dir"), 0755)
		os.MkdirAll(filepath.Join(d, "sub", "deeper", "空"), 0755)
		mk(filepath.Join(d, "top.txt"), 513+rng.Intn(5000), 3)
		mk(filepath.Join(d, "sub", "a.txt"), sizes[rng.Intn(len(sizes))], rng.Intn(4))
		mk(filepath.Join(d, "sub", "deeper", "z.bin"), sizes[rng.Intn(len(sizes))], rng.Intn(4))
		mk(filepath.Join(d, "sub", "deeper", "zero"), 0, 0)
		tops = append(tops, d)
		// directories whose root holds exactly ONE entry (a file / an empty file / an empty directory)
		switch rng.Intn(3) {
		case 0:
			one := filepath.Join(root, "s", "one-file")
			mk(filepath.Join(one, "only.bin"), sizes[rng.Intn(len(sizes))], rng.Intn(4))
			tops = append(tops, one)
		case 1:
			one := filepath.Join(root, "s", "one-empty-dir")
			os.MkdirAll(filepath.Join(one, "nothing-here"), 0755)
			tops = append(tops, one)
		case 2:
			one := filepath.Join(root, "s", "one-empty-file")
			mk(filepath.Join(one, "zero"), 0, 0)
			tops = append(tops, one)
		}
		if rng.Intn(2) == 0 {
			p := filepath.Join(root, "s", "solo.dat")
			mk(p, sizes[rng.Intn(len(sizes))], rng.Intn(4))
			tops = append(tops, p)
		}
	case 2:
		// same base name twice, from different directories
		p1 := filepath.Join(root, "s", "d1", "same.txt")
		p2 := filepath.Join(root, "s", "d2", "same.txt")
		mk(p1, 513+rng.Intn(5000), 3)
		mk(p2, sizes[rng.Intn(len(sizes))], rng.Intn(4))
		tops = append(tops, p1, p2)
	}
	return tops
}

var savedRe = regexp.MustCompile(`Saved (\d+) (?:file/directory|files/directories)(?: to ([^\r\n]*))?((?:\r\n- [^\r\n]*)*)`)

func parseSaved(s string) (names []string, ok bool) {
	ms := savedRe.FindAllStringSubmatch(s, -1)
	if len(ms) == 0 {
		return nil, false
	}
	m := ms[len(ms)-1]
	for _, l := range strings.Split(m[3], "\r\n- ") {
		if l != "" {
			names = append(names, l)
		}
	}
	return names, true
}

// compare one source path (file or dir) with its destination copy
func sameTree(src, dst string) []string {
	si, err := os.Stat(src)
	if err != nil {
		return []string{"src-stat:" + err.Error()}
	}
	di, err := os.Stat(dst)
	if err != nil {
		return []string{"dest-missing:" + filepath.Base(dst)}
	}
	if si.IsDir() != di.IsDir() {
		return []string{"kind-differs:" + filepath.Base(dst)}
	}
	if !si.IsDir() {
		a, _ := os.ReadFile(src)
		b, _ := os.ReadFile(dst)
		if !bytes.Equal(a, b) {
			return []string{fmt.Sprintf("content-differs:%s(src %d bytes, dest %d bytes)", filepath.Base(dst), len(a), len(b))}
		}
		return nil
	}
	a, _ := snapshotTree(src)
	b, _ := snapshotTree(dst)
	return diffTrees(a, b)
}

type fidCase struct {
	cfg    e2eCfg
	shape  int
	big    bool
	seed   int64
	chunk  int
	desc   string
	result e2eResult
	diffs  []string
	names  []string
	tops   []string
	win    bool // Windows-console framing with one late acknowledgement (c01win.go)
	winObs string
}

func (fc *fidCase) String() string { return fc.desc }

func describeCfg(c e2eCfg) string {
	dir := "download"
	if c.upload {
		dir = "upload"
	}
	return fmt.Sprintf("%s binary=%v escape=%v dir=%v overwrite=%v compress=%q bufsize=%q proto=%d relays=%d tunnel=%v", dir, c.binary, c.escape,
		c.directory, c.overwrite, c.compress, c.bufsize, c.proto, c.relays, c.tunnel)
}

func genFidelity(c *ctx) {
	work, _ := os.MkdirTemp("", "e2e_fid_")
	defer os.RemoveAll(work)
	n := c.pick(96, 1500)
	cases := make([]*fidCase, n)
	protos := []int{-1, 0, 2, 3, 4, 9}
	spinning := 0
	for i := range cases {
		fc := &fidCase{seed: c.rng.Int63(), shape: c.rng.Intn(3), big: c.rng.Intn(4) == 0}
		// stratified: every (direction, base64/binary, protocol) combination occurs in every
		// block of 24 cases; the remaining dimensions are drawn at random
		combo := i % 24
		fc.cfg = e2eCfg{
			upload:    combo%2 == 0,
			binary:    (combo/2)%2 == 0,
			proto:     protos[(combo/4)%len(protos)],
			escape:    c.rng.Intn(3) == 0,
			overwrite: c.rng.Intn(3) == 0,
			compress:  []string{"", "yes", "no", "auto"}[c.rng.Intn(4)],
			bufsize:   []string{"", "1k", "4k", "16k", "1M"}[c.rng.Intn(5)],
			timeout:   10,
			quiet:     c.rng.Intn(2) == 0,
			deadline:  40 * time.Second,
			relays:    []int{0, 0, 1, 2}[c.rng.Intn(4)],
			tunnel:    c.rng.Intn(4) == 0,
		}
		if fc.cfg.relays > 0 && fc.cfg.tunnel {
			// a relay's tunnel pumps busy-loop for ever once their connection is closed
			// (relay.go tunnelRelay.wrapInput/wrapOutput only leave on io.EOF; observed: 2 cores
			// per finished tunnel transfer) - keep only a couple of these per run
			spinning++
			if spinning > 2 {
				fc.cfg.tunnel = false
			}
		}
		if fc.shape == 1 {
			fc.cfg.directory = true
		} else {
			fc.cfg.directory = c.rng.Intn(3) == 0
		}
		if fc.shape == 2 && fc.cfg.overwrite {
			fc.cfg.overwrite = false // duplicate names with -y are refused before the transfer starts
		}
		fc.chunk = []int{0, 1, 7, 100, 5000}[c.rng.Intn(5)]
		if fc.big && fc.chunk > 0 && fc.chunk < 100 {
			fc.chunk = 100 // megabytes in 1-2 byte reads through pipes (and relays) do not finish within the harness deadline
		}
		if fc.cfg.overwrite && fc.shape == 0 && fc.chunk > 0 && fc.chunk < 100 {
			// these cases get the 300-400 KB resume.bin added below: the same limit applies (group seed
			// 44444: download, 2 relays, 1-2 byte reads ran into the 40 s deadline on the unchanged tree)
			fc.chunk = 100
		}
		// corner configurations that are always part of the run, whatever the random draw
		switch i {
		case 0: // legacy protocol 1, binary upload, 16k chunks of bytes the table escapes (escaped chunk > bufsize)
			fc.cfg.upload, fc.cfg.binary, fc.cfg.proto, fc.cfg.bufsize, fc.cfg.relays, fc.cfg.tunnel = true, true, 0, "16k", 0, false
			fc.shape, fc.big, fc.cfg.directory, fc.chunk = 0, true, false, 0
		case 1: // same over protocol 2
			fc.cfg.upload, fc.cfg.binary, fc.cfg.proto, fc.cfg.bufsize, fc.cfg.relays, fc.cfg.tunnel = true, true, 2, "16k", 0, false
			fc.shape, fc.big, fc.cfg.directory, fc.chunk = 0, true, false, 0
		case 2, 3: // archive mode (protocol 4, no overwrite) with one-entry directories among the sources
			fc.cfg.upload, fc.cfg.proto, fc.cfg.overwrite, fc.cfg.directory, fc.cfg.relays, fc.cfg.tunnel = i == 2, 4, false, true, 0, false
			fc.shape, fc.chunk = 1, 0
		case 4, 5, 6: // -d -y onto the remains of an earlier attempt, legacy protocols and the current one
			fc.cfg.upload, fc.cfg.proto, fc.cfg.overwrite, fc.cfg.directory, fc.cfg.relays, fc.cfg.tunnel = i != 5, []int{2, 0, -1}[i-4], true, true, 0, false
			fc.shape, fc.chunk = 1, 0
		case 7, 8: // Windows-console framing ("!\n", readLineOnWindows on the client), one late ack: frames are re-split
			fc.cfg = e2eCfg{upload: i == 7, proto: -1, bufsize: "64k", compress: "no", timeout: 10, quiet: true, deadline: 40 * time.Second}
			fc.shape, fc.big, fc.chunk, fc.win = 0, false, 0, true
		}
		fc.desc = fmt.Sprintf("%s shape=%d big=%v rechunk=%d seed=%d", describeCfg(fc.cfg), fc.shape, fc.big, fc.chunk, fc.seed)
		if fc.win {
			fc.desc += " windows-framing(trigger id ..10, client lines read as a Windows console would, 10th ack 2.3 s late)"
		}
		cases[i] = fc
	}
	parallelDo(n, 24, func(i int) {
		fc := cases[i]
		rng := rand.New(rand.NewSource(fc.seed))
		root := filepath.Join(work, fmt.Sprint(i))
		dest := filepath.Join(root, "dest")
		os.MkdirAll(dest, 0755)
		fc.tops = makeSourceTree(rng, root, fc.shape, fc.big)
		if fc.cfg.overwrite && fc.shape == 0 {
			// overwrite onto a destination that already holds part of one source (resume path):
			// a file whose remaining part is >= 128 KiB, destination = a prefix of it
			p := filepath.Join(root, "s", "resume.bin")
			content := fillBytes(rng, 300000+rng.Intn(100000), rng.Intn(3))
			os.WriteFile(p, content, 0644)
			fc.tops = append(fc.tops, p)
			keep := []int{0, 1, 65536, 100000, len(content), len(content) - 1}[rng.Intn(6)]
			pre := append([]byte(nil), content[:keep]...)
			if rng.Intn(3) == 0 && keep > 10 {
				pre[keep/2] ^= 0x55 // diverging inside the kept part
			}
			if rng.Intn(4) == 0 {
				pre = append(pre, fillBytes(rng, 5000, 0)...) // longer than the source's prefix
			}
			os.WriteFile(filepath.Join(dest, "resume.bin"), pre, 0644)
		}
		if fc.cfg.overwrite && fc.shape == 1 {
			// -d -y onto what an earlier attempt left behind: some files of the tree already exist at
			// the destination, longer than / a prefix of / different from the source (every protocol:
			// the legacy ones truncate when they open, protocol >= 3 goes through the resume exchange)
			for _, top := range fc.tops {
				filepath.Walk(top, func(p string, info os.FileInfo, err error) error {
					if err != nil || !info.Mode().IsRegular() || rng.Intn(2) == 0 {
						return nil
					}
					rel, _ := filepath.Rel(filepath.Dir(top), p)
					content, _ := os.ReadFile(p)
					var pre []byte
					switch rng.Intn(4) {
					case 0: // longer, same beginning
						pre = append(append([]byte(nil), content...), fillBytes(rng, 1+rng.Intn(3000), 0)...)
					case 1: // a prefix
						pre = append([]byte(nil), content[:len(content)/2]...)
					case 2: // longer and different from the first byte on
						pre = fillBytes(rng, len(content)+1+rng.Intn(3000), 1)
					default: // same length, one byte differs
						pre = append([]byte(nil), content...)
						if len(pre) > 0 {
							pre[len(pre)/2] ^= 0x20
						}
					}
					q := filepath.Join(dest, rel)
					os.MkdirAll(filepath.Dir(q), 0755)
					os.WriteFile(q, pre, 0644)
					return nil
				})
			}
		}
		if fc.win {
			p := filepath.Join(root, "s", "win-2MiB.bin")
			os.MkdirAll(filepath.Dir(p), 0755)
			os.WriteFile(p, fillBytes(rng, 2<<20, 0), 0644)
			fc.tops = []string{p}
			peer := &c01WinPeer{ackDir: dirS2C, lateAck: 10, delay: 2300 * time.Millisecond}
			if !fc.cfg.upload {
				peer.ackDir = dirC2S
			}
			fc.cfg.hook = peer.hook
		}
		if fc.chunk > 0 {
			var mu sync.Mutex
			crng := rand.New(rand.NewSource(fc.seed + 1))
			mean := fc.chunk
			fc.cfg.hook = func(dir, idx int, b []byte) e2eAction {
				mu.Lock()
				defer mu.Unlock()
				if bytes.Contains(b, []byte("::TRZSZ:TRANSFER:")) {
					return e2eAction{} // the detector works per read: the trigger line stays in one read
				}
				var out [][]byte
				for len(b) > 0 {
					k := 1 + crng.Intn(2*mean)
					if k > len(b) {
						k = len(b)
					}
					out = append(out, b[:k])
					b = b[k:]
				}
				return e2eAction{data: out}
			}
		}
		fc.result = runTransfer(fc.cfg, fc.tops, dest)
		r := fc.result
		if fc.win {
			w := r.wire[1]
			if fc.cfg.upload {
				w = r.wire[0]
			}
			shrunk, n := c01WinShrinkObserved(w)
			fc.winObs = fmt.Sprintf("shrink-observed=%v data-lines=%d", shrunk, n)
		}
		// names shown to the user
		shown := r.serverOut
		if !fc.cfg.upload {
			shown = r.termOut + r.serverOut
		}
		names, ok := parseSaved(shown)
		fc.names = names
		success := ok && !r.hung && r.clientDone && r.serverExited && (!fc.cfg.upload || r.uploadErr == nil)
		if !success {
			fc.diffs = append(fc.diffs, fmt.Sprintf("no-success: hung=%v clientDone=%v serverExited=%v uploadErr=%v saved=%v tail=%q",
				r.hung, r.clientDone, r.serverExited, r.uploadErr, ok, tailStr(r.termOut+"|"+r.serverOut, 300)))
			return
		}
		if len(names) != len(fc.tops) {
			fc.diffs = append(fc.diffs, fmt.Sprintf("names-count: shown %v for %d sources", names, len(fc.tops)))
			return
		}
		seen := map[string]bool{}
		for j, top := range fc.tops {
			if seen[names[j]] {
				fc.diffs = append(fc.diffs, "same-name-twice:"+names[j])
			}
			seen[names[j]] = true
			fc.diffs = append(fc.diffs, sameTree(top, filepath.Join(dest, names[j]))...)
		}
		// nothing else appeared at the destination
		ents, _ := os.ReadDir(dest)
		for _, e := range ents {
			if !seen[e.Name()] {
				fc.diffs = append(fc.diffs, "unreported-entry:"+e.Name())
			}
		}
		os.RemoveAll(root)
	})
	for _, fc := range cases {
		c.note(true, "e2e "+fc.desc+" => names="+strings.Join(fc.names, ","))
		c.count(fmt.Sprintf("proto:%d", fc.cfg.proto))
		c.count(fmt.Sprintf("upload:%v", fc.cfg.upload))
		c.count(fmt.Sprintf("binary:%v", fc.cfg.binary))
		c.count(fmt.Sprintf("shape:%d", fc.shape))
		c.count(fmt.Sprintf("relays:%d", fc.cfg.relays))
		c.count(fmt.Sprintf("tunnel:%v", fc.cfg.tunnel))
		if fc.win {
			c.count("windows-framing:" + fc.winObs)
		}
		if len(fc.diffs) > 0 {
			key := "fidelity:" + strings.SplitN(fc.diffs[0], ":", 2)[0]
			if fc.win {
				key = "fidelity:windows-framing:" + strings.SplitN(fc.diffs[0], ":", 2)[0]
				fc.diffs = append(fc.diffs, fc.winObs)
			}
			c.violate(key, "end-to-end transfer over a fault-free transport did not reproduce the source",
				fc.desc+" :: "+strings.Join(fc.diffs, "; "))
		}
	}
}

func tailStr(s string, n int) string {
	if len(s) > n {
		return s[len(s)-n:]
	}
	return s
}

// ---- descriptor growth: more files in one transfer than a process may hold open ----

func init() { groups["e2e-fds"] = genFds }

func countFds(pid int) int {
	dir := "/proc/self/fd"
	if pid > 0 {
		dir = fmt.Sprintf("/proc/%d/fd", pid)
	}
	ents, err := os.ReadDir(dir)
	if err != nil {
		return -1
	}
	return len(ents)
}

func genFds(c *ctx) {
	work, _ := os.MkdirTemp("", "e2e_fds_")
	defer os.RemoveAll(work)
	nfiles := c.pick(150, 600)
	type fdCase struct {
		name      string
		upload    bool
		directory bool
	}
	cases := []fdCase{
		{"upload-flat", true, false}, {"download-flat", false, false},
		{"upload-dir-archive", true, true}, {"download-dir-archive", false, true},
	}
	for i, fc := range cases {
		root := filepath.Join(work, fmt.Sprint(i))
		dest := filepath.Join(root, "dest")
		os.MkdirAll(dest, 0755)
		var tops []string
		if fc.directory {
			d := filepath.Join(root, "s", "many")
			os.MkdirAll(d, 0755)
			for j := 0; j < nfiles; j++ {
				os.WriteFile(filepath.Join(d, fmt.Sprintf("f%04d", j)), []byte(fmt.Sprint(j)), 0644)
			}
			tops = []string{d}
		} else {
			os.MkdirAll(filepath.Join(root, "s"), 0755)
			for j := 0; j < nfiles; j++ {
				p := filepath.Join(root, "s", fmt.Sprintf("f%04d", j))
				os.WriteFile(p, []byte(fmt.Sprint(j)), 0644)
				tops = append(tops, p)
			}
		}
		base := countFds(0)
		var peakSelf, peakChild int
		stop := make(chan struct{})
		var run *e2eRun
		cfg := e2eCfg{upload: fc.upload, directory: fc.directory, timeout: 10, proto: -1, quiet: true, deadline: 120 * time.Second,
			onStart: func(r *e2eRun) { run = r }}
		done := make(chan struct{})
		go func() {
			defer close(done)
			for {
				select {
				case <-stop:
					return
				default:
				}
				if n := countFds(0); n > peakSelf {
					peakSelf = n
				}
				if r := run; r != nil && r.cmd.Process != nil {
					if n := countFds(r.cmd.Process.Pid); n > peakChild {
						peakChild = n
					}
				}
				time.Sleep(500 * time.Microsecond)
			}
		}()
		res := runTransfer(cfg, tops, dest)
		close(stop)
		<-done
		grow := peakSelf - base
		c.note(true, fmt.Sprintf("fds %s files=%d client-growth=%d server-peak=%d ok=%v", fc.name, nfiles, grow, peakChild, !res.hung))
		c.count("fds:" + fc.name)
		limit := 40
		if grow > limit || peakChild > limit {
			c.violate("fd-growth:"+fc.name, "open descriptors grow with the number of files in one transfer",
				fmt.Sprintf("%s files=%d: client descriptors grew by %d (baseline %d), server peak %d; bound %d", fc.name, nfiles, grow, base, peakChild, limit))
		}
		if res.hung || !res.clientDone {
			c.violate("fd-run-failed:"+fc.name, "many-file transfer did not complete", tailStr(res.termOut+res.serverOut, 300))
		}
		os.RemoveAll(root)
	}
}

func init() { groups["probe-spin"] = probeSpin }

// probe: after a tunnel transfer through a relay, is a relay goroutine busy-looping?
func probeSpin(c *ctx) {
	work, _ := os.MkdirTemp("", "e2e_spin_")
	defer os.RemoveAll(work)
	rng := rand.New(rand.NewSource(1))
	tops := makeSourceTree(rng, work, 0, false)
	dest := filepath.Join(work, "dest")
	os.MkdirAll(dest, 0755)
	res := runTransfer(e2eCfg{upload: true, relays: 1, tunnel: true, timeout: 5, proto: -1, quiet: true}, tops, dest)
	time.Sleep(2 * time.Second)
	var ru1, ru2 syscall.Rusage
	syscall.Getrusage(syscall.RUSAGE_SELF, &ru1)
	time.Sleep(time.Second)
	syscall.Getrusage(syscall.RUSAGE_SELF, &ru2)
	cpu := float64(ru2.Utime.Nano()+ru2.Stime.Nano()-ru1.Utime.Nano()-ru1.Stime.Nano()) / 1e9
	gs := goroutinesOf("tunnelRelay")
	c.note(true, fmt.Sprintf("spin probe: transfer ok=%v; cpu used in 1 idle second: %.2fs; tunnelRelay goroutines: %d", res.clientDone, cpu, len(gs)))
	for _, g := range gs {
		fmt.Fprintln(os.Stderr, tailStr(g, 600))
	}
	fmt.Fprintf(os.Stderr, "cpu in idle second: %.2f\n", cpu)
}
