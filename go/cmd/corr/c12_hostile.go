package main

// C12, search engine "hostile": a transcript mutator.
//
// Well-formed transcripts of BOTH roles are recorded from real transfers (e2e driver:
// real client filter against the real trz / tsz children) for protocols 1..4 x
// base64/binary x progress on/off (+ resume, archive, directory, multi-file, large-file,
// empty-file, escape-all scenarios).  Every message of a transcript is mutated field by
// field with boundary values and structural damage, and each mutant is replayed against
// the REAL role in a child process of the harness (`corr c12-child <job>`):
//
//	role "server": the child starts a real trz / tsz under `ulimit -v` and writes the
//	               mutated client->server wire to it;
//	role "client": the child IS the client: it runs trzsz.NewTrzszFilter under RLIMIT_AS
//	               and feeds it the mutated server->client wire.
//
// Oracle: no panic / fatal error / runtime crash text on stderr, no recovered panic reported
// through a FAIL line or the final message, the role ends (server exits, client returns
// to idle) within the cap - or at the latest after the user's interrupt -, peak RSS below
// c12RSSLimitKB, and the client still forwards a probe in both directions afterwards.

import (
	"bytes"
	"encoding/base64"
	"encoding/json"
	"fmt"
	"io"
	"math/rand"
	"os"
	"os/exec"
	"path/filepath"
	"regexp"
	"sort"
	"strconv"
	"strings"
	"sync"
	"syscall"
	"time"

	"github.com/trzsz/trzsz-go/trzsz"
)

const (
	c12RSSLimitKB   = 600 * 1024
	c12ASLimitBytes = 4 << 30
	c12Workers      = 20
)

func init() {
	groups["hostile"] = genHostile
	if len(os.Args) == 3 && os.Args[1] == "c12-child" {
		c12Child(os.Args[2])
		os.Exit(0)
	}
}

// ---------------------------------------------------------------------------------------
// scenarios and recording

type c12Scn struct {
	name     string
	cfg      e2eCfg
	kind     string // file | big | two | resume | archive | dirv3 | empty
	quick    bool   // part of the quick tier
	mustOnly bool   // quick tier: only the must-have mutants of this scenario
	root     string
	tops     []string
	wire     [2][]byte
	okRec    bool
	recErr   string
}

func c12Content(n int, seed int64, compressible bool) []byte {
	rng := rand.New(rand.NewSource(seed))
	if !compressible {
		b := make([]byte, n)
		rng.Read(b)
		return b
	}
	return fillBytes(rng, n, 2)
}

func (s *c12Scn) prepSource(work string) {
	s.root = filepath.Join(work, s.name)
	sdir := filepath.Join(s.root, "s")
	os.MkdirAll(sdir, 0755)
	w := func(rel string, b []byte) string {
		p := filepath.Join(sdir, rel)
		os.MkdirAll(filepath.Dir(p), 0755)
		os.WriteFile(p, b, 0644)
		return p
	}
	switch s.kind {
	case "file", "resume":
		s.tops = []string{w("a.txt", c12Content(30000, 1, true))}
	case "big":
		s.tops = []string{w("big.bin", c12Content(200000, 2, false))}
	case "two":
		s.tops = []string{w("a.txt", c12Content(3000, 3, true)), w("b.bin", c12Content(700, 4, false))}
	case "empty":
		s.tops = []string{w("zero", nil)}
	case "archive", "dirv3":
		w("d/x.txt", c12Content(5000, 5, true))
		w("d/sub/y.bin", c12Content(2000, 6, false))
		os.MkdirAll(filepath.Join(sdir, "d", "hollow"), 0755)
		s.tops = []string{filepath.Join(sdir, "d")}
	}
}

// what the destination holds before the transfer (resume: a prefix of the source)
func (s *c12Scn) prepDest(dest string) {
	os.MkdirAll(dest, 0755)
	if s.kind == "resume" {
		os.WriteFile(filepath.Join(dest, "a.txt"), c12Content(30000, 1, true)[:12000], 0644)
	}
}

func c12Scenarios(thorough bool) []*c12Scn {
	var out []*c12Scn
	add := func(name, kind string, quick bool, cfg e2eCfg) {
		cfg.timeout = 2
		cfg.deadline = 30 * time.Second
		out = append(out, &c12Scn{name: name, kind: kind, quick: quick, cfg: cfg})
	}
	for _, up := range []bool{true, false} {
		d := "dn"
		if up {
			d = "up"
		}
		for _, proto := range []int{0, 2, 3, 4} {
			for _, bin := range []bool{false, true} {
				for _, quiet := range []bool{false, true} {
					name := fmt.Sprintf("%s-p%d-%s-%s", d, proto, map[bool]string{false: "b64", true: "bin"}[bin], map[bool]string{false: "bar", true: "quiet"}[quiet])
					// quick tier: both roles x every protocol, alternating encodings; progress on
					quick := !quiet && ((proto == 0 && bin) || (proto == 2 && !bin) || (proto == 3 && bin) || (proto == 4 && !bin))
					add(name, "file", quick, e2eCfg{upload: up, proto: proto, binary: bin, quiet: quiet})
					if !quick && !up && !quiet && proto >= 2 {
						// the receiving client with a progress display, every protocol >= 2 x both encodings:
						// in the quick tier for the must-have mutants (negative sizes followed by data)
						out[len(out)-1].quick, out[len(out)-1].mustOnly = true, true
					}
				}
			}
		}
		add(d+"-resume-p4", "resume", true, e2eCfg{upload: up, proto: 4, overwrite: true})
		add(d+"-resume-p3-bin", "resume", false, e2eCfg{upload: up, proto: 3, overwrite: true, binary: true})
		add(d+"-resume-p3", "resume", true, e2eCfg{upload: up, proto: 3, overwrite: true}) // the SIZE line inside the hash exchange
		out[len(out)-1].mustOnly = true
		add(d+"-archive-p4", "archive", true, e2eCfg{upload: up, proto: 4, directory: true, compress: "no"})
		add(d+"-dir-p3", "dirv3", false, e2eCfg{upload: up, proto: 3, directory: true})
		add(d+"-dir-p2", "dirv3", false, e2eCfg{upload: up, proto: 2, directory: true})
		add(d+"-big-p4-bin", "big", false, e2eCfg{upload: up, proto: 4, binary: true})
		add(d+"-big-p3", "big", false, e2eCfg{upload: up, proto: 3})
		add(d+"-two-p2", "two", false, e2eCfg{upload: up, proto: 2, quiet: true})
		add(d+"-empty-p4", "empty", false, e2eCfg{upload: up, proto: 4})
		add(d+"-esc-p4-bin", "file", false, e2eCfg{upload: up, proto: 4, binary: true, escape: true, compress: "no"})
	}
	if thorough {
		return out
	}
	var q []*c12Scn
	for _, s := range out {
		if s.quick {
			q = append(q, s)
		}
	}
	return q
}

func (s *c12Scn) record() {
	dest := filepath.Join(s.root, "1", "2", "3", "4", "5", "6", "7", "8", "rec-dest")
	s.prepDest(dest)
	r := runTransfer(s.cfg, s.tops, dest)
	shown := r.termOut + r.serverOut
	if r.hung || !r.clientDone || !r.serverExited || !strings.Contains(shown, "Saved") {
		s.recErr = fmt.Sprintf("hung=%v clientDone=%v serverExited=%v tail=%q", r.hung, r.clientDone, r.serverExited, tailStr(shown, 200))
		return
	}
	s.wire = r.wire
	s.okRec = true
	os.RemoveAll(dest)
}

// ---------------------------------------------------------------------------------------
// wire -> messages

type c12Msg struct {
	raw     []byte // as on the wire (including newline, including binary payload)
	typ     string // "" for non-protocol text (trigger, final message)
	payload string // text after the colon (without newline)
	bin     []byte // binary payload that follows a "#DATA:<n>" header
	label   string // field label: type, refined for SUCC
}

var c12IntRe = regexp.MustCompile(`^-?\d+$`)
var c12AckRe = regexp.MustCompile(`^-?\d+/-?\d+$`)

func c12ParseWire(w []byte, binary bool, proto int) []c12Msg {
	var msgs []c12Msg
	for len(w) > 0 {
		if w[0] != '#' {
			// text up to the next line that starts a protocol message
			idx := -1
			for i := 0; i+1 < len(w); i++ {
				if w[i] == '\n' && w[i+1] == '#' {
					idx = i + 1
					break
				}
			}
			if idx < 0 {
				msgs = append(msgs, c12Msg{raw: w, label: "TEXT"})
				break
			}
			msgs = append(msgs, c12Msg{raw: w[:idx], label: "TEXT"})
			w = w[idx:]
			continue
		}
		nl := bytes.IndexByte(w, '\n')
		if nl < 0 {
			msgs = append(msgs, c12Msg{raw: w, label: "TEXT"})
			break
		}
		line := w[:nl]
		m := c12Msg{raw: w[:nl+1]}
		if c := bytes.IndexByte(line, ':'); c > 0 {
			m.typ = string(line[1:c])
			m.payload = string(line[c+1:])
		}
		w = w[nl+1:]
		if binary && m.typ == "DATA" {
			if n, err := strconv.Atoi(m.payload); err == nil && n > 0 && n <= len(w) {
				m.bin = w[:n]
				m.raw = append(append([]byte(nil), m.raw...), w[:n]...)
				w = w[n:]
			}
		}
		m.label = m.typ
		msgs = append(msgs, m)
	}
	// refine the SUCC labels by position
	stage := 0
	for i := range msgs {
		m := &msgs[i]
		if m.typ != "SUCC" {
			continue
		}
		switch {
		case stage == 0:
			m.label, stage = "SUCC-num", 1
		case c12AckRe.MatchString(m.payload):
			m.label, stage = "SUCC-ack", 3
		case c12IntRe.MatchString(m.payload):
			if stage <= 2 {
				m.label, stage = "SUCC-size", 3
			} else if proto < 2 {
				m.label = "SUCC-v1ack"
			} else {
				m.label = "SUCC-final"
			}
		default:
			js, err := decodeLinePayload(m.payload)
			var o map[string]any
			isObj := err == nil && json.Unmarshal(js, &o) == nil
			switch {
			case isObj && o["match"] != nil:
				m.label = "SUCC-hashack"
			case stage == 3:
				m.label, stage = "SUCC-md5", 1
			case isObj:
				m.label, stage = "SUCC-target", 2
			default:
				m.label, stage = "SUCC-name", 2
			}
		}
	}
	return msgs
}

// ---------------------------------------------------------------------------------------
// mutations

type c12Mutant struct {
	scn     *c12Scn
	role    string // "server": mutated client->server wire; "client": mutated server->client wire
	idx     int    // message index
	field   string
	val     string
	msgs    []c12Msg
	repl    [][]byte // what replaces message idx (nil = the message is dropped)
	whole   []byte   // or: the whole mutated wire (baseline, archive mutants)
	must    bool     // always part of the quick tier
	amplify bool     // decompression bomb: keyed hostile-amplify:...
	pair    string   // two fields replaced consistently: keyed hostile-pair:<a>-<b>:<value>:<role>
	result  c12Result
}

var c12Long1MB = []byte("\x00<<c12-one-megabyte-of-A>>\x00")

// wire builds the mutated wire; large fillers are expanded only now
func (m *c12Mutant) wire() []byte {
	if m.whole != nil {
		return m.whole
	}
	var b bytes.Buffer
	for j, x := range m.msgs {
		if j == m.idx {
			for _, r := range m.repl {
				b.Write(r)
			}
		} else {
			b.Write(x.raw)
		}
	}
	return bytes.ReplaceAll(b.Bytes(), c12Long1MB, bytes.Repeat([]byte("A"), 1<<20))
}

func (m *c12Mutant) key() string {
	if m.pair != "" {
		return fmt.Sprintf("hostile-pair:%s:%s:%s", m.pair, m.val, m.role)
	}
	if m.amplify {
		return fmt.Sprintf("hostile-amplify:%s:%s:%s", m.field, m.val, m.role)
	}
	return fmt.Sprintf("hostile:%s:%s:%s", m.field, m.val, m.role)
}

type c12Val struct{ class, text string }

func c12IntVals(orig string) []c12Val {
	v := []c12Val{
		{"-1", "-1"}, {"-7", "-7"}, {"0", "0"}, {"1", "1"}, {"2^31-1", "2147483647"}, {"2^31", "2147483648"}, {"2^31+1", "2147483649"},
		{"5e7", "50000000"}, {"2^33", "8589934592"}, {"2^62", "4611686018427387904"}, {"2^63-1", "9223372036854775807"},
		{"2^63", "9223372036854775808"}, {"-2^63", "-9223372036854775808"}, {"-2^63-1", "-9223372036854775809"},
		{"digits40", strings.Repeat("9", 40)}, {"nonnum", "12x"}, {"empty", ""}, {"float", "1.5"}, {"exp", "1e3"}, {"plus", "+7"},
		{"hex", "0x10"}, {"space", " 7"},
	}
	if n, err := strconv.ParseInt(orig, 10, 64); err == nil {
		v = append(v, c12Val{"orig+1", strconv.FormatInt(n+1, 10)}, c12Val{"orig-1", strconv.FormatInt(n-1, 10)},
			c12Val{"orig*2", strconv.FormatInt(n*2, 10)})
	}
	return v
}

var c12BombOnce sync.Once
var c12BombStr string

func c12Bomb() string {
	c12BombOnce.Do(func() { c12BombStr = c12B64z(make([]byte, 64<<20)) })
	return c12BombStr
}

func c12B64z(b []byte) string { return string(encodeLine("X", b)[3:]) }

// numeric keys that are added with boundary values when a JSON message does not carry them
var c12KnownNumKeys = map[string][]string{
	"CFG":          {"tmux_pane_width", "bufsize", "timeout", "protocol", "compress"},
	"ACT":          {"protocol"},
	"NAME":         {"size", "perm", "path_id"},
	"ARCHIVE":      {"size", "perm", "path_id"},
	"SUCC-target":  {"size"},
	"HASH":         {"step"},
	"SUCC-hashack": {"step"},
}

type c12JSONMut struct {
	field, val string
	doc        []byte
}

func c12JSONMutations(label string, js []byte) (out []c12JSONMut) {
	add := func(field, val string, doc []byte) { out = append(out, c12JSONMut{field, val, doc}) }
	dec := json.NewDecoder(bytes.NewReader(js))
	dec.UseNumber()
	var obj map[string]any
	if dec.Decode(&obj) != nil || obj == nil {
		return
	}
	keys := make([]string, 0, len(obj))
	for k := range obj {
		keys = append(keys, k)
	}
	sort.Strings(keys)
	with := func(k string, raw string) []byte {
		parts := make([]string, 0, len(obj)+1)
		seen := false
		for _, kk := range keys {
			vb, _ := json.Marshal(obj[kk])
			if kk == k {
				vb = []byte(raw)
				seen = true
			}
			parts = append(parts, fmt.Sprintf("%q:%s", kk, vb))
		}
		if !seen {
			parts = append(parts, fmt.Sprintf("%q:%s", k, raw))
		}
		return []byte("{" + strings.Join(parts, ",") + "}")
	}
	numKeys := map[string]bool{}
	for _, k := range keys {
		if _, ok := obj[k].(json.Number); ok {
			numKeys[k] = true
		}
	}
	for _, k := range c12KnownNumKeys[label] {
		numKeys[k] = true
	}
	nk := make([]string, 0, len(numKeys))
	for k := range numKeys {
		nk = append(nk, k)
	}
	sort.Strings(nk)
	for _, k := range nk {
		orig := ""
		if n, ok := obj[k].(json.Number); ok {
			orig = n.String()
		}
		for _, v := range c12IntVals(orig) {
			if v.text == "" {
				continue
			}
			add(label+"-"+k, v.class, with(k, v.text))
		}
		for _, t := range [][2]string{{"type:str", `"7"`}, {"type:null", "null"}, {"type:bool", "true"}, {"type:arr", "[7]"}, {"type:obj", "{}"}} {
			add(label+"-"+k, t[0], with(k, t[1]))
		}
	}
	for _, k := range keys {
		if numKeys[k] {
			continue
		}
		f := label + "-" + k
		for _, t := range [][2]string{{"type:num", "7"}, {"type:null", "null"}, {"type:arr", "[]"}, {"type:obj", "{}"}, {"type:bool", "false"}} {
			add(f, t[0], with(k, t[1]))
		}
		switch obj[k].(type) {
		case string:
			add(f, "empty", with(k, `""`))
			add(f, "long", with(k, `"`+strings.Repeat("A", 100000)+`"`))
			add(f, "ctrl", with(k, `"\u0000\n\u001b[2J../x"`))
		case []any:
			add(f, "elem:num", with(k, "[1,2]"))
			add(f, "elem:nested", with(k, `[["a"],["b","c","d"],[]]`))
			add(f, "elem:str", with(k, `["a"]`))
			add(f, "elem:pairs-long", with(k, `[["ab","cd"],["î","îîî"]]`))
			add(f, "elem:pairs-wide", with(k, `[["中","î1"],["a","中中"]]`))
			add(f, "many", with(k, "["+strings.Repeat(`"a",`, 20000)+`"a"]`))
		}
		// removing the key
		parts := []string{}
		for _, kk := range keys {
			if kk != k {
				vb, _ := json.Marshal(obj[kk])
				parts = append(parts, fmt.Sprintf("%q:%s", kk, vb))
			}
		}
		add(f, "absent", []byte("{"+strings.Join(parts, ",")+"}"))
	}
	add(label+"-json", "trunc", js[:len(js)/2])
	add(label+"-json", "empty", nil)
	add(label+"-json", "array", []byte("[]"))
	add(label+"-json", "num", []byte("7"))
	add(label+"-json", "null", []byte("null"))
	add(label+"-json", "deep", []byte(strings.Repeat("[", 20000)+strings.Repeat("]", 20000)))
	add(label+"-json", "dupkeys", []byte(`{"size":1,"size":-1,"step":1,"step":-5,"protocol":2,"protocol":99}`))
	return
}

var c12TriggerRe = regexp.MustCompile(`(::TRZSZ:TRANSFER:[SRD]:)(\d+)\.(\d+)\.(\d+):(\d+):(\d+)`)

func c12Mutate(s *c12Scn, role string, msgs []c12Msg, thorough bool) []*c12Mutant {
	var out []*c12Mutant
	// the client is the receiving side and draws a progress bar
	showsProgress := role == "client" && !s.cfg.upload && !s.cfg.quiet
	for i, m := range msgs {
		add := func(field, val string, repl ...[]byte) *c12Mutant {
			mu := &c12Mutant{scn: s, role: role, idx: i, field: field, val: val, msgs: msgs, repl: repl}
			out = append(out, mu)
			return mu
		}
		if m.typ == "" {
			// the trigger line (client role only): version components, id, port
			if role == "client" && i == 0 {
				if loc := c12TriggerRe.FindSubmatchIndex(m.raw); loc != nil {
					sub := func(g int, txt string) []byte {
						return append(append(append([]byte(nil), m.raw[:loc[2*g]]...), txt...), m.raw[loc[2*g+1]:]...)
					}
					for _, v := range []c12Val{{"0", "0"}, {"2^32-1", "4294967295"}, {"2^32", "4294967296"}, {"digits40", strings.Repeat("9", 40)}} {
						add("TRIGGER-version", v.class, sub(2, v.text))
					}
					for _, v := range []c12Val{{"0", "0"}, {"1", "1"}, {"65535", "65535"}, {"65536", "65536"}, {"2^31", "2147483648"}, {"2^63", "9223372036854775808"}, {"digits40", strings.Repeat("9", 40)}} {
						add("TRIGGER-port", v.class, sub(6, v.text))
					}
					for _, v := range []c12Val{{"short", "1"}, {"digits40", strings.Repeat("9", 40)}, {"win", "1234567890110"}} {
						add("TRIGGER-id", v.class, sub(5, v.text))
					}
				}
			}
			continue
		}
		line := func(typ, payload string) []byte { return []byte("#" + typ + ":" + payload + "\n") }
		lbl := m.label
		// ---- line level, every message ----
		add(lbl+"-line", "missing")
		add(lbl+"-line", "dup", m.raw, m.raw)
		add(lbl+"-line", "unknown-type", line("XYZ", m.payload), m.bin)
		add(lbl+"-line", "lower-type", line(strings.ToLower(m.typ), m.payload), m.bin)
		add(lbl+"-line", "no-colon", []byte("#"+m.typ+m.payload+"\n"), m.bin)
		add(lbl+"-line", "no-hash", []byte(m.typ+":"+m.payload+"\n"), m.bin)
		add(lbl+"-line", "empty-type", line("", m.payload), m.bin)
		add(lbl+"-line", "colon-first", []byte(":"+m.payload+"\n"), m.bin).must = i < 6 // what the splitters cut at index 0
		add(lbl+"-line", "type-only", []byte("#"+m.typ+"\n"), m.bin)
		add(lbl+"-line", "empty-payload", line(m.typ, ""), m.bin)
		add(lbl+"-line", "blank", []byte("\n"))
		add(lbl+"-line", "cut", m.raw[:len(m.raw)/2]) // truncated in the middle, no newline: runs into the next line
		add(lbl+"-line", "garbage", []byte("\x00\xff\xee\x1b[2J#:#:\x80\n"))
		add(lbl+"-line", "long-1MB", line(m.typ, string(c12Long1MB)), m.bin)
		add(lbl+"-line", "FAIL", line("FAIL", c12B64z([]byte("boom"))))
		add(lbl+"-line", "fail", line("fail", c12B64z([]byte("boom"))))
		add(lbl+"-line", "FAIL-raw", line("FAIL", "%%%"))
		add(lbl+"-line", "EXIT-early", line("EXIT", c12B64z([]byte("bye"))))
		add(lbl+"-line", "crlf", []byte("#"+m.typ+":"+m.payload+"\r\n"), m.bin)

		isInt := c12IntRe.MatchString(m.payload)
		isAck := c12AckRe.MatchString(m.payload)
		switch {
		case m.typ == "DATA" && (m.bin != nil || (s.cfg.binary && isInt)):
			// binary chunk header
			for _, v := range c12IntVals(m.payload) {
				mu := add("DATA-size", v.class, line("DATA", v.text), m.bin)
				switch v.class { // the quick tier: the values on both sides of every bound the code knows
				case "-1", "0", "2^31-1", "2^31", "2^33", "2^62", "2^63-1", "2^63", "orig*2", "orig+1", "nonnum", "empty":
					mu.must = true
				}
			}
			if len(m.bin) > 2 {
				add("DATA-bin", "short-payload", line("DATA", m.payload), m.bin[:len(m.bin)/2])
				add("DATA-bin", "no-payload", line("DATA", m.payload))
				add("DATA-bin", "bad-escape", line("DATA", m.payload), append(append([]byte(nil), m.bin[:len(m.bin)-2]...), 0xee, 0x00))
				add("DATA-bin", "lone-leader", line("DATA", m.payload), append(append([]byte(nil), m.bin[:len(m.bin)-1]...), 0xee))
				fl := append([]byte(nil), m.bin...)
				for k := 0; k < len(fl); k += 97 {
					fl[k] ^= 0x55
				}
				add("DATA-bin", "corrupt", line("DATA", m.payload), fl)
			}
		case m.typ == "DATA":
			p := m.payload
			if len(p) > 8 {
				add("DATA-b64", "trunc1", line("DATA", p[:len(p)-1]))
				add("DATA-b64", "trunc-half", line("DATA", p[:len(p)/2]))
				add("DATA-b64", "badchar", line("DATA", p[:len(p)/2]+"!"+p[len(p)/2+1:]))
				if raw, err := base64.StdEncoding.DecodeString(p); err == nil && len(raw) > 8 {
					fl := append([]byte(nil), raw...)
					for k := 4; k < len(fl); k += 61 {
						fl[k] ^= 0xa5
					}
					add("DATA-b64", "corrupt", line("DATA", base64.StdEncoding.EncodeToString(fl)))
					add("DATA-b64", "inner-trunc", line("DATA", base64.StdEncoding.EncodeToString(raw[:len(raw)/2])))
					add("DATA-b64", "zstd-magic-only", line("DATA", base64.StdEncoding.EncodeToString([]byte{0x28, 0xb5, 0x2f, 0xfd})))
					// zstd frame headers announcing an enormous window / content size
					add("DATA-b64", "zstd-huge-window", line("DATA", base64.StdEncoding.EncodeToString([]byte{0x28, 0xb5, 0x2f, 0xfd, 0x00, 0xf8, 0xff, 0xff, 0xff, 0xff})))
					add("DATA-b64", "zstd-huge-content", line("DATA", base64.StdEncoding.EncodeToString([]byte{0x28, 0xb5, 0x2f, 0xfd, 0xe0, 0xff, 0xff, 0xff, 0xff, 0xff, 0xff, 0xff, 0x7f, 0x01, 0x00, 0x00})))
				}
			}
			add("DATA-b64", "not-b64", line("DATA", "@@@@"))
			add("DATA-b64", "digits", line("DATA", "8589934592"))
		case isAck:
			t := strings.SplitN(m.payload, "/", 2)
			for _, v := range c12IntVals(t[0]) {
				add(lbl+"-len", v.class, line(m.typ, v.text+"/"+t[1]))
			}
			for _, v := range c12IntVals(t[1]) {
				add(lbl+"-step", v.class, line(m.typ, t[0]+"/"+v.text)).must = v.class == "2^62" || v.class == "-1"
			}
			add(lbl+"-tokens", "1", line(m.typ, t[0]))
			add(lbl+"-tokens", "3", line(m.typ, m.payload+"/1"))
			add(lbl+"-tokens", "slash-only", line(m.typ, "/"))
		case isInt:
			for _, v := range c12IntVals(m.payload) {
				mu := add(lbl, v.class, line(m.typ, v.text))
				// a negative announced size / count followed by the recorded data, on the receiving
				// client with a progress display
				mu.must = showsProgress && (lbl == "SIZE" || lbl == "NUM") && (v.class == "-1" || v.class == "-7" || v.class == "-2^63")
			}
		case m.typ == "COMP":
			for _, v := range []string{"maybe", "TRUE", "1", "truefalse"} {
				add("COMP", v, line("COMP", v))
			}
			flip := "true"
			if m.payload == "true" {
				flip = "false"
			}
			add("COMP", "flipped", line("COMP", flip))
		default:
			// base64(zlib(...)) payload
			p := m.payload
			if len(p) > 4 {
				add(lbl+"-b64", "trunc1", line(m.typ, p[:len(p)-1]))
				add(lbl+"-b64", "badchar", line(m.typ, "!"+p[1:]))
			}
			add(lbl+"-b64", "not-zlib", line(m.typ, base64.StdEncoding.EncodeToString([]byte("plain text, no zlib header"))))
			if raw, err := base64.StdEncoding.DecodeString(p); err == nil && len(raw) > 6 {
				add(lbl+"-zlib", "trunc", line(m.typ, base64.StdEncoding.EncodeToString(raw[:len(raw)/2])))
				fl := append([]byte(nil), raw...)
				fl[len(fl)/2] ^= 0xff
				add(lbl+"-zlib", "corrupt", line(m.typ, base64.StdEncoding.EncodeToString(fl)))
				add(lbl+"-zlib", "header-only", line(m.typ, base64.StdEncoding.EncodeToString(raw[:2])))
			}
			add(lbl+"-zlib", "bomb-8MB", line(m.typ, c12B64z(make([]byte, 8<<20))))
			if thorough {
				// 87 KB on the wire, 64 MiB after zlib: reported under its own key (amplification, not a length field)
				add("zlib", "bomb-64MB", line(m.typ, c12Bomb())).amplify = true
			}
			js, err := decodeLinePayload(p)
			if err != nil {
				break
			}
			muts := c12JSONMutations(lbl, js)
			for _, jm := range muts {
				mu := add(jm.field, jm.val, line(m.typ, c12B64z(jm.doc)))
				if jm.field == "CFG-tmux_pane_width" || jm.field == "HASH-step" || jm.field == "CFG-bufsize" || jm.field == "SUCC-hashack-step" {
					mu.must = jm.val == "5e7" || jm.val == "2^31-1" || jm.val == "-1" || jm.val == "2^62" || jm.val == "2^33"
				}
				if showsProgress && jm.field == "NAME-size" {
					mu.must = jm.val == "-1" || jm.val == "-7" || jm.val == "-2^63"
				}
			}
			if len(muts) == 0 {
				// a plain string / bytes payload (NAME without -d, MD5, EXIT)
				add(lbl+"-str", "empty", line(m.typ, c12B64z(nil)))
				add(lbl+"-str", "long-1MB", line(m.typ, c12B64z(bytes.Repeat([]byte("A"), 1<<20))))
				add(lbl+"-str", "ctrl", line(m.typ, c12B64z([]byte("\x00\n\x1b[2J\xff\xfe../../x"))))
				add(lbl+"-str", "json", line(m.typ, c12B64z([]byte(`{"path_id":0,"path_name":["x"],"size":-1}`))))
				fl := append([]byte(nil), js...)
				if len(fl) > 0 {
					fl[0] ^= 1
				}
				add(lbl+"-str", "flipped", line(m.typ, c12B64z(fl)))
			}
		}
	}
	return out
}

// the archive entry header inside the data of an archive transfer: rebuild the data
// frames around a mutated header (receiving role only; recorded with -c no, so the
// frames are the base64 of the archive stream itself)
func c12ArchiveMutants(s *c12Scn, role string, msgs []c12Msg) []*c12Mutant {
	if s.kind != "archive" || s.cfg.binary {
		return nil
	}
	first, last := -1, -1
	var stream []byte
	for i, m := range msgs {
		if m.typ == "DATA" {
			if first < 0 {
				first = i
			}
			last = i
			raw, err := base64.StdEncoding.DecodeString(m.payload)
			if err != nil {
				return nil
			}
			stream = append(stream, raw...)
		}
	}
	if first < 0 || len(stream) == 0 {
		return nil
	}
	nl := bytes.IndexByte(stream, '\n')
	if nl < 0 {
		return nil
	}
	hdr, err := decodeLinePayload(string(stream[:nl]))
	if err != nil {
		return nil
	}
	rebuild := func(ns []byte) []byte {
		var b bytes.Buffer
		for j, m := range msgs {
			if j < first || j > last {
				b.Write(m.raw)
			} else if j == first {
				b.WriteString("#DATA:" + base64.StdEncoding.EncodeToString(ns) + "\n#DATA:\n")
			}
		}
		return b.Bytes()
	}
	var out []*c12Mutant
	for _, jm := range c12JSONMutations("ARCHIVE", hdr) {
		if !strings.HasPrefix(jm.field, "ARCHIVE-size") && !strings.HasPrefix(jm.field, "ARCHIVE-json") && !strings.HasPrefix(jm.field, "ARCHIVE-path_name") &&
			!strings.HasPrefix(jm.field, "ARCHIVE-is_dir") && !strings.HasPrefix(jm.field, "ARCHIVE-path_id") && !strings.HasPrefix(jm.field, "ARCHIVE-perm") {
			continue
		}
		ns := append([]byte(c12B64z(jm.doc)), stream[nl:]...)
		out = append(out, &c12Mutant{scn: s, role: role, idx: first, field: jm.field, val: jm.val, whole: rebuild(ns)})
	}
	// entry kinds the honest sender never produces: a DIRECTORY that announces a size (the writer then has a
	// byte count but no file), a file with a non-positive or absurd size, an entry under a path id that was
	// never announced, a name the destination refuses - each followed by the recorded data
	var hm map[string]json.RawMessage
	if json.Unmarshal(hdr, &hm) == nil {
		combo := func(val string, kv ...string) {
			m := map[string]json.RawMessage{}
			for k, v := range hm {
				m[k] = v
			}
			for i := 0; i+1 < len(kv); i += 2 {
				m[kv[i]] = json.RawMessage(kv[i+1])
			}
			doc, _ := json.Marshal(m)
			ns := append([]byte(c12B64z(doc)), stream[nl:]...)
			out = append(out, &c12Mutant{scn: s, role: role, idx: first, field: "ARCHIVE-entry", val: val, whole: rebuild(ns), must: true})
		}
		for _, sz := range []c12Val{{"5", "5"}, {"1", "1"}, {"2^62", "4611686018427387904"}, {"-1", "-1"}, {"0", "0"}} {
			combo("dir+size="+sz.class, "is_dir", "true", "size", sz.text)
			combo("file+size="+sz.class, "is_dir", "false", "size", sz.text)
		}
		combo("unknown-path-id", "path_id", "77")
		combo("name-dotdot", "path_name", `["d","..",".."]`)
		combo("name-root-only", "path_name", `["d"]`, "is_dir", "false", "size", "3")
		combo("dir-onto-nothing+size", "path_name", `["d","new","deeper"]`, "is_dir", "true", "size", "9")
	}
	no := append([]byte(strings.Repeat("A", 4<<20)), stream[nl:]...) // 4 MiB header line
	out = append(out, &c12Mutant{scn: s, role: role, idx: first, field: "ARCHIVE-header", val: "long-4MB", whole: rebuild(no)})
	return out
}

// ---------------------------------------------------------------------------------------
// running one mutant against the real role

type c12Result struct {
	Crashed     string `json:"crashed"`     // the crash text found on stderr ("" = none)
	Recovered   string `json:"recovered"`   // a panic that was recovered and reported through a FAIL line / final message
	Exited      bool   `json:"exited"`      // server: process exited; client: returned to idle
	Interrupted bool   `json:"interrupted"` // only after the user's interrupt
	Hung        bool   `json:"hung"`        // not even then
	MaxRSSKB    int64  `json:"max_rss_kb"`
	ProbeOK     bool   `json:"probe_ok"` // client only
	ActSeen     bool   `json:"act_seen"`
	ExitCode    int    `json:"exit_code"`
	DurMs       int64  `json:"dur_ms"`
	StderrHead  string `json:"stderr_head"`
	Note        string `json:"note"`
}

var c12CrashRe = regexp.MustCompile(`(?m)^(panic: .*|fatal error: .*|runtime: .*|SIGSEGV.*|unexpected fault address.*)$`)
var c12RecoveredRe = regexp.MustCompile(`runtime error|makeslice|index out of range|slice bounds out of range|nil pointer|negative Repeat|bytes\.Buffer: too large|Repeat output length overflow`)

func c12Tail(b []byte, n int) string {
	if len(b) > n {
		b = b[:n]
	}
	return string(b)
}

func c12ServerArgs(s *c12Scn, dest string) (string, []string) {
	cfg := s.cfg
	var args []string
	if cfg.binary {
		args = append(args, "-b")
	}
	if cfg.escape {
		args = append(args, "-e")
	}
	if cfg.directory {
		args = append(args, "-d")
	}
	if cfg.overwrite {
		args = append(args, "-y")
	}
	if cfg.quiet {
		args = append(args, "-q")
	}
	if cfg.compress != "" {
		args = append(args, "-c", cfg.compress)
	}
	args = append(args, "-t", fmt.Sprint(cfg.timeout))
	if cfg.upload {
		return "trz", append(args, dest)
	}
	return "tsz", append(args, s.tops...)
}

type c12CapBuf struct {
	mu  sync.Mutex
	b   bytes.Buffer
	cap int
}

func (c *c12CapBuf) Write(p []byte) (int, error) {
	c.mu.Lock()
	if c.b.Len() < c.cap {
		k := c.cap - c.b.Len()
		if k > len(p) {
			k = len(p)
		}
		c.b.Write(p[:k])
	}
	c.mu.Unlock()
	return len(p), nil
}
func (c *c12CapBuf) Close() error { return nil }
func (c *c12CapBuf) Bytes() []byte {
	c.mu.Lock()
	defer c.mu.Unlock()
	return append([]byte(nil), c.b.Bytes()...)
}
func (c *c12CapBuf) Contains(x []byte) bool {
	c.mu.Lock()
	defer c.mu.Unlock()
	return bytes.Contains(c.b.Bytes(), x)
}

// one replay = one child process of the harness (`corr c12-child <job>`): for the client role
// the child IS the process under attack (the filter runs in it); for the server role the child
// starts trz / tsz, so that the rusage it gets back is not polluted by the size of the harness
// (ru_maxrss of a child starts at the parent's RSS at fork time).
type c12Job struct {
	Role     string   `json:"role"`
	Upload   bool     `json:"upload"`
	Src      []string `json:"src"`
	Dest     string   `json:"dest"`
	Bin      string   `json:"bin"`
	Args     []string `json:"args"`
	TimeoutS int      `json:"timeout_s"`
	WirePath string   `json:"wire_path"`
	ASLimit  uint64   `json:"as_limit"`
	// role "handshake": a complete transfer between the real client (in this child) and the real
	// server with one member of one handshake line replaced on the wire
	Binary     bool   `json:"binary"`
	Proto      int    `json:"proto"`
	Compress   string `json:"compress"`
	Quiet      bool   `json:"quiet"`
	RewriteTyp string `json:"rewrite_typ"` // CFG (server -> client) or ACT (client -> server)
	RewriteKey string `json:"rewrite_key"`
	RewriteRaw string `json:"rewrite_raw"` // JSON text of the new value
	// role "bufevo": acknowledgement sequences for the real pipelineRecvAck goroutine
	Evo []c12EvoJob `json:"evo"`
	// role "relay": a real relay between a scripted client and a scripted server during its handshake
	RelayClient [][]byte `json:"relay_client"` // what the client side sends while the relay waits for the ACT
	RelayServer [][]byte `json:"relay_server"` // what the server side sends afterwards (the relay waits for the CFG)
	WinServer   bool     `json:"win_server"`
}

func c12SelfHWM() int64 {
	b, _ := os.ReadFile("/proc/self/status")
	for _, l := range strings.Split(string(b), "\n") {
		if strings.HasPrefix(l, "VmHWM:") {
			f := strings.Fields(l)
			if len(f) >= 2 {
				v, _ := strconv.ParseInt(f[1], 10, 64)
				return v
			}
		}
	}
	return 0
}

func c12Child(jobPath string) {
	var job c12Job
	b, err := os.ReadFile(jobPath)
	if err != nil || json.Unmarshal(b, &job) != nil {
		fmt.Println("C12RESULT {\"note\":\"bad job\"}")
		return
	}
	wire, _ := os.ReadFile(job.WirePath)
	var res c12Result
	t0 := time.Now()
	if job.Role == "server" {
		res = c12ChildServer(&job, wire)
	} else if job.Role == "relay" {
		res = c12ChildRelay(&job)
	} else if job.Role == "bufevo" {
		c12ChildEvo(&job)
		return
	} else if job.Role == "handshake" {
		res = c12ChildHandshake(&job)
	} else {
		res = c12ChildClient(&job, wire)
	}
	res.DurMs = time.Since(t0).Milliseconds()
	js, _ := json.Marshal(res)
	fmt.Println("C12RESULT " + string(js))
}

func c12ChildServer(job *c12Job, wire []byte) c12Result {
	var res c12Result
	script := fmt.Sprintf(`ulimit -v %d; exec "$0" "$@"`, job.ASLimit/1024)
	cmd := exec.Command("sh", append([]string{"-c", script, job.Bin}, job.Args...)...)
	var env []string
	for _, e := range os.Environ() {
		if !strings.HasPrefix(e, "TMUX=") && !strings.HasPrefix(e, "TMUX_PANE=") {
			env = append(env, e)
		}
	}
	cmd.Env = env
	stdin, _ := cmd.StdinPipe()
	stdout, _ := cmd.StdoutPipe()
	stderr := &c12CapBuf{cap: 1 << 20}
	cmd.Stderr = stderr
	if err := cmd.Start(); err != nil {
		res.Note = "start: " + err.Error()
		return res
	}
	out := &c12CapBuf{cap: 4 << 20}
	trig := make(chan struct{})
	rdDone := make(chan struct{})
	go func() {
		defer close(rdDone)
		buf := make([]byte, 32*1024)
		seen := false
		for {
			n, err := stdout.Read(buf)
			if n > 0 {
				out.Write(buf[:n])
				if !seen && out.Contains([]byte("::TRZSZ:TRANSFER:")) && buf[n-1] == '\n' {
					seen = true
					close(trig)
				}
			}
			if err != nil {
				if !seen {
					close(trig)
				}
				return
			}
		}
	}()
	select {
	case <-trig:
	case <-time.After(10 * time.Second):
	}
	go func() {
		// a real terminal never closes: stdin stays open after the wire has been written
		_, _ = stdin.Write(wire)
	}()
	done := make(chan struct{})
	go func() { <-rdDone; cmd.Wait(); close(done) }()
	select {
	case <-done:
		res.Exited = true
	case <-time.After(time.Duration(job.TimeoutS)*time.Second + 6*time.Second):
		res.Interrupted = true
		cmd.Process.Signal(syscall.SIGINT)
		select {
		case <-done:
			res.Exited = true
		case <-time.After(4 * time.Second):
			res.Hung = true
			cmd.Process.Kill()
			<-done
		}
	}
	stdin.Close()
	if ps := cmd.ProcessState; ps != nil {
		res.ExitCode = ps.ExitCode()
		if ru, ok := ps.SysUsage().(*syscall.Rusage); ok {
			res.MaxRSSKB = ru.Maxrss
		}
	}
	eb := stderr.Bytes()
	if m := c12CrashRe.Find(eb); m != nil {
		res.Crashed = string(m)
	}
	res.StderrHead = c12Tail(eb, 600)
	ob := out.Bytes()
	// the final message after the protocol lines
	if i := bytes.LastIndex(ob, []byte("\x1b8\x1b[0J")); i >= 0 {
		if c12RecoveredRe.Match(ob[i:]) {
			res.Recovered = c12Tail(ob[i:], 300)
		}
	}
	for _, l := range bytes.Split(ob, []byte("\n")) {
		if bytes.HasPrefix(l, []byte("#FAIL:")) || bytes.HasPrefix(l, []byte("#fail:")) {
			if msg, err := decodeLinePayload(string(l[6:])); err == nil && c12RecoveredRe.Match(msg) {
				res.Recovered = c12Tail(msg, 300)
			}
		}
	}
	return res
}

func c12WaitFor(d time.Duration, f func() bool) bool {
	end := time.Now().Add(d)
	for time.Now().Before(end) {
		if f() {
			return true
		}
		time.Sleep(2 * time.Millisecond)
	}
	return f()
}

// split the server->client wire into the part up to and including the trigger line and the rest
func c12SplitTrigger(w []byte) (trigger, rest []byte) {
	i := bytes.Index(w, []byte("::TRZSZ:TRANSFER:"))
	if i < 0 {
		return nil, w
	}
	nl := bytes.IndexByte(w[i:], '\n')
	if nl < 0 {
		return w, nil
	}
	return w[:i+nl+1], w[i+nl+1:]
}

func c12ChildClient(job *c12Job, wire []byte) c12Result {
	var res c12Result
	if job.ASLimit > 0 {
		lim := syscall.Rlimit{Cur: job.ASLimit, Max: job.ASLimit}
		_ = syscall.Setrlimit(syscall.RLIMIT_AS, &lim)
	}
	trigger, rest := c12SplitTrigger(wire)
	cliInR, cliInW := io.Pipe()
	svrOutR, svrOutW := io.Pipe()
	term := &c12CapBuf{cap: 8 << 20}
	toServer := &c12CapBuf{cap: 8 << 20}
	filter := trzsz.NewTrzszFilter(cliInR, term, toServer, svrOutR, trzsz.TrzszOptions{TerminalColumns: 100})
	if job.Upload {
		if _, err := filter.OneTimeUpload(job.Src); err != nil {
			res.Note = "OneTimeUpload: " + err.Error()
		}
	} else {
		filter.SetDefaultDownloadPath(job.Dest)
	}
	svrOutW.Write(trigger)
	res.ActSeen = c12WaitFor(3*time.Second, func() bool { return toServer.Contains([]byte("#ACT:")) })
	wrote := make(chan struct{})
	go func() { svrOutW.Write(rest); close(wrote) }()
	idle := func() bool { return !filter.IsTransferringFiles() }
	if res.ActSeen {
		res.Exited = c12WaitFor(time.Duration(job.TimeoutS)*time.Second+6*time.Second, idle)
		if !res.Exited {
			res.Interrupted = true
			filter.StopTransferringFiles(false)
			res.Exited = c12WaitFor(4*time.Second, idle)
		}
	} else {
		time.Sleep(300 * time.Millisecond)
		res.Exited = idle()
	}
	res.Hung = !res.Exited
	if res.Exited {
		// whatever is left of the mutated wire is ordinary terminal output now
		select {
		case <-wrote:
		case <-time.After(3 * time.Second):
		}
		time.Sleep(50 * time.Millisecond)
		probe := []byte("c12-probe-7f3a\r\n")
		go svrOutW.Write(probe)
		po := c12WaitFor(2*time.Second, func() bool { return term.Contains(probe[:14]) })
		go cliInW.Write([]byte("c12-typed-91e2"))
		pi := c12WaitFor(2*time.Second, func() bool { return toServer.Contains([]byte("c12-typed-91e2")) })
		res.ProbeOK = po && pi
		if !res.ProbeOK {
			res.Note += fmt.Sprintf(" probe-out=%v probe-in=%v", po, pi)
		}
	}
	for _, l := range bytes.Split(toServer.Bytes(), []byte("\n")) {
		if bytes.HasPrefix(l, []byte("#FAIL:")) || bytes.HasPrefix(l, []byte("#fail:")) {
			if msg, err := decodeLinePayload(string(l[6:])); err == nil && c12RecoveredRe.Match(msg) {
				res.Recovered = c12Tail(msg, 300)
			}
		}
	}
	res.MaxRSSKB = c12SelfHWM()
	return res
}

func (m *c12Mutant) run(work string, id int) {
	dir := filepath.Join(work, fmt.Sprintf("m%d", id))
	os.MkdirAll(dir, 0755)
	defer os.RemoveAll(dir)
	s := m.scn
	// hostile names ("../../x") go to real file-creating code: keep the destination deep inside our own root
	dest := filepath.Join(dir, "1", "2", "3", "4", "5", "6", "7", "8", "dest")
	s.prepDest(dest)
	job := c12Job{Role: m.role, Upload: s.cfg.upload, Src: s.tops, Dest: dest, TimeoutS: s.cfg.timeout,
		WirePath: filepath.Join(dir, "wire"), ASLimit: c12ASLimitBytes}
	bin, args := c12ServerArgs(s, dest)
	job.Bin, job.Args = filepath.Join(e2eBinDir, bin), args
	os.WriteFile(job.WirePath, m.wire(), 0644)
	js, _ := json.Marshal(job)
	jobPath := filepath.Join(dir, "job.json")
	os.WriteFile(jobPath, js, 0644)
	exe, _ := os.Executable()
	cmd := exec.Command(exe, "c12-child", jobPath)
	var stdout bytes.Buffer
	stderr := &c12CapBuf{cap: 1 << 20}
	cmd.Stdout = &stdout
	cmd.Stderr = stderr
	t0 := time.Now()
	var res c12Result
	if err := cmd.Start(); err != nil {
		res.Note = "start: " + err.Error()
		m.result = res
		return
	}
	done := make(chan struct{})
	go func() { cmd.Wait(); close(done) }()
	killed := false
	select {
	case <-done:
	case <-time.After(time.Duration(s.cfg.timeout)*time.Second + 40*time.Second):
		killed = true
		cmd.Process.Kill()
		<-done
	}
	if i := strings.LastIndex(stdout.String(), "C12RESULT "); i >= 0 {
		line := stdout.String()[i+10:]
		if nl := strings.IndexByte(line, '\n'); nl >= 0 {
			line = line[:nl]
		}
		_ = json.Unmarshal([]byte(line), &res)
	} else {
		// no result: for the client role the child is the client, and it is gone
		res.ExitCode = cmd.ProcessState.ExitCode()
		res.DurMs = time.Since(t0).Milliseconds()
		eb := stderr.Bytes()
		res.StderrHead = c12Tail(eb, 600)
		if mm := c12CrashRe.Find(eb); mm != nil {
			res.Crashed = string(mm)
		} else if killed {
			res.Hung = true
			res.Note = "child did not finish"
		} else {
			res.Crashed = fmt.Sprintf("child ended without a result (exit code %d)", res.ExitCode)
		}
	}
	m.result = res
}

// ---------------------------------------------------------------------------------------

func genHostile(c *ctx) {
	work, _ := os.MkdirTemp("", "c12_hostile_")
	defer os.RemoveAll(work)
	scns := c12Scenarios(c.thorough())
	for _, s := range scns {
		s.prepSource(work)
	}
	parallelDo(len(scns), 12, func(i int) { scns[i].record() })

	var all []*c12Mutant
	var baselines []*c12Mutant
	for _, s := range scns {
		if !s.okRec {
			c.violate("hostile-record:"+s.name, "a fault-free transfer for recording a transcript failed", s.recErr)
			continue
		}
		c.count("scenario:" + s.kind)
		for _, role := range []string{"server", "client"} {
			w := s.wire[0]
			if role == "client" {
				w = s.wire[1]
			}
			msgs := c12ParseWire(w, s.cfg.binary, s.cfg.proto)
			baselines = append(baselines, &c12Mutant{scn: s, role: role, idx: -1, field: "baseline", val: "unchanged", whole: w})
			all = append(all, c12Mutate(s, role, msgs, c.thorough())...)
			receiving := (role == "server") == s.cfg.upload
			if receiving {
				all = append(all, c12ArchiveMutants(s, role, msgs)...)
			}
			all = append(all, c12PairMutants(s, role, msgs)...)
		}
	}
	// the unmutated transcripts must replay cleanly, otherwise the replay itself is at fault
	parallelDo(len(baselines), c12Workers, func(i int) { baselines[i].run(work, 1000000+i) })
	usable := map[string]bool{}
	for _, b := range baselines {
		r := b.result
		ok := r.Crashed == "" && r.Exited && !r.Interrupted && !r.Hung && (b.role == "server" || (r.ProbeOK && r.ActSeen))
		c.note(true, fmt.Sprintf("hostile baseline %s %s ok=%v rss=%dKB dur=%dms", b.scn.name, b.role, ok, r.MaxRSSKB, r.DurMs))
		if ok {
			usable[b.scn.name+"/"+b.role] = true
		} else {
			c.violate("hostile-baseline:"+b.scn.name+":"+b.role, "the unmutated recorded transcript does not replay cleanly against the real role",
				fmt.Sprintf("crashed=%q exited=%v interrupted=%v hung=%v probe=%v act=%v exit=%d note=%s stderr=%q", r.Crashed, r.Exited, r.Interrupted, r.Hung,
					r.ProbeOK, r.ActSeen, r.ExitCode, r.Note, r.StderrHead))
		}
	}

	// selection
	var sel []*c12Mutant
	for _, m := range all {
		if usable[m.scn.name+"/"+m.role] {
			sel = append(sel, m)
		}
	}
	total := len(sel)
	if !c.thorough() {
		// every must-have mutant, one mutant per (field, role), then a random fill
		budget := 420
		seenFR := map[string]bool{}
		seenKey := map[string]bool{}
		perm := c.rng.Perm(len(sel))
		var pick []*c12Mutant
		for _, m := range sel {
			dk := m.key() + m.scn.name
			if strings.HasSuffix(m.field, "-line") || (m.pair != "" && !strings.Contains(m.pair, "HASH")) {
				// the line splitters and the size/length pairs behave alike in every scenario: once per role, plus
				// once per encoding for the pairs that involve a binary DATA header
				dk = m.key()
				if strings.Contains(m.pair, "DATA") {
					dk += fmt.Sprint(m.scn.cfg.proto)
				}
			}
			if m.must && !seenKey[dk] {
				seenKey[dk] = true
				pick = append(pick, m)
			}
		}
		c.count(fmt.Sprintf("selected-must:%d", len(pick)))
		for _, i := range perm {
			m := sel[i]
			if m.scn.mustOnly {
				continue
			}
			if !seenFR[m.field+m.role] && !m.must {
				seenFR[m.field+m.role] = true
				pick = append(pick, m)
			}
		}
		for _, i := range perm {
			if len(pick) >= budget {
				break
			}
			m := sel[i]
			if !m.must && !m.scn.mustOnly && !seenKey[m.key()] {
				seenKey[m.key()] = true
				pick = append(pick, m)
			}
		}
		sel = pick
	} else {
		// every (field, value, role) at least once, then a random fill: the same value on scenarios that
		// differ in protocol / encoding / progress reaches different code
		lim := 9000
		if len(sel) > lim {
			perm := c.rng.Perm(len(sel))
			seenKey := map[string]bool{}
			taken := map[int]bool{}
			var pick []*c12Mutant
			for _, i := range perm {
				if k := sel[i].key(); !seenKey[k] {
					seenKey[k] = true
					taken[i] = true
					pick = append(pick, sel[i])
				}
			}
			c.count(fmt.Sprintf("distinct-keys:%d", len(pick)))
			for _, i := range perm {
				if len(pick) >= lim {
					break
				}
				if !taken[i] {
					pick = append(pick, sel[i])
				}
			}
			sel = pick
		}
	}
	c.count(fmt.Sprintf("mutants-generated:%d", total))
	parallelDo(len(sel), c12Workers, func(i int) { sel[i].run(work, i) })

	for _, m := range sel {
		r := m.result
		desc := fmt.Sprintf("hostile %s %s msg#%d %s=%s => crashed=%q recovered=%v exited=%v interrupted=%v rss=%dKB", m.scn.name, m.role, m.idx, m.field, m.val,
			r.Crashed, r.Recovered != "", r.Exited, r.Interrupted, r.MaxRSSKB)
		c.note(true, desc)
		c.count("role:" + m.role)
		c.count("field:" + strings.SplitN(m.field, "-", 2)[0])
		if r.Interrupted {
			c.count("needed-interrupt:" + m.role)
		}
		detail := fmt.Sprintf("scenario=%s role=%s message#%d field=%s value=%s :: crashed=%q recovered=%q exited=%v interrupted=%v hung=%v probe=%v exit=%d peakRSS=%dKB dur=%dms note=%s stderr=%q",
			m.scn.name, m.role, m.idx, m.field, m.val, r.Crashed, r.Recovered, r.Exited, r.Interrupted, r.Hung, r.ProbeOK, r.ExitCode, r.MaxRSSKB,
			r.DurMs, r.Note, r.StderrHead)
		kind := strings.SplitN(m.key(), ":", 2)
		switch {
		case r.Crashed != "":
			c.violate(m.key(), "input from the other side crashed the "+m.role+" process: "+r.Crashed, detail)
		case r.MaxRSSKB > c12RSSLimitKB && m.amplify:
			// a decompression bomb: memory grows with the bytes actually received (zlib expands at
			// most ~1000x), not "on the strength of a single length field" - outside what the
			// property states; recorded as an observation in the evidence, not as a violation
			c.count(fmt.Sprintf("observation:%s:%dMB", m.key(), r.MaxRSSKB/1024))
		case r.MaxRSSKB > c12RSSLimitKB:
			c.violate(m.key(), fmt.Sprintf("input from the other side made the %s process use %d MB (bound %d MB)", m.role, r.MaxRSSKB/1024, c12RSSLimitKB/1024), detail)
		case r.Recovered != "":
			c.violate("hostile-recovered:"+kind[1], "input from the other side caused a panic that was recovered and reported: "+r.Recovered, detail)
		case r.Hung:
			c.violate("hostile-hang:"+kind[1], "the "+m.role+" did not end even after the user's interrupt", detail)
		case m.role == "client" && r.Exited && !r.ProbeOK:
			c.violate("hostile-unusable:"+kind[1], "after the failed transfer the client session no longer forwards input/output", detail)
		}
	}
}

// TWO numbers of the peer that bound each other, replaced TOGETHER by the same hostile value (so that a
// check of one against the other passes): NAME size x HASH step, SIZE line x HASH step, SIZE x DATA
// length, NUM x SIZE, CFG bufsize x DATA length.  The single-field mutants never get past such a check.
func c12PairMutants(s *c12Scn, role string, msgs []c12Msg) []*c12Mutant {
	idx := map[string]int{}
	for i, m := range msgs {
		l := m.label
		if m.typ == "DATA" && (m.bin != nil || (s.cfg.binary && c12IntRe.MatchString(m.payload))) {
			l = "DATA-size"
		} else if m.typ == "DATA" {
			continue
		}
		if l == "NAME" || l == "HASH" || l == "CFG" {
			if js, err := decodeLinePayload(m.payload); err != nil || !bytes.HasPrefix(bytes.TrimSpace(js), []byte("{")) {
				continue
			}
		}
		if l == "HASH" {
			if js, _ := decodeLinePayload(m.payload); !bytes.Contains(js, []byte(`"step"`)) || bytes.Contains(js, []byte(`"over":true`)) {
				continue
			}
		}
		if _, seen := idx[l]; !seen {
			idx[l] = i
		}
	}
	vals := []c12Val{{"2^62", "4611686018427387904"}, {"-1", "-1"}, {"2^31", "2147483648"}, {"2^33", "8589934592"}, {"2^63-1", "9223372036854775807"}, {"0", "0"}}
	set := func(m c12Msg, key, v string) []byte {
		if key == "" { // an integer line
			return append([]byte("#"+m.typ+":"+v+"\n"), m.bin...)
		}
		nb, ok := c12RewriteMember(m.raw, m.typ, key, v)
		if !ok {
			return m.raw
		}
		return nb
	}
	var out []*c12Mutant
	pair := func(name, la, ka, lb, kb string) {
		ia, oka := idx[la]
		ib, okb := idx[lb]
		if !oka || !okb || ia == ib {
			return
		}
		for _, v := range vals {
			var b bytes.Buffer
			for j, m := range msgs {
				switch j {
				case ia:
					b.Write(set(m, ka, v.text))
				case ib:
					b.Write(set(m, kb, v.text))
				default:
					b.Write(m.raw)
				}
			}
			out = append(out, &c12Mutant{scn: s, role: role, idx: ia, field: name, val: v.class, pair: name, whole: b.Bytes(),
				must: v.class == "2^62" || v.class == "-1" || v.class == "2^31"})
		}
	}
	pair("NAME-size-HASH-step", "NAME", "size", "HASH", "step")
	pair("SIZE-HASH-step", "SIZE", "", "HASH", "step")
	pair("SIZE-DATA-size", "SIZE", "", "DATA-size", "")
	pair("NUM-SIZE", "NUM", "", "SIZE", "")
	pair("NAME-size-SIZE", "NAME", "size", "SIZE", "")
	pair("CFG-bufsize-DATA-size", "CFG", "bufsize", "DATA-size", "")
	pair("SUCC-size-SUCC-final", "SUCC-size", "", "SUCC-final", "")
	return out
}
