package main

// C17 — only the authenticated tunnel connection, and only one.
//
// Group "tunnel": the REAL tunnel code (getHelloConstant, acceptOnTunnel, connectToTunnel,
// addReceivedData, sendAction, recvAction, wrapTransferInput; through
// /repo/trzsz/export_verif_tunnel.go) on REAL sockets on 127.0.0.1, in this process.
//
//   tunnel_hello   getHelloConstant                       vs  Tunnel.client_hello / server_hello
//   tunnel_run     a scenario driven one event at a time  vs  TunnelReplay.rreplay (trace replay of
//                  (connect / write / close / in-band / ACT) the interleaving model, fixed scheduler)
//   tunnel_client  connectToTunnel + sendAction against a  vs  Tunnel.client_decides
//                  scripted far end
//   racy runs      all connections at once, random delays: direct oracles only
//
// Direct oracles (c.violate) in every run: a connection whose byte stream does not begin with
// the hello got an answer; an answer that is not exactly the server hello; more than one / a
// non-authenticated connection adopted; bytes of a non-adopted connection in the transfer's
// buffer; an unauthenticated connection not closed; in-band bytes reaching the buffer after
// tunnelConnected; sendAction stuck; ACT flag / writer inconsistent with adoption.

import (
	"bytes"
	"encoding/json"
	"fmt"
	"math/rand"
	"net"
	"strconv"
	"strings"
	"sync"
	"time"

	"github.com/trzsz/trzsz-go/trzsz"
)

func init() { groups["tunnel"] = genC17Tunnel }

// ---- far ends of connections ----

type c17Peer struct {
	idx     int
	conn    net.Conn
	refused bool
	local   string
	mu      sync.Mutex
	got     []byte // everything the server wrote to it
	closed  bool   // EOF / reset seen
	sent    []byte // everything we wrote
	first   []byte // our first write
	selfEnd bool   // we closed it ourselves
}

func c17Dial(port int, idx int) *c17Peer {
	p := &c17Peer{idx: idx}
	conn, err := net.DialTimeout("tcp", "127.0.0.1:"+strconv.Itoa(port), 2*time.Second)
	if err != nil {
		p.refused = true
		return p
	}
	p.conn = conn
	p.local = conn.LocalAddr().String()
	go func() {
		buf := make([]byte, 4096)
		for {
			n, err := conn.Read(buf)
			p.mu.Lock()
			if n > 0 {
				p.got = append(p.got, buf[:n]...)
			}
			if err != nil {
				p.closed = true
				p.mu.Unlock()
				return
			}
			p.mu.Unlock()
		}
	}()
	return p
}

func (p *c17Peer) write(b []byte) {
	if p.conn == nil {
		return
	}
	if len(p.sent) == 0 {
		p.first = append([]byte(nil), b...)
	}
	p.sent = append(p.sent, b...)
	p.conn.SetWriteDeadline(time.Now().Add(2 * time.Second))
	p.conn.Write(b)
}

func (p *c17Peer) state() (got []byte, closed bool) {
	p.mu.Lock()
	defer p.mu.Unlock()
	return append([]byte(nil), p.got...), p.closed
}

// waitResponse: until the server answered or closed (or the deadline passed)
func (p *c17Peer) waitResponse(d time.Duration) {
	end := time.Now().Add(d)
	for time.Now().Before(end) {
		g, c := p.state()
		if len(g) > 0 || c {
			return
		}
		time.Sleep(200 * time.Microsecond)
	}
}

func (p *c17Peer) end() {
	if p.conn != nil && !p.selfEnd {
		p.selfEnd = true
		p.conn.Close()
	}
}

// obs: X refused, P we closed it ourselves (nothing more observable), R<hex>[C] answered,
// C closed without an answer, O open and silent
func (p *c17Peer) obs() string {
	if p.refused {
		return "X"
	}
	g, c := p.state()
	if p.selfEnd {
		if len(g) > 0 {
			return "R" + hx(g) + "P"
		}
		return "P"
	}
	if len(g) > 0 {
		// whether an answered connection is closed later is not compared: a connection that lost the
		// CompareAndSwap is simply dropped by the code, and the Go runtime's finalizer closes its
		// descriptor whenever the garbage collector gets to it (seen: 37 of 220 scenarios; none with GC off)
		return "R" + hx(g)
	}
	if c {
		return "C"
	}
	return "O"
}

func c17WaitUntil(d time.Duration, f func() bool) bool {
	end := time.Now().Add(d)
	for {
		if f() {
			return true
		}
		if time.Now().After(end) {
			return false
		}
		time.Sleep(200 * time.Microsecond)
	}
}

// ---- kinds of connection behaviour ----

const (
	c17Wrong = iota
	c17PrefixWrongID
	c17Right
	c17Split
	c17Extended
	c17Full13
	c17Flood
	c17Silent
	c17CloseNow
	c17ServerHello
	c17NKinds
)

var c17KindName = []string{"wrong", "prefix-wrong-id", "right", "split", "extended", "full-13-digit-id", "flood", "silent", "close-now", "server-hello"}

func c17RandID(rng *rand.Rand) string {
	return fmt.Sprintf("%011d%s", rng.Int63n(1e11), []string{"00", "10", "20"}[rng.Intn(3)])
}

// the writes a connection of this kind performs first
func c17Script(rng *rand.Rand, kind int, uid string, port int) [][]byte {
	ch, sh := trzsz.VerifGetHelloConstant(uid, port)
	switch kind {
	case c17Wrong:
		return [][]byte{[][]byte{[]byte("HELLO"), []byte("GET / HTTP/1.0\r\n\r\n"), {0}, []byte("::TRZSZ::CLIENT::HELLO::"), []byte(ch[:len(ch)-1])}[rng.Intn(5)]}
	case c17PrefixWrongID:
		other := uid
		for other[:11] == uid[:11] {
			other = c17RandID(rng)
		}
		if rng.Intn(3) == 0 { // right id, wrong port
			w, _ := trzsz.VerifGetHelloConstant(uid, port+1+rng.Intn(9))
			return [][]byte{[]byte(w)}
		}
		w, _ := trzsz.VerifGetHelloConstant(other, port)
		return [][]byte{[]byte(w)}
	case c17Right:
		return [][]byte{[]byte(ch)}
	case c17Split:
		k := 1 + rng.Intn(len(ch)-1)
		return [][]byte{[]byte(ch[:k]), []byte(ch[k:])}
	case c17Extended:
		return [][]byte{[]byte(ch + []string{"\n", "X", "#ACT:", ch}[rng.Intn(4)])}
	case c17Full13:
		return [][]byte{[]byte(fmt.Sprintf("::TRZSZ::CLIENT::HELLO::%s:%d", uid, port))}
	case c17Flood:
		b := make([]byte, 300+rng.Intn(6000))
		if rng.Intn(2) == 0 {
			copy(b, ch)
			for i := len(ch); i < len(b); i++ {
				b[i] = '#'
			}
		} else {
			rng.Read(b)
		}
		return [][]byte{b}
	case c17ServerHello:
		return [][]byte{[]byte(sh)}
	}
	return nil // silent, close-now
}

func c17Authenticates(stream []byte, uid string, port int) bool {
	ch, _ := trzsz.VerifGetHelloConstant(uid, port)
	return bytes.HasPrefix(stream, []byte(ch))
}

// ---- events ----

type c17Ev struct {
	op   byte // 'c' connect, 'w' write, 'x' close, 'i' in-band, 'a' ACT seen with tunnel=flag, 'A' same with tunnel=false
	conn int
	data []byte
}

func c17EvString(evs []c17Ev) string {
	if len(evs) == 0 {
		return "-"
	}
	parts := make([]string, len(evs))
	for i, e := range evs {
		switch e.op {
		case 'c':
			parts[i] = "c"
		case 'w':
			parts[i] = "w" + strconv.Itoa(e.conn) + ":" + hx(e.data)
		case 'x':
			parts[i] = "x" + strconv.Itoa(e.conn)
		case 'i':
			parts[i] = "i:" + hx(e.data)
		case 'a':
			parts[i] = "a1"
		case 'A':
			parts[i] = "a0"
		}
	}
	return strings.Join(parts, ",")
}

func c17ActLine(tunnel bool) []byte {
	js, _ := json.Marshal(map[string]any{"lang": "go", "version": "1.1.8", "confirm": true, "newline": "\n", "protocol": 4,
		"binary": true, "support_dir": true, "tunnel": tunnel})
	return append(encodeLine("ACT", js), '\n')
}

// c17Scenario drives one real server through a sequence of events, one at a time.
type c17Scenario struct {
	c       *ctx
	rng     *rand.Rand
	uid     string
	srv     *trzsz.VerifTunnelEnd // nil when the server is a child process (e2e)
	port    int
	peers   []*c17Peer
	evs     []c17Ev
	kinds   []int
	log     []byte // everything that entered the transfer's buffer
	adopted int
	confirm int // connections with index < confirm are known to have been accepted
	desc    []string
	mu      sync.Mutex // guards evs, desc, uid, port: a watchdog may describe a scenario that is still running
}

func (sc *c17Scenario) addEv(e c17Ev) {
	sc.mu.Lock()
	sc.evs = append(sc.evs, e)
	sc.mu.Unlock()
}

func (sc *c17Scenario) addDesc(s string) {
	sc.mu.Lock()
	sc.desc = append(sc.desc, s)
	sc.mu.Unlock()
}

// ---- watchdogs ----
//
// Every scenario of the groups "tunnel" and "tunnel-e2e" runs under its own watchdog: a scenario
// that does not finish in time is ABANDONED (its goroutines leak inside this process; they only
// ever block or sleep) and reported through c.violate with the scenario as detail.  A running
// scenario owns everything it touches (its own ctx, its own result record), so an abandoned one
// is simply never looked at again.  After c17StuckLimit abandoned scenarios of one class the rest
// of that class is skipped (the violation has been reported; the check stays short on any tree).

const c17StuckLimit = 2

// a scenario takes some tens of milliseconds (the one-second client kinds 1.2 s); the waits inside a
// scenario are 2-4 s each
const c17ScenarioLimit = 12 * time.Second

// connectToTunnel gives up after tunnel_connect_timeout_ms (1 s); the grace period of the oracle is 2.5 s
const c17SendActionLimit = 4 * time.Second

var c17StuckMu sync.Mutex
var c17StuckN = map[string]int{}

func c17StuckCount(class string) int {
	c17StuckMu.Lock()
	defer c17StuckMu.Unlock()
	return c17StuckN[class]
}

func c17StuckAdd(class string) {
	c17StuckMu.Lock()
	c17StuckN[class]++
	c17StuckMu.Unlock()
}

// c17Guard runs f in its own goroutine and waits at most d for its result.
func c17Guard[T any](d time.Duration, f func() T) (res T, finished bool) {
	ch := make(chan T, 1)
	go func() { ch <- f() }()
	t := time.NewTimer(d)
	defer t.Stop()
	select {
	case res = <-ch:
		return res, true
	case <-t.C:
		return res, false
	}
}

// c17Progress lets the watchdog say how far an abandoned scenario got.
type c17Progress struct {
	mu sync.Mutex
	sc *c17Scenario
	at string
}

func (p *c17Progress) set(sc *c17Scenario) {
	p.mu.Lock()
	p.sc = sc
	p.mu.Unlock()
}

func (p *c17Progress) step(at string) {
	if p == nil {
		return
	}
	p.mu.Lock()
	p.at = at
	p.mu.Unlock()
}

func (p *c17Progress) String() string {
	p.mu.Lock()
	sc, at := p.sc, p.at
	p.mu.Unlock()
	s := ""
	if at != "" {
		s = "last step: " + at + " :: "
	}
	if sc == nil {
		return s + "(the scenario had not started its server)"
	}
	return s + sc.describe()
}

func (sc *c17Scenario) drain() {
	if sc.srv == nil {
		return
	}
	for _, b := range sc.srv.Drain() {
		sc.log = append(sc.log, b...)
	}
}

func (sc *c17Scenario) refreshAdopted() {
	if sc.srv == nil {
		return
	}
	_, remote := sc.srv.AdoptedAddrs()
	sc.adopted = -1
	if remote == "" {
		return
	}
	sc.adopted = -2 // somebody we do not know
	for _, p := range sc.peers {
		if p.local == remote {
			sc.adopted = p.idx
		}
	}
}

func (sc *c17Scenario) connect(kind int) *c17Peer {
	p := c17Dial(sc.port, len(sc.peers))
	sc.peers = append(sc.peers, p)
	sc.kinds = append(sc.kinds, kind)
	sc.addEv(c17Ev{op: 'c'})
	return p
}

// all earlier connections have been accepted once a later one has been handled (FIFO backlog)
func (sc *c17Scenario) confirmAccepted() {
	if sc.confirm >= len(sc.peers) || sc.adopted != -1 {
		return
	}
	p := sc.connect(c17Wrong)
	if p.refused {
		return
	}
	sc.write(p, []byte("probe"))
	sc.confirm = len(sc.peers)
}

func (sc *c17Scenario) write(p *c17Peer, b []byte) {
	if p.refused || p.selfEnd {
		return
	}
	first := len(p.sent) == 0
	_, closedBefore := p.state()
	if first && sc.adopted == -1 && c17Authenticates(b, sc.uid, sc.port) && len(b) <= 100 {
		sc.confirmAccepted()
	}
	before := len(sc.log)
	sc.drain()
	p.write(b)
	sc.addEv(c17Ev{op: 'w', conn: p.idx, data: b})
	switch {
	case first:
		p.waitResponse(3 * time.Second)
		if g, _ := p.state(); len(g) > 0 && sc.adopted == -1 {
			// answered: wait for the CAS, the pump and listener.Close() to have happened
			if sc.srv != nil {
				c17WaitUntil(3*time.Second, func() bool { _, r := sc.srv.AdoptedAddrs(); return r != "" })
			}
			sc.waitListenerClosed()
			if sc.srv != nil {
				sc.refreshAdopted()
			} else {
				sc.adopted = p.idx // driven one event at a time: the first answered connection is the adopted one
			}
		}
	case p.idx == sc.adopted && !closedBefore && sc.srv != nil:
		want := len(sc.log) - before + len(b)
		_ = want
		c17WaitUntil(3*time.Second, func() bool { sc.drain(); return len(sc.log)-before >= len(b) })
	default:
		time.Sleep(300 * time.Microsecond)
	}
	sc.drain()
}

func (sc *c17Scenario) waitListenerClosed() {
	c17WaitUntil(3*time.Second, func() bool {
		probe, err := net.DialTimeout("tcp", "127.0.0.1:"+strconv.Itoa(sc.port), time.Second)
		if err != nil {
			return true
		}
		probe.Close()
		return false
	})
}

func (sc *c17Scenario) inband(b []byte) {
	sc.srv.AddInband(b)
	sc.addEv(c17Ev{op: 'i', data: b})
	sc.drain()
}

// act: deliver an ACT line (in-band, or through the adopted connection) and run the real recvAction
func (sc *c17Scenario) act(tunnel bool, viaTunnel bool) string {
	sc.drain()
	line := c17ActLine(tunnel)
	if viaTunnel && sc.adopted >= 0 {
		p := sc.peers[sc.adopted]
		p.write(line)
		sc.addEv(c17Ev{op: 'w', conn: p.idx, data: line})
	} else {
		sc.srv.AddInband(line)
		sc.addEv(c17Ev{op: 'i', data: line})
	}
	type res struct {
		tun bool
		err error
	}
	ch := make(chan res, 1)
	go func() { t, e := sc.srv.RecvAction(); ch <- res{t, e} }()
	var r res
	select {
	case r = <-ch:
	case <-time.After(4 * time.Second):
		sc.srv.Stop()
		r = <-ch
		sc.c.violate("tunnel:recvAction-hang", "recvAction did not return although the ACT line was delivered", sc.describe())
	}
	sc.log = append(sc.log, line...) // recvAction consumed exactly this line
	if tunnel {
		sc.addEv(c17Ev{op: 'a'})
	} else {
		sc.addEv(c17Ev{op: 'A'})
	}
	if r.err != nil {
		return "E"
	}
	return "O"
}

func (sc *c17Scenario) describe() string {
	sc.mu.Lock()
	defer sc.mu.Unlock()
	return fmt.Sprintf("uid=%s port=%d kinds=[%s] events=%s", sc.uid, sc.port, strings.Join(sc.desc, " "), c17EvString(sc.evs))
}

// direct oracles on what the far ends saw and on what reached the buffer
func (sc *c17Scenario) oracles(tag string) {
	_, sh := trzsz.VerifGetHelloConstant(sc.uid, sc.port)
	nAdopted := 0
	for _, p := range sc.peers {
		g, closed := p.state()
		auth := c17Authenticates(p.sent, sc.uid, sc.port)
		kind := c17KindName[sc.kinds[p.idx]]
		if len(g) > 0 && !auth {
			sc.c.violate("tunnel:intruder-answered:"+kind, "a connection that never presented the hello of this transfer received bytes from the server",
				fmt.Sprintf("%s conn=%d sent=%q received=%q :: %s", tag, p.idx, c17Short(p.sent), c17Short(g), sc.describe()))
		}
		if len(g) > 0 && string(g) != sh {
			sc.c.violate("tunnel:answer-not-hello:"+kind, "the server wrote something other than exactly one server hello to a connection",
				fmt.Sprintf("%s conn=%d received=%q :: %s", tag, p.idx, c17Short(g), sc.describe()))
		}
		if p.idx == sc.adopted {
			nAdopted++
			if !auth {
				sc.c.violate("tunnel:unauthenticated-adopted:"+kind, "tunnelConn holds a connection that never presented the hello",
					fmt.Sprintf("%s conn=%d sent=%q :: %s", tag, p.idx, c17Short(p.sent), sc.describe()))
			}
		}
		definitelyUnauth := !auth && len(p.sent) > 0 && sc.kinds[p.idx] != c17Split
		if definitelyUnauth && !closed && !p.selfEnd && !p.refused {
			sc.c.violate("tunnel:intruder-not-closed:"+kind, "a connection that presented something else than the hello was not closed",
				fmt.Sprintf("%s conn=%d sent=%q :: %s", tag, p.idx, c17Short(p.sent), sc.describe()))
		}
	}
	if sc.adopted == -2 {
		sc.c.violate("tunnel:unknown-adopted", "tunnelConn holds a connection that is none of the harness's", tag+" :: "+sc.describe())
	}
	// every connection tags its payload <Dn>; only the adopted one's may be in the buffer
	for _, p := range sc.peers {
		if p.idx != sc.adopted && bytes.Contains(sc.log, []byte(fmt.Sprintf("<D%d>", p.idx))) {
			sc.c.violate("tunnel:foreign-bytes:"+c17KindName[sc.kinds[p.idx]], "bytes sent on a connection that was not adopted reached the transfer's input buffer",
				fmt.Sprintf("%s conn=%d buffer=%q :: %s", tag, p.idx, c17Short(sc.log), sc.describe()))
		}
	}
}

func c17Short(b []byte) string {
	if len(b) > 120 {
		return string(b[:120]) + fmt.Sprintf("...(%d bytes)", len(b))
	}
	return string(b)
}

func (sc *c17Scenario) finish() {
	for _, p := range sc.peers {
		p.end()
	}
	if sc.srv != nil {
		sc.srv.Cleanup()
	}
}

// one sequential scenario: emits a tunnel_run case
func c17Sequential(c *ctx, seed int64, forced []int, prog *c17Progress) *c17Line {
	rng := rand.New(rand.NewSource(seed))
	uid := c17RandID(rng)
	srv := trzsz.VerifNewTunnelServer(uid)
	if srv == nil {
		c.count("listen-failed")
		return nil
	}
	sc := &c17Scenario{c: c, rng: rng, uid: uid, srv: srv, port: srv.Port, adopted: -1}
	prog.set(sc)
	defer sc.finish()
	kinds := forced
	if kinds == nil {
		n := 1 + rng.Intn(6)
		for i := 0; i < n; i++ {
			k := rng.Intn(c17NKinds)
			if rng.Intn(3) == 0 {
				k = c17Right
			}
			kinds = append(kinds, k)
		}
	}
	// per connection: connect, its scripted writes, then tagged payload, maybe a close; interleaved at random
	type todo struct {
		kind  int
		peer  *c17Peer
		steps [][]byte // nil entry = close
		conn  bool
	}
	var todos []*todo
	for _, k := range kinds {
		t := &todo{kind: k}
		t.steps = append(t.steps, c17Script(rng, k, uid, 0)...) // port filled in below
		todos = append(todos, t)
		sc.addDesc(c17KindName[k])
	}
	for _, t := range todos { // scripts depend on the real port
		t.steps = c17Script(rng, t.kind, uid, srv.Port)
		if t.kind == c17CloseNow {
			t.steps = append(t.steps, nil)
		} else {
			if rng.Intn(2) == 0 {
				t.steps = append(t.steps, []byte("PAYLOAD"))
			}
			if rng.Intn(5) == 0 {
				t.steps = append(t.steps, nil)
			}
		}
	}
	live := append([]*todo(nil), todos...)
	inbandDone := false
	for len(live) > 0 {
		i := rng.Intn(len(live))
		t := live[i]
		switch {
		case !t.conn:
			t.peer = sc.connect(t.kind)
			t.conn = true
			// payload carries the connection's index
			for j, s := range t.steps {
				if string(s) == "PAYLOAD" {
					t.steps[j] = []byte(fmt.Sprintf("<D%d>#DATA:junk\n", t.peer.idx))
				}
			}
		case len(t.steps) > 0:
			s := t.steps[0]
			t.steps = t.steps[1:]
			if s == nil {
				if !t.peer.refused && !t.peer.selfEnd {
					// only close connections whose handler is gone or will just see EOF; the adopted one stays
					if t.peer.idx != sc.adopted {
						t.peer.end()
						sc.addEv(c17Ev{op: 'x', conn: t.peer.idx})
						time.Sleep(300 * time.Microsecond)
					}
				}
			} else {
				sc.write(t.peer, s)
			}
		}
		if t.conn && len(t.steps) == 0 {
			live = append(live[:i], live[i+1:]...)
		}
		if !inbandDone && rng.Intn(8) == 0 {
			sc.inband([]byte("<IB0>early\n"))
			inbandDone = true
		}
	}
	// the end game: ACT, in-band bytes after it, payload on the adopted and on a non-adopted connection
	act := "W"
	if rng.Intn(3) != 0 {
		tun := sc.adopted >= 0 && rng.Intn(4) != 0 || rng.Intn(6) == 0
		act = sc.act(tun, rng.Intn(2) == 0)
		sc.inband([]byte("<IB1>after-act\n"))
		if sc.adopted >= 0 {
			sc.write(sc.peers[sc.adopted], []byte(fmt.Sprintf("<D%d>late\n", sc.adopted)))
		}
		for _, p := range sc.peers {
			if p.idx != sc.adopted && !p.refused && !p.selfEnd {
				if _, cl := p.state(); !cl {
					sc.write(p, []byte(fmt.Sprintf("<D%d>late\n", p.idx)))
					break
				}
			}
		}
	}
	// where does output go now?
	writer := "-"
	if _, wr := srv.WriterAddrs(); wr != "" {
		writer = "?"
		for _, p := range sc.peers {
			if p.local == wr {
				writer = strconv.Itoa(p.idx)
			}
		}
	}
	time.Sleep(time.Duration(c.pick(15, 40)) * time.Millisecond) // silent connections: give the server a chance to (wrongly) answer
	sc.drain()
	sc.refreshAdopted()
	var obs []string
	for _, p := range sc.peers {
		obs = append(obs, p.obs())
	}
	ad := "-"
	if sc.adopted >= 0 {
		ad = strconv.Itoa(sc.adopted)
	} else if sc.adopted == -2 {
		ad = "?"
	}
	tc := "0"
	if srv.TunnelConnected() {
		tc = "1"
	}
	result := strings.Join(obs, ",") + "|a=" + ad + "|buf=" + hx(sc.log) + "|tc=" + tc + "|w=" + writer + "|act=" + act
	sc.oracles("sequential")
	// driven one event at a time the handler's single Read returns the first write (at most 100 bytes of it)
	for _, p := range sc.peers {
		fr := p.first
		if len(fr) > 100 {
			fr = fr[:100]
		}
		ch, _ := trzsz.VerifGetHelloConstant(uid, srv.Port)
		if g, _ := p.state(); len(g) > 0 && string(fr) != ch {
			c.violate("tunnel:inexact-greeting-answered:"+c17KindName[sc.kinds[p.idx]], "a connection whose first read was not exactly the hello was answered",
				fmt.Sprintf("conn=%d first write=%q :: %s", p.idx, c17Short(p.first), sc.describe()))
		}
	}
	if tc == "1" && bytes.Contains(sc.log, []byte("<IB1>")) {
		c.violate("tunnel:inband-after-connected", "an in-band chunk reached the transfer's buffer although tunnelConnected was set", sc.describe())
	}
	if tc == "0" && act != "W" && !bytes.Contains(sc.log, []byte("<IB1>")) {
		c.violate("tunnel:inband-lost", "tunnelConnected is false but an in-band chunk did not reach the transfer's buffer", sc.describe())
	}
	line := &c17Line{true, "tunnel_run", result, []string{hx([]byte(uid)), strconv.Itoa(srv.Port), c17EvString(sc.evs)}}
	for _, k := range kinds {
		c.count("kind:" + c17KindName[k])
	}
	c.count("adopted:" + strconv.FormatBool(sc.adopted >= 0))
	c.count("act:" + act)
	nAuth := 0
	for _, p := range sc.peers {
		if g, _ := p.state(); len(g) > 0 {
			nAuth++
		}
	}
	if nAuth >= 2 {
		c.count("losing-authenticated-connection")
	}
	return line
}

// one racy scenario: every connection in its own goroutine, random small delays; oracles only
func c17Racy(c *ctx, seed int64, prog *c17Progress) string {
	rng := rand.New(rand.NewSource(seed))
	uid := c17RandID(rng)
	srv := trzsz.VerifNewTunnelServer(uid)
	if srv == nil {
		return "listen-failed"
	}
	sc := &c17Scenario{c: c, rng: rng, uid: uid, srv: srv, port: srv.Port, adopted: -1}
	prog.set(sc)
	defer sc.finish()
	n := 2 + rng.Intn(7)
	type plan struct {
		kind   int
		writes [][]byte
		delays []time.Duration
	}
	plans := make([]plan, n)
	for i := range plans {
		k := rng.Intn(c17NKinds)
		if rng.Intn(3) == 0 {
			k = c17Right
		}
		plans[i].kind = k
		plans[i].writes = c17Script(rng, k, uid, srv.Port)
		for j := 0; j <= len(plans[i].writes)+1; j++ {
			plans[i].delays = append(plans[i].delays, time.Duration(rng.Intn(1500))*time.Microsecond)
		}
		sc.addDesc(c17KindName[k])
	}
	sc.peers = make([]*c17Peer, n)
	sc.kinds = make([]int, n)
	var wg sync.WaitGroup
	for i := range plans {
		wg.Add(1)
		go func(i int) {
			defer wg.Done()
			pl := plans[i]
			time.Sleep(pl.delays[0])
			p := c17Dial(srv.Port, i)
			sc.peers[i] = p
			sc.kinds[i] = pl.kind
			if p.refused {
				return
			}
			for j, w := range pl.writes {
				time.Sleep(pl.delays[j+1])
				p.write(w)
			}
			if pl.kind == c17CloseNow {
				p.end()
				return
			}
			if len(pl.writes) > 0 {
				p.waitResponse(2 * time.Second)
			}
			time.Sleep(pl.delays[len(pl.delays)-1])
			p.write([]byte(fmt.Sprintf("<D%d>#DATA:junk\n", i)))
		}(i)
	}
	wg.Wait()
	time.Sleep(time.Duration(c.pick(15, 40)) * time.Millisecond)
	sc.drain()
	sc.refreshAdopted()
	sc.oracles("racy")
	nAns := 0
	for _, p := range sc.peers {
		if g, _ := p.state(); len(g) > 0 {
			nAns++
		}
	}
	if nAns >= 2 {
		c.count("racy:two-answered")
	}
	c.count("racy:adopted:" + strconv.FormatBool(sc.adopted >= 0))
	return fmt.Sprintf("racy %s adopted=%d answered=%d", strings.Join(sc.desc, ","), sc.adopted, nAns)
}

// ---- client side ----

const (
	c17CoNil = iota
	c17CoRight
	c17CoWrongReply
	c17CoExtendedReply
	c17CoSplitReply
	c17CoCloseNoAnswer
	c17CoSilent
	c17CoLate
	c17CoDead
	c17CoEchoClientHello
	c17NCo
)

var c17CoName = []string{"nil", "right", "wrong-reply", "extended-reply", "split-reply", "close-no-answer", "silent", "late", "dead", "echo-client-hello"}

type c17ClientCase struct {
	kind   int
	uid    string
	port   int
	result string
	args   []string
	viol   [][3]string
	note   string
}

func c17Client(cc *c17ClientCase, seed int64) {
	rng := rand.New(rand.NewSource(seed))
	cc.uid = c17RandID(rng)
	ln, err := net.Listen("tcp", "127.0.0.1:0")
	if err != nil {
		cc.note = "listen-failed"
		return
	}
	defer ln.Close()
	cc.port = ln.Addr().(*net.TCPAddr).Port
	ch, sh := trzsz.VerifGetHelloConstant(cc.uid, cc.port)
	wrongSh, _ := "", ""
	{
		other := c17RandID(rng)
		_, wrongSh = trzsz.VerifGetHelloConstant(other, cc.port)
	}
	var reply []byte // what the far end's first write is (nil: none)
	switch cc.kind {
	case c17CoRight, c17CoLate:
		reply = []byte(sh)
	case c17CoWrongReply:
		reply = []byte(wrongSh)
	case c17CoExtendedReply:
		reply = []byte(sh + "\n")
	case c17CoSplitReply:
		reply = []byte(sh[:1+rng.Intn(len(sh)-1)])
	case c17CoEchoClientHello:
		reply = []byte(ch)
	}
	var mu sync.Mutex
	var farGot []byte
	var farConn net.Conn
	farDone := make(chan struct{})
	go func() {
		defer close(farDone)
		conn, err := ln.Accept()
		if err != nil {
			return
		}
		mu.Lock()
		farConn = conn
		mu.Unlock()
		buf := make([]byte, 65536)
		first := true
		for {
			n, err := conn.Read(buf)
			mu.Lock()
			farGot = append(farGot, buf[:n]...)
			mu.Unlock()
			if n > 0 && first {
				first = false
				switch cc.kind {
				case c17CoCloseNoAnswer:
					conn.Close()
					return
				case c17CoSilent:
				case c17CoSplitReply:
					conn.Write(reply)
					time.Sleep(40 * time.Millisecond)
					conn.Write([]byte(sh[len(reply):]))
				default:
					conn.Write(reply)
				}
			}
			if err != nil {
				return
			}
		}
	}()
	connector := func(port int) net.Conn {
		switch cc.kind {
		case c17CoNil:
			return nil
		case c17CoLate:
			time.Sleep(1150 * time.Millisecond)
		}
		conn, err := net.Dial("tcp", "127.0.0.1:"+strconv.Itoa(port))
		if err != nil {
			return nil
		}
		if cc.kind == c17CoDead {
			conn.Close()
		}
		return conn
	}
	t0 := time.Now()
	desc := fmt.Sprintf("client kind=%s uid=%s port=%d seed=%d", c17CoName[cc.kind], cc.uid, cc.port, seed)
	cl := trzsz.VerifNewTunnelClient(connector, cc.uid, cc.port)
	errSend, returned := c17Guard(c17SendActionLimit, func() error { return cl.SendAction() })
	if !returned {
		// sendAction waits for connectToTunnel (tunnelInitWG) which must give up after its one-second timer
		// whatever the connector does: abandon the scenario (the goroutine leaks), free the sockets
		c17StuckAdd("client:" + c17CoName[cc.kind])
		cc.viol = append(cc.viol, [3]string{"tunnel:sendAction-stuck:" + c17CoName[cc.kind],
			"sendAction never got past the wait for the tunnel (watchdog; connectToTunnel must give up one second after it started, whatever the connector does)",
			fmt.Sprintf("%s: no return within %v", desc, c17SendActionLimit)})
		mu.Lock()
		fc := farConn
		mu.Unlock()
		if fc != nil {
			fc.Close()
		}
		cc.note = "abandoned:client:" + c17CoName[cc.kind]
		return
	}
	dur := time.Since(t0)
	tc := cl.TunnelConnected()
	if dur > 2500*time.Millisecond {
		cc.viol = append(cc.viol, [3]string{"tunnel:sendAction-stuck:" + c17CoName[cc.kind], "sendAction was held up by the tunnel for more than the grace period", fmt.Sprintf("%s took %v", desc, dur)})
	}
	if errSend != nil {
		cc.viol = append(cc.viol, [3]string{"tunnel:sendAction-error:" + c17CoName[cc.kind], "sendAction failed", desc + " err=" + errSend.Error()})
	}
	// where did the ACT go, and what does it say?
	time.Sleep(5 * time.Millisecond)
	c17WaitUntil(500*time.Millisecond, func() bool {
		if !tc {
			return true
		}
		mu.Lock()
		defer mu.Unlock()
		return bytes.Contains(farGot, []byte("#ACT:"))
	})
	mu.Lock()
	far := append([]byte(nil), farGot...)
	mu.Unlock()
	inband := cl.InbandOutput()
	actIn := bytes.Contains(inband, []byte("#ACT:"))
	actFar := bytes.Contains(far, []byte("#ACT:"))
	var actLine []byte
	if actFar {
		actLine = far[bytes.Index(far, []byte("#ACT:")):]
	} else if actIn {
		actLine = inband[bytes.Index(inband, []byte("#ACT:")):]
	}
	flag := "?"
	if i := bytes.IndexByte(actLine, '\n'); i > 5 {
		if js, err := decodeLinePayload(string(actLine[5:i])); err == nil {
			var m map[string]any
			if json.Unmarshal(js, &m) == nil {
				flag = fmt.Sprint(m["tunnel"])
			}
		}
	}
	if tc != actFar || tc == actIn || flag != strconv.FormatBool(tc) {
		cc.viol = append(cc.viol, [3]string{"tunnel:act-inconsistent:" + c17CoName[cc.kind], "tunnelConnected, the ACT's tunnel field and the path the ACT took disagree",
			fmt.Sprintf("%s tunnelConnected=%v act-in-band=%v act-on-connection=%v flag=%s", desc, tc, actIn, actFar, flag)})
	}
	if tc && (cc.kind != c17CoRight) {
		cc.viol = append(cc.viol, [3]string{"tunnel:client-adopted-unauthenticated:" + c17CoName[cc.kind], "the client adopted a connection that did not answer with exactly the server hello in time", desc})
	}
	if cc.kind != c17CoNil && cc.kind != c17CoDead && cc.kind != c17CoLate && !bytes.HasPrefix(far, []byte(ch)) {
		cc.viol = append(cc.viol, [3]string{"tunnel:client-hello-wrong", "the client did not present exactly the client hello", fmt.Sprintf("%s far end received %q", desc, c17Short(far))})
	}
	// in-band bytes after the decision; bytes from the connection
	cl.Drain()
	cl.AddInband([]byte("<IB>x\n"))
	var got []byte
	for _, b := range cl.Drain() {
		got = append(got, b...)
	}
	if tc == bytes.Contains(got, []byte("<IB>")) {
		cc.viol = append(cc.viol, [3]string{"tunnel:client-inband-rule:" + c17CoName[cc.kind], "in-band bytes must be ignored exactly when tunnelConnected is set",
			fmt.Sprintf("%s tunnelConnected=%v buffer=%q", desc, tc, got)})
	}
	mu.Lock()
	fc := farConn
	mu.Unlock()
	if fc != nil && cc.kind != c17CoCloseNoAnswer {
		fc.Write([]byte("<FAR>y\n"))
		ok := c17WaitUntil(300*time.Millisecond, func() bool {
			for _, b := range cl.Drain() {
				got = append(got, b...)
			}
			return bytes.Contains(got, []byte("<FAR>"))
		})
		if ok && !tc {
			cc.viol = append(cc.viol, [3]string{"tunnel:client-foreign-bytes:" + c17CoName[cc.kind], "bytes of a connection the client did not adopt reached its buffer", desc})
		}
		if !ok && tc {
			cc.viol = append(cc.viol, [3]string{"tunnel:client-tunnel-bytes-lost", "bytes of the adopted connection did not reach the buffer", desc})
		}
	}
	cl.Cleanup()
	if fc != nil {
		fc.Close()
	}
	ln.Close()
	<-farDone
	// model arguments: outcome class, late, write-fails, the far end's first write
	late, wfail, rep := "0", "0", "-"
	switch cc.kind {
	case c17CoSilent, c17CoLate:
		late = "1"
	case c17CoDead:
		wfail = "1"
	}
	if reply != nil {
		rep = hx(reply)
	}
	class := "conn"
	if cc.kind == c17CoNil {
		class = "nil"
	} else if cc.kind == c17CoCloseNoAnswer || cc.kind == c17CoSilent || cc.kind == c17CoDead {
		rep = "none"
	}
	cc.result = map[bool]string{true: "1", false: "0"}[tc]
	cc.args = []string{hx([]byte(cc.uid)), strconv.Itoa(cc.port), class, late, wfail, rep}
}

func genC17Tunnel(c *ctx) {
	// 1. getHelloConstant
	uids := []string{"", "1", "12", "123", "1727724800100", "1727724800110", "1727724800120", "abc", "17277248001", "172772480010", "::", "1:2:3", "%s%d"}
	for i := 0; i < c.pick(40, 400); i++ {
		n := c.rng.Intn(18)
		b := make([]byte, n)
		for j := range b {
			b[j] = byte('0' + c.rng.Intn(10))
			if c.rng.Intn(15) == 0 {
				b[j] = byte(c.rng.Intn(256))
			}
		}
		uids = append(uids, string(b))
	}
	ports := []int{0, 1, 9, 10, 80, 99, 100, 40001, 65535, 65536, -1, -40001, 2147483647, 1 << 40, -(1 << 40), 9223372036854775807, -9223372036854775808}
	for _, u := range uids {
		for k := 0; k < 3; k++ {
			p := ports[c.rng.Intn(len(ports))]
			if k == 2 {
				p = c.rng.Intn(65536)
			}
			ch, sh := trzsz.VerifGetHelloConstant(u, p)
			c.emit(len(u) > 2, "tunnel_hello", hx([]byte(ch))+":"+hx([]byte(sh)), hx([]byte(u)), strconv.Itoa(p))
		}
	}

	// 2. sequential scenarios: corpus first (every kind alone, before and after the genuine connection), then random
	var forced [][]int
	for k := 0; k < c17NKinds; k++ {
		forced = append(forced, []int{k}, []int{k, c17Right}, []int{c17Right, k}, []int{k, c17Right, c17Right})
	}
	nSeq := c.pick(500, 6000)
	seeds := make([]int64, nSeq)
	for i := range seeds {
		seeds[i] = c.rng.Int63()
	}
	var mu sync.Mutex
	sub := make([]*ctx, nSeq)
	lines := make([]*c17Line, nSeq)
	type seqRes struct {
		lc *ctx
		l  *c17Line
	}
	newCtx := func(seed int64) *ctx {
		return &ctx{rng: rand.New(rand.NewSource(seed)), tier: c.tier, stats: map[string]int{}, seen: map[string]bool{}}
	}
	parallelDo(nSeq, 12, func(i int) {
		var f []int
		if i < len(forced) {
			f = forced[i]
		}
		if c17StuckCount("sequential") >= c17StuckLimit {
			lc := newCtx(seeds[i])
			lc.count("skipped-after-stuck:sequential")
			mu.Lock()
			sub[i] = lc
			mu.Unlock()
			return
		}
		// each scenario writes into a private ctx; merged below in order, so the case file is deterministic
		prog := &c17Progress{}
		r, finished := c17Guard(c17ScenarioLimit, func() seqRes {
			lc := newCtx(seeds[i])
			return seqRes{lc, c17Sequential(lc, seeds[i], f, prog)}
		})
		if !finished {
			c17StuckAdd("sequential")
			r = seqRes{lc: newCtx(seeds[i])}
			r.lc.count("abandoned:sequential")
			r.lc.violate("tunnel:scenario-stuck:sequential", "a sequential scenario (one event at a time against the real acceptOnTunnel) did not finish (watchdog)",
				fmt.Sprintf("no end within %v; seed=%d forced kinds=%v :: %s", c17ScenarioLimit, seeds[i], f, prog))
		}
		mu.Lock()
		sub[i] = r.lc
		lines[i] = r.l
		mu.Unlock()
	})
	for i, lc := range sub {
		c17Merge(c, lc)
		if l := lines[i]; l != nil {
			c.emit(l.nontrivial, l.fn, l.result, l.args...)
		}
	}

	// 3. racy scenarios
	nRacy := c.pick(600, 8000)
	rs := make([]int64, nRacy)
	for i := range rs {
		rs[i] = c.rng.Int63()
	}
	subr := make([]*ctx, nRacy)
	notes := make([]string, nRacy)
	type racyRes struct {
		lc   *ctx
		note string
	}
	parallelDo(nRacy, 12, func(i int) {
		if c17StuckCount("racy") >= c17StuckLimit {
			subr[i] = newCtx(rs[i])
			subr[i].count("skipped-after-stuck:racy")
			notes[i] = "racy skipped"
			return
		}
		prog := &c17Progress{}
		r, finished := c17Guard(c17ScenarioLimit, func() racyRes {
			lc := newCtx(rs[i])
			return racyRes{lc, c17Racy(lc, rs[i], prog)}
		})
		if !finished {
			c17StuckAdd("racy")
			r = racyRes{newCtx(rs[i]), "racy abandoned"}
			r.lc.count("abandoned:racy")
			r.lc.violate("tunnel:scenario-stuck:racy", "a racy scenario (all connections at once against the real acceptOnTunnel) did not finish (watchdog)",
				fmt.Sprintf("no end within %v; seed=%d :: %s", c17ScenarioLimit, rs[i], prog))
		}
		notes[i] = r.note
		subr[i] = r.lc
	})
	for i, lc := range subr {
		c17Merge(c, lc)
		c.note(true, fmt.Sprintf("%s seed=%d", notes[i], rs[i]))
	}

	// 4. client
	nCl := c.pick(80, 800)
	cases := make([]*c17ClientCase, nCl)
	cs := make([]int64, nCl)
	for i := range cases {
		k := i % c17NCo
		if i >= 2*c17NCo {
			// the one-second kinds are expensive: fewer of them
			k = []int{c17CoNil, c17CoRight, c17CoWrongReply, c17CoExtendedReply, c17CoSplitReply, c17CoCloseNoAnswer, c17CoDead, c17CoEchoClientHello, c17CoRight}[c.rng.Intn(9)]
		}
		cases[i] = &c17ClientCase{kind: k}
		cs[i] = c.rng.Int63()
	}
	parallelDo(nCl, 16, func(i int) {
		kind := cases[i].kind
		class := "client:" + c17CoName[kind]
		if c17StuckCount(class) >= c17StuckLimit {
			cases[i].note = "skipped-after-stuck:" + class
			return
		}
		cc, finished := c17Guard(c17ScenarioLimit, func() *c17ClientCase {
			cc := &c17ClientCase{kind: kind}
			c17Client(cc, cs[i])
			return cc
		})
		if !finished {
			c17StuckAdd(class)
			cc = &c17ClientCase{kind: kind, note: "abandoned:" + class}
			cc.viol = append(cc.viol, [3]string{"tunnel:scenario-stuck:" + class, "a client scenario (real connectToTunnel + sendAction against a scripted far end) did not finish (watchdog)",
				fmt.Sprintf("no end within %v; client kind=%s seed=%d", c17ScenarioLimit, c17CoName[kind], cs[i])})
		}
		cases[i] = cc
	})
	for _, cc := range cases {
		for _, v := range cc.viol {
			c.violate(v[0], v[1], v[2])
		}
		if cc.note != "" {
			c.count(cc.note)
			continue
		}
		c.count("client:" + c17CoName[cc.kind])
		c.emit(true, "tunnel_client", cc.result, cc.args...)
	}
}

type c17Line struct {
	nontrivial bool
	fn, result string
	args       []string
}

func c17Merge(c *ctx, lc *ctx) {
	if lc == nil {
		return
	}
	for k, v := range lc.stats {
		c.stats[k] += v
	}
	for _, v := range lc.violations {
		c.violate(v["key"], v["what"], v["detail"])
	}
}
