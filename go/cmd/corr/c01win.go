package main

// C01, Windows-console framing end to end.  The real client decides that the server is a
// Windows machine from the trigger's unique id (13 digits ending in "10"); it then announces
// the newline "!\n" in its ACT, writes every line with it and reads the server's lines with
// readLineOnWindows, which ends a line at '!' only.  The server told so writes "!\n" as well.
// The harness plays the part of the Windows console in front of an ordinary trz/tsz child:
//   server -> client: the unique id of the trigger is rewritten ("..00" -> "..10");
//   client -> server: what a Windows server's reader would make of the stream - a line ends at
//     '!', an LF is noise - is handed to the Linux child in its own framing: every LF is
//     dropped, every '!' becomes an LF.  A client line that lacks its '!' therefore runs into
//     the next one, exactly as it would in readLineOnWindows.
// One acknowledgement is delivered late (nothing lost, reordered or altered), so that the
// sender's adaptive buffer size shrinks while larger frames are already queued: only then
// pipelineSendData re-splits frames and writes the pieces itself.

import (
	"bytes"
	"regexp"
	"sync"
	"time"
)

var c01WinTriggerRe = regexp.MustCompile(`(::TRZSZ:TRANSFER:[SRD]:\d+\.\d+\.\d+:\d{11})00`)

type c01WinPeer struct {
	mu      sync.Mutex
	ackDir  int // direction in which the per-frame acknowledgements travel
	lateAck int // which one is delivered late
	delay   time.Duration
	acks    int
	delayed bool
}

func (p *c01WinPeer) hook(dir, idx int, b []byte) e2eAction {
	p.mu.Lock()
	wait := time.Duration(0)
	if dir == p.ackDir && !p.delayed {
		p.acks += bytes.Count(b, []byte("#SUCC:"))
		if p.acks >= p.lateAck && bytes.Contains(b, []byte("/")) {
			p.delayed = true
			wait = p.delay
		}
	}
	p.mu.Unlock()
	if wait > 0 {
		time.Sleep(wait)
	}
	if dir == dirS2C {
		if bytes.Contains(b, []byte("::TRZSZ:TRANSFER:")) {
			return e2eAction{data: [][]byte{c01WinTriggerRe.ReplaceAll(b, []byte("${1}10"))}}
		}
		return e2eAction{}
	}
	out := make([]byte, 0, len(b))
	for _, x := range b {
		switch x {
		case '\n':
		case '!':
			out = append(out, '\n')
		default:
			out = append(out, x)
		}
	}
	if len(out) == 0 {
		return e2eAction{drop: true}
	}
	return e2eAction{data: [][]byte{out}}
}

// c01WinShrinkObserved: DATA payload lengths on the sender's wire - did a frame shorter than the
// largest one go out in the middle of a file (after the ramp-up, before the last two lines)?
func c01WinShrinkObserved(wire []byte) (shrunk bool, lines int) {
	var lens []int
	for _, l := range bytes.Split(wire, []byte("\n")) {
		if i := bytes.Index(l, []byte("#DATA:")); i >= 0 {
			n := len(l) - i - 6
			if n > 0 && l[len(l)-1] == '!' {
				n--
			}
			lens = append(lens, n)
		}
	}
	maxLen, first := 0, 0
	for i, n := range lens {
		if n > maxLen {
			maxLen, first = n, i
		}
	}
	for i := first + 1; i < len(lens)-2; i++ {
		if lens[i] < maxLen {
			shrunk = true
		}
	}
	return shrunk, len(lens)
}
