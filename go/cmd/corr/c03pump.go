package main

// Group "pump" (property C03): the path from the byte source into a trzszBuffer.
//
// The REAL pump goroutines -- wrapTransferInput (stdin / tunnel connection of trz, tsz),
// TrzszFilter.wrapOutput while a transfer runs, and the four relay pumps -- are started on a
// scripted io.Reader.  The reader hands out a scripted segmentation (one segment per Read,
// cut to the caller's buffer; zero-length reads; data together with io.EOF), keeps nothing of
// what it returned (its own scratch array is overwritten after every Read) and tells the
// harness when the pump has come back for more.  The consumer is slower than the producer:
// the lines and blocks are read only after the whole script has been pumped (and, in one
// stratum, concurrently with it).  Observables: the results of the reads, the chunks
// popBuffer returns afterwards, the chunks a relay pump forwarded instead of parking.  They
// are compared with the extracted model (Model/Pump.v: pump_run) and, model-free, with the
// reference parse of the delivered bytes and with a second segmentation of the same bytes.

import (
	"bytes"
	"fmt"
	"io"
	"runtime"
	"strings"
	"sync/atomic"
	"time"

	"github.com/trzsz/trzsz-go/trzsz"
)

func init() { groups["pump"] = c03GenPump }

type c03Ev struct {
	data []byte
	eof  bool
}

// c03Src is the scripted byte source.
type c03Src struct {
	ch      chan c03Ev
	asked   atomic.Int64 // how often the pump has come for a new segment
	atEOF   atomic.Bool  // the source has returned io.EOF
	sticky  bool         // after io.EOF every further Read returns (0, io.EOF), as a closed pipe does
	pending []byte
	eof     bool
	have    bool
	scratch []byte
}

func c03NewSrc(capacity int, sticky bool) *c03Src {
	return &c03Src{ch: make(chan c03Ev, capacity), scratch: make([]byte, 0, 1024), sticky: sticky}
}

func (s *c03Src) Read(p []byte) (int, error) {
	if s.sticky && s.atEOF.Load() {
		return 0, io.EOF
	}
	if !s.have {
		s.asked.Add(1)
		ev := <-s.ch
		s.pending, s.eof, s.have = ev.data, ev.eof, true
	}
	n := len(s.pending)
	if n > len(p) {
		n = len(p)
	}
	// through the source's own array, which is then overwritten: nothing the caller got may
	// depend on memory the source keeps
	s.scratch = append(s.scratch[:0], s.pending[:n]...)
	copy(p, s.scratch)
	for i := range s.scratch {
		s.scratch[i] = 0xa5
	}
	s.pending = s.pending[n:]
	if len(s.pending) > 0 {
		return n, nil
	}
	s.have = false
	if s.eof {
		s.atEOF.Store(true)
		return n, io.EOF
	}
	return n, nil
}

func c03EvsStr(evs []c03Ev) string {
	if len(evs) == 0 {
		return "."
	}
	parts := make([]string, len(evs))
	for i, e := range evs {
		k := "d"
		if e.eof {
			k = "e"
		}
		parts[i] = k + hx(e.data)
	}
	return strings.Join(parts, ",")
}

// what the source delivers before a pump that stops at the first error stops
func c03Delivered(evs []c03Ev, stopAtErr bool) []byte {
	var out []byte
	for _, e := range evs {
		out = append(out, e.data...)
		if e.eof && stopAtErr {
			break
		}
	}
	return out
}

const (
	c03PTransfer = iota
	c03PFilter
	c03PRelayIn
	c03PRelayOut
	c03PTunnelIn
	c03PTunnelOut
)

var c03PumpNames = []string{"transfer", "filter", "relay-in", "relay-out", "tunnel-in", "tunnel-out"}

type c03PumpRig struct {
	// backlog: with concurrent reads, the reader starts only when the queue is full (the pump
	// waits in addBuffer) or the pump has finished: more reads pending than the queue holds
	backlog   bool
	p         *trzsz.VerifPump
	filterSrc *c03Src
	filterEvs int64
}

func c03Spin(cond func() bool) bool {
	deadline := time.Now().Add(20 * time.Second)
	for i := 0; !cond(); i++ {
		if i%64 == 63 {
			if time.Now().After(deadline) {
				return false
			}
			time.Sleep(20 * time.Microsecond)
		} else {
			runtime.Gosched()
		}
	}
	return true
}

// run pumps the script through the real pump of the given kind, then reads.  It returns the
// results, the popped chunks, the forwarded chunks, and false when the pump did not finish.
func (g *c03PumpRig) run(kind int, f1, f2, f3 bool, evs []c03Ev, ops []c03Op, concurrent bool) ([]string, [][]byte, [][]byte, bool) {
	var fwd [][]byte
	ok := true
	real := &c03Real{}
	var res []string
	readAll := func(flat []byte, sure bool) {
		known := sure
		for _, o := range ops {
			s := false
			if known {
				k, _, rest := c03RefStep(o, flat)
				s = k == 'd'
				flat = rest
				if k != 'd' {
					known = false
				}
			}
			if sure && !s {
				break // concurrent with the pump: only reads that are known to complete
			}
			k, d := real.read(o, s)
			if k == "d" {
				res = append(res, "d"+hx(d))
				continue
			}
			res = append(res, k)
			if k != "I" {
				break
			}
		}
	}
	switch kind {
	case c03PTransfer:
		src := c03NewSrc(len(evs)+2, true)
		g.p.StartTransfer(src, f1, f2, f3)
		real.b = g.p.Buffer()
		// the pump stops at the first error.  A script without one is ended by a bare EOF:
		// when the source has returned it, everything before has been handed over.  When
		// the EOF comes together with data, that last hand-over follows the Read: wait for
		// the queue to reach the number of non-empty reads (segments that carry an EOF are
		// kept below any plausible buffer size by the generator).
		expect, withData := 0, false
		for _, e := range evs {
			if len(e.data) > 0 {
				expect++
			}
			src.ch <- e
			if e.eof {
				withData = len(e.data) > 0
				break
			}
		}
		src.ch <- c03Ev{nil, true}
		if concurrent {
			if g.backlog {
				c03Spin(func() bool { return src.atEOF.Load() || real.b.QueueLen() >= real.b.QueueCap() })
			}
			readAll(c03Delivered(evs, true), true)
		}
		ok = c03Spin(func() bool { return src.atEOF.Load() })
		if withData {
			if !(f1 && !f3) && !f2 {
				deadline := time.Now().Add(200 * time.Millisecond)
				c03Spin(func() bool { return real.b.QueueLen() >= expect || time.Now().After(deadline) })
			} else {
				time.Sleep(300 * time.Microsecond)
			}
		}
		if !concurrent {
			readAll(nil, false)
		}
	case c03PFilter:
		if g.filterSrc == nil {
			g.filterSrc = c03NewSrc(1<<16, false)
			g.p.StartFilter(g.filterSrc)
			c03Spin(func() bool { return g.filterSrc.asked.Load() == 1 })
		}
		g.p.UseFilter(f1, f2)
		real.b = g.p.Buffer()
		for _, e := range evs {
			g.filterSrc.ch <- e
		}
		g.filterEvs += int64(len(evs))
		want := g.filterEvs + 1
		if concurrent && g.backlog {
			c03Spin(func() bool { return g.filterSrc.asked.Load() == want || real.b.QueueLen() >= real.b.QueueCap() })
			readAll(c03Delivered(evs, false), true)
		}
		ok = c03Spin(func() bool { return g.filterSrc.asked.Load() == want })
		if !(concurrent && g.backlog) {
			readAll(nil, false)
		}
	default:
		src := c03NewSrc(len(evs)+2, true)
		total := 8
		for _, e := range evs {
			total += len(e.data)/1024 + 2
		}
		g.p.StartRelay(kind-c03PRelayIn, src, f1, f2, total)
		real.b = g.p.Buffer()
		sent := 0
		stopped := false
		for _, e := range evs {
			if e.eof && kind >= c03PTunnelIn {
				// the tunnel pumps wait for the relay to let go of them before they return
				c03Spin(func() bool { return src.asked.Load() == int64(sent)+1 })
				g.p.DetachRelay()
			}
			src.ch <- e
			sent++
			if e.eof {
				stopped = true
				break
			}
		}
		if !stopped {
			c03Spin(func() bool { return src.asked.Load() == int64(sent)+1 })
			g.p.DetachRelay()
			src.ch <- c03Ev{nil, true}
		}
		done := make(chan [][]byte, 1)
		go func() { done <- g.p.Forwarded() }()
		select {
		case fwd = <-done:
		case <-time.After(20 * time.Second):
			ok = false
		}
		readAll(nil, false)
	}
	pops := real.drain()
	return res, pops, fwd, ok
}

func c03GenPump(c *ctx) {
	rig := &c03PumpRig{p: trzsz.VerifNewPump()}
	alphabet := []byte{'a', '\n', '\r', '#', ':', 3}
	opSet := []c03Op{{'L', 0}, {'J', 0}, {'B', 0}, {'B', 1}, {'B', 2}, {'B', 3}}
	flagsStr := func(a, b, d bool) string { return str01(a) + str01(b) + str01(d) }

	// accepted = the pump is expected to put the data into the buffer
	accepted := func(kind int, f1, f2, f3 bool) (inBuffer bool, forwarded bool) {
		switch kind {
		case c03PTransfer:
			return !(f1 && !f3) && !f2, false
		case c03PFilter:
			return !f1 && !f2, false
		case c03PRelayIn, c03PRelayOut:
			h := f1 && !f2
			return h, !h
		default:
			return f1, !f1
		}
	}

	one := func(kind int, f1, f2, f3 bool, evs []c03Ev, ops []c03Op, concurrent bool, tag string) []string {
		if concurrent { // only the reads the reference completes are issued while the pump runs
			s := c03Delivered(evs, true)
			for i, o := range ops {
				k, _, rest := c03RefStep(o, s)
				if k != 'd' {
					ops = ops[:i]
					break
				}
				s = rest
			}
		}
		res, pops, fwd, ok := rig.run(kind, f1, f2, f3, evs, ops, concurrent)
		name := c03PumpNames[kind]
		segs := 0
		for _, e := range evs {
			if len(e.data) > 0 {
				segs++
			}
		}
		c.emit(segs > 1, "pump_run", c03ResStr(res)+"|"+c03ChunksStr(pops)+"|"+c03ChunksStr(fwd),
			name, flagsStr(f1, f2, f3), c03EvsStr(evs), c03OpsStr(ops))
		c.count("pump:" + name + ":" + tag)
		flat := c03Delivered(evs, kind != c03PFilter)
		key := func(what string) string {
			return c03Key("pump-"+name+"-"+what, flat, c03OpsStr(ops)+":"+c03EvsStr(evs))
		}
		detail := fmt.Sprintf("pump=%s flags=%s script=%s delivered=%s ops=%s results=%s popped=%s forwarded=%s",
			name, flagsStr(f1, f2, f3), c03EvsStr(evs), hx(flat), c03OpsStr(ops), c03ResStr(res), c03ChunksStr(pops), c03ChunksStr(fwd))
		if !ok {
			c.violate(key("hang"), "the pump did not finish / did not come back for more input", detail)
			return res
		}
		// direct oracle: lines and blocks = reference parse of the delivered bytes; what is
		// popped afterwards = the rest; what is forwarded = the delivered bytes, in order
		inBuf, forwarded := accepted(kind, f1, f2, f3)
		want := flat
		if !inBuf {
			want = nil
		}
		s := want
		for i, o := range ops {
			if i >= len(res) {
				break
			}
			k, d, rest := c03RefStep(o, s)
			w := string(k)
			if k == 'd' {
				w = "d" + hx(d)
			}
			if res[i] != w {
				c.violate(key("ref"), "lines/blocks read behind the real input pump differ from the reference parse of the bytes the source delivered",
					detail+fmt.Sprintf(" op#%d real=%s reference=%s", i, res[i], w))
				return res
			}
			if k != 'd' {
				s = nil // after an interrupt the cursor depends on the chunking: not compared here
				break
			}
			s = rest
		}
		interrupted := false
		for _, r := range res {
			if r == "I" {
				interrupted = true
			}
		}
		if !interrupted && !(len(res) > 0 && res[len(res)-1] == "B") {
			if got := bytes.Join(pops, nil); !bytes.Equal(got, s) {
				c.violate(key("rest"), "the bytes left in the buffer behind the real input pump are not the rest of the delivered stream",
					detail+fmt.Sprintf(" left=%s expected=%s", hx(got), hx(s)))
				return res
			}
		}
		wantFwd := []byte(nil)
		if forwarded {
			wantFwd = flat
		}
		if got := bytes.Join(fwd, nil); !bytes.Equal(got, wantFwd) {
			c.violate(key("forward"), "the chunks a relay pump forwarded are not the bytes the source delivered",
				detail+fmt.Sprintf(" forwarded-bytes=%s expected=%s", hx(got), hx(wantFwd)))
		}
		return res
	}

	evsOf := func(chunks [][]byte) []c03Ev {
		evs := make([]c03Ev, len(chunks))
		for i, ch := range chunks {
			evs[i] = c03Ev{ch, false}
		}
		return evs
	}
	same := func(kind int, flat []byte, ops []c03Op, evsA []c03Ev, resA []string, evsB []c03Ev, resB []string) {
		a, b := c03ResStr(c03Truncate(resA)), c03ResStr(c03Truncate(resB))
		if a != b {
			c.violate(c03Key("pump-"+c03PumpNames[kind]+"-chunking", flat, c03OpsStr(ops)),
				"two segmentations of the same byte stream, delivered through the real input pump, give different lines/blocks",
				fmt.Sprintf("pump=%s stream=%s ops=%s scriptA=%s resultA=%s scriptB=%s resultB=%s", c03PumpNames[kind], hx(flat), c03OpsStr(ops), c03EvsStr(evsA), a, c03EvsStr(evsB), b))
		}
	}

	// ---- 0. corpus ----
	{
		L, J, B4 := c03Op{'L', 0}, c03Op{'J', 0}, c03Op{'B', 4}
		corpus := []struct {
			chunks []string
			ops    []c03Op
		}{
			{[]string{"#NUM:12345\n", "#NAME:ab\n"}, []c03Op{L, L, L}},
			{[]string{"#", "DA", "TA:", "4", "\nwx\nz#SUCC:7\n"}, []c03Op{L, B4, L}},
			{[]string{"#D", "AT", "A:4", "\n", "wx\nz#SUCC:7\n"}, []c03Op{J, B4, J}},
			{[]string{"test\r\n", " test\r\n", " test\r\n", " message\n"}, []c03Op{J, J}},
			{[]string{"a\x03", "b\n", "c\n"}, []c03Op{L, L}},
			{[]string{"ab", "", "c\n", "", "d\n"}, []c03Op{L, L, L}},
		}
		for _, e := range corpus {
			var cs [][]byte
			for _, s := range e.chunks {
				cs = append(cs, []byte(s))
			}
			for kind := c03PTransfer; kind <= c03PTunnelOut; kind++ {
				hs := kind >= c03PRelayIn
				one(kind, hs, false, false, evsOf(cs), e.ops, false, "corpus")
			}
			one(c03PTransfer, false, false, false, evsOf(cs), e.ops[:1], true, "corpus-concurrent")
		}
		// data together with io.EOF, nothing is read behind it by the pumps that stop at EOF
		evs := []c03Ev{{[]byte("ab"), false}, {[]byte("c\nd"), true}, {[]byte("\nzz\n"), false}}
		for kind := c03PTransfer; kind <= c03PRelayOut; kind++ {
			if kind == c03PFilter {
				continue // TrzszFilter.wrapOutput sleeps 100 ms at EOF and reads on: once, below
			}
			one(kind, kind >= c03PRelayIn, false, false, evs, []c03Op{L, L, L}, false, "eof-with-data")
		}
		one(c03PFilter, false, false, false, evs, []c03Op{L, L, L}, false, "eof-ignored")
	}

	// ---- 1. every stream over the alphabet up to maxLen x every segmentation, a sample of
	// op paths, through wrapTransferInput and the filter pump; every segmentation is compared
	// with the unsegmented delivery ----
	maxLen := c.pick(4, 5)
	var paths func(s []byte, depth int) [][]c03Op
	paths = func(s []byte, depth int) [][]c03Op {
		var out [][]c03Op
		for _, o := range opSet {
			k, _, rest := c03RefStep(o, s)
			if k == 'd' && depth > 1 {
				for _, p := range paths(rest, depth-1) {
					out = append(out, append([]c03Op{o}, p...))
				}
			} else {
				out = append(out, []c03Op{o})
			}
		}
		return out
	}
	var rec func(stream []byte)
	rec = func(stream []byte) {
		if len(stream) > 0 {
			ps := paths(stream, 3)
			allSplits(stream, func(cs0 [][]byte) {
				cs := make([][]byte, len(cs0))
				copy(cs, cs0)
				if len(cs) == 1 {
					return
				}
				for k := 0; k < 2; k++ {
					p := ps[c.rng.Intn(len(ps))]
					kind := c03PTransfer
					if c.rng.Intn(4) == 0 {
						kind = c03PFilter
					}
					whole := one(kind, false, false, false, evsOf([][]byte{stream}), p, false, "exhaustive-whole")
					res := one(kind, false, false, false, evsOf(cs), p, false, "exhaustive")
					same(kind, stream, p, evsOf([][]byte{stream}), whole, evsOf(cs), res)
				}
			})
		}
		if len(stream) == maxLen {
			return
		}
		for _, a := range alphabet {
			rec(append(append([]byte(nil), stream...), a))
		}
	}
	rec(nil)

	// ---- 2. random scripts: all pumps, all flag combinations, zero-length reads, EOF with
	// data, protocol-like streams ----
	randStream := func(n int) []byte {
		var s []byte
		for len(s) < n {
			switch c.rng.Intn(4) {
			case 0:
				s = append(s, []byte(fmt.Sprintf("#DATA:%d\n", c.rng.Intn(30)))...)
			case 1:
				s = append(s, []byte("#SUCC:eJzy8XR29Qt21TMC\r\nBAAA//8=\n")...)
			default:
				for k := c.rng.Intn(12); k >= 0; k-- {
					s = append(s, alphabet[c.rng.Intn(len(alphabet)-1)]) // rarely Ctrl-C
				}
				if c.rng.Intn(12) == 0 {
					s = append(s, 3)
				}
			}
		}
		return s
	}
	randOps := func() []c03Op {
		ops := make([]c03Op, 1+c.rng.Intn(5))
		for j := range ops {
			switch c.rng.Intn(3) {
			case 0:
				ops[j] = c03Op{'L', 0}
			case 1:
				ops[j] = c03Op{'J', 0}
			default:
				ops[j] = c03Op{'B', c.rng.Intn(12)}
			}
		}
		return ops
	}
	script := func(stream []byte, mean int, zeroReads, eofData bool) []c03Ev {
		var evs []c03Ev
		for _, ch := range c.split(stream, mean) {
			if zeroReads && c.rng.Intn(4) == 0 {
				evs = append(evs, c03Ev{nil, false})
			}
			evs = append(evs, c03Ev{ch, false})
		}
		if eofData && len(evs) > 0 {
			i := c.rng.Intn(len(evs))
			evs[i].eof = true
		}
		return evs
	}
	for i := 0; i < c.pick(6000, 120000); i++ {
		kind := []int{c03PTransfer, c03PTransfer, c03PTransfer, c03PFilter, c03PRelayIn, c03PRelayOut, c03PTunnelIn, c03PTunnelOut}[c.rng.Intn(8)]
		f1, f2, f3 := c.rng.Intn(4) == 0, c.rng.Intn(8) == 0, c.rng.Intn(2) == 0
		if kind >= c03PRelayIn {
			f1, f2, f3 = c.rng.Intn(4) != 0, c.rng.Intn(4) == 0, false
		}
		if kind == c03PFilter {
			f3 = false
		}
		stream := randStream(1 + c.rng.Intn(60))
		eofData := kind != c03PFilter && kind < c03PTunnelIn && c.rng.Intn(6) == 0
		evsA := script(stream, 1+c.rng.Intn(8), c.rng.Intn(3) == 0, eofData)
		ops := randOps()
		resA := one(kind, f1, f2, f3, evsA, ops, false, "random")
		if !eofData {
			evsB := script(stream, 1+c.rng.Intn(30), false, false)
			resB := one(kind, f1, f2, f3, evsB, ops, false, "random")
			same(kind, stream, ops, evsA, resA, evsB, resB)
		}
	}
	// reads concurrent with the pump (only reads the reference completes)
	for i := 0; i < c.pick(1500, 30000); i++ {
		var stream []byte
		var ops []c03Op
		for k := 1 + c.rng.Intn(6); k > 0; k-- {
			if c.rng.Intn(2) == 0 {
				n := c.rng.Intn(20)
				stream = append(stream, []byte(fmt.Sprintf("#DATA:%d\n", n))...)
				ops = append(ops, c03Op{'L', 0})
				for j := 0; j < n; j++ {
					stream = append(stream, byte(c.rng.Intn(256)))
				}
				ops = append(ops, c03Op{'B', n})
			} else {
				stream = append(stream, []byte("#NUM:1\r\n2\r\n3\n")...)
				ops = append(ops, c03Op{'J', 0})
			}
		}
		one(c03PTransfer, false, false, c.rng.Intn(2) == 0, script(stream, 1+c.rng.Intn(6), false, false), ops, true, "concurrent")
	}
	// segments longer than the pump's read buffer, long streams
	for i := 0; i < c.pick(12, 200); i++ {
		kind := []int{c03PTransfer, c03PFilter, c03PRelayIn, c03PTunnelOut}[i%4]
		total := 40000 + c.rng.Intn(60000)
		var stream []byte
		var ops []c03Op
		for len(stream) < total {
			n := 1 + c.rng.Intn(5000)
			stream = append(stream, []byte(fmt.Sprintf("#DATA:%d\n", n))...)
			ops = append(ops, c03Op{'L', 0})
			for j := 0; j < n; j++ {
				stream = append(stream, byte(c.rng.Intn(256)))
			}
			ops = append(ops, c03Op{'B', n})
		}
		ops = append(ops, c03Op{'L', 0})
		var evs []c03Ev
		rest := stream
		for len(rest) > 0 {
			n := 1 + c.rng.Intn(70000)
			if c.rng.Intn(3) == 0 {
				n = 1 + c.rng.Intn(300)
			}
			if n > len(rest) {
				n = len(rest)
			}
			evs = append(evs, c03Ev{rest[:n], false})
			rest = rest[n:]
		}
		one(kind, kind >= c03PRelayIn, false, false, evs, ops, false, "long")
	}
	// ---- backlog: MORE reads pending than the queue between pump and reader holds.  The pump
	// hands over one byte per read, the reader starts only when the queue is full (the pump
	// then waits inside addBuffer) -- nothing may be lost, however far the reader lags ----
	{
		capQ := trzsz.VerifNewBuffer().QueueCap()
		c.count(fmt.Sprintf("backlog:queue-capacity=%d", capQ))
		build := func(n int) ([]byte, []c03Op) {
			var stream []byte
			var ops []c03Op
			for i := 0; len(stream) < n; i++ {
				stream = append(stream, []byte(fmt.Sprintf("#NUM:%d\n#DATA:8\n", i))...)
				ops = append(ops, c03Op{'L', 0}, c03Op{'L', 0})
				stream = append(stream, '\n', '\r', '#', ':', byte(i), 3, '\r', '\n')
				ops = append(ops, c03Op{'B', 8})
				stream = append(stream, []byte("#SUCC:ab\r\ncd\r\n\r\nef\n")...)
				ops = append(ops, c03Op{'J', 0})
			}
			return stream, ops
		}
		oneByte := func(stream []byte) []c03Ev {
			evs := make([]c03Ev, len(stream))
			for i := range stream {
				evs[i] = c03Ev{stream[i : i+1], false}
			}
			return evs
		}
		rig.backlog = true
		for _, extra := range []int{1, 5000} {
			stream, ops := build(capQ + extra)
			evs := oneByte(stream)
			// (the extracted pump model is quadratic in the number of chunks: three cases in
			// the quick tier, all six in the thorough one)
			if extra == 1 || c.thorough() {
				one(c03PTransfer, false, false, false, evs, ops, true, "backlog")
				one(c03PFilter, false, false, false, evs, ops, true, "backlog")
			}
			if extra != 1 || c.thorough() {
				one(c03PTransfer, true, false, true, evs, ops, true, "backlog")
			}
		}
		rig.backlog = false
		// the same directly on addBuffer: a producer goroutine, a reader that comes late and
		// pops everything; compared with the interleaving model of the bounded queue
		for _, extra := range []int{1, 50, 5000} {
			n := capQ + extra
			b := trzsz.VerifNewBuffer()
			var done atomic.Bool
			go func() {
				for i := 0; i < n; i++ {
					b.AddBuffer([]byte{byte(i % 251)})
				}
				done.Store(true)
			}()
			c03Spin(func() bool { return done.Load() || b.QueueLen() >= capQ })
			var got []byte
			cnt := 0
			deadline := time.Now().Add(20 * time.Second)
			for time.Now().Before(deadline) {
				if p := b.PopBuffer(); p != nil {
					got = append(got, p...)
					cnt++
					continue
				}
				if done.Load() {
					p := b.PopBuffer()
					if p == nil {
						break
					}
					got = append(got, p...)
					cnt++
				} else {
					runtime.Gosched()
				}
			}
			if extra <= 50 || c.thorough() { // the extracted interleaving model is quadratic in n
				c.emit(true, "queue_late", fmt.Sprintf("%d,0,0,%d:%s", cnt, n-cnt, hx(got)), fmt.Sprint(n))
			}
			c.count("backlog:direct")
			want := make([]byte, n)
			for i := range want {
				want[i] = byte(i % 251)
			}
			if cnt != n || !bytes.Equal(got, want) {
				first := 0
				for first < len(got) && first < n && got[first] == want[first] {
					first++
				}
				c.violate(fmt.Sprintf("queue-lost-chunks:%d", n), "chunks handed to addBuffer while the reader lagged behind never reached the reader",
					fmt.Sprintf("producer: %d one-byte chunks (byte i mod 251) through addBuffer; reader started when %d were queued; popped %d chunks; first difference at chunk %d", n, capQ, cnt, first))
			}
		}
	}
}
