package main

// C20, files: "never misreports" across the files of ONE transfer.  The bar keeps per-file
// state (resumed prefix preSize, size, position, name, start time, speed samples); every
// line has to report the CURRENT file's own figures, whatever the earlier files did.
//
//   group progress-files
//     1. synthetic multi-file callback histories in the order transfer.go / append.go make
//        them (Model/Progress.v file_ops), every file independently fresh / resumed after a
//        partial, complete or empty match / empty / a directory entry;
//     2. the callback order of REAL multi-file overwrite transfers (export VerifRunFilesPair:
//        real sendFiles / recvFiles back to back, protocol 3 and 4, callbacks of the sending or of
//        the receiving side, first file partly at the destination and the second not, and the
//        other way round, complete, mismatching and longer destinations);
//        both drive the real bar, a 2000-column probe bar (all files) and a fresh SOLO bar that
//        sees only the current file's callbacks; the writes are compared with the model (prun);
//     3. end to end: the real client (NewTrzszFilter) uploads / downloads two files with -y, the
//        first partly at the destination; the lines that reach the terminal are parsed.
//   Model-independent oracles: a line of file k equals the line of the solo bar (percentage,
//   total, speed, ETA); a fresh file starts at 0 % / 0.00 B; every file ends at 100 % of its own size.

import (
	"fmt"
	"math/rand"
	"os"
	"path/filepath"
	"regexp"
	"strconv"
	"strings"
	"sync"
	"sync/atomic"
	"time"

	"github.com/trzsz/trzsz-go/trzsz"
)

func init() { groups["progress-files"] = genProgressFiles }

// the text the bar shows for n transferred bytes (the real convertSizeToString, through a bar)
func c20SizeText(n int64) string {
	p := trzsz.VerifNewProgress(2000, 0, "")
	p.OnName("")
	p.OnSize(n)
	p.TakeOutput()
	p.OnStep(n)
	if f := c20Fields(p.TakeOutput()); f != nil {
		return f[1]
	}
	return "?"
}

type c20Files struct {
	c     *ctx
	clock *atomic.Int64
	base  int64
	gap   func() int64
	label string
	cols  int
	main  *trzsz.VerifProgress
	probe *trzsz.VerifProgress // 2000 columns, empty names, all files
	solo  *trzsz.VerifProgress // 2000 columns, empty name, the current file only
	tabs  *c20Tabs
	ops   []string
	outs  []string
	desc  string
	first bool
	name  string
	// the current file
	fileNo   int
	sizes    []int64 // the onSize values of the current file
	pre      int64   // the setPreSize value of the current file, -1 = none
	lines    int
	dead     bool
	compared int
	// every callback is at least the redraw interval after the one before: no line is throttled,
	// so the bar and the solo bar must draw at exactly the same callbacks
	noThrottle bool
	lastPct    int // the percentage of the last line of the current file, -1 = none yet
	lastTok    string
	rep        int
	order      []string // the callbacks in the order they were delivered, for the language of orders (cb_lang_ok)
}

func (c *ctx) c20NewFiles(clock *atomic.Int64, base int64, cols int, label string, gap func() int64) *c20Files {
	clock.Store(base)
	return &c20Files{c: c, clock: clock, base: base, gap: gap, label: label, cols: cols,
		main: trzsz.VerifNewProgress(int32(cols), 0, ""), probe: trzsz.VerifNewProgress(2000, 0, ""),
		tabs: c20NewTabs(), first: true, pre: -1, lastPct: -1,
		desc: fmt.Sprintf("files(%s): newTextProgressBar(columns=%d)", label, cols)}
}

// the description of the history so far; a callback repeated with the same argument is written once with its count
func (f *c20Files) add(tok string) {
	if tok == f.lastTok {
		f.rep++
		return
	}
	f.desc, f.lastTok, f.rep = f.d()+tok, tok, 1
}

func (f *c20Files) d() string {
	if f.rep > 1 {
		return fmt.Sprintf("%s x%d", f.desc, f.rep)
	}
	return f.desc
}

func c20Apply(q *trzsz.VerifProgress, kind string, num int64, name string) {
	switch kind {
	case "N":
		q.OnNum(num)
	case "M":
		q.OnName(name)
	case "Z":
		q.OnSize(num)
	case "S":
		q.OnStep(num)
	case "D":
		q.OnDone()
	case "P":
		q.SetPreSize(num)
	case "U":
		q.SetPause(num == 1)
	}
}

func c20TakeFields(q *trzsz.VerifProgress) []string {
	out := q.TakeOutput()
	if !strings.Contains(out, "]") {
		return nil
	}
	return c20Fields(strings.TrimPrefix(strings.ReplaceAll(out, c20HideCursor, ""), "\r"))
}

// one callback, as the transfer makes it
func (f *c20Files) call(kind string, num int64, name string) {
	if f.dead {
		return
	}
	c := f.c
	now := f.clock.Add(f.gap())
	switch kind {
	case "M":
		f.fileNo++
		f.name, f.sizes, f.pre, f.lines = name, nil, -1, 0
		f.lastPct = -1
		f.solo = trzsz.VerifNewProgress(2000, 0, "")
		f.add(fmt.Sprintf(" | file %d: onName(%s)", f.fileNo, c20NameDesc(name)))
	case "Z":
		f.sizes = append(f.sizes, num)
		f.add(fmt.Sprintf(" onSize(%d)", num))
	case "P":
		f.pre = num
		f.add(fmt.Sprintf(" setPreSize(%d)", num))
	case "S":
		f.add(fmt.Sprintf(" onStep(%d)", num))
	case "D":
		f.add(" onDone()")
	case "N":
		f.add(fmt.Sprintf(" onNum(%d)", num))
	}
	switch kind {
	case "M":
		f.order = append(f.order, "M:"+c20Runes(name))
	case "S":
		f.order = append(f.order, fmt.Sprintf("S:%d:0:-:-:-", num))
	case "D":
		f.order = append(f.order, "D:0:-:-:-")
	default:
		f.order = append(f.order, fmt.Sprintf("%s:%d", kind, num))
	}
	var pf, sf []string
	var out string
	pan, msg := c20Recover(func() {
		pname := name
		if kind == "M" {
			pname = ""
		}
		if kind != "N" {
			c20Apply(f.probe, kind, num, pname)
			pf = c20TakeFields(f.probe)
			if f.solo != nil {
				c20Apply(f.solo, kind, num, pname)
				sf = c20TakeFields(f.solo)
			}
		}
		c20Apply(f.main, kind, num, name)
		out = f.main.TakeOutput()
	})
	fields := []string{"", "", "", ""}
	if pf != nil {
		fields = pf
	}
	switch kind {
	case "M":
		f.ops = append(f.ops, "M:"+c20Runes(name))
	case "S":
		f.ops = append(f.ops, fmt.Sprintf("S:%d:%d:%s:%s:%s", num, now, c20Runes(fields[1]), c20Runes(fields[2]), c20Runes(fields[3])))
	case "D":
		f.ops = append(f.ops, fmt.Sprintf("D:%d:%s:%s:%s", now, c20Runes(fields[1]), c20Runes(fields[2]), c20Runes(fields[3])))
	default:
		f.ops = append(f.ops, fmt.Sprintf("%s:%d", kind, num))
	}
	if pan {
		c.violate("files:panic", "rendering the progress line panics", f.d()+": panic: "+msg)
		f.outs = append(f.outs, "panic")
		f.dead = true
		return
	}
	cnt, idx, _, _, _, _, _ := f.main.State()
	f.tabs.addLeft(c, cnt, idx, f.name)

	// ---- ORACLES (model-independent): the line of file k is file k's own
	if f.noThrottle && f.solo != nil && (pf == nil) != (sf == nil) {
		shown := func(x []string) string {
			if x == nil {
				return "no line"
			}
			return fmt.Sprintf("%q", strings.Join(x, " | "))
		}
		c.violate("files:line-missing-or-extra", "a callback of a file draws a line on the bar but not on a fresh bar that saw only this file (or the other way round): state of an earlier file leaks into it",
			fmt.Sprintf("%s: the bar shows %s, a bar that saw only file %d shows %s", f.d(), shown(pf), f.fileNo, shown(sf)))
	}
	if pf != nil {
		f.lines++
		c.count("files:line-written")
		if sf != nil {
			f.compared++
			if strings.Join(pf, " | ") != strings.Join(sf, " | ") {
				c.violate("files:line-depends-on-earlier-file", "a progress line of a file differs from the line the same callbacks produce on a fresh bar: state of an earlier file leaks into it",
					fmt.Sprintf("%s: the bar shows %q, a bar that saw only file %d shows %q", f.d(), strings.Join(pf, " | "), f.fileNo, strings.Join(sf, " | ")))
			}
		}
		fresh := f.pre < 0 && len(f.sizes) == 1
		if kind == "S" && num == 0 && fresh && f.sizes[0] > 0 && (pf[0] != "0%" || pf[1] != c20SizeText(0)) {
			c.violate("files:fresh-file-does-not-start-at-zero", "a file that is sent from its beginning does not start at 0 % with nothing transferred",
				fmt.Sprintf("%s: the line shows %s | %s", f.d(), pf[0], pf[1]))
		}
		if kind == "D" && len(f.sizes) > 0 {
			full := f.sizes[0] // the first size announced for a file is its full size
			if want := c20SizeText(full); pf[0] != "100%" || pf[1] != want {
				c.violate("files:file-does-not-end-at-own-size", "the last line of a file does not show 100 % of the file's own size",
					fmt.Sprintf("%s: file %d has %d bytes (%s), its last line shows %s | %s", f.d(), f.fileNo, full, want, pf[0], pf[1]))
			}
		}
		if kind == "S" && len(f.sizes) > 0 && f.sizes[0] > 0 {
			// the position a data step stands for: the prefix found at the destination plus what was sent
			full, pos := f.sizes[0], num
			if f.pre > 0 {
				pos += f.pre
			}
			if pos >= 0 && pos <= full {
				wantPct := fmt.Sprintf("%d%%", (200*pos+full)/(2*full))
				if wantTotal := c20SizeText(pos); pf[1] != wantTotal || pf[0] != wantPct {
					c.violate("files:line-shows-wrong-position", "a progress line does not show the file's own position (prefix already present + bytes sent) of its own size",
						fmt.Sprintf("%s: position %d of %d bytes is %s | %s, the line shows %s | %s", f.d(), pos, full, wantPct, wantTotal, pf[0], pf[1]))
				}
			}
		}
		if v, ok := f.c.c20PctRange(pf[0], f.d()); ok {
			// in the transfer's own callback order the full size and the remaining size of a file agree, so the
			// percentage may not fall anywhere between two onName calls
			if v < f.lastPct {
				c.violate("pct-decreased", "percentage decreased within a file", fmt.Sprintf("%s: %d%% after %d%%", f.d(), v, f.lastPct))
			}
			f.lastPct = v
		}
	}

	// ---- the writes, for the comparison with the model
	var parts []string
	rest := out
	for strings.HasPrefix(rest, c20HideCursor) {
		parts = append(parts, c20Runes(c20HideCursor))
		rest = rest[len(c20HideCursor):]
	}
	if rest != "" {
		text := rest
		if !f.first {
			text = strings.TrimPrefix(text, "\r")
		}
		f.first = false
		if w := c20Width(text); f.cols >= 5 && w > f.cols {
			c.violate("width:history", "progress line wider than the terminal", fmt.Sprintf("%s: columns=%d width=%d line=%q", f.d(), f.cols, w, text))
		}
		parts = append(parts, c20Runes(rest))
	}
	if len(parts) == 0 {
		f.outs = append(f.outs, ".")
	} else {
		f.outs = append(f.outs, strings.Join(parts, "+"))
	}
}

func (f *c20Files) finish(nontrivial bool) {
	if len(f.ops) == 0 {
		return
	}
	cnt, idx, fstep, fsize, pre, ccols, ctmux := f.main.State()
	res := strings.Join(f.outs, "/") + "|" + fmt.Sprintf("%d,%d,%d,%d,%d,%d,%d", fstep, fsize, pre, idx, cnt, ccols, ctmux)
	f.c.emit(nontrivial, "prun", res, fmt.Sprint(f.cols), "0", strings.Join(f.ops, "/"), f.tabs.wArg(), f.tabs.swArg(), "0")
	f.c.stats["files:lines-compared-with-solo-bar"] += f.compared
}

// ---- 1. synthetic histories in the transfer's callback order

type c20FilePlan struct {
	name   string
	dir    bool
	full   int64
	resume bool
	hashes []int64 // the matching hash steps
	match  int64   // setPreSize
	steps  []int64 // data steps after the first onStep(0)
	done   bool
}

func (c *ctx) c20RandomFilePlan(forceResume, forceFresh bool) c20FilePlan {
	p := c20FilePlan{name: c.c20Name(), done: c.rng.Intn(12) != 0}
	if p.name == "" {
		p.name = "f"
	}
	switch c.rng.Intn(10) {
	case 0:
		p.full = 0
	case 1:
		p.full = int64(1 + c.rng.Intn(3000))
	case 2:
		p.full = 2000
	default:
		p.full = 1 + c.rng.Int63n(int64(1)<<uint(10+c.rng.Intn(25)))
	}
	if !forceResume && !forceFresh && c.rng.Intn(14) == 0 {
		p.dir = true
		return p
	}
	p.resume = forceResume || !forceFresh && c.rng.Intn(2) == 0
	if p.resume && p.full == 0 {
		p.full = 1 + int64(c.rng.Intn(100000))
	}
	if p.resume {
		switch c.rng.Intn(5) {
		case 0:
			p.match = 0 // the first block differs
		case 1:
			p.match = p.full // everything is there already
		default:
			p.match = c.rng.Int63n(p.full + 1)
		}
		if p.match > 0 {
			k := c.rng.Intn(3)
			for i := 0; i < k; i++ {
				p.hashes = append(p.hashes, p.match*int64(i+1)/int64(k+1))
			}
			p.hashes = append(p.hashes, p.match)
		}
	}
	rem := p.full - p.match
	pos := int64(0)
	for k := 0; k < c.rng.Intn(5); k++ {
		if rem > pos {
			pos += c.rng.Int63n(rem - pos + 1)
		}
		p.steps = append(p.steps, pos)
	}
	if p.done && rem > 0 {
		p.steps = append(p.steps, rem)
	}
	return p
}

func (f *c20Files) playPlan(p c20FilePlan) {
	f.call("M", 0, p.name)
	if p.dir {
		return
	}
	if p.resume {
		f.call("Z", p.full, "")
		for _, h := range p.hashes {
			f.call("S", h, "")
		}
		f.call("P", p.match, "")
	}
	f.call("Z", p.full-p.match, "")
	f.call("S", 0, "")
	for _, s := range p.steps {
		f.call("S", s, "")
	}
	if p.done {
		f.call("D", 0, "")
	}
}

// c20LateStep moves the last onStep before the first onDone behind the following onName
func c20LateStep(order []string) []string {
	d, m := -1, -1
	for i, o := range order {
		if d < 0 && strings.HasPrefix(o, "D:") {
			d = i
		} else if d >= 0 && m < 0 && strings.HasPrefix(o, "M:") {
			m = i
		}
	}
	if d < 1 || m < 0 || !strings.HasPrefix(order[d-1], "S:") {
		return order
	}
	var out []string
	out = append(out, order[:d-1]...)
	out = append(out, order[d:m+1]...)
	out = append(out, order[d-1])
	out = append(out, order[m+1:]...)
	return out
}

// ---- 2. real transfers

// c20Lag watches the callbacks of a real transfer at the moment they are ATTEMPTED (export hook
// `before`, outside the serialisation) and makes the goroutine that displays progress lag once per
// phase of a file, the way a slow terminal does: the first step beyond 0 of the hash phase and of the data
// phase is held back until the next file has been announced - or for 300 ms, which is what happens when the transfer orders its
// callbacks (the main goroutine joins the display goroutine before it goes on).  Two callbacks in
// flight at once mean the transfer does not order them.
type c20Lag struct {
	mu         sync.Mutex
	inflight   []string
	attempts   int
	delayed    bool
	mDelivered int
	overlaps   [][3]string
	history    []string
	histLast   string
	histRep    int
}

func c20CallDesc(kind string, num int64, name string) string {
	switch kind {
	case "M":
		return fmt.Sprintf("onName(%s)", c20NameDesc(name))
	case "D":
		return "onDone()"
	}
	return fmt.Sprintf("%s(%d)", map[string]string{"N": "onNum", "Z": "onSize", "S": "onStep", "P": "setPreSize", "U": "setPause"}[kind], num)
}

func (l *c20Lag) before(kind string, num int64, name string) {
	l.mu.Lock()
	what := c20CallDesc(kind, num, name)
	if n := len(l.history); n > 0 && l.histLast == what {
		l.histRep++
		l.history[n-1] = fmt.Sprintf("%s x%d", what, l.histRep)
	} else {
		l.history, l.histLast, l.histRep = append(l.history, what), what, 1
	}
	if len(l.inflight) > 0 && len(l.overlaps) < 4 {
		key, txt := "files:callbacks-overlap", "the transfer makes a progress callback while another one is still under way: it does not order them"
		if kind == "M" {
			key, txt = "files:callback-after-next-file", "the next file is announced to the progress bar while a step of the previous file has not been delivered yet"
		}
		l.overlaps = append(l.overlaps, [3]string{key, txt, fmt.Sprintf("%s attempted while %s is still under way; callbacks attempted so far: %s",
			what, strings.Join(l.inflight, ", "), strings.Join(l.history, " "))})
	}
	l.inflight = append(l.inflight, what)
	l.attempts++
	mine := l.attempts
	switch kind {
	case "M", "Z":
		l.delayed = false // one step is held back per phase: the hash steps and the data steps of every file
	}
	hold := kind == "S" && !l.delayed && num > 0
	if hold {
		l.delayed = true
	}
	seen := l.mDelivered
	// a size that arrives while a step is still under way (only a transfer that does not order its
	// callbacks gets here) lets that step go first, so that what the bar then shows does not depend on a race
	waitStep := kind == "Z" && len(l.inflight) > 1
	l.mu.Unlock()
	if waitStep {
		for i := 0; i < 100; i++ {
			time.Sleep(time.Millisecond)
			l.mu.Lock()
			alone := len(l.inflight) <= 1
			l.mu.Unlock()
			if alone {
				break
			}
		}
	}
	if hold {
		// until the next file has been announced, or 30 ms after some other callback was attempted, or
		// 300 ms - which is what it comes to when the transfer waits for this goroutine
		other := 0
		for i := 0; i < 300; i++ {
			time.Sleep(time.Millisecond)
			l.mu.Lock()
			moved := l.mDelivered > seen
			if l.attempts > mine {
				other++
			}
			l.mu.Unlock()
			if moved || other >= 30 {
				break
			}
		}
	}
}

// done is called when the callback has been delivered
func (l *c20Lag) done(kind string, num int64, name string) {
	l.mu.Lock()
	defer l.mu.Unlock()
	what := c20CallDesc(kind, num, name)
	for i, x := range l.inflight {
		if x == what {
			l.inflight = append(l.inflight[:i], l.inflight[i+1:]...)
			break
		}
	}
	if kind == "M" {
		l.mDelivered++
	}
}

func c20FillFile(path string, n int, seed int64) []byte {
	b := make([]byte, n)
	rand.New(rand.NewSource(seed)).Read(b)
	os.MkdirAll(filepath.Dir(path), 0755)
	os.WriteFile(path, b, 0644)
	return b
}

type c20RealFile struct {
	name string
	size int
	have int    // bytes of it already at the destination: -1 none
	kind string // "prefix" (equal prefix), "differs" (same length, other content), "longer" (the whole file plus a tail)
}

func genProgressFiles(c *ctx) {
	base := int64(1646564135000)
	var clock atomic.Int64
	clock.Store(base)
	restore := trzsz.VerifSetTimeNow(func() time.Time { return time.UnixMilli(clock.Load()) })
	restored := false
	defer func() {
		if !restored {
			restore()
		}
	}()
	slow := func() int64 { return 200 + int64(c.rng.Intn(3000)) }
	mixed := func() int64 {
		switch c.rng.Intn(5) {
		case 0:
			return int64(c.rng.Intn(200))
		case 1:
			return 0
		}
		return 200 + int64(c.rng.Intn(3000))
	}

	// the history of the third-round seeded change: 600 KiB of which 400 KiB are already there,
	// then a 2000 byte file that is not
	{
		f := c.c20NewFiles(&clock, base, 120, "resumed-then-fresh", func() int64 { return 1000 })
		f.noThrottle = true
		f.call("N", 2, "")
		f.playPlan(c20FilePlan{name: "a.bin", full: 614400, resume: true, hashes: []int64{409600}, match: 409600, steps: []int64{102400, 204800}, done: true})
		f.playPlan(c20FilePlan{name: "b.bin", full: 2000, steps: []int64{2000}, done: true})
		f.finish(true)
	}
	for i := 0; i < c.pick(400, 6000); i++ {
		gap, label := slow, "synthetic"
		if i%4 == 3 {
			gap, label = mixed, "synthetic-throttled"
		}
		cols := 60 + c.rng.Intn(140)
		if c.rng.Intn(6) == 0 {
			cols = 5 + c.rng.Intn(55)
		}
		f := c.c20NewFiles(&clock, base, cols, label, gap)
		f.noThrottle = i%4 != 3
		n := 2 + c.rng.Intn(3)
		count := n
		if c.rng.Intn(8) == 0 {
			count = 1
		}
		f.call("N", int64(count), "")
		var kinds []string
		for k := 0; k < n; k++ {
			// strata: resumed then fresh, fresh then resumed, then anything
			var p c20FilePlan
			switch {
			case i%3 == 0 && k == 0, i%3 == 1 && k == 1:
				p = c.c20RandomFilePlan(true, false)
			case i%3 == 0 && k == 1, i%3 == 1 && k == 0:
				p = c.c20RandomFilePlan(false, true)
			default:
				p = c.c20RandomFilePlan(false, false)
			}
			switch {
			case p.dir:
				kinds = append(kinds, "dir")
			case p.resume && p.match > 0:
				kinds = append(kinds, "resumed")
			case p.resume:
				kinds = append(kinds, "nomatch")
			default:
				kinds = append(kinds, "fresh")
			}
			f.playPlan(p)
		}
		for k := 1; k < len(kinds); k++ {
			c.count("files:" + kinds[k-1] + "-then-" + kinds[k])
		}
		f.finish(true)
	}

	// ---- the callback order of real transfers
	root, err := os.MkdirTemp("", "c20files")
	if err != nil {
		panic(err)
	}
	defer os.RemoveAll(root)
	scenarios := [][]c20RealFile{
		{{"a.bin", 600 * 1024, 400 * 1024, "prefix"}, {"b.bin", 2000, -1, ""}},
		{{"a.bin", 2000, -1, ""}, {"b.bin", 600 * 1024, 400 * 1024, "prefix"}},
		{{"a.bin", 300 * 1024, 300 * 1024, "prefix"}, {"b.bin", 5000, -1, ""}, {"c.bin", 70000, 1234, "prefix"}},
		{{"a.bin", 90000, 90000, "differs"}, {"b.bin", 0, -1, ""}, {"c.bin", 4096, -1, ""}},
		{{"a.bin", 50000, 50000, "longer"}, {"b.bin", 123456, 100000, "prefix"}, {"c.bin", 10, -1, ""}},
	}
	run := 0
	for si, sc := range scenarios {
		for _, proto := range []int{3, 4} {
			for _, onSender := range []bool{true, false} {
				if !c.thorough() && si >= 2 && (proto == 3) != onSender { // quick: half of the remaining combinations
					continue
				}
				run++
				dir := filepath.Join(root, fmt.Sprint(run))
				var paths []string
				for k, rf := range sc {
					data := c20FillFile(filepath.Join(dir, "src", rf.name), rf.size, int64(1000*run+k))
					paths = append(paths, filepath.Join(dir, "src", rf.name))
					os.MkdirAll(filepath.Join(dir, "dst"), 0755)
					switch rf.kind {
					case "prefix":
						os.WriteFile(filepath.Join(dir, "dst", rf.name), data[:rf.have], 0644)
					case "differs":
						c20FillFile(filepath.Join(dir, "dst", rf.name), rf.have, int64(777+run))
					case "longer":
						os.WriteFile(filepath.Join(dir, "dst", rf.name), append(append([]byte(nil), data...), []byte("tail-tail-tail")...), 0644)
					}
				}
				side := "receiver"
				if onSender {
					side = "sender"
				}
				var kinds []string
				for _, rf := range sc {
					kinds = append(kinds, fmt.Sprintf("%s:%d/%d%s", rf.name, rf.have, rf.size, rf.kind))
				}
				f := c.c20NewFiles(&clock, base, 120, fmt.Sprintf("real transfer, protocol %d, callbacks of the %s, files %s", proto, side, strings.Join(kinds, " ")),
					func() int64 { return 1000 })
				f.noThrottle = true
				msg := trzsz.VerifRunFilesPair(paths, filepath.Join(dir, "dst"), proto, onSender, f.call)
				if msg != "" {
					c.violate("files:harness", "the real transfer did not complete", f.d()+": "+msg)
					continue
				}
				for _, rf := range sc {
					want, _ := os.ReadFile(filepath.Join(dir, "src", rf.name))
					got, err := os.ReadFile(filepath.Join(dir, "dst", rf.name))
					if err != nil || string(got) != string(want) {
						c.violate("files:harness", "the real transfer did not deliver the file", f.d()+": "+rf.name)
					}
				}
				c.count("files:real-transfer")
				c.emit(true, "pcborder", "1", strings.Join(f.order, "/"))
				if run == 1 {
					// the same callbacks with the last step of the first file delivered after the second file's name:
					// not an order a transfer may produce
					c.emit(true, "pcborder", "0", strings.Join(c20LateStep(f.order), "/"))
				}
				if f.fileNo != len(sc) {
					c.violate("files:harness", "the real transfer did not announce every file", fmt.Sprintf("%s: %d of %d", f.d(), f.fileNo, len(sc)))
				}
				f.finish(true)
			}
		}
	}

	// ---- the ORDER of the callbacks: the display goroutine lags at every file boundary
	for _, proto := range []int{2, 3, 4} {
		for _, onSender := range []bool{true, false} {
			run++
			dir := filepath.Join(root, fmt.Sprint(run))
			names := []string{"file1.bin", "file2.bin", "file3.bin"}
			sizesL := []int{64 * 1024, 300 * 1024, 5000}
			var paths []string
			for k := range names {
				c20FillFile(filepath.Join(dir, "src", names[k]), sizesL[k], int64(3000*run+k))
				paths = append(paths, filepath.Join(dir, "src", names[k]))
			}
			os.MkdirAll(filepath.Join(dir, "dst"), 0755)
			if d2, err := os.ReadFile(paths[1]); err == nil {
				os.WriteFile(filepath.Join(dir, "dst", names[1]), d2[:100000], 0644) // the second file is resumed (protocol >= 3)
			}
			side := "receiver"
			if onSender {
				side = "sender"
			}
			f := c.c20NewFiles(&clock, base, 120, fmt.Sprintf("real transfer with a lagging display goroutine, protocol %d, callbacks of the %s, files 65536 307200 (100000 at the destination) 5000 bytes", proto, side),
				func() int64 { return 1000 })
			f.noThrottle = true
			lag := &c20Lag{}
			msg := trzsz.VerifRunFilesPairLag(paths, filepath.Join(dir, "dst"), proto, onSender,
				func(kind string, num int64, name string) { f.call(kind, num, name); lag.done(kind, num, name) }, lag.before)
			time.Sleep(5 * time.Millisecond)
			for _, v := range lag.overlaps {
				c.violate(v[0], v[1], f.d()+": "+v[2])
			}
			if msg != "" {
				c.violate("files:harness", "the real transfer did not complete", f.d()+": "+msg)
				continue
			}
			c.count("files:real-transfer-lagging-display")
			c.emit(true, "pcborder", "1", strings.Join(f.order, "/"))
			f.finish(true)
		}
	}

	// ---- 3. end to end, the real clock
	restore()
	restored = true
	var wg sync.WaitGroup
	var mu sync.Mutex
	for _, upload := range []bool{true, false} {
		for order := 0; order < 2; order++ {
			wg.Add(1)
			go func(upload bool, order int) {
				defer wg.Done()
				viol, lines, fail := c20FilesE2E(filepath.Join(root, fmt.Sprintf("e2e-%v-%d", upload, order)), upload, order)
				mu.Lock()
				defer mu.Unlock()
				for _, v := range viol {
					c.violate(v[0], v[1], v[2])
				}
				if fail != "" {
					c.violate("files:e2e:harness", "the end-to-end transfer did not complete", fail)
					return
				}
				c.count("files:e2e-transfer")
				c.stats["files:e2e-lines-parsed"] += lines
			}(upload, order)
		}
	}
	wg.Wait()
}

var c20FileLine = regexp.MustCompile(`^\((\d+)/(\d+)\) (\S+) \[.*\] (\d+)% \| ([0-9.]+ [KMGT]?B) \|`)

func c20ParseSizeText(s string) float64 {
	parts := strings.Fields(s)
	if len(parts) != 2 {
		return -1
	}
	v, err := strconv.ParseFloat(parts[0], 64)
	if err != nil {
		return -1
	}
	switch parts[1] {
	case "KB":
		v *= 1024
	case "MB":
		v *= 1024 * 1024
	case "GB":
		v *= 1024 * 1024 * 1024
	case "TB":
		v *= 1024 * 1024 * 1024 * 1024
	}
	return v
}

// the real client sends (upload) or receives (download) two files with -y; one of them is
// partly at the destination (order 0: the first, order 1: the second)
func c20FilesE2E(dir string, upload bool, order int) (viol [][3]string, nlines int, fail string) {
	sizes := []int{600 * 1024, 2000}
	have := []int{400 * 1024, -1}
	if order == 1 {
		sizes, have = []int{2000, 600 * 1024}, []int{-1, 400 * 1024}
	}
	names := []string{"c20a.bin", "c20b.bin"}
	dest := filepath.Join(dir, "dst")
	os.MkdirAll(dest, 0755)
	var tops []string
	for k := range names {
		data := c20FillFile(filepath.Join(dir, "src", names[k]), sizes[k], int64(50+k))
		tops = append(tops, filepath.Join(dir, "src", names[k]))
		if have[k] >= 0 {
			os.WriteFile(filepath.Join(dest, names[k]), data[:have[k]], 0644)
		}
	}
	desc := fmt.Sprintf("e2e -y upload=%v files %s:%d/%d %s:%d/%d (bytes already at the destination / size)", upload, names[0], have[0], sizes[0], names[1], have[1], sizes[1])
	// a slow terminal: every progress line takes 120 ms to write.  The bar is driven by one goroutine at a
	// time (the transfer joins the goroutine that displays the steps before it reports the end of a file), so
	// two progress writes never overlap; if they do, the callbacks are not ordered
	var termMu sync.Mutex
	writing := 0
	overlap := ""
	hook := func(p []byte) {
		if !strings.Contains(string(p), "%") {
			return
		}
		termMu.Lock()
		if writing > 0 && overlap == "" {
			overlap = strings.TrimSpace(c20AnyCSI.ReplaceAllString(strings.ReplaceAll(string(p), "\r", ""), ""))
		}
		writing++
		termMu.Unlock()
		time.Sleep(120 * time.Millisecond)
		termMu.Lock()
		writing--
		termMu.Unlock()
	}
	r := runTransfer(e2eCfg{upload: upload, overwrite: true, proto: -1, compress: "no", deadline: 40 * time.Second, termHook: hook}, tops, dest)
	termMu.Lock()
	if overlap != "" {
		viol = append(viol, [3]string{"files:e2e:progress-writes-overlap", "two goroutines write progress lines to the terminal at the same time: the transfer does not order its progress callbacks",
			fmt.Sprintf("%s, terminal that takes 120 ms per line: the line %q was written while another progress line was still being written", desc, overlap)})
	}
	termMu.Unlock()
	if r.hung || !r.clientDone || !r.serverExited || (upload && r.uploadErr != nil) {
		return nil, 0, fmt.Sprintf("%s: hung=%v clientDone=%v serverExited=%v uploadErr=%v", desc, r.hung, r.clientDone, r.serverExited, r.uploadErr)
	}
	last := map[int][2]string{}
	lastPct := map[int]int{}
	for _, w := range strings.Split(r.termOut, "\r") {
		text := c20AnyCSI.ReplaceAllString(w, "")
		m := c20FileLine.FindStringSubmatch(text)
		if m == nil {
			continue
		}
		nlines++
		idx, _ := strconv.Atoi(m[1])
		if idx < 1 || idx > 2 {
			continue
		}
		if pv, _ := strconv.Atoi(m[4]); true {
			if prev, ok := lastPct[idx]; ok && pv < prev {
				viol = append(viol, [3]string{"files:e2e:pct-decreased", "percentage decreased within a file (lines that reached the terminal)",
					fmt.Sprintf("%s: file %d shows %d%% after %d%%: %q", desc, idx, pv, prev, m[0])})
			}
			lastPct[idx] = pv
		}
		last[idx] = [2]string{m[4] + "%", m[5]}
		if got := c20ParseSizeText(m[5]); got > float64(sizes[idx-1])*1.01+1 {
			viol = append(viol, [3]string{"files:e2e:more-than-the-file-has", "a progress line claims more bytes transferred than the file has",
				fmt.Sprintf("%s: file %d has %d bytes, a line shows %q", desc, idx, sizes[idx-1], m[0])})
		}
	}
	for idx := 1; idx <= 2; idx++ {
		l, ok := last[idx]
		if !ok {
			return viol, nlines, fmt.Sprintf("%s: no progress line of file %d reached the terminal: %q", desc, idx, tailStr(r.termOut, 300))
		}
		if want := c20SizeText(int64(sizes[idx-1])); l[0] != "100%" || l[1] != want {
			viol = append(viol, [3]string{"files:e2e:file-does-not-end-at-own-size", "the last line of a file does not show 100 % of the file's own size",
				fmt.Sprintf("%s: file %d has %d bytes (%s), its last line shows %s | %s", desc, idx, sizes[idx-1], want, l[0], l[1])})
		}
	}
	return viol, nlines, ""
}
